import NanoVerif.Model.WLearner
/-!
  C10 — model of the FIT of libnano's decision tree (core Lean only; generic over the scalar type).

  Mirrors /repo/src/wlearner/dtree.cpp (line numbers at the time of writing):
    14-29    cache_t {m_samples, m_depth, m_table, m_parent}              -> `TCache` (`m_table` is never read)
    31-42    append(tables, table)                                        -> `st.tables ++ [..]`
    142-237  dtree_wlearner_t::do_fit                                     -> `dtreeMinSamples`, `dtreeStep`, `dtreeLoop`, `dtreeFit`
      148      min_samples_size = min(10, dataset.samples() * min_split / 100)   (integer division)
      157-161  std::deque<cache_t>, front = the cache to process (breadth first)  -> the `List TCache` argument of `dtreeLoop`
      167-172  score_stump = stump.fit(dataset, cache.m_samples, gradients); no fit -> the WHOLE tree is not fitted
                                                                          -> the oracle `cfg.fit` (`stumpFitOn` = the modelled stump fit)
      174-180  node.{m_feature, m_threshold}, cluster = stump.split(dataset, cache.m_samples)
      183-186  nodes[cache.m_parent].m_next = nodes.size() when m_parent < nodes.size()   -> `setNext`
      189-200  terminal (`samples.size() < min_samples_size || depth + 1 >= max_depth`): one node per stump table with
               `m_table = tables.size<0>()`, the table appended, `score += score_stump`
      203-217  otherwise one node per side with `m_table = -1` and one new cache per side with
               `m_parent = nodes.size()` (before the push), `m_samples = cluster.indices(i)`, depth + 1, pushed at the back
      229-234  the tree is stored only when `score != no_fit_score()`
    src/machine/cluster.cpp:22-35  cluster_t::indices(group)              -> `childSamples`: the DISTINCT sample indices of the
               group in increasing order (a repeated index of the fitted list is kept once from depth 2 on), samples whose
               feature value is missing are in no group
  The stump fitted at a node has exactly two tables (stump.cpp:148-149), so the loops `for i < tables_stump.size<0>()` run
  twice. The ghost component `log` of the state records, per processed cache (in processing order), the cache, the
  candidate the stump fit returned and whether the node pair is terminal; it is not part of the fitted learner and only
  serves the statements of Props/C10.lean.
-/
namespace NanoVerif.WLearner

/-- `cache_t` of dtree.cpp -/
structure TCache where
  samples : List Nat
  depth : Nat
  parent : Nat
deriving Repr

/-- ghost: one processed cache -/
structure TEntry (α : Type) where
  cache : TCache
  cand : Cand α
  terminal : Bool

/-- `nodes`, `tables`, `score` of do_fit (+ the ghost log) -/
structure TState (α : Type) where
  nodes : List (Node α)
  tables : List (Vec α)
  score : α
  log : List (TEntry α)

/-- what do_fit reads from its environment: the dataset size, the two parameters (as `min_samples_size`), the stump fit on a
    sample list (`none` = `no_fit_score()`), the feature values (`val sample feature`) -/
structure TreeCfg (α : Type) where
  N : Nat
  maxDepth : Nat
  minSamples : Nat
  fit : List Nat → Option (Cand α)
  val : Nat → Nat → FVal α

/-- `std::min<tensor_size_t>(10, dataset.samples() * min_split / 100)` -/
def dtreeMinSamples (N minSplit : Nat) : Nat := min 10 (N * minSplit / 100)

section
variable {α : Type} [LT α] [DecidableLT α]

/-- `value < threshold ? 0 : 1` -/
def sideOf (x thr : α) : Nat := if x < thr then 0 else 1

/-- the group `stump_wlearner_t::split` assigns a sample to (`none`: value missing, not assigned) -/
def stumpSide (val : Nat → Nat → FVal α) (f : Nat) (thr : α) (i : Nat) : Option Nat :=
  match val i f with
  | .num x => some (sideOf x thr)
  | _ => none

/-- `cluster.indices(g)` of `stump.split(dataset, samples)`: increasing, distinct -/
def childSamples (N : Nat) (val : Nat → Nat → FVal α) (samples : List Nat) (f : Nat) (thr : α) (g : Nat) : List Nat :=
  (List.range N).filter fun i => samples.contains i && (stumpSide val f thr i == some g)

/-- `if (cache.m_parent < nodes.size()) nodes[cache.m_parent].m_next = nodes.size();` -/
def setNext (nodes : List (Node α)) (p n : Nat) : List (Node α) :=
  match nodes[p]? with
  | some nd => nodes.set p { nd with next := n }
  | none => nodes

variable [Add α] [OfNat α 0]

/-- the body of the `while` loop after a successful stump fit: the new state and the caches pushed at the back -/
def dtreeStep (cfg : TreeCfg α) (st : TState α) (c : TCache) (cand : Cand α) : TState α × List TCache :=
  let L := st.nodes.length
  let nodes1 := setNext st.nodes c.parent L
  let nd : Node α := { feature := cand.feature, thr := cand.thr, next := 0, table := -1 }
  if c.samples.length < cfg.minSamples ∨ cfg.maxDepth ≤ c.depth + 1 then
    let tb := st.tables.length
    ({ nodes := nodes1 ++ [{ nd with table := (tb : Int) }, { nd with table := ((tb + 1 : Nat) : Int) }],
       tables := st.tables ++ [tab cand.tables 0, tab cand.tables 1],
       score := st.score + cand.score,
       log := st.log ++ [⟨c, cand, true⟩] }, [])
  else
    ({ nodes := nodes1 ++ [nd, nd], tables := st.tables, score := st.score, log := st.log ++ [⟨c, cand, false⟩] },
     [⟨childSamples cfg.N cfg.val c.samples cand.feature cand.thr 0, c.depth + 1, L⟩,
      ⟨childSamples cfg.N cfg.val c.samples cand.feature cand.thr 1, c.depth + 1, L + 1⟩])

/-- how do_fit ends -/
inductive TResult (α : Type) where
  /-- the fuel of the model ran out (never with the fuel of `dtreeFit`: `dtreeFit_fuel_enough`) -/
  | fuel
  /-- a stump fit failed: `score = no_fit_score(); break;` — nothing is stored (`st` = the state at the `break`, ghost) -/
  | nofit (st : TState α)
  /-- the queue ran empty: `m_nodes`, `m_tables` are stored and `score` is returned -/
  | ok (st : TState α)

/-- the `while (!caches.empty())` loop -/
def dtreeLoop (cfg : TreeCfg α) : Nat → List TCache → TState α → TResult α
  | _, [], st => .ok st
  | 0, _ :: _, _ => .fuel
  | fuel + 1, c :: rest, st =>
    match cfg.fit c.samples with
    | none => .nofit st
    | some cand =>
      let r := dtreeStep cfg st c cand
      dtreeLoop cfg fuel (rest ++ r.2) r.1

def TState.init : TState α := { nodes := [], tables := [], score := 0, log := [] }

/-- do_fit: at most `2^max_depth − 1` caches are ever processed -/
def dtreeFit (cfg : TreeCfg α) (samples : List Nat) : TResult α :=
  dtreeLoop cfg (2 ^ cfg.maxDepth) [⟨samples, 0, 0⟩] TState.init

def TState.learner (st : TState α) : Learner α := .dtree st.nodes st.tables

end

section
variable {α : Type} [Add α] [Sub α] [Mul α] [Div α] [Neg α] [LT α] [DecidableLT α] [OfNat α 0] [OfNat α 1]
  [NatCast α] [Log α] [FinTest α]

/-- the rows of a sample list seen through one feature (`loop_scalar`: a non-scalar value counts as missing) -/
def rowsOf (val : Nat → Nat → FVal α) (resid : Nat → Vec α) (sel : List Nat) (f : Nat) : List (Row α) :=
  sel.map fun i => ⟨i, (match val i f with | .num v => some v | _ => none), resid i⟩

/-- `stump_wlearner_t::fit` on a sample list as one cache seeing the scalar features `feats` in increasing order
    (`fit_assignment_independent`: what every thread assignment returns); `none` = `no_fit_score()` -/
def stumpFitOn (sort : List (Item α) → List (Item α)) (T : Nat) (K big : α) (crit : Crit) (feats : List Nat)
    (val : Nat → Nat → FVal α) (resid : Nat → Vec α) (sel : List Nat) : Option (Cand α) :=
  let c := fitSeq big (feats.flatMap fun f => stumpCands sort T K crit f (rowsOf val resid sel f))
  if c.fitted big then some c else none

/-- the configuration `dtree_wlearner_t::do_fit` runs with: the modelled stump fit at every node -/
def stumpTreeCfg (sort : List (Item α) → List (Item α)) (T : Nat) (K big : α) (crit : Crit) (feats : List Nat)
    (val : Nat → Nat → FVal α) (resid : Nat → Vec α) (N maxDepth minSplit : Nat) : TreeCfg α :=
  { N := N, maxDepth := maxDepth, minSamples := dtreeMinSamples N minSplit,
    fit := stumpFitOn sort T K big crit feats val resid, val := val }

end

end NanoVerif.WLearner
