import NanoVerif.Model.Tensor
import NanoVerif.Model.Mask
import NanoVerif.Model.DatasetGenGradient
/-
  C08 — model of libnano's in-memory datasource, the identity / pairwise-product feature generators and the
  dataset views (core Lean only; linked into `driver_c08`).

  Two layers.
  * Concrete (this file mirrors the code line by line where it matters):
      - typed value pools with per-feature row ranges        src/datasource.cpp:55-133  (`resize`)
      - `visit`: `slice(range).reshape(samples, d0, d1, d2)`   include/nano/datasource.h:171-235, through the C16 model
      - `set` + presence mask                                 include/nano/datasource.h:143-156, datasource/storage.h, mask.h
      - iterators `(sample list, optional permutation) → stored sample`   include/nano/datasource/iterator.h:24-45
      - feature selection by type / feature subsets           include/nano/generator/select.h
      - pairing of two feature lists                          src/generator/pairwise_base.cpp:73-110
      - `select` / `flatten` encoders of the generators       include/nano/generator/elemwise.h, pairwise.h, elemwise_identity.h
      - the gradient generator (fit, descriptors, `process`)   include/nano/generator/elemwise_gradient.h, src/generator/
                                                              elemwise_gradient.cpp; kernels in Model/DatasetGenGradient.lean
      - drop / shuffle flags                                  src/generator.cpp:24-96
      - bookkeeping `update()`, views, targets, range checks  src/dataset.cpp
  * Abstract: `D : feature → sample → Option value` (`Storage.stored`) and the documented encodings (`spec*`).

  Stored values are `Int` (the harness stores small integers, exactly representable in every storage type); the dense
  views are generic over a scalar `α` with `Scalar α` (= `double` in the driver).
  A function returns `none` exactly where the C++ code throws (`critical`) — and where an `assert` (compiled out) would
  fire; the latter inputs are never generated, the theorems are stated under the asserted conditions.
-/
namespace NanoVerif.Dataset
open NanoVerif.Tensor NanoVerif.Mask

/-! ## scalars of the dense views: `Scalar α` (Model/DatasetGenGradient.lean) -/

/-! ## features (include/nano/feature.h) -/

inductive FType
  | int8 | int16 | int32 | int64 | uint8 | uint16 | uint32 | uint64 | float32 | float64 | sclass | mclass
deriving DecidableEq, Repr, Inhabited

/-- position in `enum class feature_type` -/
def FType.code : FType → Nat
  | .int8 => 0 | .int16 => 1 | .int32 => 2 | .int64 => 3 | .uint8 => 4 | .uint16 => 5 | .uint32 => 6
  | .uint64 => 7 | .float32 => 8 | .float64 => 9 | .sclass => 10 | .mclass => 11

def FType.ofCode : Nat → Option FType
  | 0 => some .int8 | 1 => some .int16 | 2 => some .int32 | 3 => some .int64 | 4 => some .uint8
  | 5 => some .uint16 | 6 => some .uint32 | 7 => some .uint64 | 8 => some .float32 | 9 => some .float64
  | 10 => some .sclass | 11 => some .mclass | _ => none

/-- `feature_t`: name, type, `dims()` (`(1,1,1)` unless a structured continuous feature), `classes()` = number of
    labels (0 for continuous features) -/
structure Feature where
  name : String
  type : FType
  d0 : Nat
  d1 : Nat
  d2 : Nat
  classes : Nat
deriving DecidableEq, Repr, Inhabited

def Feature.isClass (f : Feature) : Bool := f.type = .sclass || f.type = .mclass
/-- `size(feature.dims())` -/
def Feature.dimSize (f : Feature) : Nat := f.d0 * f.d1 * f.d2
/-- `is_sclass / is_mclass / is_scalar / is_struct` (feature.h) for a valid (named) feature -/
def Feature.isSclass (f : Feature) : Bool := f.type = .sclass
def Feature.isMclass (f : Feature) : Bool := f.type = .mclass
def Feature.isScalar (f : Feature) : Bool := !f.isClass && f.dimSize == 1
def Feature.isStruct (f : Feature) : Bool := !f.isClass && f.dimSize > 1

/-- number of pool rows the feature occupies (`update_size_storage(type, …)`, datasource.cpp:75-94) -/
def Feature.comps (f : Feature) : Nat :=
  match f.type with
  | .sclass => 1
  | .mclass => f.classes
  | _ => f.dimSize

/-- the typed pool that stores the feature (datasource.cpp:77-93): multi-label hits are `uint8`, a label index uses the
    smallest unsigned type that holds `classes` values, continuous features their own type -/
def Feature.pool (f : Feature) : FType :=
  match f.type with
  | .mclass => .uint8
  | .sclass =>
    if f.classes ≤ 2 ^ 8 then .uint8 else if f.classes ≤ 2 ^ 16 then .uint16
    else if f.classes ≤ 2 ^ 32 then .uint32 else .uint64
  | t => t

/-! ## storage: pools, ranges, masks (`datasource_t`) -/

structure Storage where
  samples : Nat
  feats : List Feature
  /-- `m_storage_range`: rows `[begin, end)` of the feature in its pool -/
  ranges : List (Nat × Nat)
  /-- the ten typed pools `m_storage_*` in `feature_type` order, each a `(rows, samples)` row-major tensor -/
  pools : List (T Int)
  /-- `m_storage_mask`: one MSB-first bit mask per feature -/
  masks : List (List Nat)
  /-- `m_target` (`none` when `target >= features.size()`) -/
  target : Option Nat
deriving Repr

/-- the `update_size_storage` loop of `resize` (datasource.cpp:57-101): `sizes` = rows handed out so far per pool -/
def assignRanges : List Nat → List Feature → List (Nat × Nat) × List Nat
  | sizes, [] => ([], sizes)
  | sizes, f :: fs =>
    let p := f.pool.code
    let b := sizes.getD p 0
    let e := b + f.comps
    let r := assignRanges (sizes.set p e) fs
    ((b, e) :: r.1, r.2)

/-- `datasource_t::resize(samples, features, target)` (datasource.cpp:55-133): zeroed pools and masks -/
def resize (samples : Nat) (feats : List Feature) (target : Nat) : Storage :=
  let r := assignRanges (List.replicate 10 0) feats
  { samples := samples
    feats := feats
    ranges := r.1
    pools := r.2.map (fun rows => ⟨[rows, samples], List.replicate (rows * samples) 0⟩)
    masks := feats.map (fun _ => zeros samples)
    target := if target < feats.length then some target else none }

/-- `visit(ifeature, op)` (datasource.h:171-235): the view of the feature's values handed to `op` — the feature's rows of
    its pool, reshaped to `(samples)` (single-label), `(samples, classes)` (multi-label), `(samples, d0, d1, d2)` -/
def Storage.view (st : Storage) (f : Nat) : Option (T Int) := do
  let feat ← st.feats[f]?
  let r ← st.ranges[f]?
  let pool ← st.pools[feat.pool.code]?
  let sl ← pool.slice r.1 r.2
  match feat.type with
  | .sclass => sl.reshape [-1]
  | .mclass => sl.reshape [Int.ofNat st.samples, -1]
  | _ => sl.reshape [Int.ofNat st.samples, Int.ofNat feat.d0, Int.ofNat feat.d1, Int.ofNat feat.d2]

/-- `getbit(mask, sample)` of the feature -/
def Storage.given (st : Storage) (f s : Nat) : Bool := getbit (st.masks.getD f []) s

/-- what an iterator dereferences (iterator.h:82-95): `data(sample)` / `data.tensor(sample)`, as the flat row-major list of
    the sample's components -/
def Storage.row (st : Storage) (f s : Nat) : Option (List Int) := do
  let v ← st.view f
  let r ← v.sub [s]
  pure r.data

/-- **abstract layer** `D : feature → sample → Option value`: the stored value, `none` = missing -/
def Storage.stored (st : Storage) (f s : Nat) : Option (List Int) :=
  if st.given f s then st.row f s else none

/-- overwrite `v.length` elements from position `off` -/
def writeAt {α} (xs : List α) (off : Nat) (v : List α) : List α :=
  xs.take off ++ v ++ xs.drop (off + v.length)

/-- offset of component 0 of `(feature, sample)` in the feature's pool: the view aliases the pool from row `begin`
    (`slice`), the sample is the leading index of the reshaped view -/
def Storage.offset (st : Storage) (f s : Nat) : Nat :=
  (st.ranges.getD f (0, 0)).1 * st.samples + s * ((st.feats.getD f default).comps)

/-- `datasource_t::set(sample, ifeature, value)` (datasource.h:143-156) with `feature_storage_t::set` (storage.h): the
    value is a label (`[label]`, `0 ≤ label < classes` or `critical`), a hit vector of `classes` entries or a tensor of
    `size(dims)` entries (wrong size: `critical`); writes through the view and sets the mask bit. `none` = throws / asserts -/
def Storage.set (st : Storage) (s f : Nat) (v : List Int) : Option Storage :=
  match st.feats[f]? with
  | none => none
  | some feat =>
    if s < st.samples ∧ v.length = feat.comps ∧
       (feat.type = .sclass → ∀ l ∈ v, 0 ≤ l ∧ l < Int.ofNat feat.classes) then
      let p := feat.pool.code
      some { st with
        pools := st.pools.modify p (fun t => ⟨t.dims, writeAt t.data (st.offset f s) v⟩)
        masks := st.masks.modify f (fun m => setbit m s) }
    else none

/-- `optional(mask, samples)` (datasource.cpp:146-153 `load`): some sample of the feature is not set -/
def Storage.optional (st : Storage) (f : Nat) : Bool :=
  (List.range st.samples).any (fun s => !st.given f s)

/-- storage index of input feature `i`: the target is skipped (datasource.h:93-97, 117-121) -/
def Storage.inputIndex (st : Storage) (i : Nat) : Nat :=
  match st.target with
  | some t => if i ≥ t then i + 1 else i
  | none => i

/-- `datasource_t::features()` (datasource.h:84-88) -/
def Storage.inputs (st : Storage) : Nat :=
  match st.target with
  | some _ => st.feats.length - 1
  | none => st.feats.length

/-- `datasource_t::feature(i)` -/
def Storage.inputFeature (st : Storage) (i : Nat) : Option Feature :=
  if i < st.inputs then st.feats[st.inputIndex i]? else none

/-! ## generators -/

/-- the overloads of `select` = the four kinds of generated features (`generator_type`) -/
inductive Overload
  | sclass | mclass | scalar | struct
deriving DecidableEq, Repr, Inhabited

def Overload.code : Overload → Nat
  | .sclass => 0 | .mclass => 1 | .scalar => 2 | .struct => 3

/-- the input selections of the generator templates: `elemwise_input_{sclass,mclass,scalar,struct}_t` (elemwise_input.h) and,
    in pairs, `pairwise_input_<kind1>_<kind2>_t` (pairwise_input.h) -/
inductive IKind
  | sclass | mclass | scalar | struct
deriving DecidableEq, Repr, Inhabited

def IKind.ofCode : Nat → Option IKind
  | 0 => some .sclass | 1 => some .mclass | 2 => some .scalar | 3 => some .struct | _ => none

/-- the type filter of `call_sclass / call_mclass / call_scalar / call_struct` (select.h:15-66) -/
def IKind.accepts : IKind → Feature → Bool
  | .sclass, f => f.isSclass
  | .mclass, f => f.isMclass
  | .scalar, f => f.isScalar
  | .struct, f => f.isStruct

/-- a computer plugged into `elemwise_generator_t<…>` (`in2 = none`) or `pairwise_generator_t<…>` (`in2 = some kind`):
    any of the 4 + 16 input selections with any of the 4 `generated_type`s (`out`). The library itself instantiates six of these 80 combinations; the others are what user code (and
    harness/c08.cpp, with the value functions `customOut`) plugs in. -/
structure Custom where
  in1 : IKind
  in2 : Option IKind
  out : Overload
deriving DecidableEq, Repr, Inhabited

inductive GKind
  | sclassId | mclassId | scalarId | structId | product
  /-- `gradient_generator_t` constructed with the given `kernel3x3_type` (default `sobel`) -/
  | gradient (k : Kernel3)
  /-- a harness-defined computer through one of the two generator templates -/
  | custom (c : Custom)
deriving DecidableEq, Repr, Inhabited

/-- one row of a generator's `m_feature_mapping` (select.h:97-101; pairwise: two such halves side by side; gradient: the
    columns 5 and 6 hold the input channel and the `gradient3x3_mode`, elemwise_gradient.cpp:32-38) -/
structure FMap where
  orig : Nat
  classes : Nat
  d0 : Nat
  d1 : Nat
  d2 : Nat
  orig2 : Nat := 0
  chan : Nat := 0
  mode : Nat := 0
deriving DecidableEq, Repr, Inhabited

/-- `generator_t` after `fit`: the mapping, the flags `m_feature_infos` (0 default, 1 drop, 2 shuffle) and the stored
    permutations `m_feature_shuffles` (association list, newest entry first) -/
structure Gen where
  kind : GKind
  mapping : List FMap
  infos : List Nat
  shuffles : List (Nat × List Nat)
deriving Repr, Inhabited

/-- the type filter of `call_sclass / call_mclass / call_scalar / call_struct` (select.h:15-66) -/
def kindAccepts (k : GKind) (f : Feature) : Bool :=
  match k with
  | .sclassId => f.isSclass
  | .mclassId => f.isMclass
  | .scalarId => f.isScalar
  | .structId => f.isStruct
  | .product => f.isScalar
  | .gradient _ => f.isStruct
  | .custom c => c.in1.accepts f

/-- `detail::select` (select.h:70-128): the listed input features (all of them for an empty list) that pass the type
    filter, in the given order; `none` for a listed index outside the inputs (assert in `datasource_t::feature`) -/
def selectFeatures (st : Storage) (accept : Feature → Bool) (list : List Nat) : Option (List FMap) :=
  let idx := if list.isEmpty then List.range st.inputs else list
  idx.foldr (fun i acc => do
    let rest ← acc
    let f ← st.inputFeature i
    pure (if accept f then ⟨i, f.classes, f.d0, f.d1, f.d2, 0, 0, 0⟩ :: rest else rest)) (some [])

/-- `std::map::try_emplace` on an association list kept sorted by key (lexicographic order of the pairs) -/
def tryEmplace (k : Nat × Nat) (v : Nat × Nat) : List ((Nat × Nat) × (Nat × Nat)) → List ((Nat × Nat) × (Nat × Nat))
  | [] => [(k, v)]
  | (k', v') :: rest =>
    if k = k' then (k', v') :: rest
    else if k.1 < k'.1 ∨ (k.1 = k'.1 ∧ k.2 < k'.2) then (k, v) :: (k', v') :: rest
    else (k', v') :: tryEmplace k v rest

/-- `base_pairwise_generator_t::make_pairwise` (pairwise_base.cpp:73-110): every `(i1, i2)` in row-major order is
    `try_emplace`d under the key `(min, max)` of the two original features with the value `(i1, i2)`; the rows come out
    in key order as `(mapping1[i1], mapping2[i2])` -/
def makePairwise (m1 m2 : List FMap) : List FMap :=
  let cands := (List.range m1.length).flatMap (fun i1 => (List.range m2.length).map (fun i2 => (i1, i2)))
  let upairs := cands.foldl (fun acc (p : Nat × Nat) =>
    let f1 := (m1.getD p.1 default).orig
    let f2 := (m2.getD p.2 default).orig
    tryEmplace (min f1 f2, max f1 f2) p acc) []
  upairs.map (fun kv =>
    let a := m1.getD kv.2.1 default
    let b := m2.getD kv.2.2 default
    { a with orig2 := b.orig })

/-- `elemwise_gradient_t::do_fit` (elemwise_gradient.cpp:6-43) on the rows of `select_struct`: a structured feature with
    at least 3 rows and 3 columns yields, per input channel (outer loop) and per mode 0..3 (inner loop), one row
    `(original, classes, 1, rows − 2, cols − 2, channel, mode)`; smaller features yield nothing -/
def gradientMapping (sel : List FMap) : List FMap :=
  sel.flatMap (fun s =>
    if 3 ≤ s.d1 ∧ 3 ≤ s.d2 then
      (List.range s.d0).flatMap (fun ch => (List.range 4).map (fun ty =>
        { s with d0 := 1, d1 := s.d1 - 2, d2 := s.d2 - 2, chan := ch, mode := ty }))
    else [])

/-- `fit` (elemwise_base.cpp:17-22, pairwise_base.cpp:30-35): the mapping, `allocate(features())` zeroes the flags -/
def fit (st : Storage) (kind : GKind) (list1 list2 : List Nat) : Option Gen := do
  let mapping ← match kind with
    | .product => do
      let m1 ← selectFeatures st (kindAccepts kind) list1
      let m2 ← selectFeatures st (kindAccepts kind) list2
      pure (makePairwise m1 m2)
    | .gradient _ => do
      let sel ← selectFeatures st (kindAccepts kind) list1
      pure (gradientMapping sel)
    | .custom c =>
      match c.in2 with
      | none => selectFeatures st (kindAccepts kind) list1             -- elemwise_input.cpp
      | some k2 => do                                                  -- pairwise_input.cpp: make_pairwise of two selections
        let m1 ← selectFeatures st (kindAccepts kind) list1
        let m2 ← selectFeatures st k2.accepts list2
        pure (makePairwise m1 m2)
    | _ => selectFeatures st (kindAccepts kind) list1
  pure ⟨kind, mapping, List.replicate mapping.length 0, []⟩

def Gen.features (g : Gen) : Nat := g.mapping.length

/-- names / kinds of the features of the harness-defined computers, by `generated_type` -/
def customName (out : Overload) : String :=
  match out with
  | .sclass => "lab" | .mclass => "hit" | .scalar => "sum" | .struct => "pow"

/-- `make_sclass_feature` (3 labels) / `make_mclass_feature` (2 labels) / `make_scalar_feature` / `make_struct_feature` with
    dims `(3, 1, 1)` (elemwise_base.cpp:41-78, pairwise_base.cpp:112-160) -/
def customDesc (out : Overload) (name : String) : Feature :=
  match out with
  | .sclass => ⟨name, .sclass, 1, 1, 1, 3⟩
  | .mclass => ⟨name, .mclass, 1, 1, 1, 2⟩
  | .scalar => ⟨name, .float64, 1, 1, 1, 0⟩
  | .struct => ⟨name, .float64, 3, 1, 1, 0⟩

/-- the `colsize` of the harness-defined computers' `process`: `classes − 1 = 2`, `classes = 2`, `1`, `size(dims) = 3` -/
def customCols (out : Overload) : Nat :=
  match out with
  | .sclass => 2 | .mclass => 2 | .scalar => 1 | .struct => 3

/-- `generator->feature(ifeature)`: the identity generators forward the datasource's descriptor
    (elemwise_identity.cpp), the product names its two sources (`make_scalar_feature`, pairwise_base.cpp:112-123) -/
def Gen.feature (st : Storage) (g : Gen) (i : Nat) : Option Feature := do
  let m ← g.mapping[i]?
  match g.kind with
  | .product => do
    let f1 ← st.inputFeature m.orig
    let f2 ← st.inputFeature m.orig2
    pure ⟨"product(" ++ f1.name ++ "," ++ f2.name ++ ")", .float64, 1, 1, 1, 0⟩
  | .gradient k => do
    -- elemwise_gradient.cpp:45-67: `<kernel>::<mode>(<name>[channel::<c>])`, float64 with the mapped dims
    let f ← st.inputFeature m.orig
    pure ⟨k.name ++ gradModeName m.mode ++ "(" ++ f.name ++ "[channel::" ++ toString m.chan ++ "])", .float64,
      m.d0, m.d1, m.d2, 0⟩
  | .custom c => do
    let f1 ← st.inputFeature m.orig
    match c.in2 with
    | none => pure (customDesc c.out (customName c.out ++ "(" ++ f1.name ++ ")"))
    | some _ => do
      let f2 ← st.inputFeature m.orig2
      pure (customDesc c.out (customName c.out ++ "(" ++ f1.name ++ "," ++ f2.name ++ ")"))
  | _ => st.inputFeature m.orig

/-- the `colsize` of `process(ifeature)` (elemwise_identity.h, pairwise_product.h, elemwise_gradient.h:46-48) -/
def Gen.colsize (g : Gen) (i : Nat) : Nat :=
  let m := g.mapping.getD i default
  match g.kind with
  | .sclassId => m.classes - 1
  | .mclassId => m.classes
  | .scalarId => 1
  | .structId => m.d0 * m.d1 * m.d2
  | .product => 1
  | .gradient _ => m.d1 * m.d2
  | .custom c => customCols c.out

/-- the overload of `do_select` the generator implements (`generated_type`, generator.h:25-43); the other three overloads
    leave the buffer untouched -/
def GKind.generated : GKind → Nat
  | .sclassId => 0 | .mclassId => 1 | .scalarId => 2 | .structId => 3 | .product => 2 | .gradient _ => 3
  | .custom c => c.out.code

/-- `should_drop` (generator.cpp:65-68) -/
def Gen.shouldDrop (g : Gen) (i : Nat) : Bool := g.infos.getD i 0 == 1

/-- `shuffled(feature)` (generator.cpp:70-82): the stored permutation when the flag is 2, otherwise the empty map -/
def Gen.shuffledAll (g : Gen) (i : Nat) : List Nat :=
  if g.infos.getD i 0 == 2 then (g.shuffles.lookup i).getD [] else []

/-- `undrop` / `drop` / `unshuffle` / `shuffle` (generator.cpp:24-50). One flag byte per feature: the last call wins, and
    both `undrop` and `unshuffle` clear every flag. `perm` is the oracle answer of `std::shuffle`. -/
def Gen.undrop (g : Gen) : Gen := { g with infos := g.infos.map (fun _ => 0) }
def Gen.drop (g : Gen) (i : Nat) : Gen := { g with infos := g.infos.set i 1 }
def Gen.unshuffle (g : Gen) : Gen := { g with infos := g.infos.map (fun _ => 0), shuffles := [] }
def Gen.shuffle (g : Gen) (i : Nat) (perm : List Nat) : Gen :=
  { g with infos := g.infos.set i 2, shuffles := (i, perm) :: g.shuffles }

/-- `base_datasource_iterator_t::sample()` (iterator.h:28-42): position → stored sample -/
def iterSample (shuffled : List Nat) (s : Nat) : Nat :=
  if shuffled.isEmpty then s else shuffled.getD s 0

/-- the values an iterator yields over `samples` for input feature `orig`: `(given, values)` as `Option` -/
def iterate (st : Storage) (orig : Nat) (shuffled samples : List Nat) : List (Option (List Int)) :=
  samples.map (fun s => st.stored (st.inputIndex orig) (iterSample shuffled s))

/-- the pairwise iterator (iterator.h:117-150): both values must be given -/
def iterate2 (st : Storage) (o1 o2 : Nat) (shuffled samples : List Nat) : List (Option (List Int × List Int)) :=
  samples.map (fun s =>
    let s' := iterSample shuffled s
    match st.stored (st.inputIndex o1) s', st.stored (st.inputIndex o2) s' with
    | some a, some b => some (a, b)
    | _, _ => none)

/-! ## the value functions of the harness-defined computers (harness/c08.cpp `summary`, `custom_*`) -/

/-- `summary(value)`: `Σ_j (j + 1) * value(j)` over the row-major components, in `int64_t` (a label: the label; a scalar: the
    value) -/
def summaryFrom : Nat → List Int → Int
  | _, [] => 0
  | j, x :: xs => (Int.ofNat j + 1) * x + summaryFrom (j + 1) xs

def summary (v : List Int) : Int := summaryFrom 0 v

/-- the number the computers work on: `s1` (element-wise), `s1 + 2 * s2` (pair-wise) -/
def Custom.t (c : Custom) (p : Int × Int) : Int :=
  match c.in2 with
  | none => p.1
  | some _ => p.1 + 2 * p.2

/-- what `process(ifeature)`'s operator yields for the summaries `(s1, s2)` of the input value(s) (`s2 = s1` element-wise),
    by `generated_type`: the label `t mod 3` (3 labels), the hits `(t even, 3 | t)`, the scalar `t`, the tensor
    `(s1², s1·s2, s2²)` -/
def customOut (c : Custom) (p : Int × Int) : List Int :=
  match c.out with
  | .sclass => [c.t p % 3]
  | .mclass => [if c.t p % 2 = 0 then 1 else 0, if c.t p % 3 = 0 then 1 else 0]
  | .scalar => [c.t p]
  | .struct => [p.1 * p.1, p.1 * p.2, p.2 * p.2]

/-- the operator's results over the sample list (`none` = a missing input: `given` resp. `given1 && given2` is false,
    elemwise.h:110-120, pairwise.h:117-127) -/
def derived (st : Storage) (c : Custom) (m : FMap) (shuffled samples : List Nat) : List (Option (List Int)) :=
  match c.in2 with
  | none => (iterate st m.orig shuffled samples).map (fun x => x.map (fun v => customOut c (summary v, summary v)))
  | some _ => (iterate2 st m.orig m.orig2 shuffled samples).map (fun x => x.map (fun ab => customOut c (summary ab.1, summary ab.2)))

/-! ## views -/

/-- the four kinds of per-feature views (generator/storage.h): labels (−1 missing), hit rows (−1 missing), scalars
    (NaN missing), row-major tensors (NaN missing) -/
inductive View (α : Type)
  | sclass (v : List Int)
  | mclass (classes : Nat) (v : List (List Int))
  | scalar (v : List α)
  | struct (d0 d1 d2 : Nat) (v : List (List α))
deriving Repr

section
variable {α : Type} [Scalar α]

def headI (v : List Int) : Int := v.getD 0 0

/-- `select_sclass` of the identity (elemwise.h:116-131): `static_cast<int32_t>(label)` or −1 -/
def encSclass (x : Option (List Int)) : Int :=
  match x with
  | some v => headI v
  | none => -1

/-- `select_mclass` (elemwise.h:133-148): the hits or a row of −1 -/
def encMclass (classes : Nat) (x : Option (List Int)) : List Int :=
  match x with
  | some v => v
  | none => List.replicate classes (-1)

/-- `select_scalar` (elemwise.h:99-114): `static_cast<scalar_t>(values(0))` or NaN -/
def encScalar (x : Option (List Int)) : α :=
  match x with
  | some v => Scalar.ofInt (headI v)
  | none => Scalar.nan

/-- `select_struct` (elemwise.h:150-165): the values cast to `scalar_t`, row-major, or NaN everywhere -/
def encStruct (size : Nat) (x : Option (List Int)) : List α :=
  match x with
  | some v => v.map Scalar.ofInt
  | none => List.replicate size Scalar.nan

/-- product (pairwise_product.h:27-33, pairwise.h:113-128): `scalar_t(v1(0)) * scalar_t(v2(0))` or NaN -/
def encProduct (x : Option (List Int × List Int)) : α :=
  match x with
  | some (a, b) => Scalar.mul (Scalar.ofInt (headI a)) (Scalar.ofInt (headI b))
  | none => Scalar.nan

/-- the tensor / flatten segment the gradient generator's `process` (elemwise_gradient.h:39-53) writes for one sample:
    `gradient3x3(mode, values.tensor(channel), kernel, map_tensor(storage.data(), rows, cols))` with `values` the sample's
    `(d0, d1, d2)` tensor of the source feature `src` and `(rows, cols)` the mapped dims; a missing sample is NaN everywhere
    (elemwise.h:167-171 for `select`, 215-219 for `flatten`). The inner `none` (an `assert` of `tensor(channel)` or of
    `gradient3x3`) does not occur for a fitted generator (`gradient_pixel_spec`). -/
def encGradient (k : Kernel3) (src : Feature) (m : FMap) (x : Option (List Int)) : List α :=
  match x with
  | some v =>
    (((⟨[src.d0, src.d1, src.d2], v⟩ : T Int).sub [m.chan]).bind
      (fun img => gradient3x3 m.mode img (makeKernel k) m.d1 m.d2)).getD []
  | none => List.replicate (m.d1 * m.d2) Scalar.nan

/-- `generator_t::select(samples, ifeature, storage)` (generator.cpp:103-149) + `do_select` (elemwise.h:22-76,
    pairwise.h:30-84): a dropped feature is all −1 / NaN; `kind` is the overload (the storage type passed by
    `dataset_t::select`); an overload the generator does not produce leaves the buffer untouched — never reached
    through `dataset_t::select`, which checks the descriptor first, so the model returns `none` there -/
def Gen.select (st : Storage) (g : Gen) (i : Nat) (samples : List Nat) : Option (View α) := do
  let m ← g.mapping[i]?
  let sh := g.shuffledAll i
  let n := samples.length
  match g.kind with
  | .sclassId =>
    pure (.sclass (if g.shouldDrop i then List.replicate n (-1)
                   else (iterate st m.orig sh samples).map encSclass))
  | .mclassId =>
    pure (.mclass m.classes (if g.shouldDrop i then List.replicate n (List.replicate m.classes (-1))
                             else (iterate st m.orig sh samples).map (encMclass m.classes)))
  | .scalarId =>
    pure (.scalar (if g.shouldDrop i then List.replicate n Scalar.nan
                   else (iterate st m.orig sh samples).map encScalar))
  | .structId =>
    let size := m.d0 * m.d1 * m.d2
    pure (.struct m.d0 m.d1 m.d2 (if g.shouldDrop i then List.replicate n (List.replicate size Scalar.nan)
                                  else (iterate st m.orig sh samples).map (encStruct size)))
  | .product =>
    pure (.scalar (if g.shouldDrop i then List.replicate n Scalar.nan
                   else (iterate2 st m.orig m.orig2 sh samples).map encProduct))
  | .gradient k =>
    -- `generated_struct_t`: only the structured overload is implemented (see `Dataset.selectUnwritten`)
    let src := (st.inputFeature m.orig).getD default
    pure (.struct m.d0 m.d1 m.d2 (if g.shouldDrop i then List.replicate n (List.replicate (m.d0 * m.d1 * m.d2) Scalar.nan)
                                  else (iterate st m.orig sh samples).map (encGradient k src m)))
  | .custom c =>
    -- `select_sclass / select_mclass / select_scalar / select_struct` of the two templates (elemwise.h:105-172,
    -- pairwise.h:112-179) on the operator's results
    let vals := derived st c m sh samples
    match c.out with
    | .sclass => pure (.sclass (if g.shouldDrop i then List.replicate n (-1) else vals.map encSclass))
    | .mclass => pure (.mclass 2 (if g.shouldDrop i then List.replicate n (List.replicate 2 (-1)) else vals.map (encMclass 2)))
    | .scalar => pure (.scalar (if g.shouldDrop i then List.replicate n Scalar.nan else vals.map encScalar))
    | .struct => pure (.struct 3 1 1 (if g.shouldDrop i then List.replicate n (List.replicate 3 Scalar.nan)
                                      else vals.map (encStruct 3)))

/-- the segment written by the `flatten` member for one sample (elemwise.h:167-224, pairwise.h:166-222):
    single-label: `setConstant(-1)` then `+1` at `class_index` when `class_index < segment.size()` (so the last class is
    all −1: one-hot with `classes − 1` columns); multi-label: `2.0 * hit − 1.0`; scalar / struct: the values; missing: NaN -/
def flatSclass (colsize : Nat) (x : Option (List Int)) : List α :=
  match x with
  | some v =>
    let c := (headI v).toNat
    (List.range colsize).map (fun k => if k = c then Scalar.ofInt 1 else Scalar.ofInt (-1))
  | none => List.replicate colsize Scalar.nan

def flatMclass (colsize : Nat) (x : Option (List Int)) : List α :=
  match x with
  | some v => v.map (fun h => Scalar.sub (Scalar.mul (Scalar.ofInt 2) (Scalar.ofInt h)) (Scalar.ofInt 1))
  | none => List.replicate colsize Scalar.nan

/-- the segment by kind of generated feature -/
def flatBy (o : Overload) (colsize : Nat) (x : Option (List Int)) : List α :=
  match o with
  | .sclass => flatSclass colsize x
  | .mclass => flatMclass colsize x
  | .scalar => [encScalar x]
  | .struct => encStruct colsize x

/-- per-sample segments of generated feature `i` (`colsize` columns each) -/
def Gen.segments (st : Storage) (g : Gen) (i : Nat) (samples : List Nat) : List (List α) :=
  let m := g.mapping.getD i default
  let sh := g.shuffledAll i
  let colsize := g.colsize i
  if g.shouldDrop i then
    -- `flatten_dropped` (generator.cpp:84-88): the block is NaN
    samples.map (fun _ => List.replicate colsize Scalar.nan)
  else
    match g.kind with
    | .sclassId => (iterate st m.orig sh samples).map (flatSclass colsize)
    | .mclassId => (iterate st m.orig sh samples).map (flatMclass colsize)
    | .scalarId => (iterate st m.orig sh samples).map (fun x => [encScalar x])
    | .structId => (iterate st m.orig sh samples).map (encStruct colsize)
    | .product => (iterate2 st m.orig m.orig2 sh samples).map (fun x => [encProduct x])
    | .gradient k =>
      (iterate st m.orig sh samples).map (encGradient k ((st.inputFeature m.orig).getD default) m)
    | .custom c =>
      -- the `flatten` member of the two templates (elemwise.h:174-222, pairwise.h:181-229) on the operator's results
      (derived st c m sh samples).map (flatBy c.out colsize)

/-- `storage.vector(index).segment(column, colsize) = …` for every row `index` of the buffer -/
def writeColumns (buf : List (List α)) (column : Nat) (segs : List (List α)) : List (List α) :=
  List.zipWith (fun row seg => writeAt row column seg) buf segs

/-- `elemwise_generator_t::flatten(samples, storage, column)` (elemwise.h:78-104; pairwise.h:86-111): the features of the
    generator one after the other, `column += colsize` -/
def Gen.flattenFrom (st : Storage) (g : Gen) (samples : List Nat) :
    List Nat → List (List α) → Nat → List (List α)
  | [], buf, _ => buf
  | i :: is, buf, column =>
    Gen.flattenFrom st g samples is (writeColumns buf column (g.segments st i samples)) (column + g.colsize i)

def Gen.flatten (st : Storage) (g : Gen) (samples : List Nat) (buf : List (List α)) (column : Nat) : List (List α) :=
  g.flattenFrom st samples (List.range g.features) buf column

end

/-! ## the dataset (src/dataset.cpp) -/

structure Dataset where
  st : Storage
  gens : List Gen
deriving Repr

/-- columns the dataset reserves for a generated feature (`update()`, dataset.cpp:95-100 and 125-138) -/
def featureColumns (f : Feature) : Nat :=
  match f.type with
  | .sclass => f.classes - 1
  | .mclass => f.classes
  | _ => f.dimSize

/-- `(dim1, dim2, dim3)` stored in `m_feature_mapping` (dataset.cpp:121-141) -/
def featureDims (f : Feature) : Nat × Nat × Nat :=
  match f.type with
  | .sclass => (1, 1, 1)
  | .mclass => (f.classes, 1, 1)
  | _ => (f.d0, f.d1, f.d2)

/-- descriptors of the features of one generator, `generator->feature(0 .. features()-1)` -/
def Gen.featureList (st : Storage) (g : Gen) : List Feature :=
  (List.range g.features).map (fun i => (g.feature st i).getD default)

/-- `m_feature_mapping` columns 0-1 (dataset.cpp:112-119): `(generator index, feature index within the generator)` per
    dataset feature, generators in order (`index++`), features in order (`offset_features++`) -/
def featMapFrom : Nat → List Gen → List (Nat × Nat)
  | _, [] => []
  | gi, g :: gs => (List.range g.features).map (fun i => (gi, i)) ++ featMapFrom (gi + 1) gs

def Dataset.featMap (ds : Dataset) : List (Nat × Nat) := featMapFrom 0 ds.gens

/-- `dataset_t::features()` -/
def Dataset.features (ds : Dataset) : Nat := ds.featMap.length

/-- `dataset_t::feature(f)` = `byfeature(f)->feature(m_feature_mapping(f, 1))`; `none` = `check(feature)` throws -/
def Dataset.feature (ds : Dataset) (f : Nat) : Option Feature := do
  let gi ← ds.featMap[f]?
  let g ← ds.gens[gi.1]?
  g.feature ds.st gi.2

/-- all descriptors in dataset order -/
def Dataset.featureList (ds : Dataset) : List Feature :=
  ds.gens.flatMap (fun g => g.featureList ds.st)

/-- `m_column_mapping(·, 2)` (dataset.cpp:143-148): the dataset feature of every flatten column, built by the same
    double loop: feature `offset_features` contributes `columns` consecutive entries -/
def colMapFrom : Nat → List Feature → List Nat
  | _, [] => []
  | fi, f :: fs => List.replicate (featureColumns f) fi ++ colMapFrom (fi + 1) fs

def Dataset.colMap (ds : Dataset) : List Nat := colMapFrom 0 ds.featureList

/-- `dataset_t::columns()` -/
def Dataset.columns (ds : Dataset) : Nat := ds.colMap.length

/-- `dataset_t::column2feature(column)` (no range check in the code: `none` = out of bounds read) -/
def Dataset.column2feature (ds : Dataset) (c : Nat) : Option Nat := ds.colMap[c]?

/-- `m_generator_mapping(g, 0)` (dataset.cpp:151): the columns of generator `g` = `offset_columns - old_offset_columns` -/
def Dataset.genColumns (ds : Dataset) : List Nat :=
  ds.gens.map (fun g => ((g.featureList ds.st).map featureColumns).sum)

/-- `dataset_t::check(samples)` (dataset.cpp:484-492): a non-empty list with an index `< 0` or `>= samples()` throws.
    Sample indices arrive as `Int` (`tensor_size_t`). -/
def Dataset.checkSamples (ds : Dataset) (samples : List Int) : Option (List Nat) :=
  if samples.all (fun s => 0 ≤ s ∧ s < Int.ofNat ds.st.samples) then some (samples.map Int.toNat) else none

/-- `dataset_t::check(feature)` (dataset.cpp:478-482) -/
def Dataset.checkFeature (ds : Dataset) (f : Int) : Option Nat :=
  if 0 ≤ f ∧ f < Int.ofNat ds.features then some f.toNat else none

/-- the target descriptor `m_target` (dataset.cpp:59-68) -/
def Dataset.target (ds : Dataset) : Option Feature :=
  match ds.st.target with
  | some t => ds.st.feats[t]?
  | none => none

/-- `dataset_t::target_dims()` (dataset.cpp:353-371) -/
def Dataset.targetDims (ds : Dataset) : Nat × Nat × Nat :=
  match ds.target with
  | none => (0, 0, 0)
  | some f =>
    match f.type with
    | .sclass => (f.classes, 1, 1)
    | .mclass => (f.classes, 1, 1)
    | _ => (f.d0, f.d1, f.d2)

def Overload.matches (o : Overload) (f : Feature) : Bool :=
  match o with
  | .sclass => f.isSclass
  | .mclass => f.isMclass
  | .scalar => f.isScalar
  | .struct => f.isStruct

section
variable {α : Type} [Scalar α]

/-- `dataset_t::select(samples, feature, buffer)` (dataset.cpp:295-334): `check(samples)`, `byfeature` → `check(feature)`,
    `handle_*` rejects a descriptor of another kind, then the generator's `select` -/
def Dataset.select (ds : Dataset) (samples : List Int) (f : Int) (o : Overload) : Option (View α) := do
  let ss ← ds.checkSamples samples
  let fi ← ds.checkFeature f
  let desc ← ds.feature fi
  if o.matches desc then
    let gi ← ds.featMap[fi]?
    let g ← ds.gens[gi.1]?
    g.select ds.st gi.2 ss
  else none

/-- **open finding `gradient-1x1-select-unwritten`, modelled as coded**: `dataset_t::select(samples, feature, buffer)` accepts
    the overload `o` because the descriptor is of that kind, but the owning generator's `do_select` for that overload is the
    empty `if constexpr` branch (elemwise.h:22-76): the resized buffer comes back unwritten. This happens exactly for the
    features the gradient generator derives from 3x3 images (dims `(1,1,1)` = a scalar descriptor, `generated_struct_t`):
    `selectUnwritten_iff`. `selectForeign` is `some dropped` in that situation; there the value of `Dataset.select` (the
    structured view) is not what the code returns: the driver prints the all-NaN scalar view for a dropped feature and
    wildcards (contents unspecified) otherwise. -/
def Dataset.selectForeign (ds : Dataset) (f : Nat) (o : Overload) : Option Bool :=
  match ds.featMap[f]? with
  | none => none
  | some gi =>
    match ds.gens[gi.1]?, ds.feature f with
    | some g, some desc => if o.matches desc && g.kind.generated != o.code then some (g.shouldDrop gi.2) else none
    | _, _ => none

/-- the buffer comes back unwritten: a foreign overload on a feature that is not dropped (for a dropped feature
    `generator_t::select` fills the buffer with the missing marker before it dispatches, generator.cpp:97-107) -/
def Dataset.selectUnwritten (ds : Dataset) (f : Nat) (o : Overload) : Bool := ds.selectForeign f o == some false

/-- `dataset_t::flatten(samples, buffer)` (dataset.cpp:336-351): every generator writes its block at
    `offset += m_generator_mapping(index++, 0)`. `buf0` is the (resized, not cleared) buffer: `samples.size()` rows of
    `columns()` entries with arbitrary content. -/
def flattenGens (st : Storage) (samples : List Nat) :
    List Gen → List Nat → List (List α) → Nat → List (List α)
  | g :: gs, c :: cs, buf, offset => flattenGens st samples gs cs (g.flatten st samples buf offset) (offset + c)
  | _, _, buf, _ => buf

def Dataset.flattenInto (ds : Dataset) (samples : List Int) (buf0 : List (List α)) : Option (List (List α)) := do
  let ss ← ds.checkSamples samples
  pure (flattenGens ds.st ss ds.gens ds.genColumns buf0 0)

/-- `flatten` on a buffer pre-filled with a marker value (the driver uses NaN) -/
def Dataset.flatten (ds : Dataset) (samples : List Int) (fill : α) : Option (List (List α)) :=
  ds.flattenInto samples (List.replicate samples.length (List.replicate ds.columns fill))

/-- target as single-label / multi-label / scalar / structured values: `dataset_t::select(samples, buffer)`
    (dataset.cpp:175-293); `handle_*` throws for a target of another kind or no target; the iterator runs without a
    permutation -/
def Dataset.selectTarget (ds : Dataset) (samples : List Int) (o : Overload) : Option (View α) := do
  let ss ← ds.checkSamples samples
  let t ← ds.st.target
  let desc ← ds.target
  if o.matches desc then
    let vals := ss.map (fun s => ds.st.stored t s)
    match o with
    | .sclass => pure (.sclass (vals.map encSclass))
    | .mclass => pure (.mclass desc.classes (vals.map (encMclass desc.classes)))
    | .scalar => pure (.scalar (vals.map encScalar))
    | .struct => pure (.struct desc.d0 desc.d1 desc.d2 (vals.map (encStruct desc.dimSize)))
  else none

/-- one row of `dataset_t::targets` (dataset.cpp:373-438): single-label → −1 everywhere and +1 at the label (`classes`
    columns), multi-label → `hits * 2.0 − 1.0`, continuous → the values; missing → NaN -/
def targetRow (desc : Feature) (x : Option (List Int)) : List α :=
  match desc.type with
  | .sclass =>
    match x with
    | some v =>
      let c := (headI v).toNat
      (List.range desc.classes).map (fun k => if k = c then Scalar.ofInt 1 else Scalar.ofInt (-1))
    | none => List.replicate desc.classes Scalar.nan
  | .mclass =>
    match x with
    | some v => v.map (fun h => Scalar.sub (Scalar.mul (Scalar.ofInt h) (Scalar.ofInt 2)) (Scalar.ofInt 1))
    | none => List.replicate desc.classes Scalar.nan
  | _ => encStruct desc.dimSize x

/-- `dataset_t::targets(samples, buffer)`: `(dims, rows)`; throws for an unsupervised dataset -/
def Dataset.targets (ds : Dataset) (samples : List Int) : Option ((Nat × Nat × Nat) × List (List α)) := do
  let ss ← ds.checkSamples samples
  let t ← ds.st.target
  let desc ← ds.target
  pure (ds.targetDims, ss.map (fun s => targetRow desc (ds.st.stored t s)))

end

/-! ## drop / shuffle histories (dataset.cpp:440-476) -/

/-- `byfeature(feature)->op(m_feature_mapping(feature, 1))` -/
def Dataset.onFeature (ds : Dataset) (f : Int) (op : Gen → Nat → Gen) : Option Dataset := do
  let fi ← ds.checkFeature f
  let gi ← ds.featMap[fi]?
  pure { ds with gens := ds.gens.modify gi.1 (fun g => op g gi.2) }

def Dataset.drop (ds : Dataset) (f : Int) : Option Dataset := ds.onFeature f Gen.drop
def Dataset.undrop (ds : Dataset) : Dataset := { ds with gens := ds.gens.map Gen.undrop }
def Dataset.shuffle (ds : Dataset) (f : Int) (perm : List Nat) : Option Dataset :=
  ds.onFeature f (fun g i => g.shuffle i perm)
def Dataset.unshuffle (ds : Dataset) : Dataset := { ds with gens := ds.gens.map Gen.unshuffle }

/-- `dataset_t::shuffled(feature, samples)` (dataset.cpp:466-471, generator.cpp:52-63): `check(samples)`, then the
    permutation applied to the samples. For a feature that is not shuffled the C++ code indexes an empty map (assert only):
    `none`. -/
def Dataset.shuffled (ds : Dataset) (f : Int) (samples : List Int) : Option (List Nat) := do
  let ss ← ds.checkSamples samples
  let fi ← ds.checkFeature f
  let gi ← ds.featMap[fi]?
  let g ← ds.gens[gi.1]?
  let all := g.shuffledAll gi.2
  if all.isEmpty then none else ss.mapM (fun s => all[s]?)

/-- history operations that change the flags -/
inductive HOp
  | drop (f : Nat)
  | undrop
  | shuffle (f : Nat) (perm : List Nat)
  | unshuffle
deriving Repr

/-- one step; an operation with an invalid feature index throws and leaves the dataset unchanged -/
def Dataset.step (ds : Dataset) : HOp → Dataset
  | .drop f => (ds.drop (Int.ofNat f)).getD ds
  | .undrop => ds.undrop
  | .shuffle f p => (ds.shuffle (Int.ofNat f) p).getD ds
  | .unshuffle => ds.unshuffle

def Dataset.run (ds : Dataset) (ops : List HOp) : Dataset := ops.foldl Dataset.step ds

/-- `dataset_t::add` (dataset.cpp:70-84): fit, append, `update()` (the bookkeeping is a function of `gens`) -/
def Dataset.add (ds : Dataset) (kind : GKind) (list1 list2 : List Nat) : Option Dataset := do
  let g ← fit ds.st kind list1 list2
  pure { ds with gens := ds.gens ++ [g] }

end NanoVerif.Dataset
