import NanoVerif.Model.Tensor
/-
  C08 — model of the image-gradient kernels of the gradient generator (core Lean only; linked into `driver_c08`).

  Mirrors include/nano/generator/gradient.h:
    * `enum class kernel3x3_type`, `make_kernel3x3<tscalar>`            gradient.h:13-54
    * `enum class gradient3x3_mode`                                     gradient.h:59-65
    * `gradient3x3(mode, input, kernel, output)`                        gradient.h:74-155
  The image is a rank-2 tensor of the C16 model (`T Int`, addressed by `index`); the output is the row-major list of the
  `(rows, cols)` output map. Generic over the scalar of the dense views (`Scalar α`; `double` in the driver).
-/
namespace NanoVerif.Dataset
open NanoVerif.Tensor

/-! ## scalars of the dense views -/

/-- what the dense views need from `scalar_t`: conversion of stored values, NaN, `*` (pairwise product, kernels), `-`
    (multi-label encoding `2.0 * x - 1.0`, pixel differences), and for the gradient generator `+`, `/` (kernel
    coefficients `1/4`, …), `std::sqrt` and `std::atan2` -/
class Scalar (α : Type) where
  ofInt : Int → α
  nan : α
  mul : α → α → α
  sub : α → α → α
  add : α → α → α
  div : α → α → α
  sqrt : α → α
  atan2 : α → α → α

instance : Scalar Float :=
  ⟨Float.ofInt, 0.0 / 0.0, (· * ·), (· - ·), (· + ·), (· / ·), Float.sqrt, Float.atan2⟩

/-! ## kernels (gradient.h:13-54) -/

/-- `enum class kernel3x3_type` -/
inductive Kernel3
  | sobel | scharr | prewitt
deriving DecidableEq, Repr, Inhabited

/-- `enum_string<kernel3x3_type>()` (gradient.h:20-28) -/
def Kernel3.name : Kernel3 → String
  | .sobel => "sobel" | .scharr => "scharr" | .prewitt => "prewitt"

def Kernel3.code : Kernel3 → Nat
  | .sobel => 0 | .scharr => 1 | .prewitt => 2

def Kernel3.ofCode : Nat → Option Kernel3
  | 0 => some .sobel | 1 => some .scharr | 2 => some .prewitt | _ => none

/-- the integer numerators / the common denominator of the three coefficients -/
def Kernel3.nums : Kernel3 → Int × Int × Int
  | .sobel => (1, 2, 1) | .scharr => (3, 10, 3) | .prewitt => (1, 1, 1)

def Kernel3.den : Kernel3 → Int
  | .sobel => 4 | .scharr => 16 | .prewitt => 3

section
variable {α : Type} [Scalar α]

/-- `make_kernel3x3<tscalar>(type)` (gradient.h:33-54): each coefficient is `static_cast<tscalar>(a) / static_cast<tscalar>(b)` -/
def makeKernel (k : Kernel3) : α × α × α :=
  let q (a : Int) : α := Scalar.div (Scalar.ofInt a) (Scalar.ofInt k.den)
  (q k.nums.1, q k.nums.2.1, q k.nums.2.2)

/-- `static_cast<tscalar_output>(input(row, col))`; outside the image (an `assert` of `operator()`) the totalised value 0 —
    `gradient_pixel_spec` shows that every access of `gradient3x3` is inside -/
def pixel (img : T Int) (r c : Nat) : α := Scalar.ofInt ((img.get? [r, c]).getD 0)

/-- `make_gg` (gradient.h:84-92): `kernel[0] * d0 + kernel[1] * d1 + kernel[2] * d2` with `d_i` the three differences,
    evaluated left to right -/
def makeGG (k : α × α × α) (v0 v1 v2 v3 v4 v5 : α) : α :=
  Scalar.add (Scalar.add (Scalar.mul k.1 (Scalar.sub v0 v1)) (Scalar.mul k.2.1 (Scalar.sub v2 v3)))
    (Scalar.mul k.2.2 (Scalar.sub v4 v5))

/-- `make_gx` (gradient.h:94-98): right column minus left column, the three rows weighted by the kernel -/
def makeGx (k : α × α × α) (img : T Int) (r c : Nat) : α :=
  makeGG k (pixel img r (c + 2)) (pixel img r c) (pixel img (r + 1) (c + 2)) (pixel img (r + 1) c)
    (pixel img (r + 2) (c + 2)) (pixel img (r + 2) c)

/-- `make_gy` (gradient.h:100-104): bottom row minus top row, the three columns weighted by the kernel -/
def makeGy (k : α × α × α) (img : T Int) (r c : Nat) : α :=
  makeGG k (pixel img (r + 2) c) (pixel img r c) (pixel img (r + 2) (c + 1)) (pixel img r (c + 1))
    (pixel img (r + 2) (c + 2)) (pixel img r (c + 2))

/-- what the four modes make of `(gx, gy)` (gradient.h:106-153): `gradx`, `grady`, `magnitude = sqrt(gx*gx + gy*gy)`,
    and — the `default:` branch, i.e. any other value of the enum — `angle = atan2(gy, gx)` -/
def gradMode (mode : Nat) (gx gy : α) : α :=
  match mode with
  | 0 => gx
  | 1 => gy
  | 2 => Scalar.sqrt (Scalar.add (Scalar.mul gx gx) (Scalar.mul gy gy))
  | _ => Scalar.atan2 gy gx

/-- one output pixel -/
def gradPixel (mode : Nat) (k : α × α × α) (img : T Int) (r c : Nat) : α :=
  gradMode mode (makeGx k img r c) (makeGy k img r c)

/-- `gradient3x3(mode, input, kernel, output)` (gradient.h:74-155) for an output map of `(rows, cols)`: the row-major list of
    the output; `none` where the two `assert`s on the input size fire -/
def gradient3x3 (mode : Nat) (img : T Int) (k : α × α × α) (rows cols : Nat) : Option (List α) :=
  if img.dims = [rows + 2, cols + 2] then
    some ((List.range rows).flatMap (fun r => (List.range cols).map (fun c => gradPixel mode k img r c)))
  else none

/-- suffix of the generated feature's name (elemwise_gradient.cpp:52-59) -/
def gradModeName (mode : Nat) : String :=
  match mode with
  | 0 => "::gx" | 1 => "::gy" | 2 => "::gg" | _ => "::theta"

end

end NanoVerif.Dataset
