import NanoVerif.Model.Pool
/-!
  C17 (gap-closing) — three refinements of the protocol model `Model/Pool.lean`. Core Lean only.

  1. `section_t` (parallel.h:144-175, parallel.cpp:82-96) modelled explicitly: the base model folds `section.block(raise)` and
     `~section_t` into ONE event `cReturn` guarded by "every future is ready". Here the client walks through the code:
     `block(raise)` waits the futures in index order (`get()` rethrows the stored exception of the first future that holds
     one, `wait()` never throws), then — on the normal path as well as while the exception unwinds — the destructor runs
     `block(false)` over ALL futures of `*this`, then `map` is left. The exit is NOT guarded: that every future is ready at
     that point is a theorem (`Proofs/PoolSection.lean: map_exit_implies_all_ready`), and the base model's guarded `cReturn`
     is its consequence (`exit_refines_cReturn`). The flag `swapped` models the seeded change "block() swaps the futures into
     a local vector before waiting" (the destructor then sees an empty vector): for it the theorem fails (kernel-checked run).
  2. `pool_t::pool_t`, `pool_t::max_size`, `pool_t::size` (parallel.cpp:98-120, parallel.h:221).
  3. a finer-grained worker (predicate evaluation and blocking are two events) used only to show WHY `m_stop` has to be
     written under the mutex: `stepF` with `stopNoLock` (the seeded `~pool_t` with an atomic flag set outside the lock).
-/
namespace NanoVerif.Pool

/-! ### 1. section_t -/

/-- program counter of the `section_t` of one `map` call (client `c` of the base model, which stays `waiting ts`) -/
inductive SPc
  | none                                                        -- no section (not a map call / `block` not reached yet)
  | block (ts : List Nat) (raise : Bool) (i : Nat)              -- in `section.block(raise)`: futures `0..i-1` waited
  | dtor (ts : List Nat) (raise : Bool) (i : Nat) (exc : Option Nat)
                                                                -- in `~section_t` = `block(false)` over the futures `ts` the destructor
                                                                -- sees; `exc` = the task whose exception is unwinding
  | out (exc : Option Nat)                                      -- `map` has been left (normally / by the exception of task `exc`)
  deriving DecidableEq, Repr

structure St2 where
  base : St
  spc : Nat → SPc

inductive Ev2
  | base (e : Ev)                   -- an event of the protocol model; `cReturn c` only for clients without a section (`enqueue`)
  | bBegin (c : Nat) (raise : Bool) -- `section.block(raise)` is called (parallel.h:281-282, 344-345)
  | bWait (c : Nat)                 -- `raise ? future.get() : future.wait()` of future `i` returns or rethrows (parallel.cpp:84-90)
  | bDone (c : Nat)                 -- the loop of `block(raise)` is over; the scope ends: `~section_t` starts
  | dWait (c : Nat)                 -- `future.wait()` of the destructor's `block(false)` returns (parallel.cpp:93-96)
  | exit (c : Nat)                  -- the destructor is done: `map` is left (return, or the exception propagates)
  deriving Repr

/-- the futures `~section_t` iterates over: `*this`; the seeded variant moved them into a local of `block` -/
def dtorSees (swapped : Bool) (ts : List Nat) : List Nat := if swapped then [] else ts

def returnClient : Ev → Option Nat
  | .cReturn c => some c
  | _ => none

def step2 (swapped : Bool) (s : St2) : Ev2 → Option St2
  | .base e =>
    match returnClient e with
    | some c =>
      if s.spc c = .none then
        match step s.base e with
        | some b => some { s with base := b }
        | none => none
      else none
    | none =>
      match step s.base e with
      | some b => some { s with base := b }
      | none => none
  | .bBegin c raise =>
    match s.base.cpc c with
    | .waiting ts => if s.spc c = .none then some { s with spc := upd s.spc c (.block ts raise 0) } else none
    | _ => none
  | .bWait c =>
    match s.spc c with
    | .block ts raise i =>
      match ts[i]? with
      | some t =>
        if ready? (s.base.ts t) = true then
          if raise && holdsExc s.base t then
            -- `future.get()` rethrows: the exception leaves `block`, the stack unwinds into `~section_t`
            some { s with spc := upd s.spc c (.dtor (dtorSees swapped ts) raise 0 (some t)) }
          else some { s with spc := upd s.spc c (.block ts raise (i + 1)) }
        else none
      | none => none
    | _ => none
  | .bDone c =>
    match s.spc c with
    | .block ts raise i =>
      if i = ts.length then some { s with spc := upd s.spc c (.dtor (dtorSees swapped ts) raise 0 none) } else none
    | _ => none
  | .dWait c =>
    match s.spc c with
    | .dtor ts raise i exc =>
      match ts[i]? with
      | some t => if ready? (s.base.ts t) = true then some { s with spc := upd s.spc c (.dtor ts raise (i + 1) exc) } else none
      | none => none
    | _ => none
  | .exit c =>
    match s.spc c with
    | .dtor ts _ i exc =>
      if i = ts.length then
        some { base := { s.base with cpc := upd s.base.cpc c .finished }, spc := upd s.spc c (.out exc) }
      else none
    | _ => none

def run2 (swapped : Bool) : St2 → List Ev2 → Option St2
  | s, [] => some s
  | s, e :: es => match step2 swapped s e with
    | none => none
    | some s' => run2 swapped s' es

def init2 (nw : Nat) : St2 := { base := init nw, spc := fun _ => .none }

/-- reachable states of the code as it is (`swapped = false`) -/
def Reachable2 (s : St2) : Prop := ∃ nw es, run2 false (init2 nw) es = some s

/-! ### 2. pool size -/

/-- `pool_t::max_size()`: `std::max(size_t(1), hardware_concurrency())` (parallel.cpp:117-120) -/
def maxSize (hc : Nat) : Nat := if 1 < hc then hc else 1

/-- `std::clamp(threads, size_t(1), max_size())` = `(v < lo) ? lo : (hi < v) ? hi : v` (parallel.cpp:105); this is
    `m_threads.size()` = `pool_t::size()` (parallel.h:221), one worker object `worker_t(m_queue, tnum)` for every
    `tnum < size()` (parallel.cpp:107-114) = `init nw` -/
def clampSize (threads hc : Nat) : Nat :=
  if threads < 1 then 1 else if maxSize hc < threads then maxSize hc else threads

/-- the default constructor delegates to `pool_t(max_size())` (parallel.cpp:98-101) -/
def defaultSize (hc : Nat) : Nat := clampSize (maxSize hc) hc

/-- request code of the scenario lines: `1000` = default constructor -/
def sizeFor (asked hc : Nat) : Nat := if asked = 1000 then defaultSize hc else clampSize asked hc

/-! ### 3. fine-grained wait: why `m_stop` is written under the mutex -/

structure StF where
  s : St
  pend : Nat → Bool   -- worker `w` holds the mutex, has evaluated the wait predicate to false and has not blocked yet

inductive EvF
  | atom (e : Ev)          -- an atomic event of `step`
  | predFalse (w : Nat)    -- the worker locks and evaluates `m_stop || !m_tasks.empty()` to false (parallel.cpp:42-54)
  | block (w : Nat)        -- `wait` releases the mutex and blocks, atomically (condition_variable contract)
  | stopNoLock (c : Nat)   -- seeded `~pool_t`: `m_stop` is an atomic flag set WITHOUT locking `m_mutex`
  deriving Repr

/-- events whose critical section takes `m_mutex` (the others are lock-free: notifications, future waits, the operator) -/
def needsLock : Ev → Bool
  | .wTake _ => true
  | .wSleep _ => true
  | .wExit _ => true
  | .wWake _ => true     -- the wait re-acquires the mutex before it returns
  | .cPush _ _ _ => true
  | .dStop _ => true
  | _ => false

def stepF (nwBound : Nat) (f : StF) : EvF → Option StF
  | .atom e =>
    -- the mutex is held by a worker between its predicate evaluation and its wait
    if needsLock e = true ∧ (List.range nwBound).any f.pend = true then none
    else match step f.s e with
      | some s' => some { f with s := s' }
      | none => none
  | .predFalse w =>
    if (List.range nwBound).any f.pend = false ∧ w < f.s.nw ∧ f.s.wpc w = .ready ∧ f.s.stop = false ∧ f.s.queue = [] then
      some { f with pend := upd f.pend w true }
    else none
  | .block w =>
    if f.pend w = true then some { s := { f.s with wpc := upd f.s.wpc w .sleeping }, pend := upd f.pend w false } else none
  | .stopNoLock c =>
    if f.s.cpc c = .idle then some { f with s := { f.s with stop := true, cpc := upd f.s.cpc c .stopSet } } else none

def runF (nwBound : Nat) : StF → List EvF → Option StF
  | f, [] => some f
  | f, e :: es => match stepF nwBound f e with
    | none => none
    | some f' => runF nwBound f' es

def initF (nw : Nat) : StF := { s := init nw, pend := fun _ => false }

end NanoVerif.Pool
