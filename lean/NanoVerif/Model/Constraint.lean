/-
  C05 — model of libnano's constraint kinds (core Lean only; generic over the scalar type: run at `Float` in
  `driver_c05`, proved over an ordered field).

  Mirrors (line numbers of /repo at the time of writing):
    include/nano/function/constraint.h:12-134   the 11 alternatives of `constraint_t`           -> `C`
    src/function/constraint.cpp:66-125, 268-281 `::vgrad(<kind>, x, gx)` (value and gradient) and its `std::visit` -> `C.vgrad`
    src/function/constraint.cpp:152-205, 283-301 `::valid(<kind>, x)` (how much `x` violates)    -> `C.valid`
    src/function/constraint.cpp:207-231, 328-336 `::compatible(function, <kind>)`                -> `C.compatible`
    src/function/constraint.cpp:338-345         `nano::is_equality`                              -> `C.isEq`
    src/function/constraint.cpp:347-367         `count_equalities`, `count_inequalities`         -> `countEq`, `countIneq`
    src/function.cpp:58-66                      `function_t::constrain(constraint_t&&)`          -> `constrain`

  A vector is a `List α`, a matrix a list of rows. A functional constraint carries its function as a Lean function
  `List α → α × List α` (value, gradient): the model is parametric in it (the driver supplies the value and gradient
  the implementation's function returned at the point, the theorems quantify over every function).
-/
namespace NanoVerif.Constraint

/-- the alternatives of `std::variant<…> constraint_t`, in the order of the header -/
inductive C (α : Type) where
  /-- `constant_t{value, dimension}`: h(x) = x(dimension) - value = 0 -/
  | constant (value : α) (dim : Nat)
  /-- `minimum_t{value, dimension}`: g(x) = value - x(dimension) <= 0 -/
  | minimum (value : α) (dim : Nat)
  /-- `maximum_t{value, dimension}`: g(x) = x(dimension) - value <= 0 -/
  | maximum (value : α) (dim : Nat)
  /-- `euclidean_ball_equality_t{origin, radius}`: h(x) = ||x - origin||^2 - radius^2 = 0 -/
  | ballEq (origin : List α) (radius : α)
  /-- `euclidean_ball_inequality_t{origin, radius}`: g(x) = ||x - origin||^2 - radius^2 <= 0 -/
  | ballIneq (origin : List α) (radius : α)
  /-- `linear_equality_t{q, r}`: h(x) = q.dot(x) + r = 0 -/
  | linEq (q : List α) (r : α)
  /-- `linear_inequality_t{q, r}`: g(x) = q.dot(x) + r <= 0 -/
  | linIneq (q : List α) (r : α)
  /-- `quadratic_equality_t{P, q, r}`: h(x) = 1/2 x.dot(P x) + q.dot(x) + r = 0 -/
  | quadEq (P : List (List α)) (q : List α) (r : α)
  /-- `quadratic_inequality_t{P, q, r}`: g(x) = 1/2 x.dot(P x) + q.dot(x) + r <= 0 -/
  | quadIneq (P : List (List α)) (q : List α) (r : α)
  /-- `functional_equality_t{function}`: h(x) = function(x) = 0; `size` = `function->size()` -/
  | funEq (size : Nat) (f : List α → α × List α)
  /-- `functional_inequality_t{function}`: g(x) = function(x) <= 0 -/
  | funIneq (size : Nat) (f : List α → α × List α)

/-- `nano::is_equality` (constraint.cpp:338-345) -/
def C.isEq {α} : C α → Bool
  | .constant _ _ => true
  | .ballEq _ _ => true
  | .linEq _ _ => true
  | .quadEq _ _ _ => true
  | .funEq _ _ => true
  | _ => false

/-- `count_equalities(constraints)` -/
def countEq {α} (cs : List (C α)) : Nat := (cs.filter C.isEq).length

/-- `count_inequalities(constraints)` -/
def countIneq {α} (cs : List (C α)) : Nat := (cs.filter (fun c => !c.isEq)).length

section
variable {α : Type} [Add α] [Sub α] [Mul α] [Div α] [Neg α] [LT α] [DecidableLT α]
  [OfNat α 0] [OfNat α 1] [OfNat α 2]

/-- `std::max(a, b)` = `(a < b) ? b : a`; also Eigen's `array().max(b)` on non-NaN values -/
def cmax (a b : α) : α := if a < b then b else a

/-- `std::min(a, b)` = `(b < a) ? b : a`; also Eigen's `array().min(b)` -/
def cmin (a b : α) : α := if b < a then b else a

/-- `std::fabs` (on values; the sign of a zero is not tracked) -/
def absv (x : α) : α := if x < 0 then -x else x

/-- `a.dot(b)` -/
def dot : List α → List α → α
  | a :: as, b :: bs => a * b + dot as bs
  | _, _ => 0

/-- `a - b` (element-wise) -/
def vsub (a b : List α) : List α := List.zipWith (fun x y => x - y) a b

/-- `a + b` (element-wise) -/
def vadd (a b : List α) : List α := List.zipWith (fun x y => x + y) a b

/-- `P * x` (row-major matrix times vector) -/
def matVec (P : List (List α)) (x : List α) : List α := P.map (fun row => dot row x)

/-- `gx.full(0.0)(dimension) = s` -/
def unitVec (n d : Nat) (s : α) : List α := (List.range n).map (fun i => if i = d then s else 0)

/-- `0.5` -/
def half : α := 1 / 2

/-- `::vgrad(const euclidean_ball_t&, x, gx)` (constraint.cpp:66-73) -/
def ballVgrad (origin : List α) (radius : α) (x : List α) : α × List α :=
  let d := vsub x origin
  (dot d d - radius * radius, d.map (fun v => 2 * v))

/-- `::vgrad(const linear_t&, x, gx)` (constraint.cpp:75-82) -/
def linVgrad (q : List α) (r : α) (x : List α) : α × List α := (dot q x + r, q)

/-- `P.transpose() * x` for a matrix given by its rows, `n` columns -/
def matTVec (n : Nat) (P : List (List α)) (x : List α) : List α :=
  (List.range n).map (fun j => dot (P.map (fun row => row.getD j 0)) x)

/-- `::vgrad(const quadratic_t&, x, gx)` (constraint.cpp:84-93, after the repair 78c1895):
    `gx = 0.5 * (P * x + P.transpose() * x) + q` — the gradient of the symmetric part of `P`, so that it is the derivative of the
    value `0.5 * x.dot(P * x) + q.dot(x) + r` also for a non-symmetric `P` -/
def quadVgrad (P : List (List α)) (q : List α) (r : α) (x : List α) : α × List α :=
  let Px := matVec P x
  (half * dot x Px + dot q x + r, vadd ((vadd Px (matTVec x.length P x)).map (fun v => half * v)) q)

/-- `nano::vgrad(const constraint_t&, x, gx)`: value and gradient of the constraint function at `x`
    (constraint.cpp:66-125 dispatched by the `std::visit` of lines 268-281; the box kinds at 95-120) -/
def C.vgrad (c : C α) (x : List α) : α × List α :=
  match c with
  | .constant v d => (x.getD d 0 - v, unitVec x.length d 1)
  | .minimum v d => (v - x.getD d 0, unitVec x.length d (-1))
  | .maximum v d => (x.getD d 0 - v, unitVec x.length d 1)
  | .ballEq o r => ballVgrad o r x
  | .ballIneq o r => ballVgrad o r x
  | .linEq q r => linVgrad q r x
  | .linIneq q r => linVgrad q r x
  | .quadEq P q r => quadVgrad P q r x
  | .quadIneq P q r => quadVgrad P q r x
  | .funEq _ f => f x
  | .funIneq _ f => f x

/-- `nano::valid(const constraint_t&, x)` (constraint.cpp:152-205): the three box kinds are coded directly,
    the others through `::vgrad` -/
def C.valid (c : C α) (x : List α) : α :=
  match c with
  | .constant v d => absv (v - x.getD d 0)
  | .minimum v d => cmax (v - x.getD d 0) 0
  | .maximum v d => cmax (x.getD d 0 - v) 0
  | .ballEq o r => absv (ballVgrad o r x).1
  | .ballIneq o r => cmax (ballVgrad o r x).1 0
  | .linEq q r => absv (linVgrad q r x).1
  | .linIneq q r => cmax (linVgrad q r x).1 0
  | .quadEq P q r => absv (quadVgrad P q r x).1
  | .quadIneq P q r => cmax (quadVgrad P q r x).1 0
  | .funEq _ f => absv (f x).1
  | .funIneq _ f => cmax (f x).1 0

/-- `nano::compatible(constraint, function)` with `n = function.size()` (constraint.cpp:207-231) -/
def C.compatible (n : Nat) : C α → Bool
  | .constant _ d => decide (d < n)
  | .minimum _ d => decide (d < n)
  | .maximum _ d => decide (d < n)
  | .ballEq o r => decide (o.length = n) && decide (0 < r)
  | .ballIneq o r => decide (o.length = n) && decide (0 < r)
  | .linEq q _ => decide (q.length = n)
  | .linIneq q _ => decide (q.length = n)
  | .quadEq P q _ => decide (P.length = n) && P.all (fun row => decide (row.length = n)) && decide (q.length = n)
  | .quadIneq P q _ => decide (P.length = n) && P.all (fun row => decide (row.length = n)) && decide (q.length = n)
  | .funEq size _ => decide (size = n)
  | .funIneq size _ => decide (size = n)

/-- `function_t::constrain(constraint_t&&)` applied to a sequence of constraints: the incompatible ones are
    refused, the others are appended in order (function.cpp:58-66) -/
def constrain (n : Nat) (cs : List (C α)) : List (C α) := cs.filter (C.compatible n)

end
end NanoVerif.Constraint
