/-
  C14 — model of libnano's per-column statistics, feature scaling and the affine up-scaling of linear models
  (core Lean only; generic over the scalar type: run at `Float` in `driver_c14`, proved over an ordered field).

  Mirrors (line numbers of /repo at the time of writing):
    src/dataset/stats.cpp:81-100    ::update(scalar_stats_t&, values)         -> `Acc.push`, `accumulate`
    src/dataset/stats.cpp:102-146   ::done(scalar_stats_t&, enable_scaling)   -> `finalize`
    src/dataset/stats.cpp:253-264   scalar_stats_t::scalar_stats_t(dims)      -> `Acc.init`
    src/dataset/stats.cpp:10-23     ::nan2zero                                -> `nan2zero`
    src/dataset/stats.cpp:357-400   scalar_stats_t::scale                     -> `scaleCell`, `scaleRow`
    src/dataset/stats.cpp:409-443   scalar_stats_t::upscale                   -> `upscaleCell`, `upscaleRow`
    src/dataset/stats.cpp:49-79     ::make_scaling                            -> `makeScaling`
    src/dataset/stats.cpp:211-231   nano::upscale(stats, scaling, stats, scaling, weights, bias) -> `upscaleAffine`
    src/dataset/stats.cpp:266-355   make_flatten_stats / make_targets_stats / make_feature_stats
                                    (accumulate over the selected samples in batches, then `done` with the
                                     per-column enable mask)                  -> `columnStats`
    include/nano/dataset/scaling.h  enum class scaling_type                   -> `Mode`

  A cell of a data matrix is an `Option α`: `none` is a missing value — in C++ a non-finite double (NaN for a
  feature value that was not given, or an infinity), which `update` skips with `std::isfinite` and which `scale`
  maps to 0 through `nan2zero` (a non-finite `x` makes `(x - c) * d` non-finite for every `c`, `d`). The driver
  converts non-finite doubles to `none`.
-/
namespace NanoVerif.Scaling

/-- `std::sqrt` (IEEE at `Float`; a function with `sqrt v * sqrt v = v`, `sqrt v ≥ 0` for `v ≥ 0` in the proofs) -/
class Sqrt (α : Type) where
  sqrt : α → α

instance : Sqrt Float := ⟨Float.sqrt⟩

/-- `std::isfinite` on computed values (overflow at `Float`; always true in exact arithmetic) -/
class FinTest (α : Type) where
  isFin : α → Bool

instance : FinTest Float := ⟨Float.isFinite⟩

/-- `enum class scaling_type : uint8_t { none = 0, mean, minmax, standard }` -/
inductive Mode where
  | none | mean | minmax | standard
deriving DecidableEq, Repr

def Mode.ofNat? : Nat → Option Mode
  | 0 => some .none
  | 1 => some .mean
  | 2 => some .minmax
  | 3 => some .standard
  | _ => Option.none

/-- running sums of one column: `m_samples, m_mean (Σx), m_stdev (Σx²), m_min, m_max` before `done` -/
structure Acc (α : Type) where
  n : Nat
  sum : α
  sum2 : α
  mn : α
  mx : α
deriving Repr

/-- the finalised statistics of one column (`scalar_stats_t` at one index) -/
structure Stats (α : Type) where
  n : Nat
  mn : α
  mx : α
  mean : α
  sd : α
  divRange : α
  mulRange : α
  divSd : α
  mulSd : α
deriving Repr

section
variable {α : Type} [Add α] [Sub α] [Mul α] [Div α] [Neg α] [LT α] [DecidableLT α]
  [OfNat α 0] [OfNat α 1] [NatCast α]

/-- `std::max(a, b)` = `(a < b) ? b : a` (returns `a` when `a` is NaN) -/
def cmax (a b : α) : α := if a < b then b else a

/-- `std::min(a, b)` = `(b < a) ? b : a` -/
def cmin (a b : α) : α := if b < a then b else a

/-- `scalar_stats_t(dims)`: counts and sums 0, `m_min = numeric_limits::max()`, `m_max = numeric_limits::lowest()` -/
def Acc.init (hi lo : α) : Acc α := ⟨0, 0, 0, hi, lo⟩

/-- body of the loop of `::update`: a finite value is counted, a missing one is skipped -/
def Acc.push (a : Acc α) : Option α → Acc α
  | Option.none => a
  | some v => ⟨a.n + 1, a.sum + v, a.sum2 + v * v, cmin a.mn v, cmax a.mx v⟩

/-- `::update` over all (selected) samples of one column, in sample order (batching does not change the order) -/
def accumulate (hi lo : α) (xs : List (Option α)) : Acc α := xs.foldl Acc.push (Acc.init hi lo)

/-- the unbiased variance before the clamp: `(Σx² − (Σx)²/N) / (N − 1)` -/
def rawVar (a : Acc α) : α :=
  (a.sum2 - a.sum * a.sum / (a.n : α)) / ((a.n : α) - 1)

/-- `::done` for one column; `enabled = false` ⇔ `enable_scaling(i) == 0x00` (categorical column) -/
def finalize [Sqrt α] (eps : α) (enabled : Bool) (a : Acc α) : Stats α :=
  let s : Stats α :=
    if a.n > 1 then
      let sd := Sqrt.sqrt (cmax (rawVar a) 0)
      let mean := a.sum / (a.n : α)
      let r := cmax (a.mx - a.mn) eps
      let d := cmax sd eps
      ⟨a.n, a.mn, a.mx, mean, sd, 1 / r, r, 1 / d, d⟩
    else if a.n = 0 then ⟨a.n, 0, 0, 0, 0, 1, 1, 1, 1⟩
    else ⟨a.n, a.mn, a.mx, a.sum, 0, 1, 1, 1, 1⟩
  if enabled then s else ⟨a.n, 0, 0, 0, 0, 1, 1, 1, 1⟩

/-- `make_*_stats` restricted to one column -/
def columnStats [Sqrt α] (hi lo eps : α) (enabled : Bool) (xs : List (Option α)) : Stats α :=
  finalize eps enabled (accumulate hi lo xs)

/-- `::nan2zero` on one value -/
def nan2zero [FinTest α] (y : α) : α := if FinTest.isFin y then y else 0

/-- `scalar_stats_t::scale` on one cell -/
def scaleCell [FinTest α] (m : Mode) (s : Stats α) : Option α → α
  | Option.none => 0
  | some x =>
    match m with
    | .none => nan2zero x
    | .mean => nan2zero ((x - s.mean) * s.divRange)
    | .minmax => nan2zero ((x - s.mn) * s.divRange)
    | .standard => nan2zero ((x - s.mean) * s.divSd)

/-- `scalar_stats_t::upscale` on one cell -/
def upscaleCell (m : Mode) (s : Stats α) (y : α) : α :=
  match m with
  | .none => y
  | .mean => s.mean + y * s.mulRange
  | .minmax => s.mn + y * s.mulRange
  | .standard => s.mean + y * s.mulSd

/-- one sample (`values.array(sample)`); `none` where `assert(values.size<1>() == m_min.size())` fails -/
def scaleRow [FinTest α] (m : Mode) (ss : List (Stats α)) (xs : List (Option α)) : Option (List α) :=
  if ss.length = xs.length then some (List.zipWith (scaleCell m) ss xs) else Option.none

def upscaleRow (m : Mode) (ss : List (Stats α)) (ys : List α) : Option (List α) :=
  if ss.length = ys.length then some (List.zipWith (upscaleCell m) ss ys) else Option.none

/-- `::make_scaling`: the per-column affine map `x ↦ w·x + b` that `scale` applies to a finite value -/
def makeScaling (m : Mode) (s : Stats α) : α × α :=
  match m with
  | .none => (1, 0)
  | .mean => (s.divRange, -s.mean * s.divRange)
  | .minmax => (s.divRange, -s.mn * s.divRange)
  | .standard => (s.divSd, -s.mean * s.divSd)

/-- inner product (`weights.matrix() * flatten_b.vector()`, one row) -/
def dot : List α → List α → α
  | a :: as, b :: bs => a * b + dot as bs
  | _, _ => 0

/-- one row of `nano::upscale`: `b' = ((W_i · fb) + b_i − tb_i) / tw_i`, `W'_ij = (W_ij / tw_i) * fw_j` -/
def upscaleAffineRow (fw fb : List α) (tw tb : α) (w : List α) (b : α) : List α × α :=
  (List.zipWith (fun wij fwj => wij / tw * fwj) w fw, (dot w fb + b - tb) / tw)

def zip3With {β γ δ ε : Type} (f : β → γ → δ → ε) : List β → List γ → List δ → List ε
  | a :: as, b :: bs, c :: cs => f a b c :: zip3With f as bs cs
  | _, _, _ => []

/-- `nano::upscale(flatten_stats, flatten_scaling, targets_stats, targets_scaling, weights, bias)`;
    `none` exactly where one of the three `assert`s on the sizes fails -/
def upscaleAffine (fm : Mode) (fs : List (Stats α)) (tm : Mode) (ts : List (Stats α))
    (W : List (List α)) (b : List α) : Option (List (List α) × List α) :=
  if b.length = ts.length ∧ W.length = ts.length ∧ W.all (fun r => r.length = fs.length) then
    let f := fs.map (makeScaling fm)
    let fw := f.map Prod.fst
    let fb := f.map Prod.snd
    let rows := zip3With (fun (t : Stats α) w bi =>
      upscaleAffineRow fw fb (makeScaling tm t).1 (makeScaling tm t).2 w bi) ts W b
    some (rows.map Prod.fst, rows.map Prod.snd)
  else Option.none

/-- prediction of a linear model on one input row: `W x + b` -/
def predict (W : List (List α)) (b : List α) (x : List α) : List α :=
  List.zipWith (fun w bi => dot w x + bi) W b

end

end NanoVerif.Scaling
