import NanoVerif.Model.Wire
/-!
  C15 — the readers of `include/nano/core/stream.h` and `include/nano/tensor/stream.h` AS CODED: an input stream with a
  sticky failure state, loops, early returns, `||` chains, `critical(...)` (core Lean only).

  `Model/Codec.lean` renders a reader as a function `Bytes → Option (value × rest)`. That hides how the C++ code gets
  there: `std::istream::read` on a stream that already failed is a no-op, a short read consumes what is there and sets
  `eofbit | failbit`, the string reader resizes first and then reads character by character without looking at the
  stream state, the vector reader returns from the middle of its loop, the factory reader looks the (possibly garbage)
  id up even after the id could not be read, the tensor reader reads all five header fields before it compares any.
  `Proofs/CodecStream.lean` proves that each of these procedures implements the corresponding codec (`Impl`):
  same value and same rest on success, failed stream state or exception exactly when the codec answers `none`.
-/
namespace NanoVerif.Codec.Stream
open NanoVerif.Codec NanoVerif.Gen.CodecConsts

/-- `std::istream` over a byte string: the unread bytes and `static_cast<bool>(stream)` (no failbit / badbit). A stream
    with `eofbit` alone does not occur: `read` sets `eofbit` only together with `failbit`. -/
structure IStream where
  buf : Bytes
  ok : Bool
  deriving Repr, DecidableEq, Inhabited

/-- outcome of a procedure: the value it left in its destination and the stream, or an exception (`critical`) -/
inductive Res (α : Type)
  | val (x : α) (s : IStream)
  | throw
  deriving Repr, DecidableEq

/-- "exception or failed stream state" -/
def Res.failed {α : Type} : Res α → Bool
  | .val _ s => !s.ok
  | .throw => true

abbrev Reader (α : Type) := IStream → Res α

def ret {α : Type} (x : α) : Reader α := fun s => .val x s

/-- statement sequencing; an exception propagates -/
def bind {α β : Type} (a : Reader α) (f : α → Reader β) : Reader β := fun s =>
  match a s with
  | .throw => .throw
  | .val x s' => f x s'

/-- `!a || !b`: `b` is not evaluated once the stream has failed (its destination keeps the initial value) -/
def bindOk {α β : Type} [Inhabited β] (a : Reader α) (f : α → Reader β) : Reader β := fun s =>
  match a s with
  | .throw => .throw
  | .val x s' => if s'.ok then f x s' else .val default s'

/-- `stream.setstate(std::ios_base::failbit)` -/
def setFail (s : IStream) : IStream := ⟨s.buf, false⟩

/-- `critical(cond, …)` where `cond` is "the stream failed": throws -/
def critical {α : Type} (r : Reader α) : Reader α := fun s =>
  match r s with
  | .throw => .throw
  | .val x s' => if s'.ok then .val x s' else .throw

/-- `stream.read(ptr, n)` (stream.h:90-107): nothing happens on a failed stream (the sentry fails); with fewer than `n`
    bytes left, what is there is consumed and `eofbit | failbit` are set; the value is the bytes that were stored -/
def rdRaw (n : Nat) : Reader Bytes := fun s =>
  if s.ok then
    match takeN n s.buf with
    | some (x, r) => .val x ⟨r, true⟩
    | none => .val s.buf ⟨[], false⟩
  else .val [] s

/-- a little-endian unsigned scalar of `k` bytes; the destination keeps garbage (here: the partial bytes) on failure -/
def rdUInt (k : Nat) : Reader Nat := bind (rdRaw k) (fun b => ret (leNat b))

/-- a signed scalar -/
def rdInt (k : Nat) : Reader Int := bind (rdUInt k) (fun u => ret (toSigned k u))

/-- `read(stream, std::string&)` (stream.h:130-144):
    `if (!read(stream, size)) return stream; string.resize(size); for (char& c : string) read(stream, c);`
    — the loop does not look at the stream state: after the first failing `read` the remaining characters keep the
    `'\0'` of `resize` -/
def rdChars : Nat → Reader Bytes
  | 0 => ret []
  | n + 1 => bind (rdRaw 1) (fun b => bind (rdChars n) (fun cs => ret (b.headD 0 :: cs)))

/-- once the stream has failed the remaining iterations of the character loop do nothing: the characters keep `'\0'` -/
theorem rdChars_on_failed : ∀ (n : Nat) (buf : Bytes),
    rdChars n ⟨buf, false⟩ = .val (List.replicate n 0) ⟨buf, false⟩
  | 0, _ => rfl
  | n + 1, buf => by
    simp [rdChars, bind, rdRaw, rdChars_on_failed n buf, ret, List.replicate]

/-- the same loop, with the iterations on a failed stream summarised (run time only: a corrupted length field makes the
    code spin through up to 2^32 no-op reads; the compiled driver must not recurse that deep) -/
def rdCharsFast : Nat → Reader Bytes
  | 0 => ret []
  | n + 1 => fun s =>
    if s.ok then bind (rdRaw 1) (fun b => bind (rdCharsFast n) (fun cs => ret (b.headD 0 :: cs))) s
    else .val (List.replicate (n + 1) 0) s

theorem rdChars_eq_fast_apply : ∀ (n : Nat) (s : IStream), rdChars n s = rdCharsFast n s
  | 0, _ => rfl
  | n + 1, s => by
    have ih : rdChars n = rdCharsFast n := funext (rdChars_eq_fast_apply n)
    obtain ⟨buf, ok⟩ := s
    cases ok with
    | true => simp [rdChars, rdCharsFast, ih]
    | false => simp [rdCharsFast, rdChars_on_failed]

@[csimp] theorem rdChars_eq_fast : @rdChars = @rdCharsFast := by
  funext n s; exact rdChars_eq_fast_apply n s

def rdString : Reader Bytes := fun s =>
  match rdUInt 4 s with
  | .throw => .throw
  | .val size s1 => if s1.ok then rdChars size s1 else .val [] s1

/-- the loop of `read(stream, std::vector<T>&)` (stream.h:189-197): `if (!read(stream, value)) return stream;` -/
def rdElems {α : Type} (R : Reader α) : Nat → Reader (List α)
  | 0 => ret []
  | n + 1 => fun s =>
    match R s with
    | .throw => .throw
    | .val x s1 =>
      if s1.ok then
        match rdElems R n s1 with
        | .throw => .throw
        | .val xs s2 => .val (x :: xs) s2
      else .val [x] s1

/-- `read(stream, std::vector<T>&)` (stream.h:180-198) -/
def rdVec {α : Type} (R : Reader α) : Reader (List α) := fun s =>
  match rdUInt 8 s with
  | .throw => .throw
  | .val size s1 => if s1.ok then rdElems R size s1 else .val [] s1

/-- `read(stream, std::unique_ptr<T>&)` (stream.h:158-175): the id is looked up even when it could not be read
    (then it is empty or padded with `'\0'`), and an object that is found reads from the failed stream -/
def rdFactory {β : Type} [Inhabited β] (ids : List Bytes) (B : Reader β) : Reader (Bytes × β) := fun s =>
  match rdString s with
  | .throw => .throw
  | .val id s1 =>
    let s2 := if s1.ok then s1 else setFail s1
    if id ∈ ids then
      match B s2 with
      | .throw => .throw
      | .val y s3 => .val (id, y) s3
    else .val (id, default) (setFail s2)

/-- `read_cast<int32_t>(stream, dims.data(), trank)` (stream.h:119-128): a loop without exit -/
def rdDims : Nat → Reader (List Int)
  | 0 => ret []
  | n + 1 => bind (rdInt 4) (fun d => bind (rdDims n) (fun ds => ret (d :: ds)))

/-- the `||` chain of tensor/stream.h:38-42: version, rank, dimensions, sizeof(scalar), hash; a read is skipped once the
    stream has failed (written in nested form: `x ← a; y ← rest; (x, y)`) -/
def rdTensorHeader (rank : Nat) : Reader (Nat × Nat × List Int × Nat × Nat) :=
  bindOk (rdUInt 4) (fun v => bind
    (bindOk (rdUInt 4) (fun r => bind
      (bindOk (rdDims rank) (fun ds => bind
        (bindOk (rdUInt 4) (fun sc => bind (rdUInt 8) (fun h => ret (sc, h))))
        (fun y => ret (ds, y))))
      (fun y => ret (r, y))))
    (fun y => ret (v, y)))

/-- `read(stream, tensor_t&)` (tensor/stream.h:30-58): the five header fields are read in a `||` chain, then compared;
    `tensor.resize(dims)`; the content is read (`istream::read` with a negative count fails) and hashed -/
def rdTensor (k : Scalar) (rank : Nat) : Reader Tensor := fun s =>
  match rdTensorHeader rank s with
  | .throw => .throw
  | .val (v, r, ds, sc, h) s1 =>
    if !s1.ok || v != hashVersion || r != rank || sc != k.size then .val ⟨ds, []⟩ (setFail s1)
    else
      let content : Res Bytes :=
        if dimsSize ds < 0 then .val [] (setFail s1) else rdRaw ((dimsSize ds).toNat * k.size) s1
      match content with
      | .throw => .throw
      | .val pl s2 =>
        if !s2.ok || h != (hashPayload k (dimsSize ds).toNat pl).toNat then .val ⟨ds, pl⟩ (setFail s2)
        else .val ⟨ds, pl⟩ s2

/-- the first `critical` of `configurable_t::read` (configurable.cpp:60-62): the version triple in a `||` chain -/
def rdVersion : Reader Version :=
  critical (bindOk (rdInt 4) (fun a => bind
    (bindOk (rdInt 4) (fun b => bind (rdInt 4) (fun c => ret (b, c))))
    (fun y => ret (a, y))))

/-- `critical(<condition on a value that was read>, …)`: keep the accepted value or throw -/
def criticalUnless {α β : Type} (f : α → Option β) : α → Reader β := fun x s =>
  match f x with
  | some y => .val y s
  | none => .throw

/-- `configurable_t::read` (configurable.cpp:58-73), three `critical`s in a row: the version triple was read; it is not
    newer than the library; the parameter vector was read -/
def rdConfigurable (P : Reader Parameter) : Reader Configurable :=
  bind
    (bind (bind rdVersion (criticalUnless (fun v => if versionOk v then some v else none)))
      (fun v => bind (critical (rdVec P)) (fun ps => ret (v, ps))))
    (fun p => ret ⟨p.1, p.2⟩)

/-- `learner_t::read` (learner.cpp:30-38): `configurable_t::read(stream); critical(!read(m_inputs) || !read(m_target))` -/
def rdLearner (P : Reader Parameter) (F : Reader Feature) : Reader Learner :=
  bind
    (bind (rdConfigurable P) (fun c => bind
      (critical (bindOk (rdVec F) (fun ins => bind F (fun t => ret (ins, t)))))
      (fun y => ret (c, y))))
    (fun p => ret ⟨p.1, p.2.1, p.2.2⟩)

/-- `linear_t::read` (linear.cpp:58-67): learner, `critical(!read(m_bias) || !read(m_weights))`,
    `critical(m_bias.size() != m_weights.rows())` -/
def rdLinear (P : Reader Parameter) (F : Reader Feature) : Reader Linear :=
  bind
    (bind (rdLearner P F) (fun l => bind
      (critical (bindOk (rdTensor .f64 1) (fun b => bind (rdTensor .f64 2) (fun w => ret (b, w)))))
      (fun y => ret (l, y))))
    (criticalUnless (fun p => if linearOk p.2.1 p.2.2 then some ⟨p.1, p.2.1, p.2.2⟩ else none))

/-- `gboost_model_t::read` (gboost/model.cpp:265-273): learner, `critical(!read(m_bias) || !read(m_wlearners) ||
    !read(m_prototypes))`; `W` reads one `rwlearner_t` (the factory reader over the weak learners) -/
def rdGBoost (P : Reader Parameter) (F : Reader Feature) (W : Reader WLearner) : Reader GBoost :=
  bind
    (bind (rdLearner P F) (fun l => bind
      (critical (bindOk (rdTensor .f64 1) (fun b => bind
        (bindOk (rdVec W) (fun ws => bind (rdVec W) (fun ps => ret (ws, ps))))
        (fun y => ret (b, y)))))
      (fun y => ret (l, y))))
    (fun p => ret ⟨p.1, p.2.1, p.2.2.1, p.2.2.2⟩)

end NanoVerif.Codec.Stream
