import NanoVerif.Model.LSearch
import NanoVerif.Gen.LsStep
/-!
  C07 — the interpolation formulas of `lsearch_step_t` as RE-TRANSLATED from src/solver/lstep.cpp (`Gen/LsStep.lean`), in the shape
  the line-search model consumes them (`Step` records, the `Sqrt` class, the model's `Interp`). Core Lean only.

  `Model/LSearch.lean` keeps its own text of `quadratic`, `secant`, `bisection`, `cubic`, `interpolate` (they are used inside `dcstep`
  and CG_DESCENT's loop, and C01 composes with that file); `Proofs/LSearchStepGen.lean: model_lstep_is_generated` proves, for every scalar
  type with the core classes (so also at `Float`), that each of them IS the generated definition (`rfl`): an edit of a formula in the C++
  source changes `Gen/LsStep.lean`, that theorem no longer closes, and the theorems stated over the generated definitions are re-checked
  against the new text. The driver builds its configuration (`Cfg.cubic`, `Cfg.interp`) from the generated definitions below.
-/
namespace NanoVerif.LSearch
open NanoVerif.Gen

/-- the model's `interpolation_type` ↦ the generated enumeration -/
def Interp.toGen : Interp → LsStep.InterpolationType
  | .bisection => .bisection
  | .quadratic => .quadratic
  | .cubic => .cubic

section
variable {α : Type} [Add α] [Sub α] [Mul α] [Div α] [Neg α] [LT α] [LE α] [DecidableLT α] [DecidableLE α] [∀ n, OfNat α n]

/-- generated `lsearch_step_t::quadratic` on two step records -/
def genQuadratic (u v : Step α) : α := LsStep.quadratic u.t u.f u.g v.t v.f v.g
/-- generated `*convexity` of `lsearch_step_t::quadratic` -/
def genQuadraticConvexity (u v : Step α) : Bool := LsStep.quadraticConvexity u.t u.f u.g v.t v.f v.g
/-- generated `lsearch_step_t::secant` -/
def genSecant (u v : Step α) : α := LsStep.secant u.t u.f u.g v.t v.f v.g
/-- generated `lsearch_step_t::bisection` -/
def genBisection (u v : Step α) : α := LsStep.bisection u.t u.f u.g v.t v.f v.g

variable [Sqrt α]
/-- generated `lsearch_step_t::cubic`, `std::sqrt` = the `Sqrt` instance -/
def genCubic (u v : Step α) : α := LsStep.cubic Sqrt.sqrt u.t u.f u.g v.t v.f v.g
/-- generated `lsearch_step_t::interpolate` -/
def genInterpolate (fin : α → Bool) (mode : Interp) (u v : Step α) : α :=
  LsStep.interpolate fin Sqrt.sqrt u.t u.f u.g v.t v.f v.g mode.toGen
end

end NanoVerif.LSearch
