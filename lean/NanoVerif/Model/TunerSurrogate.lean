import NanoVerif.Model.Tuner
import NanoVerif.Model.Tune
/-
  C13 — model of the parameter spaces and of the quadratic surrogate of the surrogate tuner (core Lean only).

  Mirrors:
    include/nano/tuner/space.h, src/tuner/space.cpp   param_space_t: constructor guards, to_surrogate, from_surrogate,
                                                      closest_grid_point_from_surrogate, closest_grid_value_from_surrogate
    include/nano/tuner/surrogate.h, src/tuner/surrogate.cpp
        quadratic_surrogate_fit_t   feature map p ↦ (1, p_i, p_i p_j (i ≤ j)) (:21-38), value and gradient of the
                                    least-squares objective with the `mse` loss (:46-62)
        quadratic_surrogate_t       value and gradient of the fitted quadratic (:80-117), dimension from the model size (:66)
        surrogate_tuner_t::do_optimize (:133-190)   what is handed to the two solver runs and how the proposed centre is
                                    derived from the minimiser: per coordinate the closest grid point in surrogate
                                    coordinates. The two L-BFGS runs themselves are the ORACLE `Solver`.

  The scalar type `α` is generic (`Float` in the driver, an ordered field / ℝ in the theorems).
-/
namespace NanoVerif.Tuner

/-- `std::log10` and `std::pow(10.0, ·)` (space.cpp:55,65) -/
class Log10 (α : Type) where
  log10 : α → α
  pow10 : α → α

instance : Log10 Float := ⟨Float.log10, fun v => Float.pow 10.0 v⟩

section
variable {α : Type} [Add α] [Sub α] [Mul α] [Div α] [Neg α] [LT α] [DecidableLT α] [BEq α]
  [OfNat α 0] [OfNat α 1] [OfNat α 2]

/-! ### parameter spaces -/

inductive SpaceKind where
  | log10
  | linear
deriving DecidableEq, Repr

/-- `param_space_t` without its name -/
structure Space (α : Type) where
  kind : SpaceKind
  /-- `m_grid_values` -/
  grid : List α
  /-- `m_min`, `m_max` -/
  mn : α
  mx : α

/-- `*std::min_element(begin, end)`: the first smallest (space.cpp:10-14) -/
def minElem : List α → Option α
  | [] => none
  | a :: rest => some (rest.foldl (fun m v => if v < m then v else m) a)

/-- `*std::max_element(begin, end)`: the first largest (space.cpp:16-20) -/
def maxElem : List α → Option α
  | [] => none
  | a :: rest => some (rest.foldl (fun m v => if m < v then v else m) a)

/-- `std::is_sorted`: no element smaller than its predecessor -/
def isSortedL : List α → Bool
  | a :: b :: rest => !(decide (b < a)) && isSortedL (b :: rest)
  | _ => true

/-- `std::unique(…) != end`: two neighbours compare equal -/
def hasAdjEq : List α → Bool
  | a :: b :: rest => (a == b) || hasAdjEq (b :: rest)
  | _ => false

/-- the constructor (space.cpp:23-43): `none` where one of its four `critical`s throws. `eps` is
    `std::numeric_limits<scalar_t>::epsilon()` -/
def Space.make? (eps : α) (kind : SpaceKind) (grid : List α) : Option (Space α) :=
  match minElem grid, maxElem grid with
  | some mn, some mx =>
    if grid.length < 2 then none
    else if !(isSortedL grid) then none
    else if hasAdjEq grid then none
    else if kind == .log10 && decide (mn < eps) then none
    else some ⟨kind, grid, mn, mx⟩
  | _, _ => none

/-- `to_surrogate(value)` (space.cpp:45-57): `none` = the `critical` for a value outside `[m_min, m_max]` -/
def Space.toSurrogate [Log10 α] (s : Space α) (v : α) : Option α :=
  if v < s.mn ∨ s.mx < v then none
  else some (match s.kind with
    | .linear => (v - s.mn) / (s.mx - s.mn)
    | .log10 => Log10.log10 v)

/-- `std::clamp(v, lo, hi)` -/
def clamp (v lo hi : α) : α := if v < lo then lo else if hi < v then hi else v

/-- `from_surrogate(value)` (space.cpp:59-67) -/
def Space.fromSurrogate [Log10 α] (s : Space α) (v : α) : α :=
  match s.kind with
  | .linear => clamp (s.mn + v * (s.mx - s.mn)) s.mn s.mx
  | .log10 => clamp (Log10.pow10 v) s.mn s.mx

/-- `std::fabs` -/
def fabs (x : α) : α := if x < 0 then -x else x

/-- the grid in surrogate coordinates: `to_surrogate(m_grid_values(point))` for every point -/
def Space.sgrid [Log10 α] (s : Space α) : Option (List α) := s.grid.mapM s.toSurrogate

/-- the scan of `closest_grid_point_from_surrogate` (space.cpp:74-88) over the grid in surrogate coordinates: the first
    point whose distance to `v` improves strictly on everything before it, starting from `top` = `DBL_MAX`, point 0 when
    there is none -/
def closestScan (top : α) (sg : List α) (v : α) : Nat :=
  Tune.argminScan top (sg.map fun g => fabs (v - g))

/-- `closest_grid_point_from_surrogate(value)` -/
def Space.closestGridPoint [Log10 α] (top : α) (s : Space α) (v : α) : Option Nat :=
  s.sgrid.map fun sg => closestScan top sg v

/-- `closest_grid_value_from_surrogate(value)` (space.cpp:69-72) -/
def Space.closestGridValue [Log10 α] (top : α) (s : Space α) (v : α) : Option α :=
  (s.closestGridPoint top v).bind fun k => s.grid[k]?

/-- the loop of surrogate.cpp:178-183: per coordinate the closest grid point of the minimiser of the surrogate
    (`none`: sizes differ — the C++ code would index out of range — or a `critical`) -/
def centreOf [Log10 α] (top : α) : List (Space α) → List α → Option IGrid
  | [], [] => some []
  | s :: spaces, v :: x =>
    match s.closestGridPoint top v, centreOf top spaces x with
    | some k, some rest => some (Int.ofNat k :: rest)
    | _, _ => none
  | _, _ => none

/-- the lambda `to_surrogate(values)` of surrogate.cpp:146-154 -/
def toSurrogateVec [Log10 α] : List (Space α) → List α → Option (List α)
  | [], [] => some []
  | s :: spaces, v :: vals =>
    match s.toSurrogate v, toSurrogateVec spaces vals with
    | some a, some rest => some (a :: rest)
    | _, _ => none
  | _, _ => none

/-! ### the quadratic feature map and the two functions handed to the solver -/

def sdot : List α → List α → α
  | a :: as, b :: bs => a * b + sdot as bs
  | _, _ => 0

def at0 (x : List α) (i : Nat) : α := x.getD i 0

/-- the index pairs `(i, j)`, `i ≤ j < n`, in the order of the double loops (surrogate.cpp:31-37, 96-103, 112-118) -/
def pairIdx (n : Nat) : List (Nat × Nat) :=
  (List.range n).flatMap fun i => (List.range' i (n - i)).map fun j => (i, j)

/-- one row of `m_p2` (surrogate.cpp:23-38): `1, p_0 … p_{n-1}, p_i p_j (i ≤ j)` -/
def quadTerms (p : List α) : List α :=
  1 :: (p ++ (pairIdx p.length).map fun ij => at0 p ij.1 * at0 p ij.2)

/-- number of coefficients of a quadratic in `n` variables: `(n + 1) (n + 2) / 2` (surrogate.cpp:9) -/
def quadLen (n : Nat) : Nat := (n + 1) * (n + 2) / 2

/-- `static_cast<tensor_size_t>(std::sqrt(2 * model.size())) - 1` (surrogate.cpp:66) -/
def quadDim (size : Nat) : Nat := Nat.sqrt (2 * size) - 1

/-- `quadratic_surrogate_fit_t::do_vgrad` with the `mse` loss, the value (surrogate.cpp:46-62; loss/flatten.h:323-326:
    `0.5 * (output - target).square().sum()` per sample): `Σ_s ½ (m_p2(s) · x − y_s)²` -/
def fitValue : List (List α) → List α → List α → α
  | row :: rows, t :: ts, x => 1 / 2 * ((sdot row x - t) * (sdot row x - t)) + fitValue rows ts x
  | _, _, _ => 0

def vadd2 : List α → List α → List α
  | a :: as, b :: bs => (a + b) :: vadd2 as bs
  | _, _ => []

def smul2 (c : α) : List α → List α
  | [] => []
  | a :: as => (c * a) :: smul2 c as

/-- … the gradient: `m_p2ᵀ (m_p2 x − y)` (`vgrad = output - target`, flatten.h:329-332) -/
def fitGrad : List (List α) → List α → List α → List α
  | row :: rows, t :: ts, x => vadd2 (smul2 (sdot row x - t) row) (fitGrad rows ts x)
  | _, _, x => x.map fun _ => 0

/-- the curvature of the fit objective along `d`: `Σ_s ½ (m_p2(s) · d)²` -/
def fitCurv : List (List α) → List α → List α → α
  | row :: rows, _ :: ts, d => 1 / 2 * (sdot row d * sdot row d) + fitCurv rows ts d
  | _, _, _ => 0

/-- `g(i) += c` -/
def addAt : List α → Nat → α → List α
  | [], _, _ => []
  | g :: gs, 0, c => (g + c) :: gs
  | g :: gs, i + 1, c => g :: addAt gs i c

/-- the coefficients of the products paired with their index pairs: `(m(k), i, j)` in loop order -/
def qterms (quad : List α) (n : Nat) : List (α × Nat × Nat) :=
  List.zipWith (fun q ij => (q, ij.1, ij.2)) quad (pairIdx n)

/-- `fx += m_model(k++) * x(i) * x(j)` over the given terms (surrogate.cpp:112-118) -/
def quadValueGo (x : List α) (terms : List (α × Nat × Nat)) (fx : α) : α :=
  terms.foldl (fun fx t => fx + t.1 * at0 x t.2.1 * at0 x t.2.2) fx

/-- `gx(i) += m_model(k) * x(j); gx(j) += m_model(k++) * x(i)` over the given terms (surrogate.cpp:96-103) -/
def quadGradGo (x : List α) (terms : List (α × Nat × Nat)) (g : List α) : List α :=
  terms.foldl (fun g t => addAt (addAt g t.2.1 (t.1 * at0 x t.2.2)) t.2.2 (t.1 * at0 x t.2.1)) g

/-- `quadratic_surrogate_t::do_vgrad`, the value (surrogate.cpp:106-119), same order of operations -/
def quadValue (m x : List α) : α :=
  let n := x.length
  let lin := (m.drop 1).take n
  let fx1 := (List.zipWith (fun c xi => c * xi) lin x).foldl (fun fx t => fx + t) (m.getD 0 0)
  quadValueGo x (qterms (m.drop (1 + n)) n) fx1

/-- … the gradient (surrogate.cpp:82-104), same order of operations -/
def quadGrad (m x : List α) : List α :=
  let n := x.length
  let lin := (m.drop 1).take n
  quadGradGo x (qterms (m.drop (1 + n)) n) (List.zipWith (fun (_ : α) c => 0 + c) x lin)

/-- the second-order term of the surrogate along `d`: `Σ m(k) d_i d_j` -/
def quadCurv (m d : List α) : α :=
  quadValueGo d (qterms (m.drop (1 + d.length)) d.length) 0

/-- the constructor of `quadratic_surrogate_t` (surrogate.cpp:65-74): the dimension, `none` where an `assert` fails -/
def quadSize? (m : List α) : Option Nat :=
  let n := quadDim m.length
  if 0 < n ∧ m.length = quadLen n then some n else none

/-! ### the surrogate tuner's proposal -/

/-- the two `solver->minimize` calls of surrogate.cpp:170-176 — the ORACLE: `fit p2 y` = `min_state_fit.x()` for the
    fit objective with rows `p2` and targets `y`, started at 0; `opt m x0` = `min_state_opt.x()` for the quadratic with
    coefficients `m`, started at `x0`; `none` = the returned state is not valid (`critical`) -/
structure Solver (α : Type) where
  fit : List (List α) → List α → Option (List α)
  opt : List α → List α → Option (List α)

/-- what surrogate.cpp:159-167 builds from the steps: the surrogate coordinates of every evaluated point and its value -/
def fitData [Log10 α] (spaces : List (Space α)) (steps : List (Step α)) : Option (List (List α) × List α) :=
  (steps.mapM fun s => (mapToGrid (spaces.map (·.grid)) s.igrid).bind (toSurrogateVec spaces)).map fun ps =>
    (ps, steps.map (·.value))

/-- one iteration of the loop of `surrogate_tuner_t::do_optimize` up to `local_search` (surrogate.cpp:159-183): fit,
    minimise starting at the best step, map the minimiser to the closest grid point -/
def surrogateCentre [Log10 α] (top : α) (spaces : List (Space α)) (solver : Solver α) (steps : List (Step α)) :
    Option IGrid :=
  match fitData spaces steps with
  | some (x0 :: ps, ys) =>
    match solver.fit ((x0 :: ps).map quadTerms) ys with
    | some m =>
      match solver.opt m x0 with
      | some x => centreOf top spaces x
      | none => none
    | none => none
  | _ => none

end

end NanoVerif.Tuner
