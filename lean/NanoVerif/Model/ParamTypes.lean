/-
  C19 — the data of `parameter_t` (core Lean only). Imported by the generated `Gen/ParamCheck.lean`
  and by `Model/Parameter.lean`.

  Mirrors include/nano/parameter.h:
    LEorLT                         (l.28)      → `Cmp`
    parameter_t::enum_t            (l.48-52)   → `EnumP`
    parameter_t::range_t<T>        (l.54-68)   → `Range β`      (β = Int for irange_t, the scalar type for frange_t)
    parameter_t::pair_range_t<T>   (l.70-86)   → `PRange β`
  and include/nano/core/numeric.h:115 `nano::isfinite` → `IsFinite`.
  Field names are the C++ member names without the `m_` prefix (the translator relies on that).

  The *declared domain* of a parameter (the specification the theorems are about; written from the doc comments
  of `make_scalar`/`make_integer`/`make_scalar_pair`/`make_integer_pair`: `min LE/LT value LE/LT max`,
  `min LE/LT value1 LE/LT value2 LE/LT max`, and of `make_enum`: one of the enumeration's names) is
  `Range.InDomain`, `PRange.InDomain`, `EnumP.InDomain` below. It is written independently of the guards of
  `src/parameter.cpp`, which are regenerated into `Gen/ParamCheck.lean`.
-/
namespace NanoVerif.Param

/-- `LEorLT = std::variant<LE_t, LT_t>` -/
inductive Cmp where
  | le
  | lt
deriving DecidableEq, Repr

/-- `std::holds_alternative<LE_t>(lelt)` -/
def Cmp.isLE : Cmp → Bool
  | .le => true
  | .lt => false

/-- the exceptions the code under test throws: `critical` = `std::runtime_error` of `nano::critical`,
    the other two come from `std::stoll` / `std::stod` -/
inductive Err where
  | critical
  | invalidArgument
  | outOfRange
deriving DecidableEq, Repr

/-- `nano::isfinite`: `std::isfinite` for floating point types, constant `true` for integral types -/
class IsFinite (β : Type) where
  isFinite : β → Bool

instance : IsFinite Int := ⟨fun _ => true⟩

structure EnumP where
  value : String
  domain : List String
deriving DecidableEq, Repr

structure Range (β : Type) where
  value : β
  min : β
  max : β
  mincomp : Cmp
  maxcomp : Cmp
deriving DecidableEq, Repr

structure PRange (β : Type) where
  value1 : β
  value2 : β
  min : β
  max : β
  mincomp : Cmp
  valcomp : Cmp
  maxcomp : Cmp
deriving DecidableEq, Repr

/-! ### the declared domain (specification) -/

/-- `a LE b` is `a ≤ b`, `a LT b` is `a < b` -/
def Cmp.Rel {β : Type} [LT β] [LE β] : Cmp → β → β → Prop
  | .le, a, b => a ≤ b
  | .lt, a, b => a < b

instance {β : Type} [LT β] [LE β] [DecidableLT β] [DecidableLE β] (c : Cmp) (a b : β) : Decidable (c.Rel a b) := by
  cases c <;> simp only [Cmp.Rel] <;> infer_instance

/-- `min LE/LT value LE/LT max`, the value being a finite number -/
def Range.InDomain {β : Type} [LT β] [LE β] [IsFinite β] (r : Range β) : Prop :=
  IsFinite.isFinite r.value = true ∧ r.mincomp.Rel r.min r.value ∧ r.maxcomp.Rel r.value r.max

/-- `min LE/LT value1 LE/LT value2 LE/LT max`, both values being finite numbers -/
def PRange.InDomain {β : Type} [LT β] [LE β] [IsFinite β] (r : PRange β) : Prop :=
  IsFinite.isFinite r.value1 = true ∧ IsFinite.isFinite r.value2 = true ∧
    r.mincomp.Rel r.min r.value1 ∧ r.valcomp.Rel r.value1 r.value2 ∧ r.maxcomp.Rel r.value2 r.max

/-- the value is one of the names of the enumeration -/
def EnumP.InDomain (e : EnumP) : Prop := e.value ∈ e.domain

instance {β : Type} [LT β] [LE β] [DecidableLT β] [DecidableLE β] [IsFinite β] (r : Range β) :
    Decidable r.InDomain := by unfold Range.InDomain; infer_instance

instance {β : Type} [LT β] [LE β] [DecidableLT β] [DecidableLE β] [IsFinite β] (r : PRange β) :
    Decidable r.InDomain := by unfold PRange.InDomain; infer_instance

instance (e : EnumP) : Decidable e.InDomain := by unfold EnumP.InDomain; infer_instance

end NanoVerif.Param
