import NanoVerif.Gen.Stats
/-
  C20 — model of libnano's order statistics and histogram (core Lean only).

  Mirrors:
    include/nano/core/stats.h      detail::percentile, percentile, percentile_sorted, median, median_sorted
    include/nano/core/histogram.h  histogram_t: constructor, update, update_bin, mean, bin,
                                   make_from_thresholds / make_from_ratios / make_from_percentiles
                                   (make_from_exponents: only the part after the thresholds are known; the
                                   pow/log threshold formula is not modelled — the thresholds are read back)
    src/machine/stats.cpp          ml::store_stats (percentile list regenerated into Gen/Stats.lean)
    include/nano/tensor/tensor.h   mean / variance / stdev (only as used by store_stats)

  Generic over the scalar `α` (core classes only): run at `Float` in the driver, proved over an ordered field with
  a floor function in `Props/C20.lean`. `std::sort` / `std::nth_element` are a parameter `sort` of the model
  (any function returning a sorted permutation, see `SortSpec` in the proofs); the driver uses `List.mergeSort`.
  Every function returns `none` exactly where the C++ code `assert`s or would read outside the range.
-/
namespace NanoVerif.Stats

/-- the three conversions between positions and scalars that `detail::percentile` uses -/
class FloorI (α : Type) where
  /-- `static_cast<double>(size - 1)` -/
  ofNat : Nat → α
  /-- `static_cast<ptrdiff_t>(std::floor(position))` -/
  floor : α → Int
  /-- `static_cast<ptrdiff_t>(std::ceil(position))` -/
  ceil : α → Int

/-- `std::sqrt` (only `tensor::stdev` inside `store_stats` needs it) -/
class HasSqrt (α : Type) where
  sqrt : α → α

section
variable {α : Type} [Add α] [Sub α] [Mul α] [Div α] [LT α] [LE α] [DecidableLT α] [DecidableLE α]
  [OfNat α 0] [OfNat α 1] [OfNat α 2] [OfNat α 50] [OfNat α 100] [FloorI α]

/-! ### percentiles (stats.h:16-90) -/

/-- stats.h:21 `position = percentage * static_cast<double>(size - 1) / 100.0` (called with `size ≥ 1` only) -/
def position (n : Nat) (p : α) : α := p * FloorI.ofNat (n - 1) / 100

/-- `from_position(pos)` of `percentile_sorted` (stats.h:64-69): `*(begin + pos)`; `none` outside the range -/
def getI (xs : List α) (i : Int) : Option α := if i < 0 then none else xs[i.toNat]?

/-- `percentile_sorted` = `detail::percentile` with positional access (stats.h:16-37, 60-72).
    `none`: empty range (the code would dereference `end`) or the `assert` on the percentage (stats.h:18). -/
def percentileSorted (xs : List α) (p : α) : Option α :=
  if xs.isEmpty then none
  else if ¬ (0 ≤ p ∧ p ≤ 100) then none
  else
    let pos := position xs.length p
    let l := FloorI.floor pos
    let r := FloorI.ceil pos
    if l = r then getI xs l
    else
      match getI xs l, getI xs r with
      | some a, some b => some ((a + b) / 2)
      | _, _ => none

/-- `percentile` on a not necessarily sorted range (stats.h:43-54): `nth_element` + `*middle` is the value of
    sorted rank `pos`, i.e. positional access into a sorted permutation -/
def percentile (sort : List α → List α) (xs : List α) (p : α) : Option α := percentileSorted (sort xs) p

/-- stats.h:78-81 -/
def median (sort : List α → List α) (xs : List α) : Option α := percentile sort xs 50

/-- stats.h:87-90 -/
def medianSorted (xs : List α) : Option α := percentileSorted xs 50

/-- the sort used by the driver (and one instance of `SortSpec`) -/
def msort (xs : List α) : List α := xs.mergeSort (fun a b => decide (a ≤ b))

/-! ### histogram (histogram.h:43-52, 192-263) -/

/-- `it = std::upper_bound(begin, end, thr, (t, v) ↦ v >= t)` on the sorted values (histogram.h:228-229): the first
    value `≥ thr`; result = (`[begin, it)`, `[it, end)`) -/
def splitLt (thr : α) : List α → List α × List α
  | [] => ([], [])
  | v :: vs => if v < thr then let (a, b) := splitLt thr vs; (v :: a, b) else ([], v :: vs)

/-- the loop of `update` (histogram.h:224-237): `k` thresholds → `k + 1` consecutive ranges of the sorted values -/
def bins : List α → List α → List (List α)
  | [], vs => [vs]
  | t :: ts, vs => let (a, b) := splitLt t vs; a :: bins ts b

/-- `histogram_t::mean` (histogram.h:259-263): `std::accumulate` from `0.0`, left to right, divided by the count -/
def mean (b : List α) : α := b.foldl (· + ·) 0 / FloorI.ofNat b.length

/-- per-bin summaries; `none` = the NaN the code stores for an empty bin -/
structure BinStat (α : Type) where
  count : Nat
  mean : Option α
  median : Option α

/-- `update_bin` (histogram.h:241-256) -/
def binStat (b : List α) : BinStat α :=
  if b.isEmpty then ⟨0, none, none⟩ else ⟨b.length, some (mean b), medianSorted b⟩

/-- the state of a `histogram_t`: the sorted thresholds and the ranges of the sorted values (the three summary
    tensors `m_bin_counts/means/medians` are `cells.map binStat`) -/
structure Hist (α : Type) where
  thresholds : List α
  cells : List (List α)

/-- the constructor (histogram.h:43-52): sort values, sort thresholds, `update`. `none` = `assert(size() > 0)` -/
def mkHist (sort : List α → List α) (vs ts : List α) : Option (Hist α) :=
  if ts.isEmpty then none else some ⟨sort ts, bins (sort ts) (sort vs)⟩

def Hist.stats (h : Hist α) : List (BinStat α) := h.cells.map binStat

/-- `std::upper_bound(begin, end, v)` on the thresholds (histogram.h:199): index of the first threshold `t` with `v < t` -/
def upperBound : List α → α → Nat
  | [], _ => 0
  | t :: ts, v => if v < t then 0 else upperBound ts v + 1

/-- `histogram_t::bin` (histogram.h:192-208, after the fix 78a33b6: the query is compared as a scalar) -/
def binOf (ts : List α) (v : α) : Nat :=
  let it := upperBound ts v
  if it = ts.length then (ts.length + 1) - 1 else it

def Hist.bin (h : Hist α) (v : α) : Nat := binOf h.thresholds v

/-- `make_from_ratios` (histogram.h:93-115): thresholds `min + ratio * (max - min)`; `none` = one of its asserts -/
def thresholdsFromRatios (sort : List α → List α) (vs ratios : List α) : Option (List α) :=
  let svs := sort vs
  let rs := sort ratios
  match svs.head?, svs.getLast?, rs.head?, rs.getLast? with
  | some mn, some mx, some r0, some r1 =>
    if 0 < r0 ∧ r1 < 1 then some (rs.map (fun r => mn + r * (mx - mn))) else none
  | _, _, _, _ => none

/-- all-or-nothing map -/
def mapOpt {β γ : Type} (f : β → Option γ) : List β → Option (List γ)
  | [] => some []
  | x :: xs => match f x, mapOpt f xs with
    | some y, some ys => some (y :: ys)
    | _, _ => none

/-- `make_from_percentiles` (histogram.h:61-78): thresholds `percentile_sorted(values, p_i)` -/
def thresholdsFromPercentiles (sort : List α → List α) (vs ps : List α) : Option (List α) :=
  let svs := sort vs
  let qs := sort ps
  match svs.head?, qs.head?, qs.getLast? with
  | some _, some p0, some p1 =>
    if 0 < p0 ∧ p1 < 100 then mapOpt (percentileSorted svs) qs else none
  | _, _, _ => none

def histFromRatios (sort : List α → List α) (vs ratios : List α) : Option (Hist α) :=
  match thresholdsFromRatios sort vs ratios with
  | some ts => mkHist sort vs ts
  | none => none

def histFromPercentiles (sort : List α → List α) (vs ps : List α) : Option (Hist α) :=
  match thresholdsFromPercentiles sort vs ps with
  | some ts => mkHist sort vs ts
  | none => none

/-! ### ml::store_stats (src/machine/stats.cpp:15-29) -/

/-- `tensor::mean()` = Eigen `sum / size` -/
def tmean (vs : List α) : α := vs.foldl (· + ·) 0 / FloorI.ofNat vs.length

/-- `tensor::variance()` (tensor.h:464-475) -/
def tvariance (vs : List α) : α :=
  if vs.length > 1 then
    (vs.map (fun v => v * v)).foldl (· + ·) 0 / FloorI.ofNat vs.length - tmean vs * tmean vs
  else 0

/-- `tensor::stdev()` (tensor.h:480-489) -/
def tstdev [HasSqrt α] (vs : List α) : α :=
  if vs.length > 1 then HasSqrt.sqrt (tvariance vs / (FloorI.ofNat vs.length - 1)) else 0

/-- the 12 slots; `none` for an empty range (percentile would read outside) -/
def storeStats [HasSqrt α] (sort : List α → List α) (vs : List α) : Option (List α) :=
  match mapOpt (fun (k : Nat) => percentile sort vs (FloorI.ofNat k)) Gen.Stats.storeStatsPercentiles with
  | some ps => some ([tmean vs, tstdev vs, FloorI.ofNat vs.length] ++ ps)
  | none => none

end
end NanoVerif.Stats
