/-
  C18 — models of the two reductions over per-worker accumulators and of the sharing discipline of a solver object
  (core Lean only).

  Mirrors:
    include/nano/core/reduce.h        sum_reduce (accumulator0 += accumulators[i], i = 1…; then `/= samples`),
                                      min_reduce_feature (std::min_element with `(m_score, m_feature)` compared
                                      lexicographically: the FIRST smallest; commit 62472c9 — before it: `m_score` only)
    src/linear/function.cpp:53-82     per-worker accumulation `m_accumulators[tnum] += …` inside `iterator.loop`, then sum_reduce
    src/gboost/function.cpp           same shape (bias / scale functions)
    src/wlearner/stump.cpp:127-160    per-worker cache: `if (std::isfinite(score) && score < cache.m_score) cache = candidate`,
    src/wlearner/{affine,hinge}.cpp, dtree.cpp (through stump)   the same rule; then `min_reduce_feature(caches)`
    src/wlearner/table.cpp:72,110,164  per-worker cache with the lexicographic test (commit 5de0896), `updLex`; then `min_reduce_feature`
    src/solver.cpp:94-106             solver_t::make_lsearch: the prototype line-search objects are CLONED per minimize call
    src/solver/lsearch.cpp:12-27      lsearch_t::get: reads/writes `m_last_step_size` and (through the non-const
                                      `lsearch0_t::get`) `m_prevf/m_prevdg` of the clone

  A *schedule* is the list, per worker (in worker order), of what that worker processed, in the order it processed it:
  which worker gets which chunk and in which order is decided by the OS scheduler; the theorems quantify over every schedule.
-/
namespace NanoVerif.Reduce

/-! ### sum_reduce -/

/-- what one worker's accumulator holds after it processed the chunks `xs` (their contributions) in this order,
    starting from the cleared accumulator (`accumulator.clear()`, linear/function.cpp:49-52) -/
def accumulate {M : Type} (add : M → M → M) (zero : M) (xs : List M) : M := xs.foldl add zero

/-- `sum_reduce(accumulators, samples)` (reduce.h:24-32); `none` for an empty vector (the code reads `accumulators[0]`) -/
def sumReduce {M : Type} (add : M → M → M) (divN : M → Nat → M) (n : Nat) : List M → Option M
  | [] => none
  | a0 :: as => some (divN (as.foldl add a0) n)

/-- the parallel map step followed by `sum_reduce`, for the schedule `sched` -/
def mapSumReduce {M : Type} (add : M → M → M) (zero : M) (divN : M → Nat → M) (n : Nat) (sched : List (List M)) :
    Option M :=
  sumReduce add divN n (sched.map (accumulate add zero))

/-- element-wise sum of two buffers of the same shape (`m_gb1 += other.m_gb1`, linear/accumulator.cpp) -/
def vadd {α : Type} [Add α] : List α → List α → List α
  | x :: xs, y :: ys => (x + y) :: vadd xs ys
  | _, _ => []

/-! ### min_reduce_feature over per-worker "first best" caches -/

/-- a candidate: its score, the index of the feature it was computed on (`m_feature`) and whatever else is stored with it
    (threshold, tables) -/
structure Cand (α π : Type) where
  score : α
  feature : Int
  payload : π
deriving Repr, DecidableEq

/-- the cache update of every weak-learner fit: `if (score < cache.m_score) cache = candidate` (the FIRST candidate seen
    with the smallest score stays). `none` is the initial cache (`m_score = wlearner_t::no_fit_score()` = the largest double,
    `m_feature = -1`, or `0` in affine.cpp; candidates are the *finite* scores, which the code filters with `std::isfinite`,
    so every candidate compares below the initial value — except the score DBL_MAX itself, which the code never stores:
    the driver filters it out with the non-finite ones) -/
def upd {α π : Type} [LT α] [DecidableLT α] (c : Option (Cand α π)) (x : Cand α π) : Option (Cand α π) :=
  match c with
  | none => some x
  | some b => if x.score < b.score then some x else some b

/-- the cache of one worker after the candidates `xs`, in this order -/
def cacheOf {α π : Type} [LT α] [DecidableLT α] (xs : List (Cand α π)) : Option (Cand α π) := xs.foldl upd none

/-- the comparison of `min_reduce_feature` (reduce.h:25-31, commit 62472c9) on caches:
    `one.m_score < other.m_score || (one.m_score == other.m_score && one.m_feature < other.m_feature)`.
    Stored scores are never NaN, so `a == b` is `¬ a < b ∧ ¬ b < a` and the disjunction is written with `<` only.
    `none` = the empty cache (largest double, feature −1): every stored candidate is strictly below it, it is below nothing
    (two empty caches: equal scores, `-1 < -1` false). -/
def lessC {α π : Type} [LT α] [DecidableLT α] : Option (Cand α π) → Option (Cand α π) → Bool
  | some a, some b => decide (a.score < b.score) || (!decide (b.score < a.score) && decide (a.feature < b.feature))
  | some _, none => true
  | none, _ => false

/-- `min_reduce_feature(caches)`: `std::min_element` keeps the first of the smallest w.r.t. `lessC`; `none` for an empty
    vector (the code dereferences `end()`), `some none` when no worker saw a candidate (the fit reports `no_fit_score`) -/
def minReduce {α π : Type} [LT α] [DecidableLT α] : List (Option (Cand α π)) → Option (Option (Cand α π))
  | [] => none
  | c :: cs => some (cs.foldl (fun best x => if lessC x best then x else best) c)

/-- the parallel map step followed by `min_reduce_feature`, for the per-worker candidate streams `streams` -/
def mapMinReduce {α π : Type} [LT α] [DecidableLT α] (streams : List (List (Cand α π))) : Option (Option (Cand α π)) :=
  minReduce (streams.map cacheOf)

/-- the cache update of the TABLE learners since commit 5de0896 (table.cpp:72, 110, 164):
    `if (score < m_score || (score == m_score && feature < m_feature))` — the same lexicographic comparison as
    `min_reduce_feature`. Needed there because a table fit runs TWO loops (single-label features, then multi-label ones) into
    the same caches, so one worker may see feature indices out of order. Candidates of the SAME feature with equal scores:
    the first one stays. -/
def updLex {α π : Type} [LT α] [DecidableLT α] (c : Option (Cand α π)) (x : Cand α π) : Option (Cand α π) :=
  if lessC (some x) c then some x else c

/-- the cache of one worker of a table fit after the candidates `xs`, in this order -/
def cacheOfLex {α π : Type} [LT α] [DecidableLT α] (xs : List (Cand α π)) : Option (Cand α π) := xs.foldl updLex none

/-- table fits: lexicographic caches, then `min_reduce_feature` -/
def mapMinReduceLex {α π : Type} [LT α] [DecidableLT α] (streams : List (List (Cand α π))) : Option (Option (Cand α π)) :=
  minReduce (streams.map cacheOfLex)

/-- one feature as a fit sees it: its index and its candidates (score, payload) in the fixed order of its sweep -/
abbrev Feat (α π : Type) := Int × List (α × π)

/-- the candidates of a feature carry its index (`cache.m_feature = feature` next to `cache.m_score = score`) -/
def candsOf {α π : Type} (f : Feat α π) : List (Cand α π) := f.2.map fun sp => ⟨sp.1, f.1, sp.2⟩

/-- what one worker feeds to its cache: the candidates of the features it processed, feature after feature -/
def stream {α π : Type} (w : List (Feat α π)) : List (Cand α π) := w.flatMap candsOf

/-- a worker processed its features in increasing index order. This is what `pool_t::map` produces (parallel.h:295-347:
    the chunks are enqueued in increasing order under one lock into a FIFO queue, every worker pops from the front, and the
    loop inside a chunk is increasing — dataset/iterator.cpp:236-276) for ONE loop over one feature list. -/
def WorkerSorted {α π : Type} (w : List (Feat α π)) : Prop := (w.map Prod.fst).Pairwise (· < ·)

instance {α π : Type} (w : List (Feat α π)) : Decidable (WorkerSorted w) :=
  inferInstanceAs (Decidable ((w.map Prod.fst).Pairwise (· < ·)))

/-- every worker of the schedule (per worker: the features it processed, in its order) is `WorkerSorted` -/
def SchedSorted {α π : Type} (sched : List (List (Feat α π))) : Prop := ∀ w ∈ sched, WorkerSorted w

instance {α π : Type} (sched : List (List (Feat α π))) : Decidable (SchedSorted sched) :=
  inferInstanceAs (Decidable (∀ w ∈ sched, WorkerSorted w))

/-! #### the rule before commit 62472c9 (`min_reduce`: score only) — kept for the counterexample of Props/C18.lean only -/

def lessCOld {α π : Type} [LT α] [DecidableLT α] : Option (Cand α π) → Option (Cand α π) → Bool
  | some a, some b => decide (a.score < b.score)
  | some _, none => true
  | none, _ => false

def minReduceOld {α π : Type} [LT α] [DecidableLT α] : List (Option (Cand α π)) → Option (Option (Cand α π))
  | [] => none
  | c :: cs => some (cs.foldl (fun best x => if lessCOld x best then x else best) c)

def mapMinReduceOld {α π : Type} [LT α] [DecidableLT α] (streams : List (List (Cand α π))) :
    Option (Option (Cand α π)) :=
  minReduceOld (streams.map cacheOf)

/-! ### a shared object with prototype state and concurrent calls (solver_t + make_lsearch) -/

/-- one event of an interleaving of calls on ONE shared object: call `i` starts with its argument (function + `x0`, here
    the initial iterate `x`), or call `i` advances by one step of its algorithm -/
inductive Ev (X : Type)
  | start (i : Nat) (x0 : X)
  | step (i : Nat)

def Ev.id {X : Type} : Ev X → Nat
  | .start i _ => i
  | .step i => i

/-- the shared object: `proto` = the state of the prototype line-search objects it owns (`m_lsearch0`, `m_lsearchk`:
    `m_prevf`, `m_prevdg`, …); `loc i` = the state private to call `i`: its line-search objects (`σ`) and its iterate -/
structure World (σ X : Type) where
  proto : σ
  loc : Nat → Option (σ × X)

def World.init {σ X : Type} (p : σ) : World σ X := ⟨p, fun _ => none⟩

/-- `solver.cpp:94-106` + `do_minimize`: a call first CLONES the prototypes (`clone p`, which also installs the solver's
    parameters) into call-local state, and every later step of the call (`lsearch.get(...)`, the direction update, `done`)
    reads and writes only that local state through `stepFn i` (the algorithm applied to call `i`'s own function object) -/
def exec {σ X : Type} (clone : σ → σ) (stepFn : Nat → σ × X → σ × X) (w : World σ X) : Ev X → World σ X
  | .start i x0 => { w with loc := fun j => if j = i then some (clone w.proto, x0) else w.loc j }
  | .step i => { w with loc := fun j => if j = i then (w.loc i).map (stepFn i) else w.loc j }

def run {σ X : Type} (clone : σ → σ) (stepFn : Nat → σ × X → σ × X) (w : World σ X) (es : List (Ev X)) : World σ X :=
  es.foldl (exec clone stepFn) w

/-- the variant that would hand out the prototypes themselves (no clone): every step of every call works on the ONE
    shared line-search state. Only used to show that the purity theorem is not vacuous. -/
def execShared {σ X : Type} (stepFn : Nat → σ × X → σ × X) (w : World σ X) : Ev X → World σ X
  | .start i x0 => { w with loc := fun j => if j = i then some (w.proto, x0) else w.loc j }
  | .step i =>
    match w.loc i with
    | none => w
    | some (_, x) =>
      let r := stepFn i (w.proto, x)
      { proto := r.1, loc := fun j => if j = i then some r else w.loc j }

def runShared {σ X : Type} (stepFn : Nat → σ × X → σ × X) (w : World σ X) (es : List (Ev X)) : World σ X :=
  es.foldl (execShared stepFn) w

end NanoVerif.Reduce
