/-
  C18 — models of the two reductions over per-worker accumulators and of the sharing discipline of a solver object
  (core Lean only).

  Mirrors:
    include/nano/core/reduce.h        sum_reduce (accumulator0 += accumulators[i], i = 1…; then `/= samples`), min_reduce
                                      (std::min_element with `one.m_score < other.m_score`: the FIRST smallest)
    src/linear/function.cpp:53-82     per-worker accumulation `m_accumulators[tnum] += …` inside `iterator.loop`, then sum_reduce
    src/gboost/function.cpp           same shape (bias / scale functions)
    src/wlearner/stump.cpp:127-160    per-worker cache: `if (std::isfinite(score) && score < cache.m_score) cache = candidate`,
    src/wlearner/{affine,table,hinge,dtree}.cpp   the same rule; then `min_reduce(caches)`
    src/solver.cpp:94-106             solver_t::make_lsearch: the prototype line-search objects are CLONED per minimize call
    src/solver/lsearch.cpp:12-27      lsearch_t::get: reads/writes `m_last_step_size` and (through the non-const
                                      `lsearch0_t::get`) `m_prevf/m_prevdg` of the clone

  A *schedule* is the list, per worker (in worker order), of what that worker processed, in the order it processed it:
  which worker gets which chunk and in which order is decided by the OS scheduler; the theorems quantify over every schedule.
-/
namespace NanoVerif.Reduce

/-! ### sum_reduce -/

/-- what one worker's accumulator holds after it processed the chunks `xs` (their contributions) in this order,
    starting from the cleared accumulator (`accumulator.clear()`, linear/function.cpp:49-52) -/
def accumulate {M : Type} (add : M → M → M) (zero : M) (xs : List M) : M := xs.foldl add zero

/-- `sum_reduce(accumulators, samples)` (reduce.h:24-32); `none` for an empty vector (the code reads `accumulators[0]`) -/
def sumReduce {M : Type} (add : M → M → M) (divN : M → Nat → M) (n : Nat) : List M → Option M
  | [] => none
  | a0 :: as => some (divN (as.foldl add a0) n)

/-- the parallel map step followed by `sum_reduce`, for the schedule `sched` -/
def mapSumReduce {M : Type} (add : M → M → M) (zero : M) (divN : M → Nat → M) (n : Nat) (sched : List (List M)) :
    Option M :=
  sumReduce add divN n (sched.map (accumulate add zero))

/-- element-wise sum of two buffers of the same shape (`m_gb1 += other.m_gb1`, linear/accumulator.cpp) -/
def vadd {α : Type} [Add α] : List α → List α → List α
  | x :: xs, y :: ys => (x + y) :: vadd xs ys
  | _, _ => []

/-! ### min_reduce over per-worker "first best" caches -/

/-- a candidate: its score and whatever is stored with it (feature, threshold, tables) -/
structure Cand (α π : Type) where
  score : α
  payload : π
deriving Repr

/-- the cache update of every weak-learner fit: `if (score < cache.m_score) cache = candidate`. `none` is the initial
    cache (`m_score = wlearner_t::no_fit_score()` = the largest double; candidates are the *finite* scores, which the code
    filters with `std::isfinite`, so every candidate compares below the initial value — except the score DBL_MAX itself,
    which the code never stores: the driver filters it out with the non-finite ones) -/
def upd {α π : Type} [LT α] [DecidableLT α] (c : Option (Cand α π)) (x : Cand α π) : Option (Cand α π) :=
  match c with
  | none => some x
  | some b => if x.score < b.score then some x else some b

/-- the cache of one worker after the candidates `xs`, in this order -/
def cacheOf {α π : Type} [LT α] [DecidableLT α] (xs : List (Cand α π)) : Option (Cand α π) := xs.foldl upd none

/-- `one.m_score < other.m_score` on caches (`none` = the largest double) -/
def lessC {α π : Type} [LT α] [DecidableLT α] : Option (Cand α π) → Option (Cand α π) → Bool
  | some a, some b => decide (a.score < b.score)
  | some _, none => true
  | none, _ => false

/-- `min_reduce(caches)`: `std::min_element` keeps the first of the smallest; `none` for an empty vector (the code
    dereferences `end()`), `some none` when no worker saw a candidate (the fit reports `no_fit_score`) -/
def minReduce {α π : Type} [LT α] [DecidableLT α] : List (Option (Cand α π)) → Option (Option (Cand α π))
  | [] => none
  | c :: cs => some (cs.foldl (fun best x => if lessC x best then x else best) c)

/-- the parallel map step followed by `min_reduce`, for the schedule `sched` -/
def mapMinReduce {α π : Type} [LT α] [DecidableLT α] (sched : List (List (Cand α π))) : Option (Option (Cand α π)) :=
  minReduce (sched.map cacheOf)

/-! ### a shared object with prototype state and concurrent calls (solver_t + make_lsearch) -/

/-- one event of an interleaving of calls on ONE shared object: call `i` starts with its argument (function + `x0`, here
    the initial iterate `x`), or call `i` advances by one step of its algorithm -/
inductive Ev (X : Type)
  | start (i : Nat) (x0 : X)
  | step (i : Nat)

def Ev.id {X : Type} : Ev X → Nat
  | .start i _ => i
  | .step i => i

/-- the shared object: `proto` = the state of the prototype line-search objects it owns (`m_lsearch0`, `m_lsearchk`:
    `m_prevf`, `m_prevdg`, …); `loc i` = the state private to call `i`: its line-search objects (`σ`) and its iterate -/
structure World (σ X : Type) where
  proto : σ
  loc : Nat → Option (σ × X)

def World.init {σ X : Type} (p : σ) : World σ X := ⟨p, fun _ => none⟩

/-- `solver.cpp:94-106` + `do_minimize`: a call first CLONES the prototypes (`clone p`, which also installs the solver's
    parameters) into call-local state, and every later step of the call (`lsearch.get(...)`, the direction update, `done`)
    reads and writes only that local state through `stepFn i` (the algorithm applied to call `i`'s own function object) -/
def exec {σ X : Type} (clone : σ → σ) (stepFn : Nat → σ × X → σ × X) (w : World σ X) : Ev X → World σ X
  | .start i x0 => { w with loc := fun j => if j = i then some (clone w.proto, x0) else w.loc j }
  | .step i => { w with loc := fun j => if j = i then (w.loc i).map (stepFn i) else w.loc j }

def run {σ X : Type} (clone : σ → σ) (stepFn : Nat → σ × X → σ × X) (w : World σ X) (es : List (Ev X)) : World σ X :=
  es.foldl (exec clone stepFn) w

/-- the variant that would hand out the prototypes themselves (no clone): every step of every call works on the ONE
    shared line-search state. Only used to show that the purity theorem is not vacuous. -/
def execShared {σ X : Type} (stepFn : Nat → σ × X → σ × X) (w : World σ X) : Ev X → World σ X
  | .start i x0 => { w with loc := fun j => if j = i then some (w.proto, x0) else w.loc j }
  | .step i =>
    match w.loc i with
    | none => w
    | some (_, x) =>
      let r := stepFn i (w.proto, x)
      { proto := r.1, loc := fun j => if j = i then some r else w.loc j }

def runShared {σ X : Type} (stepFn : Nat → σ × X → σ × X) (w : World σ X) (es : List (Ev X)) : World σ X :=
  es.foldl (execShared stepFn) w

end NanoVerif.Reduce
