import NanoVerif.Model.Boost
/-!
  C11 — the fold fit of gradient boosting **with its data flow** (`::fit` in src/gboost/model.cpp:73-211, line numbers of the
  tree with hook H3), `gboost::tune_shrinkage`, `mean_loss` / `mean_error` (src/gboost/util.cpp), the statistics rows of
  `gboost::result_t::update/done` (src/gboost/result.cpp:48-79) and the last stage of `gboost_model_t::fit` (model.cpp:309-352).
  Core Lean only.

  `Model/Boost.lean` models the *control* of the round loop (which learners are appended, when the loop is left, what
  `result.done(round)` keeps). This file adds what the loop *computes with*: the tracked predictions `outputs`, the weak learner
  as it is stored (scaled by the solver's answer, by the shrinkage ratio, in `local` mode by the tuned ratio), the per-round
  statistics row, the per-sample tensor the monitor snapshots — so that "the reported statistics are those of the stored model" is
  a theorem about the model (`Props/C11.lean`: `tracked_outputs_eq_model_prediction`, …) and not only an observation.

  Oracles (parameters; the theorems hold for every value): the bias fit `b` (`bstate.x()` broadcast over the samples), per round
  the list of fitted samples the sampler returns (`RoundOr.fitSamples`; `subsample = off` is coded: the training samples), the
  score and fitted clone of every prototype (`RoundOr.cands`), the answer of the scaling solver (`RoundOr.x`, `RoundOr.xmin`),
  and the environment `Env`: a weak learner's prediction on a zeroed buffer (`pred`), `wlearner_t::scale` (`scaleW`),
  `wlearner::merge` (`merge`), `loss.error` / `loss.value` of a sample given the predictions (`err`, `loss`).
  An output *cell* `x : X` is a (sample, target component) pair; `S` indexes samples.
-/
namespace NanoVerif.BoostFit
open NanoVerif.Gen.EarlyStopping NanoVerif.EarlyStopping NanoVerif.Boost

/-- `gboost_shrinkage` (include/nano/gboost/enums.h) -/
inductive Shrinkage where
  | off | global | local_
  deriving DecidableEq, Repr

/-- `gboost_subsample` -/
inductive Subsample where
  | off | subsample | bootstrap | weiLoss | weiGrad
  deriving DecidableEq, Repr

/-- `gboost_wscale` -/
inductive WScale where
  | gboost | tboost
  deriving DecidableEq, Repr

/-- what the fold fit calls but does not define -/
structure Env (W X S α : Type) where
  /-- `woutputs.zero(); wlearner->predict(dataset, samples, woutputs)`: the learner's contribution to a cell -/
  pred : W → X → α
  /-- `wlearner->scale(vector)` (src/wlearner/util.cpp:5-15 through the learner's override) -/
  scaleW : List α → W → W
  /-- `wlearner::merge(m_wlearners)` (src/wlearner/util.cpp:29-58) -/
  merge : List W → List W
  /-- `wlearner.split(dataset, samples)`: number of groups of the learner (tboost) -/
  groups : W → Nat
  /-- `loss.error(target of s, outputs of s)` -/
  err : (X → α) → S → α
  /-- `loss.value(target of s, outputs of s)` -/
  loss : (X → α) → S → α

/-- the parameters `::fit` reads (model.cpp:77-85) and the constants it uses -/
structure Cfg (α : Type) where
  eps : α                   -- gboost::epsilon
  pat : Nat                 -- gboost::patience
  maxRounds : Nat           -- gboost::max_rounds
  shrinkage : Shrinkage
  subsample : Subsample
  wscale : WScale
  vmax : α                  -- numeric_limits<scalar_t>::max()
  noFit : α                 -- wlearner_t::no_fit_score()
  epsMach : α               -- numeric_limits<scalar_t>::epsilon()
  zero : α
  one : α
  ofNat : Nat → α           -- static_cast<scalar_t>
  grid : List α             -- {0.1, 0.2, …, 1.0} of tune_shrinkage (util.cpp:36)

/-- columns 0-4 of a row of `m_statistics` (result.cpp:54-58); columns 5-7 (solver calls / status) are not modelled -/
structure Row (α : Type) where
  trainErr : α
  trainLoss : α
  validErr : α
  validLoss : α
  ratio : α

variable {W X S α : Type} [Add α] [Sub α] [Mul α] [Div α] [LT α] [LE α] [DecidableLT α] [DecidableLE α]

/-- `result_t::update(round, shrinkage_ratio, state)` (result.cpp:54-58): `mean_error` / `mean_loss` (util.cpp:56-68:
    `std::accumulate` from 0.0 over the sample list in order, divided by `max(size, 1)`) of the per-sample values
    `gboost::evaluate` wrote for the current predictions `out` (util.cpp:7-21) -/
def statsRow (cfg : Cfg α) (env : Env W X S α) (train valid : List S) (out : X → α) (ratio : α) : Row α :=
  { trainErr := meanError cfg.zero cfg.ofNat (train.map (env.err out)),
    trainLoss := meanError cfg.zero cfg.ofNat (train.map (env.loss out)),
    validErr := meanError cfg.zero cfg.ofNat (valid.map (env.err out)),
    validLoss := meanError cfg.zero cfg.ofNat (valid.map (env.loss out)),
    ratio := ratio }

/-- the scan of `tune_shrinkage` (util.cpp:33-53): `best_shrinkage = 0.0; best_value = DBL_MAX; for (shrinkage : grid)
    { if (value < best_value) { best_value = value; best_shrinkage = shrinkage; } }` given the value of every grid point -/
def shrinkScan (zero vmax : α) (cands : List (α × α)) : α :=
  match (pickBest vmax cands).2 with
  | some s => s
  | none => zero

/-- `values.mean()` of util.cpp:43 (Eigen: sum / size, no guard for an empty range) of the loss values of the validation
    samples for the predictions `outputs + shrinkage * woutputs` (util.cpp:38-41) -/
def shrinkValue (cfg : Cfg α) (env : Env W X S α) (valid : List S) (out wout : X → α) (s : α) : α :=
  (valid.map (env.loss (fun x => out x + s * wout x))).foldl (· + ·) cfg.zero / cfg.ofNat valid.length

/-- `gboost::tune_shrinkage(valid_targets_iterator, loss, outputs, woutputs)` (util.cpp:23-54) -/
def tuneShrinkage (cfg : Cfg α) (env : Env W X S α) (valid : List S) (out wout : X → α) : α :=
  shrinkScan cfg.zero cfg.vmax (cfg.grid.map (fun s => (shrinkValue cfg env valid out wout s, s)))

/-- the oracle answers of one iteration -/
structure RoundOr (W S α : Type) where
  /-- `sampler.sample(values, gradients)` (model.cpp:136; sampler.cpp:17-62) when sub-sampling is on -/
  fitSamples : List S
  /-- `(wlearner->fit(dataset, fit_samples, gradients), wlearner)` per prototype, in order (model.cpp:141-151) -/
  cands : List (α × W)
  /-- `gstate.x()` of `solver.minimize(scale_function_t{…}, 1, …)` (model.cpp:166): one factor per group of `make_cluster` -/
  x : List α
  /-- `gstate.x().min()` (model.cpp:169) -/
  xmin : α

/-- `sampler_t::sample` (sampler.cpp:17-62): `off` returns the training samples; the other modes draw from them with the
    sampler's generator — an oracle answer (contract, monitored at run time: a list over the training samples of
    `⌊ratio · |train|⌋` entries, without repetition for `subsample`) -/
def sampleOf (cfg : Cfg α) (train : List S) (o : RoundOr W S α) : List S :=
  match cfg.subsample with
  | .off => train
  | _ => o.fitSamples

/-- `make_cluster(dataset, samples, wlearner, wscale)` (model.cpp:55-71): the number of groups = the dimension of the scaling
    problem = the length the solver's answer `x` has -/
def clusterGroups (cfg : Cfg α) (env : Env W X S α) (w : W) : Nat :=
  match cfg.wscale with
  | .gboost => 1
  | .tboost => env.groups w

/-- the state of `::fit` between two iterations. `hist` is a ghost: the predictions at every call of `optimum.done`, in
    order (`hist[k]` = `outputs` when `k` learners were present) — the monitor's snapshot `optimum.values()` is
    `gboost::evaluate` of `hist[snap - 1]`. -/
structure FitSt (W X α : Type) where
  out : X → α               -- outputs
  ws : List W               -- result.m_wlearners
  ratio : α                 -- shrinkage_ratio (a mutable local: `local` mode overwrites it every round)
  rows : List (Row α)       -- result.m_statistics, rows written so far
  es : State α              -- optimum
  hist : List (X → α)

/-- `decode_params` (model.cpp:33-45): the ratio is the tuned hyper-parameter in `global` mode (`make_params`, 19-31, declares
    exactly one then), else 1 -/
def startRatio (cfg : Cfg α) (params : List α) : α :=
  match cfg.shrinkage with
  | .global => params.headD cfg.one
  | _ => cfg.one

/-- `::fit` up to the loop (model.cpp:87-131): `decode_params`, predictions = the bias, `evaluate`, `result.update(0, …)`, the first call of `optimum.done`;
    the flag is `max_rounds = 0` -/
def fitStart (cfg : Cfg α) (env : Env W X S α) (train valid : List S) (params : List α) (b : X → α) :
    FitSt W X α × Bool :=
  let ratio := startRatio cfg params
  let row := statsRow cfg env train valid b ratio
  let r := done cfg.eps cfg.pat (init cfg.vmax)
    { train := row.trainErr, valid := row.validErr, n := 0, ntrain := train.length, nvalid := valid.length, idx := 1 }
  ({ out := b, ws := [], ratio := ratio, rows := [row], es := r.1, hist := [b] }, r.2)

/-- the learner as it is stored and what is added to the predictions (model.cpp:177-187):
    `best_wlearner->scale(gstate.x() * shrinkage_ratio); woutputs = predict;` and in `local` mode
    `shrinkage_ratio = tune_shrinkage(…); best_wlearner->scale({shrinkage_ratio}); woutputs *= shrinkage_ratio` -/
def shrunk (cfg : Cfg α) (env : Env W X S α) (valid : List S) (out : X → α) (ratio : α) (x : List α) (w : W) :
    α × W × (X → α) :=
  let w1 := env.scaleW (x.map (· * ratio)) w
  let wout1 := env.pred w1
  match cfg.shrinkage with
  | .local_ =>
    let r := tuneShrinkage cfg env valid out wout1
    (r, env.scaleW [r] w1, fun c => wout1 c * r)
  | _ => (ratio, w1, wout1)

/-- one iteration of the loop body (model.cpp:133-203); the flag: the loop is left -/
def roundStep (cfg : Cfg α) (env : Env W X S α) (train valid : List S) (st : FitSt W X α) (o : RoundOr W S α) :
    FitSt W X α × Bool :=
  match (pickBest cfg.noFit o.cands).2 with
  | none => (st, true)                                                               -- :154-157
  | some w =>
    if o.xmin < cfg.epsMach then
      -- :169-175 the learner is appended as fitted, the predictions are untouched, row `round + 1` repeats the current values
      ({ st with ws := st.ws ++ [w], rows := st.rows ++ [statsRow cfg env train valid st.out st.ratio] }, true)
    else
      let sh := shrunk cfg env valid st.out st.ratio o.x w
      let out' : X → α := fun c => st.out c + sh.2.2 c                                -- :190
      let ws' := st.ws ++ [sh.2.1]
      let row := statsRow cfg env train valid out' sh.1                               -- :191-192
      let r := done cfg.eps cfg.pat st.es                                             -- :197
        { train := row.trainErr, valid := row.validErr, n := ws'.length, ntrain := train.length,
          nvalid := valid.length, idx := ws'.length + 1 }
      ({ out := out', ws := ws', ratio := sh.1, rows := st.rows ++ [row], es := r.1, hist := st.hist ++ [out'] }, r.2)

/-- `for (round = 0; round < max_rounds; ++round)` over the oracle answers of the iterations -/
def roundLoop (cfg : Cfg α) (env : Env W X S α) (train valid : List S) :
    FitSt W X α → List (RoundOr W S α) → FitSt W X α
  | st, [] => st
  | st, o :: rest =>
    if (roundStep cfg env train valid st o).2 then (roundStep cfg env train valid st o).1
    else roundLoop cfg env train valid (roundStep cfg env train valid st o).1 rest

/-- the state with which `::fit` reaches `result.done` -/
def fitRun (cfg : Cfg α) (env : Env W X S α) (train valid : List S) (params : List α) (b : X → α)
    (ors : List (RoundOr W S α)) : FitSt W X α :=
  let s0 := fitStart cfg env train valid params b
  if s0.2 then s0.1 else roundLoop cfg env train valid s0.1 (ors.take cfg.maxRounds)

/-- what `::fit` returns (model.cpp:205-210): `gboost::result_t` after `done(optimum.round())` (result.cpp:73-79: learners
    `[0, round)` then `merge`, statistics rows `[0, round]`) and `selected(optimum.values(), train / valid samples)` -/
structure FoldResult (W X α : Type) where
  bias : X → α
  ws : List W
  rows : List (Row α)
  trainValues : List (α × α)     -- (error, loss value) per training sample, in order
  validValues : List (α × α)

def foldResult (env : Env W X S α) (train valid : List S) (b : X → α) (st : FitSt W X α) : FoldResult W X α :=
  let snap := st.hist.getD (st.es.snap - 1) b
  { bias := b,
    ws := env.merge (st.ws.take st.es.round),
    rows := st.rows.take (st.es.round + 1),
    trainValues := train.map (fun s => (env.err snap s, env.loss snap s)),
    validValues := valid.map (fun s => (env.err snap s, env.loss snap s)) }

def fitFold (cfg : Cfg α) (env : Env W X S α) (train valid : List S) (params : List α) (b : X → α)
    (ors : List (RoundOr W S α)) : FoldResult W X α :=
  foldResult env train valid b (fitRun cfg env train valid params b ors)

/-- `gboost_model_t::do_predict` (model.cpp:358-366) for a stored model `(bias, learners)` -/
def modelOut (env : Env W X S α) (b : X → α) (ws : List W) : X → α :=
  fun c => predict (b c) (ws.map env.pred) c

/-- projection to the control skeleton of `Model/Boost.lean` -/
def FitSt.ctl (st : FitSt W X α) : LoopSt W α := { learners := st.ws, es := st.es }

/-- the event of `Model/Boost.lean` that an iteration is, seen from its state and oracle answers -/
def evOf (cfg : Cfg α) (env : Env W X S α) (train valid : List S) (st : FitSt W X α) (o : RoundOr W S α) : RoundEv W α :=
  match (pickBest cfg.noFit o.cands).2 with
  | none => .noLearner
  | some w =>
    if o.xmin < cfg.epsMach then .scaleFail w
    else
      let sh := shrunk cfg env valid st.out st.ratio o.x w
      let row := statsRow cfg env train valid (fun c => st.out c + sh.2.2 c) sh.1
      .fitted sh.2.1 row.trainErr row.validErr

/-! ### the last stage of `gboost_model_t::fit` (model.cpp:309-352) -/

/-- the fitted object: `m_bias`, `m_wlearners` -/
structure GModel (W X α : Type) where
  bias : X → α
  ws : List W

/-- model.cpp:314-337: **`m_bias = 0; m_wlearners.clear();`** — whatever an earlier `fit()` left in the object —, then for every
    fold of the optimum trial the bias added and the learners cloned, `merge`, bias and learners scaled by `1 / folds` -/
def finalize (env : Env W X S α) (zero denom : α) (_prev : GModel W X α) (folds : List (GModel W X α)) : GModel W X α :=
  let m1 := folds.foldl (fun (m : GModel W X α) f => { bias := fun c => m.bias c + f.bias c, ws := m.ws ++ f.ws })
    { bias := fun _ => zero, ws := [] }
  { bias := fun c => m1.bias c * denom, ws := (env.merge m1.ws).map (env.scaleW [denom]) }

/-- model.cpp:341-351: the statistics of the final model are those of its own predictions on the fitted samples
    (`predict(dataset, all_samples)`, `evaluate`, `selected(values, samples)`) -/
def finalValues (env : Env W X S α) (m : GModel W X α) (samples : List S) : List (α × α) :=
  samples.map (fun s => (env.err (modelOut env m.bias m.ws) s, env.loss (modelOut env m.bias m.ws) s))

end NanoVerif.BoostFit
