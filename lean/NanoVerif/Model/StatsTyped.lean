import NanoVerif.Model.Stats
/-
  C20 (gap-closing) — the percentile functions of include/nano/core/stats.h AS CODED, for a container whose value type
  `β` differs from the scalar `α` (= double) in which the result is computed, and with `std::nth_element` as an oracle
  that only promises its PARTIAL-ORDER contract (not a full sort); `ml::load_stats`. Core Lean only.

  Mirrors:
    stats.h:15-37   detail::percentile   the text of the body is regenerated into `Gen.Stats.percentileBody`
                                         (see `model_percentile_is_generated` in Proofs/StatsGen.lean)
    stats.h:42-54   percentile           `percentileNthC`: from_position(pos) = nth_element(begin, begin + pos, end) on the
                                         caller's range (which STAYS rearranged between the two calls), then
                                         static_cast<double>(*middle)
    stats.h:59-72   percentile_sorted    `percentileSortedC`: static_cast<double>(*(begin + pos)), no check of the
                                         precondition in the release build (the assert is compiled out)
    stats.h:77-90   median, median_sorted
    src/machine/stats.cpp:31-40, include/nano/machine/stats.h:11-25   load_stats / stats_t
-/
namespace NanoVerif.Stats

section
variable {α : Type} [Add α] [Sub α] [Mul α] [Div α] [LT α] [LE α] [DecidableLT α] [DecidableLE α]
  [OfNat α 0] [OfNat α 1] [OfNat α 2] [OfNat α 50] [OfNat α 100] [FloorI α]
variable {β : Type}

/-- `from_position(pos)` of `percentile_sorted` for a container of `β`: `static_cast<double>(*(begin + pos))` -/
def getC (cast : β → α) (xs : List β) (i : Int) : Option α := if i < 0 then none else (xs[i.toNat]?).map cast

/-- `percentile_sorted` on a container of `β` (stats.h:59-72 + 15-37). The values are converted one by one, the midpoint
    is taken in the scalar type: `(lvalue + rvalue) / 2` on doubles, also for `int` containers. -/
def percentileSortedC (cast : β → α) (xs : List β) (p : α) : Option α :=
  if xs.isEmpty then none
  else if ¬ (0 ≤ p ∧ p ≤ 100) then none
  else
    let pos := position xs.length p
    let l := FloorI.floor pos
    let r := FloorI.ceil pos
    if l = r then getC cast xs l
    else
      match getC cast xs l, getC cast xs r with
      | some a, some b => some ((a + b) / 2)
      | _, _ => none

def medianSortedC (cast : β → α) (xs : List β) : Option α := percentileSortedC cast xs 50

/-- `from_position(pos)` of `percentile` (stats.h:45-51): `nth xs k` is the caller's range after
    `std::nth_element(begin, begin + k, end)`; result = (`static_cast<double>(*middle)`, the rearranged range).
    `none`: position outside the range (`*end` would be read). -/
def fromPosNth (cast : β → α) (nth : List β → Nat → List β) (xs : List β) (i : Int) : Option (α × List β) :=
  if i < 0 then none
  else if i.toNat < xs.length then
    let ys := nth xs i.toNat
    (ys[i.toNat]?).map (fun v => (cast v, ys))
  else none

/-- `percentile` as coded (stats.h:42-54 + 15-37): one `nth_element` call when the position is integral, otherwise
    TWO calls — the second one (for `rpos`) runs on the range as the first one (for `lpos`) left it; `lvalue` was read
    before. Result = (value, final state of the caller's range). -/
def percentileNthC (cast : β → α) (nth : List β → Nat → List β) (xs : List β) (p : α) : Option (α × List β) :=
  if xs.isEmpty then none
  else if ¬ (0 ≤ p ∧ p ≤ 100) then none
  else
    let pos := position xs.length p
    let l := FloorI.floor pos
    let r := FloorI.ceil pos
    if l = r then fromPosNth cast nth xs l
    else
      match fromPosNth cast nth xs l with
      | none => none
      | some (a, ys) =>
        match fromPosNth cast nth ys r with
        | none => none
        | some (b, zs) => some ((a + b) / 2, zs)

def medianNthC (cast : β → α) (nth : List β → Nat → List β) (xs : List β) : Option (α × List β) :=
  percentileNthC cast nth xs 50

/-- one instance of the `nth_element` oracle (the one the driver runs): a full sort (any other rearrangement that meets
    the contract `NthSpec` gives the same value: `percentileNthC_spec`) -/
def nthBySort [LE β] [DecidableLE β] (xs : List β) (_k : Nat) : List β := msort xs

/-! ### ml::load_stats (src/machine/stats.cpp:31-40) into ml::stats_t (include/nano/machine/stats.h:11-25) -/

/-- `ml::stats_t`, fields in declaration order -/
structure StatsT (α : Type) where
  mean : α
  stdev : α
  count : α
  per01 : α
  per05 : α
  per10 : α
  per20 : α
  per50 : α
  per80 : α
  per90 : α
  per95 : α
  per99 : α

/-- `load_stats`: aggregate initialisation from `stats(0) … stats(11)`; `none` = `assert(stats.size() == 12)` -/
def loadStats : List α → Option (StatsT α)
  | [a0, a1, a2, a3, a4, a5, a6, a7, a8, a9, a10, a11] => some ⟨a0, a1, a2, a3, a4, a5, a6, a7, a8, a9, a10, a11⟩
  | _ => none

def StatsT.toList (s : StatsT α) : List α :=
  [s.mean, s.stdev, s.count, s.per01, s.per05, s.per10, s.per20, s.per50, s.per80, s.per90, s.per95, s.per99]

/-- the percentile fields of `stats_t` paired with the percentage their NAME announces (`m_per05` ↦ 5) -/
def StatsT.named (s : StatsT α) : List (Nat × α) :=
  [(1, s.per01), (5, s.per05), (10, s.per10), (20, s.per20), (50, s.per50), (80, s.per80), (90, s.per90),
   (95, s.per95), (99, s.per99)]

end
end NanoVerif.Stats
