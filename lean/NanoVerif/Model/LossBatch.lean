import NanoVerif.Model.Loss
/-
  C06 — model of the TENSOR INTERFACE of `loss_t` (core Lean only; linked into `driver_c06`).

  Mirrors
    include/nano/loss.h:37-62              `loss_t::error / value / vgrad` on 4-D tensors `(samples, d1, d2, d3)`
    include/nano/loss/flatten.h:48-85      `flatten_loss_t<tloss>::error / value / vgrad`: `for i in 0..samples:
                                            out(i) = tloss::…(targets.array(i), outputs.array(i))` (vgrad: `vgrads.array(i)`)
    src/loss/pinball.cpp:22-57             the same loops of `pinball_loss_t`
    include/nano/tensor/tensor.h           `array(i)`: the contiguous block `[i * n, (i + 1) * n)` of the row-major buffer,
                                            `n = d1 * d2 * d3` (the 3-D structure of a sample is flattened)

  A 4-D tensor is its row-major buffer (a `List α`) together with the per-sample size `n`. Two views of sample `i`:
    `sampleAt n i buf`   the indexed view the code uses (`data() + i * n`, length `n`);
    the chunk recursion of `batchMap` / `batchFlat` (take `n`, drop `n`), the loop over the samples.
  `Proofs/C06Batch.lean` proves that they agree and that entry `i` of every result depends on sample `i` only.
-/
namespace NanoVerif.Loss

/-- `size(make_dims(d1, d2, d3))`: the number of scalars of one sample -/
def sampleSize (d1 d2 d3 : Nat) : Nat := d1 * d2 * d3

/-- `tensor.array(i)` / `tensor.vector(i)` of a 4-D tensor with `n` scalars per sample stored in `buf` -/
def sampleAt {α : Type} (n i : Nat) (buf : List α) : List α := (buf.drop (i * n)).take n

/-- `for (i = 0; i < samples; ++i) out(i) = f(targets.array(i), outputs.array(i))` (value, error: one scalar per sample) -/
def batchMap {α β : Type} (f : List α → List α → β) (n : Nat) : Nat → List α → List α → List β
  | 0, _, _ => []
  | m + 1, T, O => f (T.take n) (O.take n) :: batchMap f n m (T.drop n) (O.drop n)

/-- `for (i = 0; i < samples; ++i) g(targets.array(i), outputs.array(i), vgrads.array(i))`: the buffer of the result tensor -/
def batchFlat {α : Type} (g : List α → List α → List α) (n : Nat) : Nat → List α → List α → List α
  | 0, _, _ => []
  | m + 1, T, O => g (T.take n) (O.take n) ++ batchFlat g n m (T.drop n) (O.drop n)

section
variable {α : Type} [Add α] [Sub α] [Mul α] [Div α] [Neg α] [LT α] [LE α] [DecidableLT α] [DecidableLE α]
  [OfNat α 0] [OfNat α 1] [OfNat α 2] [OfNat α 4] [NatCast α] [Transc α]

/-- `loss_t::value(targets, outputs, values)` for `m` samples of `n` scalars -/
def batchValues (k : Kind) (a eps : α) (n m : Nat) (T O : List α) : List α := batchMap (value k a eps) n m T O

/-- `loss_t::error(targets, outputs, errors)` -/
def batchErrors (k : Kind) (e : Err) (a eps : α) (n m : Nat) (T O : List α) : List α := batchMap (error k e a eps) n m T O

/-- `loss_t::vgrad(targets, outputs, vgrads)`: the buffer of the `(m, d1, d2, d3)` tensor of gradients -/
def batchVgrads (k : Kind) (a : α) (n m : Nat) (T O : List α) : List α := batchFlat (vgrad k a) n m T O

end
end NanoVerif.Loss
