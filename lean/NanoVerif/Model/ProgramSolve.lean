import NanoVerif.Model.ProgramNewton
/-
  C04 — the whole solver around the loop body of `Model/Program.lean` (core Lean only; generic over the scalar).

  Mirrors (line numbers of /repo at the time of writing):
    src/program/state.cpp:23-61          solver_state_t::update (the KKT optimality test `m_kkt`)      -> `cabs`, `normInf`, `kktTest`
    src/program/solver.cpp:284-385       the `for` loop of solve_with_inequality, `m_iters`, `m_kkt`   -> `exitKind`, `stepAccepted`, `loop`
    src/program/solver.cpp:243-282       solve_with_inequality: the early `unfeasible` return          -> `solveIneq`
    src/program/solver.cpp:387-415       solve_without_inequality as a returned state                  -> `solveNoineq`
    src/program/constrained.cpp:14-52    linear_constrained_t::make_strictly_feasible                  -> `msfEval`, `msfLoop`, `makeStrictlyFeasible`
    src/program/solver.cpp:11-23         make_x0                                                       -> `makeX0`
    src/program/solver.cpp:219-241       the four `solver_t::solve` overloads                          -> `solveTop`
    src/program/solver.cpp:70-98         program_t::program_t: reduce, then the three normalisations   -> `prepare`

  ORACLES (parameters): `Newton` = the answer of Eigen LDLT per iteration (contract: solves `kktMat · z = kktVec`,
  `Model/ProgramNewton.lean`), `reduce` = program::reduce (contract: `RowEquiv`, `Proofs/ProgramSolve.lean`), `lsq` = the LDLT solve
  of the normal equations in make_strictly_feasible (no contract needed: the answer is tested by the code itself).
-/
namespace NanoVerif.Program

section
variable {α : Type} [Add α] [Sub α] [Mul α] [Div α] [Neg α] [LT α] [LE α] [DecidableLT α] [DecidableLE α]
  [OfNat α 0] [OfNat α 1] [OfNat α 2] [NatCast α]

/-! ### the KKT optimality test (`solver_state_t::update`, state.cpp:23-61) -/

/-- `std::fabs` -/
def cabs (a : α) : α := if a < 0 then -a else a

/-- `lpNorm<Eigen::Infinity>()` -/
def normInf (v : List α) : α := v.foldl (fun acc a => cmax acc (cabs a)) 0

/-- `Qx + c + Aᵀv + Gᵀu` (`c + Aᵀv + Gᵀu` for an LP), test 5 -/
def lagGrad (P : Prog α) (x u v : List α) : List α :=
  vadd (vadd (gradObj P x) (tmv P.n P.A v)) (tmv P.n P.G u)

/-- `m_kkt` after `state.update(Q, c, A, b, G, h)`: the running maximum of the five tests.
    NB (the code that exists): test 5 is the norm of the Eigen expression `Q x + c + Aᵀ v + Gᵀ u`, whose size is that of its
    LAST operand. `stack(...)` sizes `A` as `p × n` and `G` as `m × n` as soon as the caller states one constraint (and
    `reduce` keeps the `n` columns even when it removes every row), but a program stated without ANY constraint keeps the
    default `0 × 0` matrices: the expression is then empty and its norm is 0, i.e. for such a program (`unconstrained`) the
    stationarity test silently drops out of `m_kkt` (observed on the unchanged tree: `m_kkt = 0` is returned with
    `|Q x + c|∞ = 0.25`; `m_kkt` is not used by any decision of the solver). -/
def kktTest (P : Prog α) (unconstrained : Bool) (x u v : List α) : α :=
  let g := slack P x
  let k1 := if P.G.isEmpty then 0 else cmax 0 (normInf (g.map (fun a => cmax a 0)))
  let k2 := if P.A.isEmpty then k1 else cmax k1 (normInf (vsub (mv P.A x) P.b))
  let k3 := if P.G.isEmpty then k2 else cmax k2 (normInf (u.map (fun a => cmax (-a) 0)))
  let k4 := if P.G.isEmpty then k3 else cmax k3 (normInf (hmul u g))
  if unconstrained then k4 else cmax k4 (normInf (lagGrad P x u v))

/-! ### the loop of `solve_with_inequality` -/

/-- what `program.solve` + the finiteness test of solver.cpp:305 answer at iteration `k` in the state `(x, u, v, st)`:
    `(stepOk, dx, du, dv)` -/
abbrev Newton (α : Type) := Nat → List α → List α → List α → St α → Bool × List α × List α × List α

/-- the state `solve_with_inequality` returns: `m_iters, m_x, m_u, m_v`, the derived fields, `m_kkt`, `m_status` -/
structure RunSt (α : Type) where
  iters : Nat
  x : List α
  u : List α
  v : List α
  st : St α
  kkt : α
  status : Status

/-- the exits of the loop body -/
inductive ExitKind where
  | unstable      -- solver.cpp:305-309  `!isfinite(rcond) || !dx.all_finite() …` -> done, break
  | stage1Failed  -- solver.cpp:325-329  `iter == max_lsearch_iters` after stage 1 -> done, break
  | stage2Failed  -- solver.cpp:346-352  `iter == max_lsearch_iters` after stage 2 -> revert, done, break
  | nonFinite     -- solver.cpp:365-371  a non-finite `eta / |rdual| / |rprim|` after the step -> failed, break
  | noProgress    -- solver.cpp:372-377  every decrease below `epsilon0` -> done, break
  | continues     -- solver.cpp:378-381
deriving DecidableEq, Repr

def ExitKind.code : ExitKind → Nat
  | .unstable => 1 | .stage1Failed => 2 | .stage2Failed => 3 | .nonFinite => 4 | .noProgress => 5 | .continues => 0

/-- which exit one pass through the loop body takes (same tests as `iterate`, in the same order) -/
def exitKind [Sqrt α] [FinTest α] (P : Prog α) (mufx : α) (par : Params α) (x u v : List α) (st : St α)
    (stepOk : Bool) (dx du dv : List α) : ExitKind :=
  if !stepOk then .unstable
  else
    match stage1 P par.beta x dx par.maxLs (par.s0 * makeSmax par.big u du) with
    | none => .stage1Failed
    | some s1 =>
      match stage2 P mufx par.miu par.alpha par.beta x u v dx du dv (residual st) par.maxLs s1 st with
      | (none, _) => .stage2Failed
      | (some _, st2) =>
        if !(FinTest.isFin st2.eta && FinTest.isFin (norm2 st2.rdual) && FinTest.isFin (norm2 st2.rprim)) then .nonFinite
        else if cmax3 (st.eta - st2.eta) (norm2 st.rdual - norm2 st2.rdual) (norm2 st.rprim - norm2 st2.rprim) < par.epsilon0 then
          .noProgress
        else .continues

/-- the step was accepted (`state.m_x += s * dx; …; state.update(...)`, solver.cpp:355-358, was reached) -/
def ExitKind.accepted : ExitKind → Bool
  | .nonFinite | .noProgress | .continues => true
  | _ => false

/-- the `for` loop: `fuel` = remaining iterations, `k` = `state.m_iters`, `kkt` = `state.m_kkt` (refreshed only after an
    accepted step). Leaving the loop by `break` keeps `m_iters = k`; running out of iterations leaves `max_iters`. -/
def loop [Sqrt α] [FinTest α] (P : Prog α) (mufx : α) (par : Params α) (newton : Newton α) :
    Nat → Nat → List α → List α → List α → St α → α → RunSt α
  | 0, k, x, u, v, st, kkt => ⟨k, x, u, v, st, kkt, .maxIters⟩
  | fuel + 1, k, x, u, v, st, kkt =>
    let nw := newton k x u v st
    let acc := (exitKind P mufx par x u v st nw.1 nw.2.1 nw.2.2.1 nw.2.2.2).accepted
    match iterate P mufx par x u v st nw.1 nw.2.1 nw.2.2.1 nw.2.2.2 with
    | .next x' u' v' st' => loop P mufx par newton fuel (k + 1) x' u' v' st' (kktTest P false x' u' v')
    | .stop status x' u' v' st' => ⟨k, x', u', v', st', if acc then kktTest P false x' u' v' else kkt, status⟩

/-- `solve_with_inequality(program, x0)` on the prepared (reduced, normalised) program. `nan` = the value the constructor
    of `solver_state_t` fills in. -/
def solveIneq [Sqrt α] [FinTest α] (P : Prog α) (mufx : α) (par : Params α) (nan : α) (newton : Newton α)
    (x0 : List α) : RunSt α :=
  match start P mufx par.miu nan x0 with
  | none =>
    ⟨0, x0, List.replicate P.m nan, List.replicate P.p nan,
      ⟨nan, nan, List.replicate P.n nan, List.replicate P.p nan, List.replicate P.m nan⟩, 0, .unfeasible⟩
  | some (u, v, st) => loop P mufx par newton par.maxIters 0 x0 u v st 0

/-- `solve_without_inequality(program)` given the answer `(x, v)` of the LDLT solve of `kktMat P (kktTopLeft0 P) · z = kktVec0 P` -/
def solveNoineq [Sqrt α] [FinTest α] (P : Prog α) (mufx : α) (par : Params α) (unconstrained : Bool) (x v : List α) :
    RunSt α :=
  let r := noineq P mufx par x v
  ⟨0, x, [], v, r.2, kktTest P unconstrained x [] v, r.1⟩

/-! ### the starting point -/

/-- `eval(y)` of make_strictly_feasible: `x = decomp.solve(Gᵀ (h − y))` (oracle `lsq`), accepted iff `G x < h` strictly -/
def msfEval (P : Prog α) (lsq : α → List α) (y : α) : Option (List α) :=
  let x := lsq y
  if maxLt (slack P x) 0 then some x else none

/-- the `for (trial = 0; trial < trials; trial += 2)` loop: `eval(ym) || eval(yM)`, then `ym *= gamma, yM /= gamma` -/
def msfLoop (P : Prog α) (gamma : α) (lsq : α → List α) : Nat → α → α → Option (List α)
  | 0, _, _ => none
  | k + 1, ym, yM =>
    match msfEval P lsq ym with
    | some x => some x
    | none =>
      match msfEval P lsq yM with
      | some x => some x
      | none => msfLoop P gamma lsq k (ym * gamma) (yM / gamma)

/-- `linear_constrained_t::make_strictly_feasible()` (`gamma = 0.3`, `rounds = trials / 2 = 50`) -/
def makeStrictlyFeasible (P : Prog α) (gamma : α) (rounds : Nat) (lsq : α → List α) : Option (List α) :=
  if P.G.isEmpty then none else msfLoop P gamma lsq rounds 1 (1 / gamma)

/-- `make_x0(program)`: the strictly feasible point when one was found, the origin otherwise -/
def makeX0 (P : Prog α) (gamma : α) (rounds : Nat) (lsq : α → List α) : List α :=
  match makeStrictlyFeasible P gamma rounds lsq with
  | some x => x
  | none => zeros P.n

/-! ### a whole call of `solver_t::solve` -/

/-- everything Eigen answers during one call -/
structure Oracles (α : Type) where
  reduce : List (List α) → List α → List (List α) × List α
  newton : Newton α
  kktSolve : List α × List α
  lsq : α → List α

/-- `program_t::program_t`: `reduce(A, b)` first, then the three normalisations -/
def prepare [Sqrt α] (minNorm : α) (reduce : List (List α) → List α → List (List α) × List α) (P0 : Prog α) : α × Prog α :=
  let r := reduce P0.A P0.b
  normalize minNorm { P0 with A := r.1, b := r.2 }

/-- `solver_t::solve(program[, x0])`: `userX0 = none` for the overloads without a starting point. NB: the default start is
    computed from the CALLER's inequalities, the strict-feasibility test of the loop uses the normalised ones. -/
def solveTop [Sqrt α] [FinTest α] (par : Params α) (nan gamma : α) (rounds : Nat) (orc : Oracles α) (P0 : Prog α)
    (userX0 : Option (List α)) : RunSt α :=
  let pp := prepare par.minNorm orc.reduce P0
  if P0.G.isEmpty then solveNoineq pp.2 pp.1 par P0.A.isEmpty orc.kktSolve.1 orc.kktSolve.2
  else
    let x0 := match userX0 with
      | some x => x
      | none => makeX0 P0 gamma rounds orc.lsq
    solveIneq pp.2 pp.1 par nan orc.newton x0

end

end NanoVerif.Program
