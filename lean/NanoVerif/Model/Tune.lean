/-
  C13 — model of the bookkeeping of `ml::tune` and `ml::result_t` (core Lean only).

  Mirrors:
    src/machine/tune.cpp      thread_callback (index → (trial, fold), closest trial, store), tuner_callback
    src/machine/result.cpp    result_t::add / store / stats / extra (slot `trial * folds + fold`), value, values,
                              optimum_trial, closest_trial

  What the model callback returns for a (trial, fold) — four sets of statistics and the model-specific `std::any` — is an
  opaque payload `σ` (its percentiles are the business of C20); only its `mean` of the validation errors is used.
-/
namespace NanoVerif.Tune

/-- tune.cpp:27-28: `fold = index % folds`, `trial = index / folds` -/
def decode (folds index : Nat) : Nat × Nat := (index / folds, index % folds)

/-- position of (trial, fold) in `m_extras` / `m_log_paths` and (times 48) in `m_values` (result.cpp:124,181) -/
def slot (folds trial fold : Nat) : Nat := trial * folds + fold

structure Result (σ : Type) where
  folds : Nat
  trials : Nat
  /-- `trials * folds` slots; `none` = still NaN / empty `std::any` -/
  slots : List (Option σ)

def Result.empty {σ : Type} (folds : Nat) : Result σ := ⟨folds, 0, []⟩

def Result.wf {σ : Type} (r : Result σ) : Prop := r.slots.length = r.trials * r.folds

/-- `result_t::add(params_to_try)` with `k` new trials (result.cpp:24-51) -/
def Result.add {σ : Type} (r : Result σ) (k : Nat) : Result σ :=
  { r with trials := r.trials + k, slots := r.slots ++ List.replicate (k * r.folds) none }

/-- `result_t::store(trial, fold, …)` (result.cpp:108-125) -/
def Result.store {σ : Type} (r : Result σ) (trial fold : Nat) (p : σ) : Result σ :=
  { r with slots := r.slots.set (slot r.folds trial fold) (some p) }

/-- `result_t::stats(trial, fold, …)` / `extra(trial, fold)`: `none` outside the asserts and for an unset slot -/
def Result.get? {σ : Type} (r : Result σ) (trial fold : Nat) : Option σ :=
  if fold < r.folds ∧ trial < r.trials then (r.slots[slot r.folds trial fold]?).bind id else none

/-- the scan shared by `optimum_trial` (over the values of all trials, result.cpp:53-68) and `closest_trial` (over the
    distances to the first `max_trials` trials, result.cpp:70-87): first strict improvement over `top`, start at trial 0 -/
def argminScan {α : Type} [LT α] [DecidableLT α] (top : α) (vals : List α) : Nat :=
  (vals.foldl (fun (acc : Nat × α × Nat) v =>
      let (best, bestVal, i) := acc
      if v < bestVal then (i, v, i + 1) else (best, bestVal, i + 1)) (0, top, 0)).1

/-- `result_t::closest_trial(params, max_trials)` (result.cpp:70-87): the scan over the FIRST `maxTrials` rows of
    `m_params` (which, when `ml::tune` calls it, already holds the rows of the batch in flight: `result.add` comes first,
    tune.cpp:23) with the distance `dist row params` (`lpNorm<2>` of the difference); `top` = `DBL_MAX`; trial 0 when
    `maxTrials = 0` -/
def closestTrial {α π : Type} [LT α] [DecidableLT α] (top : α) (dist : π → π → α) (rows : List π) (params : π)
    (maxTrials : Nat) : Nat :=
  argminScan top ((rows.take maxTrials).map fun row => dist row params)

/-- `thread_callback(index, ·)` (tune.cpp:25-41). `pre` is the result right after `add`; `closest t` is the trial among
    the old ones closest to new trial `t`. The model-specific data of the closest trial is read from `pre` (the code
    reads the live result: the same whenever `old > 0`, or when the batch has a single trial, which is the case for the
    first batch of both tuners; otherwise the code itself races) -/
def threadCallback {σ : Type} (cb : Nat → Nat → Option σ → σ) (closest : Nat → Nat) (pre : Result σ) (old : Nat)
    (r : Result σ) (index : Nat) : Result σ :=
  let tf := decode pre.folds index
  r.store (old + tf.1) tf.2 (cb tf.1 tf.2 (pre.get? (closest tf.1) tf.2))

/-- `tuner_callback(new_params)` up to `tpool.map` (tune.cpp:18-43): `add`, then `thread_callback` for the indices in the
    order `order` in which the pool happened to run them -/
def runBatch {σ : Type} (cb : Nat → Nat → Option σ → σ) (closest : Nat → Nat) (r0 : Result σ) (k : Nat)
    (order : List Nat) : Result σ :=
  let pre := r0.add k
  order.foldl (threadCallback cb closest pre r0.trials) pre

/-- the (trial, fold) pairs the model callback is called with -/
def callsOf (folds : Nat) (order : List Nat) : List (Nat × Nat) := order.map (decode folds)

/-- `result_t::value(trial)` (result.cpp:134-147): mean over the folds of the stored mean validation errors;
    `none` where a slot is unset (the code would return NaN) -/
def Result.value {σ α : Type} [Add α] [Div α] [OfNat α 0] [NatCast α] (mean : σ → α) (r : Result σ) (trial : Nat) :
    Option α :=
  ((List.range r.folds).mapM fun fold => r.get? trial fold).map fun ps =>
    (ps.foldl (fun acc p => acc + mean p) 0) / (r.folds : α)

/-- `result_t::optimum_trial()` given the values of all trials; `top` = `std::numeric_limits<scalar_t>::max()` -/
def optimumTrial {α : Type} [LT α] [DecidableLT α] (top : α) (values : List α) : Nat := argminScan top values

end NanoVerif.Tune
