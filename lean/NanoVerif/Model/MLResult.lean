import NanoVerif.Model.Tune
import NanoVerif.Model.Stats
/-!
  C11 — what `ml::result_t` stores and reports (src/machine/result.cpp, src/machine/stats.cpp) and how the two ML models fill it
  through `ml::tune` (src/machine/tune.cpp). Core Lean only.

  The slot bookkeeping (`add`, `store`'s position `trial * folds + fold`, `extra`, `value`, `optimum_trial`, `closest_trial`, the
  batches of `ml::tune`) is C13's model `Model/Tune.lean` — imported, generic in the payload `σ` of a slot. This file fixes the
  payload: the four 12-number statistics blocks `store_stats` writes into `m_values(trial, fold, train|valid, errors|losses, :)`
  (C20's model `Stats.storeStats`, imported) next to the model-specific `std::any`. `sort` is the `std::nth_element` oracle of C20.
-/
namespace NanoVerif.MLResult
open NanoVerif.Tune NanoVerif.Stats

/-- `ml::split_type` -/
inductive Split where
  | train | valid
  deriving DecidableEq, Repr

/-- `ml::value_type` -/
inductive Kind where
  | errors | losses
  deriving DecidableEq, Repr

/-- `m_values(trial, fold, :, :, :)`: four blocks of 12 statistics; `none` = the block `store_stats` cannot compute (empty
    range: `percentile` would read outside it) -/
structure Cell (α : Type) where
  trainErr : Option (List α)
  trainLoss : Option (List α)
  validErr : Option (List α)
  validLoss : Option (List α)

/-- `isplit = split == train ? 0 : 1`, `ivalue = value == errors ? 0 : 1` (result.cpp:173-176) -/
def Cell.sel {α : Type} (c : Cell α) : Split → Kind → Option (List α)
  | .train, .errors => c.trainErr
  | .train, .losses => c.trainLoss
  | .valid, .errors => c.validErr
  | .valid, .losses => c.validLoss

/-- a slot: the statistics and `m_extras[trial * folds + fold]` -/
structure Payload (E α : Type) where
  cell : Cell α
  extra : E

/-- per-sample (error, loss value) pairs → the column `store_stats` reads (`errors_losses.tensor(0)` / `.tensor(1)`) -/
def column {α : Type} (vals : List (α × α)) : Kind → List α
  | .errors => vals.map (·.1)
  | .losses => vals.map (·.2)

section
variable {E α : Type} [Add α] [Sub α] [Mul α] [Div α] [LT α] [LE α] [DecidableLT α] [DecidableLE α]
  [OfNat α 0] [OfNat α 1] [OfNat α 2] [OfNat α 50] [OfNat α 100] [FloorI α] [HasSqrt α]

/-- the four `store_stats` calls of `result_t::store(trial, fold, train_errors_losses, valid_errors_losses, extra)`
    (result.cpp:120-124) -/
def storeCell (sort : List α → List α) (tr vd : List (α × α)) : Cell α :=
  { trainErr := storeStats sort (column tr .errors), trainLoss := storeStats sort (column tr .losses),
    validErr := storeStats sort (column vd .errors), validLoss := storeStats sort (column vd .losses) }

/-- `result_t::store(trial, fold, …)` (result.cpp:112-127) -/
def store (sort : List α → List α) (r : Result (Payload E α)) (trial fold : Nat) (tr vd : List (α × α)) (extra : E) :
    Result (Payload E α) :=
  r.store trial fold { cell := storeCell sort tr vd, extra := extra }

/-- `result_t::stats(trial, fold, split, value)` (result.cpp:167-177): `load_stats` of the block; `none` outside the asserts,
    for a slot still NaN, and for a block `store_stats` could not compute -/
def stats (r : Result (Payload E α)) (trial fold : Nat) (split : Split) (kind : Kind) : Option (List α) :=
  (r.get? trial fold).bind (fun p => p.cell.sel split kind)

/-- `result_t::extra(trial, fold)` -/
def extraOf (r : Result (Payload E α)) (trial fold : Nat) : Option E := (r.get? trial fold).map (·.extra)

/-- `stats.m_mean` of the validation errors of a slot (what `value(trial)` sums, result.cpp:140-147 with the default
    arguments); `dflt` stands for the NaN of an unset block -/
def meanValidErr (dflt : α) (p : Payload E α) : α := (p.cell.validErr.bind (·.head?)).getD dflt

/-- what the model callback of `ml::tune` returns for a (trial, fold) (tune.cpp:37): per-sample training and validation
    (error, loss) pairs and the model-specific data -/
structure FoldFit (E α : Type) where
  trainValues : List (α × α)
  validValues : List (α × α)
  extra : E

/-- the payload `thread_callback` stores for what the model callback returned (tune.cpp:37-39), as the `cb` of C13's
    `runBatch`: the callback is handed the model-specific data of the closest earlier trial -/
def cbOf (sort : List α → List α) (fit : Nat → Nat → Option E → FoldFit E α) :
    Nat → Nat → Option (Payload E α) → Payload E α :=
  fun t f prev =>
    let r := fit t f (prev.map (·.extra))
    { cell := storeCell sort r.trainValues r.validValues, extra := r.extra }

/-- one call of `tuner_callback` (tune.cpp:18-47): `k` new trials, the pool's execution order, the closest-trial map, the
    model callback of the batch -/
structure Batch (E α : Type) where
  k : Nat
  order : List Nat
  closest : Nat → Nat
  fit : Nat → Nat → Option E → FoldFit E α

/-- `ml::tune` (tune.cpp:8-59) over the batches the tuner asks for (one batch `tensor2d_t{1, 0}` when nothing is tuned) -/
def runTune (sort : List α → List α) (folds : Nat) (bs : List (Batch E α)) : Result (Payload E α) :=
  bs.foldl (fun r b => runBatch (cbOf sort b.fit) b.closest r b.k b.order) (Result.empty folds)

/-- `ml::result_t` as returned by a `fit()`: the tuned part, `m_optims` (result.cpp:106-107) and `m_extra` -/
structure Full (E α : Type) where
  tuned : Result (Payload E α)
  optErr : Option (List α)
  optLoss : Option (List α)
  extra : Option E

/-- `result_t::store(errors_losses, extra)` (result.cpp:102-110) -/
def storeFinal (sort : List α → List α) (r : Result (Payload E α)) (vals : List (α × α)) (extra : Option E) : Full E α :=
  { tuned := r, optErr := storeStats sort (column vals .errors), optLoss := storeStats sort (column vals .losses),
    extra := extra }

/-- `result_t::stats(value)` (result.cpp:160-165) -/
def Full.stats (f : Full E α) : Kind → Option (List α)
  | .errors => f.optErr
  | .losses => f.optLoss

end

/-- `result_t::value(trial)` for every trial and `optimum_trial()` (result.cpp:64-80, 136-148): C13's `Result.value` /
    `optimumTrial` on this payload -/
def optimumOf {E α : Type} [Add α] [Div α] [OfNat α 0] [NatCast α] [LT α] [DecidableLT α] (top dflt : α)
    (r : Result (Payload E α)) : Nat :=
  optimumTrial top ((List.range r.trials).map (fun t => (r.value (meanValidErr dflt) t).getD dflt))

end NanoVerif.MLResult
