import NanoVerif.Gen.EarlyStopping
/-!
  C11 — the early-stopping monitor over a history of calls (core Lean only).

  The step function `done` (state × call → state × answer) is *generated* from the if-chain of
  `early_stopping_t::done` (src/gboost/early_stopping.cpp:13-50) into `Gen/EarlyStopping.lean` on every run; this file
  only adds what surrounds it:

    * `meanError`    — `gboost::mean_error` (src/gboost/util.cpp:66-71): `std::accumulate` from `0.0`, divided by
                       `max(samples.size(), 1)`;
    * `stateAfter` / `answers` — the monitor driven over a list of calls (one `early_stopping_t` object, `done` called
                       once per element);
    * `Improves`     — the *specification* of "accepted" used by the theorems of `Props/C11.lean`, written from the
                       property statement (training error below ε, or no validation samples, or a validation error
                       more than ε below the stored one) — it is not derived from the generated code.
-/
namespace NanoVerif.EarlyStopping
open NanoVerif.Gen.EarlyStopping

variable {α : Type} [Add α] [Sub α] [Mul α] [LT α] [LE α] [DecidableLT α] [DecidableLE α]

/-- `gboost::mean_error`: `std::accumulate(begin, end, 0.0, +) / max(size, 1)`; `ofNat` = `static_cast<scalar_t>` -/
def meanError [Div α] (zero : α) (ofNat : Nat → α) (xs : List α) : α :=
  xs.foldl (· + ·) zero / ofNat (max xs.length 1)

/-- the state of the monitor after the calls `h` (in order), starting from `s` -/
def stateAfter (eps : α) (pat : Nat) (s : State α) : List (Call α) → State α
  | [] => s
  | c :: cs => stateAfter eps pat (done eps pat s c).1 cs

/-- the answers of `done` to the calls `h` (in order), starting from `s` -/
def answers (eps : α) (pat : Nat) (s : State α) : List (Call α) → List Bool
  | [] => []
  | c :: cs => (done eps pat s c).2 :: answers eps pat (done eps pat s c).1 cs

/-- specification of an accepted call relative to the stored validation error `best` -/
def Improves (eps best : α) (c : Call α) : Prop :=
  c.train < eps ∨ c.valid < best - eps ∨ c.nvalid = 0

/-- the state that records call `c` -/
def record (c : Call α) : State α := { round := c.n, value := c.valid, snap := c.idx }

/-- the numbering of the calls made by the round loop of gboost `fit` (model.cpp:121,187): the k-th call (k = 0, 1, …)
    sees k weak learners -/
def FitNumbered (h : List (Call α)) : Prop :=
  ∀ pre c post, h = pre ++ c :: post → c.n = pre.length

end NanoVerif.EarlyStopping
