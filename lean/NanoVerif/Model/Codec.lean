/-!
  C15 — codec combinators (core Lean only; linked into `driver_c15`).

  A `Codec α` is a pair of a writer and a reader over byte lists. The reader returns the decoded value and the
  unread rest, or `none` — the model's rendering of "exception or failed stream state" (both are `reject` on the
  implementation side, `harness/c15.cpp`). The combinators mirror the overloads of `include/nano/core/stream.h`:

  * `raw n`        — `stream.read(ptr, n)` / `stream.write(ptr, n)`                      (stream.h:14-30, 91-109)
  * `uintLE k`     — a trivially copyable unsigned scalar of `k` bytes (x86-64: little endian)
  * `intLE k`      — the same for two's-complement signed scalars
  * `str`          — `uint32_t` length + bytes                                             (stream.h:44-48, 131-146)
  * `vec c`        — `uint64_t` count + the elements                                        (stream.h:77-89, 181-199)
  * `dseq a b`     — "read a, then read b (which may depend on the value just read)"; `seq` is the independent case
  * `pmap c f g`   — reinterpret the value that was read (`f`, may refuse = `critical(...)`/`setstate(failbit)`) and
                     project the value to be written (`g`)
  * `factory`      — type-id string + the object registered under that id               (stream.h:62-72, 159-176)
-/
namespace NanoVerif.Codec

abbrev Bytes := List UInt8

structure Codec (α : Type) where
  enc : α → Bytes
  dec : Bytes → Option (α × Bytes)

/-- split off exactly `n` bytes (`istream::read` of `n` bytes: fails when fewer are available) -/
def takeN : Nat → Bytes → Option (Bytes × Bytes)
  | 0, bs => some ([], bs)
  | _ + 1, [] => none
  | n + 1, b :: bs =>
    match takeN n bs with
    | some (x, r) => some (b :: x, r)
    | none => none

/-- `n` raw bytes -/
def raw (n : Nat) : Codec Bytes := ⟨fun x => x, takeN n⟩

/-- nothing on the wire -/
def unit : Codec Unit := ⟨fun _ => [], fun bs => some ((), bs)⟩

/-- a reader that always refuses (unknown type tag / unknown type id) -/
def fail {α : Type} : Codec α := ⟨fun _ => [], fun _ => none⟩

def pmap {α β : Type} (c : Codec α) (f : α → Option β) (g : β → α) : Codec β where
  enc y := c.enc (g y)
  dec bs :=
    match c.dec bs with
    | none => none
    | some (x, r) =>
      match f x with
      | none => none
      | some y => some (y, r)

def dseq {α β : Type} (a : Codec α) (b : α → Codec β) : Codec (α × β) where
  enc p := a.enc p.1 ++ (b p.1).enc p.2
  dec bs :=
    match a.dec bs with
    | none => none
    | some (x, r) =>
      match (b x).dec r with
      | none => none
      | some (y, r') => some ((x, y), r')

def seq {α β : Type} (a : Codec α) (b : Codec β) : Codec (α × β) := dseq a (fun _ => b)

/-! ### little-endian scalars -/

def leBytes : Nat → Nat → Bytes
  | 0, _ => []
  | k + 1, n => UInt8.ofNat (n % 256) :: leBytes k (n / 256)

def leNat : Bytes → Nat
  | [] => 0
  | b :: bs => b.toNat + 256 * leNat bs

/-- unsigned scalar of `k` bytes -/
def uintLE (k : Nat) : Codec Nat := pmap (raw k) (fun bs => some (leNat bs)) (leBytes k)

/-- two's complement: the signed value of the `k`-byte pattern `u` -/
def toSigned (k : Nat) (u : Nat) : Int := if u < 256 ^ k / 2 then (u : Int) else (u : Int) - (256 ^ k : Nat)

/-- two's complement: the `k`-byte pattern of `i` -/
def ofSigned (k : Nat) (i : Int) : Nat := (i % ((256 ^ k : Nat) : Int)).toNat

/-- signed scalar of `k` bytes -/
def intLE (k : Nat) : Codec Int := pmap (uintLE k) (fun u => some (toSigned k u)) (ofSigned k)

def u32 : Codec Nat := uintLE 4
def u64 : Codec Nat := uintLE 8
def i32 : Codec Int := intLE 4
def i64 : Codec Int := intLE 8

/-- a field with a fixed expected value (`iversion != hash_version()` … ⇒ failbit) -/
def const {α : Type} [DecidableEq α] (c : Codec α) (v : α) : Codec Unit :=
  pmap c (fun x => if x = v then some () else none) (fun _ => v)

/-- `make_flag` / `make_comp` of `src/parameter.cpp:93-101`: written as 0/1, any non-zero reads as LE -/
def flag : Codec Bool := pmap u32 (fun n => some (n != 0)) (fun b => if b then 1 else 0)

/-! ### repetition -/

def encList {α : Type} (c : Codec α) : List α → Bytes
  | [] => []
  | x :: xs => c.enc x ++ encList c xs

def decN {α : Type} (c : Codec α) : Nat → Bytes → Option (List α × Bytes)
  | 0, bs => some ([], bs)
  | n + 1, bs =>
    match c.dec bs with
    | none => none
    | some (x, r) =>
      match decN c n r with
      | none => none
      | some (xs, r') => some (x :: xs, r')

/-- exactly `n` elements -/
def rep {α : Type} (c : Codec α) (n : Nat) : Codec (List α) := ⟨encList c, decN c n⟩

/-- `std::vector<T>`: `uint64_t` count, then the elements (stream.h:77-89 / 181-199) -/
def vec {α : Type} (c : Codec α) : Codec (List α) :=
  pmap (dseq u64 (rep c)) (fun p => some p.2) (fun xs => (xs.length, xs))

/-- `std::string`: `uint32_t` size, then the characters (stream.h:44-48 / 131-146) -/
def str : Codec Bytes :=
  pmap (dseq u32 raw) (fun p => some p.2) (fun s => (s.length, s))

/-- factory object: type id, then the object the factory holds under that id; an unknown id fails the stream
    (stream.h:62-72 / 159-176: `object = tobject::all().get(type_id); if (!object) setstate(failbit)`) -/
def factory {β : Type} (ids : List Bytes) (body : Codec β) : Codec (Bytes × β) :=
  dseq str (fun id => if id ∈ ids then body else fail)

end NanoVerif.Codec
