import NanoVerif.Model.TensorView
/-
  C16 — explicit heap model of libnano's three tensor storages and of every conversion / assignment / copy / move
  between them (core Lean only).

  Mirrors:
    include/nano/tensor/storage.h   tensor_vector_storage_t (owning Eigen vector), tensor_carray_storage_t (constant map),
                                    tensor_marray_storage_t (mutable map): constructors, copy / move, operator=, resize, copy()
    include/nano/tensor/tensor.h    tensor_t converting constructors / operator= (175-202), map_tensor (43-74),
                                    tslice / ttensor / treshape applied to data() of any storage (745-775), operator() (349-373)
    Eigen 3.4 DenseStorage<T, Dynamic, Dynamic, 1> (what `= default` of the owning storage delegates to): copy constructor
                                    = allocate + copy, copy assignment (`_set`) = resize-if-count-differs + copy, move constructor
                                    = steal the pointer (source: nullptr, 0 elements), move assignment = swap of pointer and count,
                                    resize(n) = keep the allocation when the count is unchanged, else release + allocate
                                    (nullptr when n = 0), `conditional_aligned_new_auto(0) = nullptr`

  Memory is a HEAP of buffers with identity: `heap[b]` is `some contents` while buffer `b` is allocated and `none` once it has
  been released; identities are never re-used (a fresh allocation is appended), so "points into released memory" is a state
  the model can express. An operation either writes elements of an existing buffer, or allocates a fresh one, or releases
  one. A tensor object is `(kind, pointer, dims)`; a pointer is `none` (nullptr) or `some (buffer, offset)`.

  Every operation returns `none` exactly when the RELEASE build (asserts compiled out) would read or write an element
  outside the buffer its pointer addresses (or through nullptr / into released memory). The conditions of the C++
  `assert`s are separate predicates (`…Assert`): theorems say that under the assert and for well-formed objects the
  operation does not fault, and what the compiled code does when an assert is violated.
-/
namespace NanoVerif.Tensor.Store
open NanoVerif.Tensor

/-- a raw pointer `tscalar*`: `none` = nullptr, `some (b, off)` = element `off` of buffer `b` -/
abbrev Ptr := Option (Nat × Nat)

/-- pointer arithmetic `ptr + k` (tensor.h:735, 742, 749, 774) -/
def Ptr.add (p : Ptr) (k : Nat) : Ptr := p.map fun q => (q.1, q.2 + k)

/-- the pointer addresses (some element of) allocation `c` -/
def Ptr.inBuf (p : Ptr) (c : Nat) : Bool :=
  match p with
  | some (b, _) => b == c
  | none => false

/-- the heap: `h[b] = some (some buf)` allocated, `some none` released, out of range = never allocated -/
abbrev Heap (α : Type) := List (Option (List α))

variable {α : Type}

/-- contents of buffer `b` if it is allocated -/
def Heap.buf (h : Heap α) (b : Nat) : Option (List α) := (h[b]?).join

/-- one memory cell -/
def Heap.cell (h : Heap α) (b i : Nat) : Option α := (h.buf b).bind (·[i]?)

/-- number of elements of the allocation a pointer addresses (what Eigen's vector reports as its `size()` for the
    pointer an owning storage holds); 0 for nullptr -/
def Heap.len (h : Heap α) (p : Ptr) : Nat :=
  match p with
  | some (b, _) => ((h.buf b).map List.length).getD 0
  | none => 0

/-- read `n` consecutive elements at `p` (`map_vector(p, n)` evaluated; storage.h:55, 61, 67, 75, 245). Reading zero
    elements touches nothing (a zero-sized Eigen map is never dereferenced). -/
def Heap.read (h : Heap α) (p : Ptr) (n : Nat) : Option (List α) :=
  if n = 0 then some []
  else match p with
    | none => none
    | some (b, off) =>
      match h.buf b with
      | some buf => if off + n ≤ buf.length then some ((buf.drop off).take n) else none
      | none => none

/-- overwrite `|vals|` consecutive elements at `p` -/
def Heap.write (h : Heap α) (p : Ptr) (vals : List α) : Option (Heap α) :=
  if vals.length = 0 then some h
  else match p with
    | none => none
    | some (b, off) =>
      match h.buf b with
      | some buf => if off + vals.length ≤ buf.length then some (h.set b (some (splice buf off vals))) else none
      | none => none

/-- a fresh allocation holding `xs` (Eigen: `conditional_aligned_new_auto`; nullptr for zero elements); its identity is
    new: no existing pointer addresses it -/
def Heap.alloc (h : Heap α) (xs : List α) : Heap α × Ptr :=
  if xs.length = 0 then (h, none) else (h ++ [some xs], some (h.length, 0))

/-- release the allocation an owning pointer addresses (`conditional_aligned_delete_auto`; nothing for nullptr) -/
def Heap.free (h : Heap α) (p : Ptr) : Heap α :=
  match p with
  | some (b, _) => h.set b none
  | none => h

/-! ### tensor objects -/

/-- `tensor_mem_t` / `tensor_map_t` / `tensor_cmap_t` (tensor.h:18-31) -/
inductive Kind where
  | mem | map | cmap
deriving DecidableEq, Repr

/-- a tensor object: `m_dims` (base.h:131) and `m_data` (storage.h:100 — the Eigen vector, here its pointer; 164, 249) -/
structure Obj where
  kind : Kind
  ptr : Ptr
  dims : List Nat
deriving DecidableEq, Repr

/-- default-constructed tensor of rank `r` (base.h:26 `m_dims.fill(0)`; storage.h:33, 119, 183: empty vector / nullptr) -/
def Obj.default (k : Kind) (r : Nat) : Obj := ⟨k, none, List.replicate r 0⟩

/-- the elements the accessors of a tensor see: `size()` elements at `data()` -/
def Obj.elems (h : Heap α) (o : Obj) : Option (List α) := h.read o.ptr (size o.dims)

/-- the number of elements a COPY of this object transfers: an owning tensor copies its Eigen vector (the vector's own count,
    storage.h:35, 37), a map is read as `map_vector(data(), size())` (storage.h:55, 61, 67, 75) -/
def Obj.count (h : Heap α) (o : Obj) : Nat := if o.kind = .mem then h.len o.ptr else size o.dims

/-- the state the library maintains for an owning tensor: the pointer is the start of a live allocation of exactly `size()`
    elements (nullptr iff `size() = 0`) -/
def Obj.OkMem (h : Heap α) (o : Obj) : Prop :=
  o.kind = .mem ∧
  ((o.ptr = none ∧ size o.dims = 0) ∨
   (∃ b buf, o.ptr = some (b, 0) ∧ h.buf b = some buf ∧ buf.length = size o.dims ∧ 0 < size o.dims))

/-- `size()` elements at `data()` lie inside one live allocation (any storage; trivially true for zero elements) -/
def Obj.Ok (h : Heap α) (o : Obj) : Prop := (o.elems h).isSome

/-! ### constructions -/

/-- `tensor_mem_t(dims…)` (storage.h:40-51): a fresh allocation of `size()` uninitialised elements (`junk`) -/
def memNew (junk : α) (h : Heap α) (dims : List Nat) : Heap α × Obj :=
  let r := h.alloc (List.replicate (size dims) junk)
  (r.1, ⟨.mem, r.2, dims⟩)

/-- copy-constructions of an owning tensor: from an owning tensor (storage.h:35, Eigen copy constructor: allocate + copy
    the whole vector), from a constant map (53-57), from a mutable map (59-63): `m_data(map_vector(other.data(),
    other.size()))`; reached through tensor.h:165, 177-192 -/
def memCopy (h : Heap α) (src : Obj) : Option (Heap α × Obj) := do
  let xs ← h.read src.ptr (src.count h)
  let r := h.alloc xs
  pure (r.1, ⟨.mem, r.2, src.dims⟩)

/-- move-construction of an owning tensor (storage.h:36 → Eigen DenseStorage move constructor): the new object takes the
    pointer, the source is left with nullptr — but `tensor_base_t(tensor_base_t&&) = default` (base.h:45) COPIES the
    dimensions, so the moved-from object keeps its dims. Returns (new object, moved-from object); no element is touched. -/
def memMoveCtor (src : Obj) : Obj × Obj := (⟨.mem, src.ptr, src.dims⟩, ⟨.mem, none, src.dims⟩)

/-- non-owning constructions: `tensor_map_t(tensor_mem_t&)` (storage.h:209-213), `tensor_cmap_t(const tensor_mem_t&)`
    (140-144), `tensor_cmap_t(const tensor_map_t&)` (146-150), copy / move constructors of the maps (121-122, 185-186: a
    raw pointer is copied by a move), move assignment of a CONSTANT map (123: `= default`, re-binds pointer and dims):
    same pointer, same dims, nothing read or written -/
def viewOf (k : Kind) (src : Obj) : Obj := ⟨k, src.ptr, src.dims⟩

/-- `map_tensor(ptr + off, dims)` (tensor.h:43-74; storage.h:125-138, 194-207) on the data pointer of `src` -/
def rawMap (k : Kind) (src : Obj) (off : Nat) (dims : List Nat) : Obj := ⟨k, src.ptr.add off, dims⟩

/-- the assert of the raw-pointer constructors (storage.h:130, 137, 199, 206) -/
def rawMapAssert (o : Obj) : Prop := o.ptr ≠ none ∨ size o.dims = 0

/-! ### assignments to an owning tensor -/

/-- `owning = owning` (storage.h:37 `= default` → base.h:40 copies the dims, Eigen `Matrix::operator=(const Matrix&)` →
    `_set` → `resize(other.size())` which RE-USES the allocation when the element count is unchanged and otherwise releases
    it and allocates (DenseStorage::resize), then copies the elements). Self-assignment copies the vector onto itself. -/
def memAssignMem (h : Heap α) (dst src : Obj) : Option (Heap α × Obj) :=
  let n := h.len src.ptr
  if h.len dst.ptr = n then do
    let xs ← h.read src.ptr n
    let h' ← h.write dst.ptr xs
    pure (h', ⟨.mem, dst.ptr, src.dims⟩)
  else do
    let h1 := h.free dst.ptr
    let xs ← h1.read src.ptr n
    let r := h1.alloc xs
    pure (r.1, ⟨.mem, r.2, src.dims⟩)

/-- `owning = map`, `owning = constant map` (storage.h:65-79 through tensor.h:197-202): the viewed elements are first copied
    into a temporary vector (a FRESH allocation, also when the element count is unchanged), the dims are taken over,
    `std::swap(data, m_data)` exchanges the pointers, the temporary's destructor releases the PREVIOUS allocation. The
    source may view the destination's own buffer (`t = t.slice(b, e)`): it is read before anything is released. -/
def memAssignView (h : Heap α) (dst src : Obj) : Option (Heap α × Obj) := do
  let xs ← h.read src.ptr (size src.dims)
  let r := h.alloc xs
  pure (r.1.free dst.ptr, ⟨.mem, r.2, src.dims⟩)

/-- move-assignment `owning = std::move(owning)` (storage.h:38 → DenseStorage move assignment = SWAP of pointer and count;
    base.h:46 copies the dims): the destination takes the source's allocation, the source is left holding the destination's
    previous allocation under its own, unchanged dims. Returns (destination, moved-from source); nothing is copied or
    released. -/
def memMoveAssign (dst src : Obj) : Obj × Obj := (⟨.mem, src.ptr, src.dims⟩, ⟨.mem, dst.ptr, src.dims⟩)

/-- `resize(dims)` (storage.h:81-92): `_resize(dims)` then `m_data.resize(size())` — the allocation (and with it every
    element, in flat order) is kept when the element count is unchanged; otherwise it is released and a fresh
    uninitialised one is allocated -/
def memResize (junk : α) (h : Heap α) (dst : Obj) (dims : List Nat) : Heap α × Obj :=
  if h.len dst.ptr = size dims then (h, ⟨.mem, dst.ptr, dims⟩)
  else
    let r := (h.free dst.ptr).alloc (List.replicate (size dims) junk)
    (r.1, ⟨.mem, r.2, dims⟩)

/-- destruction of an object: an owning tensor releases its allocation, a map releases nothing -/
def dropObj (h : Heap α) (o : Obj) : Heap α := if o.kind = .mem then h.free o.ptr else h

/-! ### assignment to a mutable map: `tensor_marray_storage_t::copy` -/

/-- element-wise ascending copy inside ONE buffer: `buf[d + i] = buf[s + i]` for `i = 0, 1, …, n - 1` (what Eigen's dense
    assignment loop does at element granularity; no temporary, source and destination may overlap) -/
def fwd (buf : List α) (d s : Nat) : Nat → List α
  | 0 => buf
  | n + 1 =>
    match buf[s]? with
    | some x => fwd (buf.set d x) (d + 1) (s + 1) n
    | none => buf

/-- `map_vector(dst, n) = map_vector(src, n)`: `n` elements, ascending, no temporary -/
def Heap.copyFwd (h : Heap α) (dp sp : Ptr) (n : Nat) : Option (Heap α) :=
  if n = 0 then some h
  else match dp, sp with
    | some (db, d), some (sb, s) =>
      if db = sb then
        match h.buf db with
        | some buf =>
          if d + n ≤ buf.length ∧ s + n ≤ buf.length then some (h.set db (some (fwd buf d s n))) else none
        | none => none
      else do
        let xs ← h.read (some (sb, s)) n
        h.write (some (db, d)) xs
    | _, _ => none

/-- `assert(size() == other.size())` of `copy` (storage.h:244) -/
def mapAssignAssert (h : Heap α) (dst src : Obj) : Prop := size dst.dims = src.count h

/-- `map = owning / constant map / map`, also `map = std::move(map)` (storage.h:188-192, 215-232 → `copy`, 241-246), in
    the release build: `map_vector(m_data, size()) = map_vector(other.data(), other.size())` — a mapped destination cannot be
    resized, Eigen's loop runs over the DESTINATION's `size()` elements; the destination's dims and pointer are unchanged
    (only the element count is asserted, not the shape). -/
def mapAssign (h : Heap α) (dst src : Obj) : Option (Heap α) := h.copyFwd dst.ptr src.ptr (size dst.dims)

/-! ### element access and views of any storage -/

/-- element-wise writes through a non-constant tensor: `t(i) = vals[i]` for all `i < size()` (tensor.h:349-354), `vector() =`,
    `full`, `zero` (405-414). A constant map hands out `const tscalar&` (storage.h:116): rejected at compile time. -/
def Obj.write (h : Heap α) (o : Obj) (vals : List α) : Option (Heap α) :=
  if o.kind ≠ .cmap ∧ vals.length = size o.dims then h.write o.ptr vals else none

/-- assignment / construction from an Eigen expression (tensor.h:154-160, 207-212, 777-800; ranks 1 and 2): an owning tensor
    is first `resize`d to the expression's dims (`resize(expression.size())` / `resize(rows, cols)`: allocation kept when the
    count is unchanged), then `vector() = expression` / `matrix() = expression` writes every element (row-major); a map is
    not resized — its own elements are overwritten -/
def assignExpr (junk : α) (h : Heap α) (dst : Obj) (dims : List Nat) (vals : List α) : Option (Heap α × Obj) :=
  if dst.kind = .mem then
    let r := memResize junk h dst dims
    (r.2.write r.1 vals).map fun h' => (h', r.2)
  else (dst.write h vals).map fun h' => (h', dst)

/-- the asserts of `assign` (tensor.h:787, 796-797) -/
def assignExprAssert (dst : Obj) (dims : List Nat) (vals : List α) : Prop :=
  (dims.length = 1 ∨ dims.length = 2) ∧ vals.length = size dims ∧
  (dst.kind ≠ .mem → if dims.length = 1 then size dst.dims = size dims else dst.dims = dims)

/-- the storage of a view: `map_tensor(ptr + …)` on `tscalar*` gives a mutable map, on `const tscalar*` (constant map, or any
    tensor accessed as const) a constant map (tensor.h:43-56, storage.h:94-96, 160, 238) -/
def Obj.viewKind (o : Obj) (asConst : Bool) : Kind := if asConst ∨ o.kind = .cmap then .cmap else .map

/-- `slice(begin, end)` / `slice(range)` of any storage (tensor.h:287-293, 768-775) -/
def Obj.slice (o : Obj) (asConst : Bool) (b e : Nat) : Option Obj :=
  (View.slice ⟨0, o.dims⟩ b e).map fun v => ⟨o.viewKind asConst, o.ptr.add v.off, v.dims⟩

/-- `tensor(i…)` of any storage (tensor.h:271-281, 745-750) -/
def Obj.sub (o : Obj) (asConst : Bool) (pre : List Nat) : Option Obj :=
  (View.sub ⟨0, o.dims⟩ pre).map fun v => ⟨o.viewKind asConst, o.ptr.add v.off, v.dims⟩

/-- `reshape(sizes…)` of any storage (tensor.h:379-389, 752-766) -/
def Obj.reshape (o : Obj) (asConst : Bool) (sizes : List Int) : Option Obj :=
  (View.reshape ⟨0, o.dims⟩ sizes).map fun v => ⟨o.viewKind asConst, o.ptr.add v.off, v.dims⟩

/-! ### histories: a machine over numbered objects -/

/-- heap + the objects of a program -/
structure St (α : Type) where
  heap : Heap α
  objs : List Obj

inductive Op (α : Type) where
  /-- `objs[o].reset()`: destroy the object (an owner releases its allocation); the slot holds a default object -/
  | drop (o : Nat)
  /-- `objs[o].emplace(dims)`: owning tensor of the given dims (uninitialised) -/
  | new (o : Nat) (dims : List Nat)
  /-- element-wise writes through object `o` -/
  | fill (o : Nat) (vals : List α)
  /-- `objs[o].emplace(objs[s])`: converting / copy constructor; the kind of the result is the kind of slot `o` -/
  | ctor (o s : Nat)
  /-- `objs[o].emplace(std::move(objs[s]))` -/
  | moveCtor (o s : Nat)
  /-- `objs[o] = objs[s]` -/
  | assign (o s : Nat)
  /-- `objs[o] = std::move(objs[s])` -/
  | moveAssign (o s : Nat)
  /-- `objs[o].resize(dims)` -/
  | resize (o : Nat) (dims : List Nat)
  /-- `objs[o] = <Eigen expression of the given dims and values>` -/
  | expr (o : Nat) (dims : List Nat) (vals : List α)
  /-- `objs[o].emplace(objs[s].slice(b, e))` (through the const interface when `c`) -/
  | slice (o s : Nat) (c : Bool) (b e : Nat)
  /-- `objs[o].emplace(objs[s].reshape(sizes…))` -/
  | reshape (o s : Nat) (c : Bool) (sizes : List Int)
  /-- `objs[o].emplace(objs[s].tensor(i…))` -/
  | sub (o s : Nat) (c : Bool) (pre : List Nat)
  /-- `objs[o].emplace(objs[s].data() + off, dims)` -/
  | raw (o s : Nat) (off : Nat) (dims : List Nat)

/-- install a freshly constructed object in slot `o` (`std::optional::emplace`: the previous object is destroyed —
    BEFORE the constructor runs; the constructor's arguments were evaluated before that) -/
def St.put (st : St α) (o : Nat) (x : Obj) : St α := ⟨st.heap, st.objs.set o x⟩

/-- construct slot `o` (of kind `k`) from the source object `src` (evaluated in the heap after the old object of the slot
    has been destroyed) -/
def construct (h : Heap α) (k : Kind) (src : Obj) : Option (Heap α × Obj) :=
  match k with
  | .mem => memCopy h src
  | .map => if src.kind = .cmap then none else some (h, viewOf .map src)  -- no conversion constant → mutable
  | .cmap => some (h, viewOf .cmap src)

/-- `objs[o] = src` by the kind of the destination `x` (tensor.h:166, 197-202 → storage.h:37, 65-79, 215-232; 152-154:
    deleted for a constant map) -/
def assignObj (st : St α) (o : Nat) (x src : Obj) : Option (St α) :=
  match x.kind with
  | .mem => do
    let r ← if src.kind = .mem then memAssignMem st.heap x src else memAssignView st.heap x src
    pure ⟨r.1, st.objs.set o r.2⟩
  | .map => do
    let h' ← mapAssign st.heap x src
    pure ⟨h', st.objs⟩
  | .cmap => none

/-- one operation; `none` = the release build accesses memory outside the addressed buffer (or the operation does not
    compile: assignment to a constant map, writes through a constant map, mutable map of a constant one) -/
def step (junk : α) (st : St α) : Op α → Option (St α)
  | .drop o => do
    let x ← st.objs[o]?
    pure ⟨dropObj st.heap x, st.objs.set o (Obj.default x.kind x.dims.length)⟩
  | .new o dims => do
    let x ← st.objs[o]?
    if x.kind ≠ .mem then none
    let r := memNew junk (dropObj st.heap x) dims
    pure ⟨r.1, st.objs.set o r.2⟩
  | .fill o vals => do
    let x ← st.objs[o]?
    let h' ← x.write st.heap vals
    pure ⟨h', st.objs⟩
  | .ctor o s => do
    let x ← st.objs[o]?
    let y ← st.objs[s]?
    let r ← construct (dropObj st.heap x) x.kind y
    pure ⟨r.1, st.objs.set o r.2⟩
  | .moveCtor o s => do
    let x ← st.objs[o]?
    let y ← st.objs[s]?
    if x.kind = .mem ∧ y.kind = .mem then
      -- `objs[o].emplace(std::move(objs[o]))` would move from an object whose lifetime has ended
      if o = s then none
      let r := memMoveCtor y
      pure ⟨dropObj st.heap x, (st.objs.set s r.2).set o r.1⟩
    else
      -- an rvalue of another storage binds to the converting copy constructor (tensor.h:177-182); maps copy the pointer
      let r ← construct (dropObj st.heap x) x.kind y
      pure ⟨r.1, st.objs.set o r.2⟩
  | .assign o s => do
    let x ← st.objs[o]?
    let y ← st.objs[s]?
    assignObj st o x y
  | .moveAssign o s => do
    let x ← st.objs[o]?
    let y ← st.objs[s]?
    if x.kind = .mem ∧ y.kind = .mem then
      let r := memMoveAssign x y
      pure ⟨st.heap, (st.objs.set s r.2).set o r.1⟩
    else if x.kind = .cmap ∧ y.kind = .cmap then some ⟨st.heap, st.objs.set o (viewOf .cmap y)⟩
    else
      -- `map = std::move(map)` is `copy` (storage.h:188-192); an rvalue of another storage binds to `operator=(const&)`
      assignObj st o x y
  | .resize o dims => do
    let x ← st.objs[o]?
    if x.kind ≠ .mem then none
    let r := memResize junk st.heap x dims
    pure ⟨r.1, st.objs.set o r.2⟩
  | .expr o dims vals => do
    let x ← st.objs[o]?
    let r ← assignExpr junk st.heap x dims vals
    pure ⟨r.1, st.objs.set o r.2⟩
  | .slice o s c b e => do
    let x ← st.objs[o]?
    let y ← st.objs[s]?
    let v ← y.slice c b e
    let r ← construct (dropObj st.heap x) x.kind v
    pure ⟨r.1, st.objs.set o r.2⟩
  | .reshape o s c sizes => do
    let x ← st.objs[o]?
    let y ← st.objs[s]?
    let v ← y.reshape c sizes
    let r ← construct (dropObj st.heap x) x.kind v
    pure ⟨r.1, st.objs.set o r.2⟩
  | .sub o s c pre => do
    let x ← st.objs[o]?
    let y ← st.objs[s]?
    let v ← y.sub c pre
    let r ← construct (dropObj st.heap x) x.kind v
    pure ⟨r.1, st.objs.set o r.2⟩
  | .raw o s off dims => do
    let x ← st.objs[o]?
    let y ← st.objs[s]?
    if x.kind = .mem then none
    let v := rawMap (y.viewKind (x.kind = .cmap)) y off dims
    let r ← construct (dropObj st.heap x) x.kind v
    pure ⟨r.1, st.objs.set o r.2⟩

/-- a whole history -/
def run (junk : α) : St α → List (Op α) → Option (St α)
  | st, [] => some st
  | st, op :: ops => (step junk st op).bind fun st' => run junk st' ops

end NanoVerif.Tensor.Store
