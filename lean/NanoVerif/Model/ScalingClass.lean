import NanoVerif.Model.ScalingTop
/-!
  C14 — model of `xclass_stats_t` (class counts and class-balancing sample weights of single-label / multi-label features and
  targets), core Lean only:

    src/dataset/hash.cpp:20-48     nano::make_hashes (sclass / mclass)          -> `setInsert`, `makeHashes`
    include/nano/dataset/hash.h:29-41  nano::find (std::lower_bound + equality) -> `lowerBound`, `find`
    src/dataset/stats.cpp:148-157  ::alloc_xclass_stats                         -> the initial `List.replicate … 0` of `classCounts`
    src/dataset/stats.cpp:159-168  ::update(xclass_stats_t&, sample, values)    -> `incAt`, `classCounts`, `sampleClasses`
    src/dataset/stats.cpp:170-186  ::done(xclass_stats_t&)                      -> `classWeights`
    src/dataset/stats.cpp:188-208  ::make_xclass_stats (sclass / mclass)        -> `xclassStats`
    src/dataset/stats.cpp:452-491  xclass_stats_t::make_targets_stats / make_feature_stats -> `xclassFor` (`none` = `critical0`)

  A sample is `(present, hash)`: `present` ⇔ the label is `≥ 0` (sclass) / the first indicator is `≥ 0` (mclass); `hash` is
  `nano::hash(values)`: the label cast to `uint64_t` (a missing label −1 is 2⁶⁴−1) or `nano::detail::hash` of the indicator row
  (an oracle: the harness reports it per sample). NOTE (as coded): `::update` looks up EVERY sample, present or not — a missing
  sample whose hash collides with a class is counted in it; for sclass this cannot happen (`no_collision_sclass` in the oracle:
  labels are `int32_t`, 2⁶⁴−1 is not a label).
  `std::lower_bound` is modelled by its contract on a range partitioned by `· < hash` (first position whose element is not less);
  `makeHashes_sorted` (Proofs/ScalingClass.lean) shows the range is strictly increasing.
-/
namespace NanoVerif.Scaling

/-- `std::set<uint64_t>::insert` on the sorted sequence of the set -/
def setInsert (h : Nat) : List Nat → List Nat
  | [] => [h]
  | x :: xs => if h < x then h :: x :: xs else if x < h then x :: setInsert h xs else x :: xs

/-- `nano::make_hashes`: the hashes of the present samples, sorted and distinct -/
def makeHashes (ss : List (Bool × Nat)) : List Nat :=
  ss.foldl (fun acc s => if s.1 then setInsert s.2 acc else acc) []

/-- `std::lower_bound(begin, end, hash) - begin` -/
def lowerBound : List Nat → Nat → Nat
  | [], _ => 0
  | x :: xs, h => if x < h then lowerBound xs h + 1 else 0

/-- `nano::find(hashes, values)`: `(it == end || *it != hash) ? -1 : distance(begin, it)` -/
def find (hs : List Nat) (h : Nat) : Int :=
  match hs[lowerBound hs h]? with
  | some x => if x = h then (lowerBound hs h : Int) else -1
  | none => -1

/-- `m_class_samples(iclass) += 1` -/
def incAt : List Nat → Nat → List Nat
  | [], _ => []
  | c :: cs, 0 => (c + 1) :: cs
  | c :: cs, i + 1 => c :: incAt cs i

/-- `m_sample_classes`: the class index of every sample (−1: no class) -/
def sampleClasses (hs : List Nat) (ss : List (Bool × Nat)) : List Int :=
  ss.map (fun s => find hs s.2)

/-- `m_class_samples` after the loop of `::update` -/
def classCounts (nclasses : Nat) (classes : List Int) : List Nat :=
  classes.foldl (fun cs c => if c ≥ 0 then incAt cs c.toNat else cs) (List.replicate nclasses 0)

structure XStats (α : Type) where
  hashes : List Nat
  classSamples : List Nat
  sampleClasses : List Int
  sampleWeights : List α
deriving Repr

section
variable {α : Type} [Add α] [Div α] [OfNat α 0] [OfNat α 1] [NatCast α]

/-- `::done(xclass_stats_t&)`: `norm = 1 / Σ_c 1/count_c`, weight of a sample = `norm / count_{its class}`, 0 without class -/
def classWeights (counts : List Nat) (classes : List Int) : List α :=
  let norm : α := 1 / (counts.map (fun (n : Nat) => (1 : α) / ((n : Nat) : α))).foldl (· + ·) 0
  classes.map (fun c => if c ≥ 0 then norm / ((counts.getD c.toNat 0 : Nat) : α) else 0)

/-- `::make_xclass_stats` -/
def xclassStats (ss : List (Bool × Nat)) : XStats α :=
  let hs := makeHashes ss
  let classes := sampleClasses hs ss
  let counts := classCounts hs.length classes
  ⟨hs, counts, classes, classWeights counts classes⟩

/-- `xclass_stats_t::make_feature_stats / make_targets_stats`: `critical0` for a continuous feature / target -/
def xclassFor (f : Feat) (ss : List (Bool × Nat)) : Option (XStats α) :=
  if f.isClass then some (xclassStats ss) else none

end

end NanoVerif.Scaling
