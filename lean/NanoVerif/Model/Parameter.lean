import NanoVerif.Model.ParamTypes
import NanoVerif.Model.ParamParse
import NanoVerif.Gen.ParamCheck
/-
  C19 — executable model of `parameter_t` (core Lean only).

  Mirrors include/nano/parameter.h and src/parameter.cpp:
    storage_t (parameter.h:93)                                   → `Storage α` (the seven alternatives)
    constructors (parameter.cpp:250-286)                         → `make`
    seti / setd (parameter.cpp:288-298) over `update(storage, value)` (73-80)           → `Op.setInt`, `Op.setFloat`
    operator=(tuple<…>) (321-337) over `update(storage, tuple)` (82-92)                 → `Op.setPairInt`, `Op.setPairFloat`
    operator=(string_t) (300-319)                                → `Op.setString`
    operator=(tenum) (parameter.h:190-202)                       → `Op.setEnum`
    value<T>() / value_pair<T>() (parameter.h:207-251)           → the `read…` operations
    write + read through a stream (339-409)                      → `Op.writeRead`

  The domain guards and the check-then-assign order are *not* written here: `Gen.ParamCheck.updateEnum`,
  `updateRange`, `updatePair` are regenerated from the text of the three `update(...)` functions of
  src/parameter.cpp:34-71 on every run. They return `(parameter after the call, did it throw)`, so that a
  mutation before the throw would be visible.

  `α` is the type of `scalar_t` values; the driver and the table of factory defaults use `XF` (exact doubles),
  the theorems hold for every `α`.
-/
namespace NanoVerif.Param
open NanoVerif.Gen.ParamCheck

/-- what the model needs from `scalar_t` besides the comparisons -/
class FOps (α : Type) extends IsFinite α where
  /-- `static_cast<scalar_t>(int64_t)` -/
  ofI64 : Int → α
  /-- `static_cast<int64_t>(scalar_t)` -/
  toI64 : α → Int
  /-- `std::stod` -/
  stod : String → Except Err α

instance : FOps XF where
  ofI64 := XF.ofI64
  toI64 := XF.toI64
  stod := stodXF

inductive Storage (α : Type) where
  | mono
  | enum (p : EnumP)
  | irange (p : Range Int)
  | frange (p : Range α)
  | iprange (p : PRange Int)
  | fprange (p : PRange α)
  | str (s : String)
deriving Repr, DecidableEq

/-- the declared domain of whatever is stored (strings and the empty parameter are unconstrained) -/
def Storage.InDomain {α : Type} [LT α] [LE α] [IsFinite α] : Storage α → Prop
  | .mono => True
  | .enum p => p.InDomain
  | .irange p => p.InDomain
  | .frange p => p.InDomain
  | .iprange p => p.InDomain
  | .fprange p => p.InDomain
  | .str _ => True

instance {α : Type} [LT α] [LE α] [DecidableLT α] [DecidableLE α] [IsFinite α] (s : Storage α) :
    Decidable s.InDomain := by
  cases s <;> simp only [Storage.InDomain] <;> infer_instance

inductive Op (α : Type) where
  | setInt (v : Int)
  | setFloat (v : α)
  | setPairInt (v1 v2 : Int)
  | setPairFloat (v1 v2 : α)
  | setString (s : String)
  | setEnum (name : String)
  | readInt
  | readFloat
  | readPairInt
  | readPairFloat
  | readString
  | readEnum
  | writeRead
deriving Repr

inductive Res (α : Type) where
  | ok
  | int (v : Int)
  | float (v : α)
  | pairInt (v1 v2 : Int)
  | pairFloat (v1 v2 : α)
  | string (s : String)
  | enumv (name : String)
  | wr (equal eof : Bool)
  | throw (e : Err)
deriving Repr

def Res.isThrow {α : Type} : Res α → Bool
  | .throw _ => true
  | _ => false

section
variable {α : Type} [LT α] [LE α] [DecidableLT α] [DecidableLE α] [FOps α]

/-- result of one of the generated `update` functions: the parameter is stored back (the C++ code mutates it
    in place), a throw is `nano::critical`'s `std::runtime_error` -/
def ofUpd {σ : Type} (wrap : σ → Storage α) (r : σ × Bool) : Storage α × Res α :=
  (wrap r.1, if r.2 then .throw .critical else .ok)

/-- `seti`: `update(storage, int64_t)` — integer and scalar ranges take the value (converted), every other
    alternative is `critical0("cannot set value")` -/
def setInt (s : Storage α) (v : Int) : Storage α × Res α :=
  match s with
  | .irange p => ofUpd .irange (updateRange (fun (x : Int) => x) p v)
  | .frange p => ofUpd .frange (updateRange (FOps.ofI64 : Int → α) p v)
  | _ => (s, .throw .critical)

/-- `setd`: `update(storage, scalar_t)` -/
def setFloat (s : Storage α) (v : α) : Storage α × Res α :=
  match s with
  | .irange p => ofUpd .irange (updateRange (FOps.toI64 : α → Int) p v)
  | .frange p => ofUpd .frange (updateRange (fun (x : α) => x) p v)
  | _ => (s, .throw .critical)

/-- `operator=(std::tuple<int64_t, int64_t>)` (and the `int32_t` overload, which converts losslessly) -/
def setPairInt (s : Storage α) (v1 v2 : Int) : Storage α × Res α :=
  match s with
  | .iprange p => ofUpd .iprange (updatePair (fun (x : Int) => x) p v1 v2)
  | .fprange p => ofUpd .fprange (updatePair (FOps.ofI64 : Int → α) p v1 v2)
  | _ => (s, .throw .critical)

/-- `operator=(std::tuple<scalar_t, scalar_t>)` -/
def setPairFloat (s : Storage α) (v1 v2 : α) : Storage α × Res α :=
  match s with
  | .iprange p => ofUpd .iprange (updatePair (FOps.toI64 : α → Int) p v1 v2)
  | .fprange p => ofUpd .fprange (updatePair (fun (x : α) => x) p v1 v2)
  | _ => (s, .throw .critical)

/-- `operator=(string_t)`. For the pairs the two conversions are the arguments of one call
    (`::update(m_name, param, std::stoll(value1), std::stoll(value2))`): g++ evaluates them right to left, so the
    exception of the second token wins when both fail (observed by the correspondence; not a property). -/
def setString (s : Storage α) (v : String) : Storage α × Res α :=
  match s with
  | .enum p => ofUpd .enum (updateEnum p v)
  | .str _ => (.str v, .ok)
  | .irange p =>
    match stoll v with
    | .error e => (s, .throw e)
    | .ok x => ofUpd .irange (updateRange (fun (x : Int) => x) p x)
  | .frange p =>
    match (FOps.stod v : Except Err α) with
    | .error e => (s, .throw e)
    | .ok x => ofUpd .frange (updateRange (fun (x : α) => x) p x)
  | .iprange p =>
    match stoll (splitPair v).2 with
    | .error e => (s, .throw e)
    | .ok x2 =>
      match stoll (splitPair v).1 with
      | .error e => (s, .throw e)
      | .ok x1 => ofUpd .iprange (updatePair (fun (x : Int) => x) p x1 x2)
  | .fprange p =>
    match (FOps.stod (splitPair v).2 : Except Err α) with
    | .error e => (s, .throw e)
    | .ok x2 =>
      match (FOps.stod (splitPair v).1 : Except Err α) with
      | .error e => (s, .throw e)
      | .ok x1 => ofUpd .fprange (updatePair (fun (x : α) => x) p x1 x2)
  | .mono => (s, .throw .critical)

/-- `operator=(tenum)`: the name of the enumeration value is assigned as a string when an enumeration is
    stored, `logical_error()` otherwise -/
def setEnum (s : Storage α) (name : String) : Storage α × Res α :=
  match s with
  | .enum _ => setString s name
  | _ => (s, .throw .critical)

/-- one operation: the storage afterwards and the answer -/
def step (s : Storage α) : Op α → Storage α × Res α
  | .setInt v => setInt s v
  | .setFloat v => setFloat s v
  | .setPairInt v1 v2 => setPairInt s v1 v2
  | .setPairFloat v1 v2 => setPairFloat s v1 v2
  | .setString v => setString s v
  | .setEnum name => setEnum s name
  | .readInt =>
    match s with
    | .irange p => (s, .int p.value)
    | .frange p => (s, .int (FOps.toI64 p.value))
    | _ => (s, .throw .critical)
  | .readFloat =>
    match s with
    | .irange p => (s, .float (FOps.ofI64 p.value))
    | .frange p => (s, .float p.value)
    | _ => (s, .throw .critical)
  | .readPairInt =>
    match s with
    | .iprange p => (s, .pairInt p.value1 p.value2)
    | .fprange p => (s, .pairInt (FOps.toI64 p.value1) (FOps.toI64 p.value2))
    | _ => (s, .throw .critical)
  | .readPairFloat =>
    match s with
    | .iprange p => (s, .pairFloat (FOps.ofI64 p.value1) (FOps.ofI64 p.value2))
    | .fprange p => (s, .pairFloat p.value1 p.value2)
    | _ => (s, .throw .critical)
  | .readString =>
    match s with
    | .str v => (s, .string v)
    | _ => (s, .throw .critical)
  | .readEnum =>
    -- `from_string<tenum>(m_value)`: the stored value is one of the enumeration's names (`EnumP.InDomain`),
    -- which is matched exactly
    match s with
    | .enum p => (s, .enumv p.value)
    | _ => (s, .throw .critical)
  | .writeRead =>
    -- `write` then `read` into a fresh parameter which replaces this one: every field travels verbatim
    -- (the codec itself belongs to C15); the answer is (`operator==` holds, the stream was consumed)
    (s, .wr true true)

/-- a history of operations: the final storage -/
def run (s : Storage α) : List (Op α) → Storage α
  | [] => s
  | op :: ops => run (step s op).1 ops

/-- what a parameter is constructed from (`make_enum`, `make_integer`, `make_scalar`, `make_integer_pair`,
    `make_scalar_pair`, `make_string`, default constructor) -/
inductive Spec (α : Type) where
  | mono
  | enum (p : EnumP)
  | int (p : Range Int)
  | float (p : Range α)
  | ipair (p : PRange Int)
  | fpair (p : PRange α)
  | str (s : String)
deriving Repr

def madeBy {σ : Type} (wrap : σ → Storage α) (r : σ × Bool) : Except Err (Storage α) :=
  if r.2 then .error .critical else .ok (wrap r.1)

/-- the constructors: each constrained alternative is passed through its `update` with its own value
    (parameter.cpp:252-286), so a parameter whose initial value is outside the domain is never constructed -/
def make : Spec α → Except Err (Storage α)
  | .mono => .ok .mono
  | .enum p => madeBy .enum (updateEnum p p.value)
  | .int p => madeBy .irange (updateRange (fun (x : Int) => x) p p.value)
  | .float p => madeBy .frange (updateRange (fun (x : α) => x) p p.value)
  | .ipair p => madeBy .iprange (updatePair (fun (x : Int) => x) p p.value1 p.value2)
  | .fpair p => madeBy .fprange (updatePair (fun (x : α) => x) p p.value1 p.value2)
  | .str v => .ok (.str v)

end

/-! ### vocabulary of the property theorems -/

def Op.isAssign {α : Type} : Op α → Bool
  | .setInt _ | .setFloat _ | .setPairInt _ _ | .setPairFloat _ _ | .setString _ | .setEnum _ => true
  | _ => false

/-- the typed read whose type matches the stored alternative
    (`value<int64_t>`, `value<scalar_t>`, `value_pair<…>`, `value<tenum>`, `value<string_t>`) -/
def Storage.readOp {α : Type} : Storage α → Op α
  | .irange _ => .readInt
  | .frange _ => .readFloat
  | .iprange _ => .readPairInt
  | .fprange _ => .readPairFloat
  | .enum _ => .readEnum
  | .str _ => .readString
  | .mono => .readString

/-- may this typed read be applied to the stored alternative? (`value<T>()` converts between the integer and
    the scalar range, `value_pair<T>()` between the two pair ranges; everything else is a type mismatch) -/
def Op.readable {α : Type} : Op α → Storage α → Bool
  | .readInt, .irange _ | .readInt, .frange _ | .readFloat, .irange _ | .readFloat, .frange _ => true
  | .readPairInt, .iprange _ | .readPairInt, .fprange _ | .readPairFloat, .iprange _ | .readPairFloat, .fprange _ => true
  | .readString, .str _ => true
  | .readEnum, .enum _ => true
  | .writeRead, _ => true
  | _, _ => false

/-- may this kind of assignment be applied to the stored alternative? -/
def Op.assignable {α : Type} : Op α → Storage α → Bool
  | .setInt _, .irange _ | .setInt _, .frange _ | .setFloat _, .irange _ | .setFloat _, .frange _ => true
  | .setPairInt _ _, .iprange _ | .setPairInt _ _, .fprange _ => true
  | .setPairFloat _ _, .iprange _ | .setPairFloat _ _, .fprange _ => true
  | .setString _, .mono => false
  | .setString _, _ => true
  | .setEnum _, .enum _ => true
  | _, _ => false

def Except.toOption' {ε β : Type} : Except ε β → Option β
  | .ok v => some v
  | .error _ => none

section
variable {α : Type} [FOps α]

/-- the value an assignment asks for, converted to the kind of the stored alternative (integers ↔ scalars by
    `static_cast`, strings by `std::stoll` / `std::stod`), in the shape the matching typed read returns it;
    `none` when the assignment does not apply to the alternative or the text is not a number -/
def requested (s : Storage α) : Op α → Option (Res α)
  | .setInt v =>
    match s with
    | .irange _ => some (.int v)
    | .frange _ => some (.float (FOps.ofI64 v))
    | _ => none
  | .setFloat v =>
    match s with
    | .irange _ => some (.int (FOps.toI64 v))
    | .frange _ => some (.float v)
    | _ => none
  | .setPairInt v1 v2 =>
    match s with
    | .iprange _ => some (.pairInt v1 v2)
    | .fprange _ => some (.pairFloat (FOps.ofI64 v1) (FOps.ofI64 v2))
    | _ => none
  | .setPairFloat v1 v2 =>
    match s with
    | .iprange _ => some (.pairInt (FOps.toI64 v1) (FOps.toI64 v2))
    | .fprange _ => some (.pairFloat v1 v2)
    | _ => none
  | .setString v =>
    match s with
    | .enum _ => some (.enumv v)
    | .str _ => some (.string v)
    | .irange _ => (Except.toOption' (stoll v)).map .int
    | .frange _ => (Except.toOption' (FOps.stod v : Except Err α)).map .float
    | .iprange _ =>
      match Except.toOption' (stoll (splitPair v).1), Except.toOption' (stoll (splitPair v).2) with
      | some x1, some x2 => some (.pairInt x1 x2)
      | _, _ => none
    | .fprange _ =>
      match Except.toOption' (FOps.stod (splitPair v).1 : Except Err α),
            Except.toOption' (FOps.stod (splitPair v).2 : Except Err α) with
      | some x1, some x2 => some (.pairFloat x1 x2)
      | _, _ => none
    | .mono => none
  | .setEnum name =>
    match s with
    | .enum _ => some (.enumv name)
    | _ => none
  | _ => none

end

/-- the constructor accepts the stored default again (through the regenerated guards) -/
def constructible : Storage XF → Bool
  | .mono => true
  | .str _ => true
  | .enum p => !(updateEnum p p.value).2
  | .irange p => !(updateRange (fun (x : Int) => x) p p.value).2
  | .frange p => !(updateRange (fun (x : XF) => x) p p.value).2
  | .iprange p => !(updatePair (fun (x : Int) => x) p p.value1 p.value2).2
  | .fprange p => !(updatePair (fun (x : XF) => x) p p.value1 p.value2).2

end NanoVerif.Param
