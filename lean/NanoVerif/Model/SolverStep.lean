import NanoVerif.Model.Solver
import NanoVerif.Model.LSearch
/-!
  C01 — model of the step-length machinery of the line-search solvers (core Lean only; linked into `driver_c01`).

  Mirrors
    src/lsearch0/constant.cpp:17-22     `lsearch0_constant_t::get`
    src/lsearch0/linear.cpp:18-38       `lsearch0_linear_t::get`            (private member `m_prevdg{1}`, linear.h:33)
    src/lsearch0/quadratic.cpp:18-37    `lsearch0_quadratic_t::get`         (private members `m_prevf{0}`, `m_prevdg{1}`, quadratic.h:68-69)
    src/lsearch0/cgdescent.cpp:19-70    `lsearch0_cgdescent_t::get`         (stateless; one extra VALUE evaluation of the function)
    src/solver/lstep.cpp:24-33          `lsearch_step_t::quadratic` with its `convexity` flag (the value is `LSearch.quadratic`,
                                        imported from `Model/LSearch.lean`, not copied)
    src/solver/lsearch.cpp:11-26        `lsearch_t::get` (the glue: `m_last_step_size{-1}`, lsearch.h:30)
    src/solver.cpp:95-107               `solver_t::make_lsearch` (fresh clones per `minimize`; `lsearch0::epsilon := solver::epsilon`)

  The private state of the objects is explicit: `Mem` (the two doubles of the linear / quadratic strategies) and `Obj`
  (`lsearch_t`: the last step size together with the memory of its `lsearch0` clone). No strategy keeps an iteration index: the
  "first call" is recognised by `last_step_size < 0` only, and `last_step_size` is whatever `lsearchk_t::get` handed back the
  previous time — ALSO when that search failed (lsearch.cpp:23 stores it unconditionally).

  `lsearch_t::get` = `lsearch0_t::get` followed by `lsearchk_t::get`. The second half is a SLOT (`LkSlot`): the drivers fill it
  with the logged answers, the theorems fill it with `lkOfModel`, i.e. with `LSearch.get` (the C07 model of `lsearchk_t::get`
  and of the five searches) run on the line function `t ↦ f(x + t d)` of the objective. With that instance the only oracle
  left in the line-search solvers is the objective `f` itself (`lsMinimizeS`).
-/
namespace NanoVerif.SolverStep
open NanoVerif.Gen.DoneLogic NanoVerif.Solver

/-- the four registered `lsearch0_t` implementations (src/lsearch0.cpp:20-23) -/
inductive Strategy where
  | constant | linear | quadratic | cgdescent
deriving DecidableEq, Repr

/-- the registered parameters (domains in `Dom`, Proofs/SolverStep.lean):
    `lsearch0::epsilon` (0,1) — overwritten with `solver::epsilon` by `make_lsearch`; `lsearch0::constant::t0` (0,1e6);
    `lsearch0::linear::{beta,alpha}` and `lsearch0::quadratic::{beta,alpha}` (1,1e6); `lsearch0::cgdescent::{phi0,phi1}` (0,1),
    `phi2` (1,1e6) -/
structure Params (α : Type) where
  epsilon : α
  constT0 : α
  linBeta : α
  linAlpha : α
  quadBeta : α
  quadAlpha : α
  phi0 : α
  phi1 : α
  phi2 : α

/-- private members of a strategy object between calls: `m_prevf` (quadratic), `m_prevdg` (linear, quadratic) -/
structure Mem (α : Type) where
  prevf : α
  prevdg : α

/-- what one call reads of its arguments: `state.fx()`, `state.dg(descent)`, `state.x().lpNorm<Infinity>()`,
    `state.gx().lpNorm<Infinity>()`, `state.gx().squaredNorm()`, `last_step_size`, and (CG_DESCENT, not on a first call) the value
    `funct.vgrad(x + last_step_size * phi1 * descent)` -/
structure Scal (α : Type) where
  fx : α
  dg : α
  xnorm : α
  gnorm : α
  gsq : α
  last : α
  ftrial : α

section
variable {α : Type} [Add α] [Sub α] [Mul α] [Div α] [Neg α] [LT α] [LE α] [DecidableLT α] [DecidableLE α] [∀ n, OfNat α n]

/-- default-constructed members: `m_prevf{0}`, `m_prevdg{1}` -/
def Mem.init : Mem α := ⟨0, 1⟩

/-! ### the four formulas on the scalars of a call -/

/-- constant.cpp:19-21 -/
def constantT0 (P : Params α) : α := P.constT0

/-- linear.cpp:26-34 `t0 = last < 0 ? 1 : std::min(1.0, -alpha * std::max(-last * m_prevdg, beta * epsilon) / dg)` -/
def linearT0 (P : Params α) (m : Mem α) (s : Scal α) : α :=
  if s.last < 0 then 1
  else cmin 1 ((-P.linAlpha) * cmax ((-s.last) * m.prevdg) (P.linBeta * P.epsilon) / s.dg)

/-- quadratic.cpp:24-32 `t0 = last < 0 ? 1 : std::min(1.0, -alpha * 2.0 * std::max(m_prevf - fx, beta * epsilon) / m_prevdg)`
    (NB: the slope of the PREVIOUS call; `last_step_size` is only tested for its sign) -/
def quadraticT0 (P : Params α) (m : Mem α) (s : Scal α) : α :=
  if s.last < 0 then 1
  else cmin 1 ((-P.quadAlpha) * 2 * cmax (m.prevf - s.fx) (P.quadBeta * P.epsilon) / m.prevdg)

/-- cgdescent.cpp:27-43, the first call: `phi0 |x|∞ / |g|∞`, or `phi0 |f| / |g|₂²` at `x = 0`, or `1` at `x = 0, f = 0` -/
def cgFirst (P : Params α) (s : Scal α) : α :=
  if s.xnorm > 0 then P.phi0 * s.xnorm / s.gnorm
  else if absv s.fx > 0 then P.phi0 * absv s.fx / s.gsq
  else 1

/-- the flag `*convexity = (dt * u.g - df) > 0.0` of `lsearch_step_t::quadratic` (lstep.cpp:28-31) -/
def quadConvex (u v : LSearch.Step α) : Bool := decide ((u.t - v.t) * u.g - (u.f - v.f) > 0)

/-- cgdescent.cpp:45-64, a later call: the minimiser `tq` of the parabola through `(0, f, dg)` and `(last·phi1, f(trial))` when
    the trial value is lower and the parabola is convex, otherwise `last · phi2` -/
def cgNext (P : Params α) (s : Scal α) : α :=
  let step0 : LSearch.Step α := ⟨0, s.fx, s.dg⟩
  let stepx : LSearch.Step α := ⟨s.last * P.phi1, s.ftrial, 0⟩
  let tq := LSearch.quadratic step0 stepx
  if stepx.f < step0.f ∧ quadConvex step0 stepx = true then tq else s.last * P.phi2

/-- cgdescent.cpp:25-67 -/
def cgdescentT0 (P : Params α) (s : Scal α) : α := if s.last < 0 then cgFirst P s else cgNext P s

/-- `lsearch0_t::get` of the four classes -/
def t0Of (st : Strategy) (P : Params α) (m : Mem α) (s : Scal α) : α :=
  match st with
  | .constant => constantT0 P
  | .linear => linearT0 P m s
  | .quadratic => quadraticT0 P m s
  | .cgdescent => cgdescentT0 P s

/-- the members after the call: linear.cpp:36 `m_prevdg = dg`; quadratic.cpp:34-35 `m_prevf = fx; m_prevdg = dg`; the other two
    classes have no members. The update does not depend on which branch computed `t0`. -/
def memAfter (st : Strategy) (m : Mem α) (s : Scal α) : Mem α :=
  match st with
  | .linear => ⟨m.prevf, s.dg⟩
  | .quadratic => ⟨s.fx, s.dg⟩
  | _ => m

/-- a history of calls on ONE strategy object (any arguments, any `last_step_size`, in any order): the steps it hands out
    (oldest first) and its members at the end. The drivers replay logged histories with exactly this function. -/
def l0run (st : Strategy) (P : Params α) : Mem α → List (Scal α) → List α × Mem α
  | m, [] => ([], m)
  | m, s :: rest =>
    let r := l0run st P (memAfter st m s) rest
    (t0Of st P m s :: r.1, r.2)

/-- does the call evaluate the function (cgdescent.cpp:50-51: only CG_DESCENT, only when `!(last_step_size < 0)`)? -/
def needsTrial (st : Strategy) (last : α) : Bool := decide (st = .cgdescent) && !decide (last < 0)

/-! ### a call on a `solver_state_t` and a direction -/

/-- `x + t * d` as Eigen evaluates it: element by element -/
def axpy (x : Vec α) (t : α) (d : Vec α) : Vec α := List.zipWith (fun xi di => xi + t * di) x d

/-- cgdescent.cpp:50 `state.x() + prevt * phi1 * descent` (the scalars are multiplied first) -/
def trialPoint (P : Params α) (x d : Vec α) (last : α) : Vec α := axpy x (last * P.phi1) d

/-- the scalars of a call; `fval` is the objective's value (`function_t::vgrad` without a gradient) -/
def scalOf (st : Strategy) (P : Params α) (fval : Vec α → α) (c : State α) (d : Vec α) (last : α) : Scal α :=
  ⟨c.fx, vdot c.gx d, infNorm c.x, infNorm c.gx, sqNorm c.gx, last,
    if needsTrial st last then fval (trialPoint P c.x d last) else 0⟩

/-- outcome of `lsearch0_t::get`: the step, the members afterwards, the number of value evaluations it made -/
structure L0Out (α : Type) where
  t0 : α
  mem : Mem α
  extra : Nat

/-- `lsearch0_t::get(state, descent, last_step_size)` -/
def l0get (st : Strategy) (P : Params α) (fval : Vec α → α) (m : Mem α) (c : State α) (d : Vec α) (last : α) : L0Out α :=
  let s := scalOf st P fval c d last
  ⟨t0Of st P m s, memAfter st m s, if needsTrial st last then 1 else 0⟩

/-! ### `lsearch_t` -/

/-- `lsearch_t` with its `lsearch0` clone: `m_last_step_size` and the clone's members -/
structure Obj (α : Type) where
  last : α
  mem : Mem α

/-- `make_lsearch()`: `m_last_step_size{-1.0}` and freshly cloned (never used, hence default) strategy members -/
def Obj.init : Obj α := ⟨-1, Mem.init⟩

/-- `lsearchk_t::result_t` together with the `state` the search leaves behind -/
structure LkOut (α : Type) where
  ok : Bool
  t : α
  state : State α

/-- the slot `lsearchk_t::get(state, descent, init_step_size)` -/
abbrev LkSlot (α : Type) := State α → Vec α → α → LkOut α

/-- outcome of `lsearch_t::get`: the state left behind, the flag, the object afterwards, and (for the record) the initial step -/
structure GetOut (α : Type) where
  state : State α
  ok : Bool
  obj : Obj α
  t0 : α

/-- `lsearch_t::get(state, descent)` (lsearch.cpp:11-26): initial step from the strategy (which may evaluate the function once:
    the function's value counter moves), then the search; `m_last_step_size = step_size` whatever `ok` is; the flag and the state
    are those of the search -/
def lsearchGet (st : Strategy) (P : Params α) (fval : Vec α → α) (lk : LkSlot α) (o : Obj α) (c : State α) (d : Vec α) :
    GetOut α :=
  let r0 := l0get st P fval o.mem c d o.last
  let r := lk { c with fcalls := c.fcalls + r0.extra } d r0.t0
  ⟨r.state, r.ok, ⟨r.t, r0.mem⟩, r0.t0⟩

/-! ### the slot filled with the C07 model of `lsearchk_t::get` -/

/-- `solver_state_t::update(x)` (state.cpp:24-49 through state.h `update(x)`): evaluate value and gradient at `x`, overwrite the
    state; `k` = evaluations made since `c` (each moves both counters of the function) -/
def evalAt (f : Objective α) (c : State α) (k : Nat) (x : Vec α) : State α :=
  ⟨x, (f x).1, (f x).2, c.status, c.fcalls + k, c.gcalls + k⟩

/-- what `lsearchk_t::update(state, state0, descent, t)` shows to a line search: the line function of the objective -/
def lineEval (env : Env α) (f : Objective α) (c : State α) (d : Vec α) (t : α) : LSearch.Eval α :=
  let s := evalAt f c 0 (axpy c.x t d)
  ⟨s.fx, vdot s.gx d, valid env s⟩

/-- the state on entry as the line search sees it -/
def entryEval (env : Env α) (c : State α) (d : Vec α) : LSearch.Eval α := ⟨c.fx, vdot c.gx d, valid env c⟩

/-- `lsearchk_t::get` = `LSearch.get` on the line function; the state left behind is the evaluation at the LAST trial step
    requested (every `update` overwrites `state`), or the untouched entry state when nothing was requested -/
def lkOfModel (env : Env α) (m : LSearch.Method) (cfg : LSearch.Cfg α) (f : Objective α) : LkSlot α := fun c d t0 =>
  let r := LSearch.get m cfg (fun _ t => lineEval env f c d t) (entryEval env c d) t0
  ⟨r.ok, r.t, match r.ctx.trace with
    | [] => c
    | t :: _ => evalAt f c r.ctx.trace.length (axpy c.x t d)⟩

/-- `lsearch_t::get` with nothing but the objective left as an oracle -/
def lsearchGetM (env : Env α) (st : Strategy) (P : Params α) (m : LSearch.Method) (cfg : LSearch.Cfg α) (f : Objective α) :
    Obj α → State α → Vec α → GetOut α :=
  lsearchGet st P (fun x => (f x).1) (lkOfModel env m cfg f)

/-! ### the solver loop with the line-search object threaded through (gd.cpp:29-45, cgd.cpp:90-137, lbfgs.cpp:33-113,
  quasi.cpp:101-141: `auto lsearch = make_lsearch(); while (…) { …; iter_ok = lsearch.get(cstate, descent); … }`)

  `lsLoopS` is `Solver.lsLoop` with the `k`-th answer of the oracle replaced by the call of `get` on the object left by the
  previous call; `Proofs/SolverStep.lean` proves it EQUAL to `Solver.lsLoop` run with the oracle that answers the `k`-th call
  from the `k`-th object of this run (`lsLoopS_eq_lsLoop`), so every theorem about `lsLoop` transfers. -/

/-- the loop; also returns the objects the calls were made on (oldest first) -/
def lsLoopS {M : Type} (env : Env α) (rule : Rule α M) (get : Obj α → State α → Vec α → GetOut α) (eps : α) (maxEvals : Nat) :
    Nat → M → Obj α → State α → State α → Out α M × List (Obj α)
  | 0, _, _, p, c => (⟨p, c, []⟩, [])
  | fuel + 1, m, o, p, c =>
    if rule.guard c.fcalls c.gcalls maxEvals then
      let dm := rule.direction m p c
      let r := get o c dm.1
      let d := done env r.state r.ok (rule.conv (gradientTestS r.state) eps)
      if d.2 then (⟨c, d.1, [dm]⟩, [o])
      else
        let rest := lsLoopS env rule get eps maxEvals fuel (rule.update dm.2 c d.1) r.obj c d.1
        (⟨rest.1.p, rest.1.c, dm :: rest.1.trace⟩, o :: rest.2)
    else (⟨p, c, []⟩, [])

/-- `do_minimize` after the construction of the initial state (cf. `Solver.lsRun`) -/
def lsRunS {M : Type} (env : Env α) (rule : Rule α M) (get : Obj α → State α → Vec α → GetOut α) (eps : α)
    (maxEvals fuel : Nat) (c0 : State α) : State α :=
  let d := done env c0 true (rule.convInit (gradientTestS c0) eps)
  if d.2 then d.1
  else lsResult env rule (lsLoopS env rule get eps maxEvals fuel rule.init Obj.init d.1 d.1).1

/-- `solver_t::minimize` of a line-search solver with the whole line search modelled: only `f` is an oracle -/
def lsMinimizeS {M : Type} (env : Env α) (rule : Rule α M) (st : Strategy) (P : Params α) (m : LSearch.Method)
    (cfg : LSearch.Cfg α) (f : Objective α) (eps : α) (maxEvals fuel : Nat) (x0 : Vec α) : State α :=
  lsRunS env rule (lsearchGetM env st P m cfg f) eps maxEvals fuel (initState f x0)

end
end NanoVerif.SolverStep
