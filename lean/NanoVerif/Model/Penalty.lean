import NanoVerif.Model.Constraint
/-
  C05 — model of libnano's penalty functions and of the outer loop of the augmented-Lagrangian solver
  (core Lean only; generic over the scalar type: run at `Float` in `driver_c05`, proved over an ordered field).

  Mirrors (line numbers of /repo at the time of writing):
    src/function/penalty.cpp:30-48     ::penalty_vgrad(function, x, gx, op)                         -> `penaltyVgrad`
    src/function/penalty.cpp:76-90     linear_penalty_function_t::do_vgrad                          -> `linearOp`, `linearPenalty`
    src/function/penalty.cpp:104-118   quadratic_penalty_function_t::do_vgrad                       -> `quadraticOp`, `quadraticPenalty`
    src/function/penalty.cpp:120-165   augmented_lagrangian_function_t (ctor asserts + do_vgrad)    -> `alVgrad`, `augLagrangian`
    src/solver/state.cpp:95-117        solver_state_t::update_constraints                           -> `evalEq`, `evalIneq`, `mkState`
    src/solver/state.cpp:38-45         solver_state_t::update(…, multipliers): which multipliers are stored -> `storeMult`, `ALState.bmeq/bmineq`
    src/solver/state.cpp:258-263       nano::converged(bstate, cstate, epsilon)                     -> `xConverged`
    src/solver/augmented.cpp:9-18      ::make_ro1                                                   -> `makeRo1`
    src/solver/augmented.cpp:20-25     ::make_criterion                                             -> `criterion`
    src/solver/augmented.cpp:51-111    solver_augmented_lagrangian_t::do_minimize (outer loop)      -> `alInit`, `alStep`, `alLoop`
    src/solver.cpp:119-138             solver_t::done (status decision)                             -> inside `alStep`

  The objective function and the inner solver are oracles: the penalties take the objective's value and gradient at the
  point, the outer loop takes, per iteration, the state the inner solver returned.
-/
namespace NanoVerif.Penalty
open NanoVerif.Constraint

/-- a constraint evaluated at the point: `is_equality(constraint)`, `fc = vgrad(constraint, x, gc)`, `gc` -/
structure Eval (α : Type) where
  isEq : Bool
  fc : α
  gc : List α

section
variable {α : Type} [Add α] [Sub α] [Mul α] [Div α] [Neg α] [LT α] [LE α] [DecidableLT α] [DecidableLE α]
  [OfNat α 0] [OfNat α 1] [OfNat α 2]

/-- the three lines `gc = …; fc = ::nano::vgrad(constraint, x, gc); eq = is_equality(constraint)` -/
def evalC (x : List α) (c : C α) : Eval α :=
  let vg := c.vgrad x
  ⟨c.isEq, vg.1, vg.2⟩

/-- `gx += s * gc` (element-wise; a no-op on the empty gradient of a value-only call) -/
def axpy (s : α) (gc gx : List α) : List α := List.zipWith (fun g c => g + s * c) gx gc

/-- `penalty_vgrad` (penalty.cpp:30-48): starting from the objective's value and gradient, every equality and
    every violated inequality (`fc > 0`) contributes `op(fc, gc)`; `op` returns the value increment and the
    updated gradient -/
def penaltyVgrad (op : α → List α → List α → α × List α) (fx : α) (gx : List α) : List (Eval α) → α × List α
  | [] => (fx, gx)
  | e :: es =>
    if e.isEq || decide (0 < e.fc) then
      let r := op e.fc e.gc gx
      penaltyVgrad op (fx + r.1) r.2 es
    else penaltyVgrad op fx gx es

/-- the lambda of `linear_penalty_function_t::do_vgrad` (penalty.cpp:80-87):
    `gx += penalty * (fc >= 0 ? +1 : -1) * gc; return penalty * fabs(fc)` -/
def linearOp (c : α) (fc : α) (gc gx : List α) : α × List α :=
  (c * absv fc, axpy (c * (if 0 ≤ fc then 1 else -1)) gc gx)

/-- the lambda of `quadratic_penalty_function_t::do_vgrad` (penalty.cpp:108-115):
    `gx += penalty * 2 * fc * gc; return penalty * fc * fc` -/
def quadraticOp (c : α) (fc : α) (gc gx : List α) : α × List α :=
  (c * fc * fc, axpy (c * 2 * fc) gc gx)

/-- `linear_penalty_function_t::do_vgrad`: `f = (f(x), ∇f(x))` -/
def linearPenalty (c : α) (f : α × List α) (es : List (Eval α)) : α × List α :=
  penaltyVgrad (linearOp c) f.1 f.2 es

/-- `quadratic_penalty_function_t::do_vgrad` -/
def quadraticPenalty (c : α) (f : α × List α) (es : List (Eval α)) : α × List α :=
  penaltyVgrad (quadraticOp c) f.1 f.2 es

/-- the loop of `augmented_lagrangian_function_t::do_vgrad` (penalty.cpp:142-164): equalities consume `lambda`,
    inequalities consume `miu`; `none` where the constructor's asserts
    `m_lambda.size() == count_equalities`, `m_miu.size() == count_inequalities` (penalty.cpp:126-127) fail -/
def alVgrad (ro : α) : List α → List α → α → List α → List (Eval α) → Option (α × List α)
  | [], [], fx, gx, [] => some (fx, gx)
  | _, _, _, _, [] => none
  | lambda, miu, fx, gx, e :: es =>
    if e.isEq then
      match lambda with
      | [] => none
      | l :: lambda' =>
        let t := e.fc + l / ro
        alVgrad ro lambda' miu (fx + half * ro * t * t) (axpy (ro * t) e.gc gx) es
    else
      match miu with
      | [] => none
      | m :: miu' =>
        let t := e.fc + m / ro
        if 0 < t then alVgrad ro lambda miu' (fx + half * ro * t * t) (axpy (ro * t) e.gc gx) es
        else alVgrad ro lambda miu' fx gx es

/-- `augmented_lagrangian_function_t::do_vgrad` -/
def augLagrangian (ro : α) (lambda miu : List α) (f : α × List α) (es : List (Eval α)) : Option (α × List α) :=
  alVgrad ro lambda miu f.1 f.2 es

/-! ### the three penalty functions of an objective `f` with constraints `cs`, as functions of the point -/

def linearPenaltyAt (c : α) (f : List α → α × List α) (cs : List (C α)) (x : List α) : α × List α :=
  linearPenalty c (f x) (cs.map (evalC x))

def quadraticPenaltyAt (c : α) (f : List α → α × List α) (cs : List (C α)) (x : List α) : α × List α :=
  quadraticPenalty c (f x) (cs.map (evalC x))

def augLagrangianAt (ro : α) (lambda miu : List α) (f : List α → α × List α) (cs : List (C α)) (x : List α) :
    Option (α × List α) :=
  augLagrangian ro lambda miu (f x) (cs.map (evalC x))

/-! ### solver state and the outer loop of the augmented-Lagrangian solver -/

/-- the part of `solver_state_t` the outer loop reads: `x()`, `ceq()`, `cineq()` -/
structure St (α : Type) where
  x : List α
  ceq : List α
  cineq : List α

/-- `m_ceq` after `solver_state_t::update_constraints` (state.cpp:95-117): the values of the equalities, in order -/
def evalEq (cs : List (C α)) (x : List α) : List α := (cs.filter C.isEq).map (fun c => (c.vgrad x).1)

/-- `m_cineq` after `update_constraints`: the values of the inequalities, in order -/
def evalIneq (cs : List (C α)) (x : List α) : List α :=
  (cs.filter (fun c => !c.isEq)).map (fun c => (c.vgrad x).1)

/-- a state of the constrained function at `x`: the constructor `solver_state_t{function, x0}` and
    `bstate.update(x, lambda, miu)` both end in `update_constraints` -/
def mkState (cs : List (C α)) (x : List α) : St α := ⟨x, evalEq cs x, evalIneq cs x⟩

/-- `lpNorm<Eigen::Infinity>()` of the element-wise image (0 for an empty vector) -/
def maxL : List α → α
  | [] => 0
  | x :: xs => cmax x (maxL xs)

/-- `make_criterion(state, miu, ro)` (augmented.cpp:20-25) -/
def criterion (c : St α) (miu : List α) (ro : α) : α :=
  cmax (maxL (c.ceq.map absv)) (maxL (List.zipWith (fun g m => absv (cmax g (-m / ro))) c.cineq miu))

/-- the feasibility residual of the property statement: `max(max_j |h_j|, max_i max(0, g_i))`
    (= `max(kkt_optimality_test2, kkt_optimality_test1)`, state.cpp:214-222) -/
def violation (c : St α) : α :=
  cmax (maxL (c.ceq.map absv)) (maxL (c.cineq.map (fun g => cmax g 0)))

/-- `nano::converged(bstate, cstate, epsilon)` (state.cpp:258-263) -/
def xConverged (bx cx : List α) (eps : α) : Bool :=
  decide (maxL ((vsub cx bx).map absv) < eps * cmax 1 (maxL (bx.map absv)))

/-- `std::clamp(v, lo, hi)` -/
def clamp (v lo hi : α) : α := if v < lo then lo else if hi < v then hi else v

/-- `make_ro1(state, ro_min, ro_max)` (augmented.cpp:9-18); `tiny` = the literal `1e-6` of the `std::max` -/
def makeRo1 (fx : α) (s : St α) (tiny roMin roMax : α) : α :=
  let G := s.cineq.map (fun g => cmax g 0)
  clamp (2 * absv fx / cmax (dot s.ceq s.ceq + dot G G) tiny) roMin roMax

/-- state.cpp:38-45: `if (multiplier.size() == m_m.size()) m_m = multiplier;` (an empty argument keeps the stored one,
    unless the stored one is empty too) -/
def storeMult (stored given : List α) : List α := if given.length = stored.length then given else stored

/-- the variables of the outer loop: `bstate` (with the multipliers `m_meq`, `m_mineq` it stores), `ro`, `lambda`, `miu`,
    `old_criterion`, the number of inner solves done so far (= the loop variable `outer`) and `bstate.status()`
    (0 max_iters, 1 converged, 2 failed) -/
structure ALState (α : Type) where
  best : St α
  bmeq : List α
  bmineq : List α
  ro : α
  lambda : List α
  miu : List α
  oldCrit : α
  iters : Nat
  status : Nat

/-- what the oracle (inner solver + objective) answers in one outer iteration: the state `cstate` returned by
    `solver->minimize(penalty_function, bstate.x())`, `cstate.valid()`, and `bstate.valid()` as seen by `done` -/
structure Answer (α : Type) where
  cstate : St α
  iterOk : Bool
  bvalid : Bool

/-- the parameters of the solver read at augmented.cpp:54-62 -/
structure Params (α : Type) where
  eps : α
  tau : α
  gamma : α
  miuMax : α
  lambdaMin : α
  lambdaMax : α

/-- `converged` of augmented.cpp:82 -/
def alConverged (p : Params α) (s : ALState α) (a : Answer α) : Bool :=
  a.iterOk && decide (criterion a.cstate s.miu s.ro ≤ p.eps) && xConverged s.best.x a.cstate.x p.eps

/-- the guard of the best-state update (augmented.cpp:86) -/
def alImproved (s : ALState α) (a : Answer α) : Bool :=
  a.iterOk && decide (criterion a.cstate s.miu s.ro < s.oldCrit)

/-- one iteration of the outer loop (augmented.cpp:72-107) given the oracle's answer; the flag says whether the
    loop stops (`done(...)` returned true) -/
def alStep (cs : List (C α)) (p : Params α) (s : ALState α) (a : Answer α) : ALState α × Bool :=
  let c := a.cstate
  let crit := criterion c s.miu s.ro
  let conv := alConverged p s a
  -- `bstate.update(cstate.x(), lambda, miu)` re-evaluates the constraints of the function at `cstate.x()`
  let best := if alImproved s a then mkState cs c.x else s.best
  -- … and stores the multiplier estimates of this iteration (state.cpp:38-45)
  let bmeq := if alImproved s a then storeMult s.bmeq s.lambda else s.bmeq
  let bmineq := if alImproved s a then storeMult s.bmineq s.miu else s.bmineq
  -- `done(bstate, iter_ok, converged)`: `step_ok = iter_ok && bstate.valid(); if (converged || !step_ok) …`
  if conv || !(a.iterOk && a.bvalid) then
    ({ s with best := best, bmeq := bmeq, bmineq := bmineq, iters := s.iters + 1, status := if conv then 1 else 2 }, true)
  else
    -- `if (outer > 0 && criterion > tau * old_criterion) ro = gamma * ro;`
    let ro' := if 0 < s.iters ∧ p.tau * s.oldCrit < crit then p.gamma * s.ro else s.ro
    let lambda' := List.zipWith (fun l h => cmin (cmax (l + s.ro * h) p.lambdaMin) p.lambdaMax) s.lambda c.ceq
    let miu' := List.zipWith (fun m g => cmin (cmax (m + s.ro * g) 0) p.miuMax) s.miu c.cineq
    ({ best := best, bmeq := bmeq, bmineq := bmineq, ro := ro', lambda := lambda', miu := miu', oldCrit := crit,
       iters := s.iters + 1, status := s.status }, false)

/-- the outer loop: `fuel` = the iterations left (`max_outers - outer`), `inner k s` = the oracle's answer at outer
    iteration `k` from the loop state `s` -/
def alLoop (cs : List (C α)) (p : Params α) (inner : Nat → ALState α → Answer α) : Nat → ALState α → ALState α
  | 0, s => s
  | fuel + 1, s =>
    let r := alStep cs p s (inner s.iters s)
    if r.2 then r.1 else alLoop cs p inner fuel r.1

/-- the variables before the loop (augmented.cpp:64-68); `ro1` = `make_ro1(bstate)` -/
def alInit (cs : List (C α)) (x0 : List α) (ro1 : α) : ALState α :=
  let b := mkState cs x0
  let miu := b.cineq.map (fun _ => (0 : α))
  { best := b, bmeq := b.ceq.map (fun _ => (0 : α)), bmineq := miu, ro := ro1, lambda := b.ceq.map (fun _ => (0 : α)), miu := miu,
    oldCrit := criterion b miu ro1, iters := 0, status := 0 }

end
end NanoVerif.Penalty
