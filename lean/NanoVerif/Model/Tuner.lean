/-
  C13 — model of libnano's hyper-parameter tuners (core Lean only).

  Mirrors:
    include/nano/core/combinatorial.h   combinatorial_iterator_t (order of the combinations)
    src/tuner/util.cpp                  make_min/max/avg_igrid, map_to_grid, local_search, evaluate
    src/tuner.cpp                       tuner_t::optimize (initial point + coarse initialisation loop)
    src/tuner/local.cpp                 local_search_tuner_t::do_optimize
    src/tuner/surrogate.cpp             surrogate_tuner_t::do_optimize — control skeleton only: the centre proposed by
                                        the fitted quadratic surrogate (two L-BFGS runs + closest grid point) is an ORACLE
    include/nano/tuner/step.h           tuner_step_t, operator< (by value only)

  A grid point is the list of its grid indices (`igrid_t`). The scalar type `α` of the values is generic (it is `Float`
  in the driver, a linear order in the theorems); `fin` is `std::isfinite`. `std::sort` is a parameter `sortFn`; the
  theorems assume only `SortSpec` (sorted permutation), `sortSteps` (merge sort) is the instance that is run.
-/
namespace NanoVerif.Tuner

abbrev IGrid := List Int

/-- `combinatorial_iterator_t` over the counts `(3, …, 3)`: all vectors of `{0,1,2}^d`, lexicographic, last coordinate
    fastest (combinatorial.h:28-66; `d = 0` gives the single empty combination, `m_combinations = 1`) -/
def combos3 : Nat → List (List Int)
  | 0 => [[]]
  | d + 1 => [(0 : Int), 1, 2].flatMap fun c => (combos3 d).map fun rest => c :: rest

/-- `igrid.array() = (igrid.array() - 1) * radius + src_igrid.array()` (util.cpp:69) -/
def addScaled (src : IGrid) (r : Int) (c : List Int) : IGrid :=
  List.zipWith (fun c s => (c - 1) * r + s) c src

/-- the negation of the `continue` test of util.cpp:72: every coordinate within `[min, max]` (all three of the same size) -/
def inGrid : IGrid → IGrid → IGrid → Bool
  | [], [], [] => true
  | a :: mn, b :: mx, x :: g => decide (a ≤ x) && decide (x ≤ b) && inGrid mn mx g
  | _, _, _ => false

/-- `local_search(min_igrid, max_igrid, src_igrid, radius)` (util.cpp:59-81) -/
def localSearch (mn mx src : IGrid) (r : Int) : List IGrid :=
  ((combos3 mn.length).map (addScaled src r)).filter (inGrid mn mx)

/-- `tuner_step_t` without `m_param`, which is `map_to_grid` of `m_igrid` (util.cpp:105) -/
structure Step (α : Type) where
  igrid : IGrid
  value : α

/-- `map_to_grid` for one grid point (util.cpp:43-57): `none` where the C++ code would index a grid out of bounds -/
def mapToGrid {α : Type} : List (List α) → IGrid → Option (List α)
  | [], [] => some []
  | vals :: spaces, i :: g =>
    if 0 ≤ i then
      match vals[i.toNat]?, mapToGrid spaces g with
      | some v, some rest => some (v :: rest)
      | _, _ => none
    else none
  | _, _ => none

/-- what `std::sort(steps.begin(), steps.end())` with `operator<` on the values guarantees -/
def SortSpec {α : Type} [LT α] (sortFn : List (Step α) → List (Step α)) : Prop :=
  ∀ l, (sortFn l).Perm l ∧ (sortFn l).Pairwise (fun a b => ¬ b.value < a.value)

/-- the instance that is run: stable merge sort by value -/
def sortSteps {α : Type} [LT α] [DecidableLT α] (l : List (Step α)) : List (Step α) :=
  l.mergeSort (fun a b => !(decide (b.value < a.value)))

/-- `std::sort` leaves the order of equal values open. `hintedSort hints` is merge sort followed by moving the step with
    grid point `g` to the front when `(l.length, g) ∈ hints` and that step has the same value as the first one. The
    driver uses it to follow the order the implementation was observed to produce (it satisfies `SortSpec`). -/
def hintedSort {α : Type} [LT α] [DecidableLT α] (hints : List (Nat × IGrid)) (l : List (Step α)) : List (Step α) :=
  let s := sortSteps l
  match hints.lookup l.length, s with
  | some g, h :: _ =>
    match s.find? (fun x => x.igrid == g) with
    | some x => if x.value < h.value ∨ h.value < x.value then s else x :: s.eraseP (fun x => x.igrid == g)
    | none => s
  | _, _ => s

inductive EvalRes (α : Type) where
  /-- nothing new to evaluate: `return false`, steps untouched (util.cpp:93-96) -/
  | unchanged
  /-- the callback was called with `batch`; all values finite; the steps were extended and sorted; `return true` -/
  | ok (steps : List (Step α)) (batch : List IGrid)
  /-- the callback was called with `batch` and returned a non-finite value: `critical` throws (util.cpp:107) -/
  | bad (batch : List IGrid)

/-- `evaluate(spaces, callback, igrids, logger, steps)` (util.cpp:83-119): drop the grid points already evaluated, call
    back once with the rest, reject non-finite values, append, sort. (A point proposed twice in `igrids` is evaluated
    twice: the filter only looks at `steps`; `local_search` never proposes a point twice for a radius ≠ 0.) -/
def evaluate {α : Type} (fin : α → Bool) (f : IGrid → α) (sortFn : List (Step α) → List (Step α))
    (igrids : List IGrid) (steps : List (Step α)) : EvalRes α :=
  let fresh := igrids.filter fun g => !(steps.any fun s => s.igrid == g)
  if fresh.isEmpty then .unchanged
  else if fresh.all (fun g => fin (f g)) then .ok (sortFn (steps ++ fresh.map fun g => ⟨g, f g⟩)) fresh
  else .bad fresh

inductive Kind where
  | localSearch
  | surrogate
deriving DecidableEq, Repr

/-- everything `tuner_t::optimize` is given -/
structure Cfg (α : Type) where
  kind : Kind
  /-- `make_min_igrid`, `make_max_igrid` -/
  mn : IGrid
  mx : IGrid
  /-- parameter `tuner::max_evals` -/
  maxEvals : Nat
  fin : α → Bool
  /-- the callback, as a function of the grid point -/
  f : IGrid → α
  sortFn : List (Step α) → List (Step α)
  /-- surrogate tuner only: the grid point closest to the minimiser of the fitted surrogate, given the steps so far;
      `none` = the fit or the minimisation failed (`critical`, surrogate.cpp:171,176) -/
  oracle : List (Step α) → Option IGrid

inductive Phase where
  /-- in the coarse initialisation loop of `tuner_t::optimize`, about to test its condition with this radius -/
  | coarse (radius : Int)
  /-- in the loop of `do_optimize` -/
  | main
  | done
deriving DecidableEq, Repr

structure St (α : Type) where
  steps : List (Step α)
  phase : Phase

inductive Out (α : Type) where
  /-- one loop iteration done; `batch` = the rows handed to the callback (`[]`: it was not called) -/
  | next (st : St α) (batch : List IGrid)
  | bad (batch : List IGrid)
  /-- the surrogate could not be fitted / minimised -/
  | fail

/-- one iteration (condition test + body) of the loop the tuner is in:
    tuner.cpp:30-37 (coarse), local.cpp:26-33 and surrogate.cpp:157-190 (main) -/
def step {α : Type} (c : Cfg α) (st : St α) : Out α :=
  match st.phase with
  | .done => .next st []
  | .coarse r =>
    match st.steps with
    | [] => .next ⟨st.steps, .main⟩ []
    | s :: _ =>
      if st.steps.length < c.maxEvals / 2 then
        match evaluate c.fin c.f c.sortFn (localSearch c.mn c.mx s.igrid r) st.steps with
        | .unchanged => .next ⟨st.steps, .main⟩ []
        | .ok steps' batch => .next ⟨steps', .coarse (r * 2)⟩ batch
        | .bad batch => .bad batch
      else .next ⟨st.steps, .main⟩ []
  | .main =>
    match st.steps with
    | [] => .next ⟨st.steps, .done⟩ []
    | s :: _ =>
      if st.steps.length < c.maxEvals then
        match (match c.kind with
               | .localSearch => some s.igrid
               | .surrogate => c.oracle st.steps) with
        | none => .fail
        | some centre =>
          match evaluate c.fin c.f c.sortFn (localSearch c.mn c.mx centre 1) st.steps with
          | .unchanged => .next ⟨st.steps, .done⟩ []
          | .ok steps' batch => .next ⟨steps', .main⟩ batch
          | .bad batch => .bad batch
      else .next ⟨st.steps, .done⟩ []

inductive Res (α : Type) where
  /-- `optimize` returns `steps`; `trace` = the batches handed to the callback, in order -/
  | ok (steps : List (Step α)) (trace : List (List IGrid))
  /-- `critical`: non-finite value in the last batch of `trace` -/
  | bad (trace : List (List IGrid))
  /-- `critical`: surrogate failure after `trace` -/
  | fail (trace : List (List IGrid))
  /-- the model ran out of fuel (`optimize_terminates`: never with fuel ≥ grid size + 2) -/
  | fuel
  /-- `critical(spaces.empty(), …)` (tuner.cpp:17) -/
  | noSpaces

def addBatch (tr : List (List IGrid)) (b : List IGrid) : List (List IGrid) :=
  if b.isEmpty then tr else tr ++ [b]

def run {α : Type} (c : Cfg α) : Nat → St α → List (List IGrid) → Res α
  | 0, _, _ => .fuel
  | n + 1, st, tr =>
    match st.phase with
    | .done => .ok st.steps tr
    | _ =>
      match step c st with
      | .next st' b => run c n st' (addBatch tr b)
      | .bad b => .bad (tr ++ [b])
      | .fail => .fail tr

/-- `tuner_t::optimize` after its `critical` (tuner.cpp:19-41): evaluate the average grid point, then the coarse loop
    starting with radius 2, then `do_optimize` -/
def optimize {α : Type} (c : Cfg α) (avg : IGrid) (fuel : Nat) : Res α :=
  match evaluate c.fin c.f c.sortFn [avg] [] with
  | .unchanged => .ok [] []
  | .bad b => .bad [b]
  | .ok steps b => run c fuel ⟨steps, .coarse 2⟩ [b]

/-- number of points of the box `[mn, mx]` -/
def gridCard : IGrid → IGrid → Nat
  | a :: mn, b :: mx => (b - a + 1).toNat * gridCard mn mx
  | _, _ => 1

/-- `make_min_igrid` / `make_max_igrid` / `make_avg_igrid` for grids with the given numbers of values (util.cpp:8-41) -/
def minOf (sizes : List Nat) : IGrid := sizes.map fun _ => 0
def maxOf (sizes : List Nat) : IGrid := sizes.map fun n => Int.ofNat n - 1
def avgOf (sizes : List Nat) : IGrid := sizes.map fun n => Int.ofNat (n / 2)

/-- `tuner_t::optimize(spaces, callback, logger)` for spaces with `sizes` grid values -/
def tunerOptimize {α : Type} (kind : Kind) (sizes : List Nat) (maxEvals : Nat) (fin : α → Bool) (f : IGrid → α)
    (sortFn : List (Step α) → List (Step α)) (oracle : List (Step α) → Option IGrid) : Res α :=
  if sizes.isEmpty then .noSpaces
  else
    let c : Cfg α := ⟨kind, minOf sizes, maxOf sizes, maxEvals, fin, f, sortFn, oracle⟩
    optimize c (avgOf sizes) (gridCard c.mn c.mx + 2)

end NanoVerif.Tuner
