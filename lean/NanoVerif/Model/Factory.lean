import NanoVerif.Model.Configurable
/-
  C19 — executable model of `factory_t<tobject>` (core Lean only).

  Mirrors include/nano/factory.h:
    m_protos (l.98-100: vector of (id, (prototype, description)))   → `Factory.protos`
    find (l.91-95: `std::find_if` on `proto.first == type_id`)      → `Factory.find?`
    add<impl>(description, args…) (l.24-38): the prototype is constructed, its `type_id()` is the key; a duplicate id is
      refused (`false`) and nothing changes                          → `Factory.add`
    has (l.43), size (l.73)                                          → `Factory.has`, `Factory.size`
    get (l.48-52): `nullptr` for an unknown id, otherwise `prototype->clone()` — never the prototype itself
                                                                     → `Factory.get`
    ids(regex) (l.57-68): the ids matching the WHOLE regular expression (`std::regex_match`), in registration
      order; default `.+`                                            → `Factory.ids` over `Pat`
    description (l.78-82): empty string for an unknown id            → `Factory.description`

  Objects are configuration trees (`Tree`, Model/Configurable.lean); `clone` is `Tree.clone`.
  Regular expressions are the five shapes the histories use (ECMAScript, ids and fragments without special
  characters): `.+`, a literal, `lit.*`, `.*lit`, `.*lit.*`.
-/
namespace NanoVerif.Param

structure Proto (α : Type) where
  id : String
  obj : Tree α
  descr : String

structure Factory (α : Type) where
  protos : List (Proto α)

inductive Pat where
  /-- `.+` (the default argument of `ids`) -/
  | any
  | lit (s : String)
  | pre (s : String)
  | suf (s : String)
  | sub (s : String)
deriving Repr

/-- the text handed to `std::regex` -/
def Pat.regex : Pat → String
  | .any => ".+"
  | .lit s => s
  | .pre s => s ++ ".*"
  | .suf s => ".*" ++ s
  | .sub s => ".*" ++ s ++ ".*"

def isSub : List Char → List Char → Bool
  | p, [] => p.isEmpty
  | p, c :: cs => p.isPrefixOf (c :: cs) || isSub p cs

/-- `std::regex_match(id, regex)` for these shapes -/
def Pat.matches : Pat → String → Bool
  | .any, id => !id.isEmpty
  | .lit s, id => id == s
  | .pre s, id => s.toList.isPrefixOf id.toList
  | .suf s, id => s.toList.isSuffixOf id.toList
  | .sub s, id => isSub s.toList id.toList

namespace Factory
variable {α : Type}

def empty : Factory α := ⟨[]⟩

def find? (f : Factory α) (id : String) : Option (Proto α) := f.protos.find? (fun p => p.id == id)

def has (f : Factory α) (id : String) : Bool := (f.find? id).isSome

def size (f : Factory α) : Nat := f.protos.length

def allIds (f : Factory α) : List String := f.protos.map (·.id)

/-- `add`: (factory afterwards, the returned flag) -/
def add (f : Factory α) (obj : Tree α) (descr : String) : Factory α × Bool :=
  if f.has obj.typeId then (f, false) else (⟨f.protos ++ [⟨obj.typeId, obj, descr⟩]⟩, true)

/-- `get`: `none` = `nullptr` -/
def get (f : Factory α) (id : String) : Option (Tree α) := (f.find? id).map (fun p => p.obj.clone)

def ids (f : Factory α) (pat : Pat) : List String := f.allIds.filter pat.matches

def description (f : Factory α) (id : String) : String :=
  match f.find? id with
  | some p => p.descr
  | none => ""

/-- every prototype is filed under the id it reports -/
def WF (f : Factory α) : Prop := ∀ p ∈ f.protos, p.id = p.obj.typeId

end Factory

mutual
/-- every registered parameter of the object and of the objects it owns, directly or not -/
def Tree.flatParams {α : Type} : Tree α → List (String × Storage α)
  | .node _ ps ks => ps ++ Tree.flatKids ks
def Tree.flatKids {α : Type} : List (String × Tree α) → List (String × Storage α)
  | [] => []
  | k :: ks => Tree.flatParams k.2 ++ Tree.flatKids ks
end

/-! ### histories: a factory and the objects obtained from it -/

inductive FOp (α : Type) where
  /-- `add<impl>(descr, id, default…)`: the prototype is described by its configuration tree -/
  | add (obj : Tree α) (descr : String)
  | has (id : String)
  | size
  /-- `get(id)`: the object (if any) becomes a new variable -/
  | get (id : String)
  | ids (pat : Pat)
  | descr (id : String)
  /-- an operation on a parameter of a got object -/
  | setp (v : Nat) (name : String) (op : Op α)
  /-- the clone of a got object becomes a new variable -/
  | cloneVar (v : Nat)

inductive FAns (α : Type) where
  | flag (b : Bool)
  | count (n : Nat)
  | null
  | obj (t : Tree α)
  | names (ids : List String)
  | text (s : String)
  | res (r : Res α)
  | bad

structure FState (α : Type) where
  factory : Factory α
  vars : List (Tree α)

section
variable {α : Type} [LT α] [LE α] [DecidableLT α] [DecidableLE α] [FOps α]

def fstep (st : FState α) : FOp α → FState α × FAns α
  | .add obj descr =>
    let r := st.factory.add obj descr
    ({ st with factory := r.1 }, .flag r.2)
  | .has id => (st, .flag (st.factory.has id))
  | .size => (st, .count st.factory.size)
  | .get id =>
    match st.factory.get id with
    | none => (st, .null)
    | some t => ({ st with vars := st.vars ++ [t] }, .obj t)
  | .ids pat => (st, .names (st.factory.ids pat))
  | .descr id => (st, .text (st.factory.description id))
  | .setp v name op =>
    match st.vars[v]? with
    | none => (st, .bad)
    | some t =>
      let r := t.setParam [] name op
      ({ st with vars := st.vars.set v r.1 }, .res r.2)
  | .cloneVar v =>
    match st.vars[v]? with
    | none => (st, .bad)
    | some t => ({ st with vars := st.vars ++ [t.clone] }, .obj t.clone)

def frun (st : FState α) : List (FOp α) → FState α
  | [] => st
  | op :: ops => frun (fstep st op).1 ops

end

end NanoVerif.Param
