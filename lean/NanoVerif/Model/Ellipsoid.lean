import NanoVerif.Model.Bundle
/-
  C03 — model of libnano's ellipsoid method (core Lean only; generic scalar).

  Mirrors src/solver/ellipsoid.cpp:
    :36-37   H = I * (n == 1 ? R : R*R)                                   -> `initH`
    :45      gHg = g.dot(H * g)                                           -> `quad`
    :47-53   if (gHg < numeric_limits::epsilon()) { done(converged = true) } -> `earlyStop`
    :55-60   1-D branch: x += H(0) * (g(0) < 0 ? +1 : -1); H /= 2          -> `step1d`
    :61-69   n-D deep-cut update                                           -> `alphaCut`, `stepX`, `stepH`
    :71-72   f = vgrad(x, g); state.update_if_better(x, g, f)             -> `better` (src/solver/state.cpp:57-69)
    :75      converged = std::sqrt(gHg) < epsilon   (gHg of the point that was just left) -> `converged`
    :28-37, :43-80  the whole n-D loop (start, early exit, update, evaluation, `update_if_better`, `solver_t::done`)
                                                                         -> `startND`, `iterND`, `runND`, `doneE`, `fuelOf`

  NB (1-D): the branch is commented "becomes bisection", but the centre moves by the FULL `H` and the half-width is halved,
  so the interval that is really maintained around `x_k` is `[x_k - 2 H_k, x_k + 2 H_k]` (`x_{k+1} ± 2 H_{k+1} =
  [x_k, x_k + 2 H_k]` for `g < 0`): the method finds minimisers within `2 R` of `x0`, and the quantity bounding the gap is
  `2 |g| H`, not `sqrt(g H g)`. The model states what the code does; the theorems are proved for that (`Props/C03.lean`).
-/
namespace NanoVerif.Ellipsoid
open NanoVerif.Bundle

section
variable {α : Type} [Add α] [Sub α] [Mul α] [Div α] [Neg α] [LT α] [LE α] [DecidableLT α] [DecidableLE α]
  [OfNat α 0] [OfNat α 1] [OfNat α 2] [NatCast α]

/-- `H * g` (rows of `H` as lists) -/
def mv (H : List (List α)) (g : List α) : List α := H.map (fun r => dot r g)

/-- `g.transpose() * H` -/
def vm (n : Nat) : List α → List (List α) → List α
  | gi :: g, r :: H => vaxpy gi r (vm n g H)
  | _, _ => zeros n

/-- `g.dot(H * g)` -/
def quad (H : List (List α)) (g : List α) : α := dot g (mv H g)

/-- ellipsoid.cpp:36-37 -/
def initH (n : Nat) (R : α) : List (List α) :=
  let d : α := if n = 1 then R else R * R
  (List.range n).map (fun i => (List.range n).map (fun j => if i = j then d else 0))

/-- ellipsoid.cpp:47 (`epsM = std::numeric_limits<scalar_t>::epsilon()`) -/
def earlyStop (epsM gHg : α) : Bool := decide (gHg < epsM)

/-- ellipsoid.cpp:58-59 -/
def step1d (x h g : α) : α × α := (x + h * (if g < 0 then 1 else -1), h / 2)

/-- `solver_state_t::update_if_better` as far as the best value goes: replaced only on a strict decrease (`df > 0`) -/
def better (best f : α) : α := if 0 < best - f then f else best

variable [Sqrt α]

/-- ellipsoid.cpp:64: `alpha = (f - state.fx()) / std::sqrt(gHg)` -/
def alphaCut (f best gHg : α) : α := (f - best) / Sqrt.sqrt gHg

/-- ellipsoid.cpp:66: `x - (1 + n * alpha) / (n + 1) * (H * g) / std::sqrt(gHg)` -/
def stepX (n : α) (x : List α) (Hg : List α) (alpha gHg : α) : List α :=
  let c := (1 + n * alpha) / (n + 1)
  let r := Sqrt.sqrt gHg
  List.zipWith (fun xi hi => xi - c * hi / r) x Hg

/-- ellipsoid.cpp:67-68: `(n*n)/(n*n-1) * (1-alpha*alpha) * (H - 2*(1+n*alpha)/(n+1)/(1+alpha) * (H g g' H) / gHg)` -/
def stepH (n : α) (H : List (List α)) (Hg gH : List α) (alpha gHg : α) : List (List α) :=
  let c1 := (n * n) / (n * n - 1) * (1 - alpha * alpha)
  let c2 := 2 * (1 + n * alpha) / (n + 1) / (1 + alpha)
  List.zipWith (fun row hgi => List.zipWith (fun hij ghj => c1 * (hij - c2 * (hgi * ghj) / gHg)) row gH) H Hg

/-- one n-D update (n ≥ 2): new centre and new shape matrix -/
def stepND (dim : Nat) (x g : List α) (H : List (List α)) (f best : α) : List α × List (List α) :=
  let n : α := (dim : α)
  let Hg := mv H g
  let gHg := dot g Hg
  let a := alphaCut f best gHg
  (stepX n x Hg a gHg, stepH n H Hg (vm dim g H) a gHg)

/-- ellipsoid.cpp:75 -/
def converged (eps gHg : α) : Bool := decide (Sqrt.sqrt gHg < eps)

/-! ### the 1-D branch as a whole loop (ellipsoid.cpp:43-80 for `function.size() == 1`) -/

/-- loop-carried variables: centre `x`, `H(0)`, `f`, `g(0)` at `x`, and the best value `state.fx()` -/
structure S1 (α : Type) where
  x : α
  h : α
  f : α
  g : α
  best : α

/-- one pass of the loop; `oracle x = (f x, g x)` is `function.vgrad`; returns (`converged` was reported, state) -/
def iter1d (eps epsM : α) (oracle : α → α × α) (s : S1 α) : Bool × S1 α :=
  let gHg := s.g * (s.h * s.g)
  if gHg < epsM then (true, s)
  else
    let xh := step1d s.x s.h s.g
    let fg := oracle xh.1
    (converged eps gHg, ⟨xh.1, xh.2, fg.1, fg.2, better s.best fg.1⟩)

/-- at most `fuel` passes (the evaluation budget); `(true, s)` = stopped with `solver_status::converged` -/
def run1d (eps epsM : α) (oracle : α → α × α) : Nat → S1 α → Bool × S1 α
  | 0, s => (false, s)
  | k + 1, s =>
    let r := iter1d eps epsM oracle s
    if r.1 then r else run1d eps epsM oracle k r.2

/-- ellipsoid.cpp:28-37 for n = 1 -/
def start1d (R x0 : α) (oracle : α → α × α) : S1 α :=
  let fg := oracle x0
  ⟨x0, R, fg.1, fg.2, fg.1⟩

/-! ### the n-D loop as a whole (ellipsoid.cpp:28-82 for `function.size() >= 2`) -/

/-- `solver_status` as far as this loop sets it (`max_iters` is the value-initialised status that stays when the budget
    runs out) -/
inductive EStatus where
  | maxIters | converged | failed
deriving DecidableEq, Repr

def EStatus.toNat : EStatus → Nat
  | .maxIters => 0 | .converged => 1 | .failed => 2

/-- loop-carried variables: centre `x`, shape `H`, `f`, `g` at `x`; `best` / `bx` = `state.fx()` / `state.x()` (the state
    that is returned) -/
structure SN (α : Type) where
  x : List α
  H : List (List α)
  f : α
  g : List α
  best : α
  bx : List α

/-- `solver_t::done(state, iter_ok, converged)` (src/solver.cpp:119-138): `some status` = it returned true (the loop
    breaks with that status), `none` = go on. NB `converged` wins over `!iter_ok`. -/
def doneE (iterOk conv valid : Bool) : Option EStatus :=
  if conv || !(iterOk && valid) then some (if conv then .converged else .failed) else none

/-- `state.update_if_better(x, g, f)` (src/solver/state.cpp:57-83): only a finite, strictly smaller value replaces the best -/
def betterF (fin : α → Bool) (best f : α) : α := if fin f then better best f else best

/-- one pass of the loop (ellipsoid.cpp:45-79). `oracle x = (f x, g x)` is `function.vgrad`, `fin` is `std::isfinite`,
    `valid` is `state.valid()` -/
def iterND (dim : Nat) (eps epsM : α) (fin : α → Bool) (valid : SN α → Bool) (oracle : List α → α × List α) (s : SN α) :
    Option EStatus × SN α :=
  let gHg := quad s.H s.g
  if gHg < epsM then (doneE true true (valid s), s)
  else
    let xh := stepND dim s.x s.g s.H s.f s.best
    let fg := oracle xh.1
    let s' : SN α := ⟨xh.1, xh.2, fg.1, fg.2, betterF fin s.best fg.1,
      if fin fg.1 && decide (0 < s.best - fg.1) then xh.1 else s.bx⟩
    (doneE (fin fg.1) (converged eps gHg) (valid s'), s')

/-- at most `fuel` passes; the status stays `max_iters` when the budget is used up -/
def runND (dim : Nat) (eps epsM : α) (fin : α → Bool) (valid : SN α → Bool) (oracle : List α → α × List α) :
    Nat → SN α → EStatus × SN α
  | 0, s => (.maxIters, s)
  | k + 1, s =>
    match iterND dim eps epsM fin valid oracle s with
    | (some st, s') => (st, s')
    | (none, s') => runND dim eps epsM fin valid oracle k s'

/-- ellipsoid.cpp:28-37 -/
def startND (dim : Nat) (R : α) (x0 : List α) (oracle : List α → α × List α) : SN α :=
  let fg := oracle x0
  ⟨x0, initH dim R, fg.1, fg.2, fg.1, x0⟩

end

/-- the number of passes `while (fcalls + gcalls < max_evals)` allows: the constructor of the state and every pass
    evaluate `vgrad` once (one `fcall` and one `gcall` each), so pass `k` (from 0) runs iff `2 (k + 1) < max_evals` -/
def fuelOf (maxEvals : Nat) : Nat := (maxEvals - 1) / 2

end NanoVerif.Ellipsoid
