import NanoVerif.Model.Parameter
/-
  C19 — executable model of `configurable_t` (core Lean only).

  Mirrors src/configurable.cpp / include/nano/configurable.h:
    m_parameters (configurable.h:107)                          → `Config.params` (name, storage), in registration order
    find_param (configurable.cpp:9-27): `std::find_if` on the name, `critical(mandatory && not found)`
                                                               → `Config.find?` / `Config.index?`
    register_parameter (30-36): `critical(parameter_if(name))` then `emplace_back`  → `Config.register`
    parameter(name) (38-46), parameter_if(name) (48-56)        → `Config.applyAt`, `Config.has`
    config(name, value, …) (configurable.h:95-100)             → `Config.applyAt` with an assignment

  Objects that OWN other configurable objects — configuration trees:
    solver_t   (include/nano/solver.h:137-139  m_lsearch0, m_lsearchk)                 → kids `lsearch0`, `lsearchk`
    ml::params_t (include/nano/machine/params.h:97-100  m_tuner, m_solver, m_splitter) → kids `tuner`, `solver`, `splitter`
    gboost_model_t (include/nano/gboost/model.h:110  m_prototypes)                     → kids `proto0`, `proto1`, …
    every other object of the factories                                                → no kids
    solver_t::solver_t(const solver_t&) (src/solver.cpp:49-57: configurable_t(other), lsearch0().clone(),
      lsearchk().clone()), params_t::params_t(const params_t&) / operator= (src/machine/params.cpp:21-41),
      gboost_model_t copy constructor / operator= (src/gboost/model.cpp:233-251: learner_t(other),
      wlearner::clone(m_prototypes)), the `clone()` overrides (`std::make_unique<T>(*this)`)     → `Tree.clone`
    solver_t::lsearch0/lsearchk(const T&) (src/solver.cpp:67-83), params_t::tuner/solver/splitter(const T&)
      (params.cpp:45-113): the owner stores `object.clone()`                           → `Tree.setChild … (clone …)`
    the same setters taking an id: `factory.get(id)`, `critical` when the id is unknown → `OOp.instid`
    gboost_model_t::prototypes(const rwlearners_t&) (model.cpp:255-263)                → `OOp.protos`
-/
namespace NanoVerif.Param

structure Config (α : Type) where
  params : List (String × Storage α)
deriving Repr

namespace Config
variable {α : Type}

def empty : Config α := ⟨[]⟩

def names (c : Config α) : List String := c.params.map (·.1)

/-- `find_param`: the first registered parameter with that name -/
def find? (c : Config α) (name : String) : Option (Storage α) :=
  match c.params.find? (fun p => p.1 == name) with
  | some p => some p.2
  | none => none

/-- `parameter_if(name) != nullptr` -/
def has (c : Config α) (name : String) : Bool := (c.find? name).isSome

/-- `register_parameter`: (configuration afterwards, did it throw `critical`) -/
def register (c : Config α) (name : String) (s : Storage α) : Config α × Bool :=
  if c.has name then (c, true) else (⟨c.params ++ [(name, s)]⟩, false)

/-- replaces the storage of the first parameter called `name` -/
def setFirst (name : String) (s : Storage α) : List (String × Storage α) → List (String × Storage α)
  | [] => []
  | p :: ps => if p.1 == name then (p.1, s) :: ps else p :: setFirst name s ps

/-- every registered parameter is inside its declared domain -/
def InDomain [LT α] [LE α] [IsFinite α] (c : Config α) : Prop := ∀ p ∈ c.params, p.2.InDomain

variable [LT α] [LE α] [DecidableLT α] [DecidableLE α] [FOps α]

/-- `parameter(name)` followed by an operation on the reference it returns; an unknown name throws `critical`
    before anything else happens -/
def applyAt (c : Config α) (name : String) (op : Op α) : Config α × Res α :=
  match c.find? name with
  | none => (c, .throw .critical)
  | some s => (⟨setFirst name (step s op).1 c.params⟩, (step s op).2)

end Config

/-! ### objects that own other objects -/

/-- the configuration of an object: the id it reports, its registered parameters, the objects it owns -/
inductive Tree (α : Type) where
  | node (typeId : String) (params : List (String × Storage α)) (kids : List (String × Tree α))
deriving Repr

namespace Tree
variable {α : Type}

def typeId : Tree α → String
  | node ty _ _ => ty

def params : Tree α → List (String × Storage α)
  | node _ ps _ => ps

def kids : Tree α → List (String × Tree α)
  | node _ _ ks => ks

/-- the `configurable_t` base of the object -/
def config (t : Tree α) : Config α := ⟨t.params⟩

/-- the first owned object called `c` -/
def findKid (c : String) : List (String × Tree α) → Option (Tree α)
  | [] => none
  | k :: ks => if k.1 == c then some k.2 else findKid c ks

/-- the accessor of an owned object (`solver.lsearchk()`, `params.solver()`, `model.prototypes()[j]`) -/
def child? (t : Tree α) (c : String) : Option (Tree α) := findKid c t.kids

def replaceKid (c : String) (s : Tree α) : List (String × Tree α) → List (String × Tree α)
  | [] => []
  | k :: ks => if k.1 == c then (k.1, s) :: ks else k :: replaceKid c s ks

/-- the owned object called `c` is replaced (`m_lsearchk = …`); the parameters and the other owned objects stay -/
def setChild (t : Tree α) (c : String) (s : Tree α) : Tree α :=
  node t.typeId t.params (replaceKid c s t.kids)

/-- the object reached by following the owned objects named by `path` -/
def sub? (t : Tree α) : List String → Option (Tree α)
  | [] => some t
  | c :: path =>
    match t.child? c with
    | none => none
    | some k => k.sub? path

/-- the parameter `name` of the object at `path` -/
def param? (t : Tree α) (path : List String) (name : String) : Option (Storage α) :=
  match t.sub? path with
  | none => none
  | some n => n.config.find? name

/-- the type id of the object at `path` -/
def typeAt? (t : Tree α) (path : List String) : Option String := (t.sub? path).map typeId

mutual
/-- the copy constructors / `clone()`: the type id and the registered parameters are copied, every owned object is
    cloned in turn (a deep copy) -/
def clone : Tree α → Tree α
  | node ty ps ks => node ty ps (cloneKids ks)
def cloneKids : List (String × Tree α) → List (String × Tree α)
  | [] => []
  | k :: ks => (k.1, clone k.2) :: cloneKids ks
end

mutual
/-- does `p` hold for every parameter of every object of the tree? -/
def allB (p : Storage α → Bool) : Tree α → Bool
  | node _ ps ks => ps.all (fun q => p q.2) && allKidsB p ks
def allKidsB (p : Storage α → Bool) : List (String × Tree α) → Bool
  | [] => true
  | k :: ks => allB p k.2 && allKidsB p ks
end

/-- every registered parameter of the object and of every object it owns, directly or not, is inside its declared
    domain -/
def InDomain [LT α] [LE α] [IsFinite α] (t : Tree α) : Prop :=
  ∀ path n, t.sub? path = some n → n.config.InDomain

variable [LT α] [LE α] [DecidableLT α] [DecidableLE α] [FOps α]

/-- an operation on the parameter `name` of the object at `path`; a path or a name that does not exist throws
    before anything else happens -/
def setParam (t : Tree α) : List String → String → Op α → Tree α × Res α
  | [], name, op =>
    let r := t.config.applyAt name op
    (node t.typeId r.1.params t.kids, r.2)
  | c :: path, name, op =>
    match t.child? c with
    | none => (t, .throw .critical)
    | some k =>
      let r := k.setParam path name op
      (t.setChild c r.1, r.2)

end Tree

/-! ### histories over variables holding such objects (what the harness family `owner` executes) -/

/-- one entry of a factory: the id it is registered under, what the object reports, its registered parameters and the
    objects it owns as (child, factory, id) -/
structure FactoryEntry (α : Type) where
  factory : String
  id : String
  typeId : String
  params : List (String × Storage α)
  kids : List (String × String × String) := []

/-- `factory.get(id)` as a configuration tree: the owned objects are what their factories hand out
    (src/solver.cpp:40-41 `lsearch0("quadratic"); lsearchk("cgdescent")` and the overrides in the solvers) -/
def resolve {α : Type} (table : List (FactoryEntry α)) : Nat → String → String → Option (Tree α)
  | 0, _, _ => none
  | fuel + 1, f, id =>
    match table.find? (fun e => e.factory == f && e.id == id) with
    | none => none
    | some e =>
      match e.kids.mapM (fun k => (resolve table fuel k.2.1 k.2.2).map (fun t => (k.1, t))) with
      | none => none
      | some ks => some (.node e.typeId e.params ks)

/-- what an owned object is: `solver.lsearch0()` is a `lsearch0_t`, …, `model.prototypes()[j]` a `wlearner_t` -/
def childKind (kind child : String) : Option String :=
  if kind == "solver" && (child == "lsearch0" || child == "lsearchk") then some child
  else if kind == "params" && (child == "tuner" || child == "solver" || child == "splitter") then some child
  else if kind == "gboost" && (List.range 64).any (fun j => child == s!"proto{j}") then some "wlearner"
  else none

inductive OOp (α : Type) where
  | new (kind id : String)
  | set (v : Nat) (name : String) (op : Op α)
  | inst (d : Nat) (child : String) (s : Nat)
  | instid (d : Nat) (child : String) (id : String)
  | protos (v : Nat) (srcs : List Nat)
  | ext (v : Nat) (child : String)
  | clone (v : Nat)
  | assign (d s : Nat)
  | probe (a b : Nat)

inductive OAns (α : Type) where
  | ok
  | missing
  | res (r : Res α)
  | throw (e : Err)
  | probe
  /-- the operation is ill-typed (no such variable, an object of the wrong kind, no such owned object) -/
  | bad

/-- the variables: what kind of object each holds and its configuration -/
abbrev Env (α : Type) := List (String × Tree α)

/-- the variable an operation is applied to (the only one it may change) -/
def OOp.target {α : Type} : OOp α → Option Nat
  | .set v _ _ => some v
  | .inst d _ _ => some d
  | .instid d _ _ => some d
  | .protos v _ => some v
  | .assign d _ => some d
  | _ => none

section
variable {α : Type} [LT α] [LE α] [DecidableLT α] [DecidableLE α] [FOps α]

/-- the prototypes handed to `gboost_model_t::prototypes`: clones of the weak learners held by the variables -/
def protoKids (env : Env α) : Nat → List Nat → Option (List (String × Tree α))
  | _, [] => some []
  | j, s :: srcs =>
    match env[s]?, protoKids env (j + 1) srcs with
    | some (k, t), some rest => if k == "wlearner" then some ((s!"proto{j}", t.clone) :: rest) else none
    | _, _ => none

/-- one operation of an owner history: the variables afterwards and the answer. `lookup kind id` is what the
    factory of `kind` hands out for `id` (default construction for the owners no factory knows). -/
def ostep (lookup : String → String → Option (Tree α)) (env : Env α) : OOp α → Env α × OAns α
  | .new kind id =>
    match lookup kind id with
    | none => (env, .missing)
    | some t => (env ++ [(kind, t)], .ok)
  | .set v name op =>
    match env[v]? with
    | none => (env, .bad)
    | some (k, t) =>
      let r := t.setParam [] name op
      (env.set v (k, r.1), .res r.2)
  | .inst d child s =>
    match env[d]?, env[s]? with
    | some (kd, td), some (ks, ts) =>
      if childKind kd child == some ks && kd != "gboost" && (td.child? child).isSome then
        (env.set d (kd, td.setChild child ts.clone), .ok)
      else (env, .bad)
    | _, _ => (env, .bad)
  | .instid d child id =>
    match env[d]? with
    | some (kd, td) =>
      match childKind kd child with
      | some ck =>
        if kd != "gboost" && (td.child? child).isSome then
          match lookup ck id with
          | none => (env, .throw .critical)
          | some t => (env.set d (kd, td.setChild child t), .ok)
        else (env, .bad)
      | none => (env, .bad)
    | none => (env, .bad)
  | .protos v srcs =>
    match env[v]?, protoKids env 0 srcs with
    | some (k, t), some ks =>
      if k == "gboost" then (env.set v (k, .node t.typeId t.params ks), .ok) else (env, .bad)
    | _, _ => (env, .bad)
  | .ext v child =>
    match env[v]? with
    | some (k, t) =>
      match childKind k child, t.child? child with
      | some ck, some c => (env ++ [(ck, c.clone)], .ok)
      | _, _ => (env, .bad)
    | none => (env, .bad)
  | .clone v =>
    match env[v]? with
    | some (k, t) => (env ++ [(k, t.clone)], .ok)
    | none => (env, .bad)
  | .assign d s =>
    match env[d]?, env[s]? with
    | some (kd, _), some (ks, ts) =>
      if kd == ks && (kd == "params" || kd == "gboost") then (env.set d (kd, ts.clone), .ok) else (env, .bad)
    | _, _ => (env, .bad)
  | .probe a b =>
    match env[a]?, env[b]? with
    | some (ka, _), some (kb, _) => if ka == kb then (env, .probe) else (env, .bad)
    | _, _ => (env, .bad)

/-- a history of operations: the variables afterwards -/
def orun (lookup : String → String → Option (Tree α)) (env : Env α) : List (OOp α) → Env α
  | [] => env
  | op :: ops => orun lookup (ostep lookup env op).1 ops

end

end NanoVerif.Param
