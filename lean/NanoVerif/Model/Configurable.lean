import NanoVerif.Model.Parameter
/-
  C19 — executable model of `configurable_t` (core Lean only).

  Mirrors src/configurable.cpp / include/nano/configurable.h:
    m_parameters (configurable.h:107)                          → `Config.params` (name, storage), in registration order
    find_param (configurable.cpp:9-27): `std::find_if` on the name, `critical(mandatory && not found)`
                                                               → `Config.find?` / `Config.index?`
    register_parameter (30-36): `critical(parameter_if(name))` then `emplace_back`  → `Config.register`
    parameter(name) (38-46), parameter_if(name) (48-56)        → `Config.applyAt`, `Config.has`
    config(name, value, …) (configurable.h:95-100)             → `Config.applyAt` with an assignment
-/
namespace NanoVerif.Param

structure Config (α : Type) where
  params : List (String × Storage α)
deriving Repr

namespace Config
variable {α : Type}

def empty : Config α := ⟨[]⟩

def names (c : Config α) : List String := c.params.map (·.1)

/-- `find_param`: the first registered parameter with that name -/
def find? (c : Config α) (name : String) : Option (Storage α) :=
  match c.params.find? (fun p => p.1 == name) with
  | some p => some p.2
  | none => none

/-- `parameter_if(name) != nullptr` -/
def has (c : Config α) (name : String) : Bool := (c.find? name).isSome

/-- `register_parameter`: (configuration afterwards, did it throw `critical`) -/
def register (c : Config α) (name : String) (s : Storage α) : Config α × Bool :=
  if c.has name then (c, true) else (⟨c.params ++ [(name, s)]⟩, false)

/-- replaces the storage of the first parameter called `name` -/
def setFirst (name : String) (s : Storage α) : List (String × Storage α) → List (String × Storage α)
  | [] => []
  | p :: ps => if p.1 == name then (p.1, s) :: ps else p :: setFirst name s ps

/-- every registered parameter is inside its declared domain -/
def InDomain [LT α] [LE α] [IsFinite α] (c : Config α) : Prop := ∀ p ∈ c.params, p.2.InDomain

variable [LT α] [LE α] [DecidableLT α] [DecidableLE α] [FOps α]

/-- `parameter(name)` followed by an operation on the reference it returns; an unknown name throws `critical`
    before anything else happens -/
def applyAt (c : Config α) (name : String) (op : Op α) : Config α × Res α :=
  match c.find? name with
  | none => (c, .throw .critical)
  | some s => (⟨setFirst name (step s op).1 c.params⟩, (step s op).2)

end Config

end NanoVerif.Param
