/-
  C16 — model of libnano's tensor addressing (core Lean only).

  Mirrors:
    include/nano/tensor/dims.h      detail::product / get_index / get_index0 / get_dims0, size, index, index0, dims0
    include/nano/tensor/tensor.h    tvector / tmatrix / ttensor (partial-index views), treshape, tslice, indexed
    include/nano/tensor/integral.h  integral_t<trank>::get
    include/nano/tensor/algorithm.h remove_if
    include/nano/tensor/stack.h     stack (vector form, and matrix form)

  A tensor is `(dims, data)`: a list of dimensions and the row-major buffer. Every function returns `none`
  exactly where the C++ code `assert`s (the asserts are compiled out in the release build, so the harness
  never sends such operations; the theorems are stated under the assert's condition).
-/
namespace NanoVerif.Tensor

/-- `detail::product<idim>`: product of the trailing dimensions -/
def size : List Nat → Nat
  | [] => 1
  | d :: ds => d * size ds

/-- `detail::get_index` / `detail::get_index0`: the two C++ recursions differ only in that `get_index0`
    stops when the indices run out; this single definition covers both (a shorter index list = prefix). -/
def index : List Nat → List Nat → Nat
  | _ :: ds, i :: is => i * size ds + index ds is
  | _, _ => 0

/-- the `assert(index >= 0 && index < dims[idim])` of every level, for a full tuple -/
def Valid : List Nat → List Nat → Prop
  | [], [] => True
  | d :: ds, i :: is => i < d ∧ Valid ds is
  | _, _ => False

/-- same for a prefix of indices (`index0`, `dims0`, `vector(i…)`, `tensor(i…)`) -/
def ValidPrefix : List Nat → List Nat → Prop
  | _, [] => True
  | d :: ds, i :: is => i < d ∧ ValidPrefix ds is
  | [], _ :: _ => False

instance : (dims idx : List Nat) → Decidable (Valid dims idx)
  | [], [] => isTrue trivial
  | [], _ :: _ => isFalse (by simp [Valid])
  | _ :: _, [] => isFalse (by simp [Valid])
  | d :: ds, i :: is =>
    match (inferInstance : Decidable (i < d)), instDecidableValid ds is with
    | isTrue h1, isTrue h2 => isTrue ⟨h1, h2⟩
    | isFalse h1, _ => isFalse (fun h => h1 h.1)
    | _, isFalse h2 => isFalse (fun h => h2 h.2)

instance : (dims idx : List Nat) → Decidable (ValidPrefix dims idx)
  | _, [] => isTrue (by cases ‹List Nat› <;> trivial)
  | [], _ :: _ => isFalse (by simp [ValidPrefix])
  | d :: ds, i :: is =>
    match (inferInstance : Decidable (i < d)), instDecidableValidPrefix ds is with
    | isTrue h1, isTrue h2 => isTrue ⟨h1, h2⟩
    | isFalse h1, _ => isFalse (fun h => h1 h.1)
    | _, isFalse h2 => isFalse (fun h => h2 h.2)

/-- specification side of `index_lex_mono`: strict lexicographic order on index tuples of equal length -/
def LexLt : List Nat → List Nat → Prop
  | a :: as, b :: bs => a < b ∨ (a = b ∧ LexLt as bs)
  | _, _ => False

/-- inverse of `index`: offset → index tuple -/
def unindex : List Nat → Nat → List Nat
  | [], _ => []
  | _ :: ds, o => (o / size ds) :: unindex ds (o % size ds)

/-- `dims0(dims, i…)`: the dimensions left after fixing `k` leading indices -/
def dims0 (dims : List Nat) (k : Nat) : List Nat := dims.drop k

structure T (α : Type) where
  dims : List Nat
  data : List α
deriving Repr, BEq

def T.wf {α} (t : T α) : Prop := t.data.length = size t.dims

/-- `operator()(i…)` for a full tuple -/
def T.get? {α} (t : T α) (idx : List Nat) : Option α :=
  if Valid t.dims idx then t.data[index t.dims idx]? else none

/-- `tvector/ttensor(ptr, i…)`: the sub-tensor with the leading indices fixed; aliases
    `[offset0, offset0 + size(dims0))` of the buffer -/
def T.sub {α} (t : T α) (pre : List Nat) : Option (T α) :=
  if ValidPrefix t.dims pre then
    let ds := dims0 t.dims pre.length
    some ⟨ds, (t.data.drop (index t.dims pre)).take (size ds)⟩
  else none

/-- `tslice(ptr, begin, end)` along the first axis -/
def T.slice {α} (t : T α) (b e : Nat) : Option (T α) :=
  match t.dims with
  | [] => none
  | d :: ds =>
    if b ≤ e ∧ e ≤ d then
      some ⟨(e - b) :: ds, (t.data.drop (index (d :: ds) [b])).take ((e - b) * size ds)⟩
    else none

/-- product over `Int` (the reshape arguments may contain `-1`) -/
def iprod : List Int → Int
  | [] => 1
  | d :: ds => d * iprod ds

/-- The inference loop of `treshape`: every `-1` entry in turn is replaced by `-size / product(all entries)`
    (C++ `/` truncates toward zero = `Int.tdiv`). `none` where the first assert fires or where the C++ code
    would divide by zero. `pre` = entries already processed (reversed order kept straight). -/
def reshapeInfer (total : Int) : List Int → List Int → Option (List Int)
  | pre, [] => some pre
  | pre, d :: rest =>
    if d = -1 then
      let p := iprod (pre ++ d :: rest)
      if p = 0 then none
      else reshapeInfer total (pre ++ [Int.tdiv (-total) p]) rest
    else if d ≥ 0 then reshapeInfer total (pre ++ [d]) rest
    else none

/-- `treshape`: `none` where an assert fires (bad entry, or final product ≠ size) -/
def reshapeDims (total : Nat) (sizes : List Int) : Option (List Nat) :=
  match reshapeInfer (Int.ofNat total) [] sizes with
  | none => none
  | some ds =>
    if ds.all (· ≥ 0) ∧ iprod ds = Int.ofNat total then some (ds.map Int.toNat) else none

def T.reshape {α} (t : T α) (sizes : List Int) : Option (T α) :=
  (reshapeDims (size t.dims) sizes).map (fun ds => ⟨ds, t.data⟩)

/-- `indexed(indices)`: copy of the sub-tensors along the first axis selected by `indices` -/
def T.gather {α} (t : T α) (indices : List Nat) : Option (T α) :=
  match t.dims with
  | [] => none
  | d :: ds =>
    if indices.all (· < d) then
      some ⟨indices.length :: ds,
            indices.flatMap (fun i => (t.data.drop (i * size ds)).take (size ds))⟩
    else none

/-- split a buffer into consecutive rows of length `n` (`k` rows) -/
def rows {α} (n : Nat) : Nat → List α → List (List α)
  | 0, _ => []
  | k + 1, xs => xs.take n :: rows n k (xs.drop n)

/-- running sums of a list (`integral_t<1>::get`) -/
def prefixSums {α} [Add α] : α → List α → List α
  | _, [] => []
  | acc, x :: xs => (acc + x) :: prefixSums (acc + x) xs

def prefixSums1 {α} [Add α] : List α → List α
  | [] => []
  | x :: xs => x :: prefixSums x xs

def zipAdd {α} [Add α] : List α → List α → List α
  | x :: xs, y :: ys => (x + y) :: zipAdd xs ys
  | _, _ => []

/-- accumulate rows: `otensor.vector(i0) += otensor.vector(i0 - 1)` -/
def accRows {α} [Add α] : List α → List (List α) → List (List α)
  | _, [] => []
  | prev, r :: rs => let r' := zipAdd r prev; r' :: accRows r' rs

def accRows1 {α} [Add α] : List (List α) → List (List α)
  | [] => []
  | r :: rs => r :: accRows r rs

/-- `integral_t<trank>::get` on the buffer of a tensor with dimensions `dims` -/
def integralData {α} [Add α] : List Nat → List α → List α
  | [], xs => xs
  | [_], xs => prefixSums1 xs
  | d :: d2 :: ds, xs =>
    let inner := (rows (size (d2 :: ds)) d xs).map (integralData (d2 :: ds))
    (accRows1 inner).flatten

def T.integral {α} [Add α] (t : T α) : T α :=
  if size t.dims = 0 then t else ⟨t.dims, integralData t.dims t.data⟩

/-- specification side of `integral`: `Σ_{j=0}^{i} g j` -/
def sumTo : Nat → (Nat → Int) → Int
  | 0, g => g 0
  | i + 1, g => sumTo i g + g (i + 1)

/-- specification side of `integral`: the sum of `f q` over all tuples `q ≤ idx` componentwise
    (`q` has the length of `idx` and `q[k] ∈ 0..idx[k]`) -/
def boxSum : List Nat → (List Nat → Int) → Int
  | [], f => f []
  | i :: is, f => sumTo i (fun j => boxSum is (fun q => f (j :: q)))

/-- first loop of `remove_if` (algorithm.h:43-46): `for (; last < size && !op(last); ++last) {}` — skip the
    leading kept prefix; returns `last` and the part of the mask not yet visited (`mask[last..]`) -/
def removeIfSkip : List Bool → Nat → Nat × List Bool
  | false :: ms, last => removeIfSkip ms (last + 1)
  | ms, last => (last, ms)

/-- second loop of `remove_if` (algorithm.h:48-55): `for (curr = last; curr < size; ++curr) if (!op(curr))
    { copy(curr, last, tensor); ++last; }`. The first argument is `mask[curr..]` (so `curr < size` ⇔ non-empty),
    `rs` is the current content of the tensor as a list of sub-tensors along the first axis; `detail::copy`
    overwrites sub-tensor `last` by sub-tensor `curr` (`rs[curr]?` is `some _` whenever `curr < size`, which is
    the C++ assert of `detail::copy`). Returns the final `last` and the final content. -/
def removeIfLoop {α} : List Bool → Nat → Nat → List (List α) → Nat × List (List α)
  | [], _, last, rs => (last, rs)
  | m :: ms, curr, last, rs =>
    if m then removeIfLoop ms (curr + 1) last rs
    else
      match rs[curr]? with
      | some r => removeIfLoop ms (curr + 1) (last + 1) (rs.set last r)
      | none => removeIfLoop ms (curr + 1) (last + 1) rs

/-- `remove_if(op, tensor)` on the list of first-axis sub-tensors: the two-pointer loop of the C++ code;
    compacts the kept sub-tensors at the front (the tail keeps whatever the loop left there), returns the
    number kept. `mask[i] = op(i)`. -/
def removeIfRows {α} (mask : List Bool) (rs : List (List α)) : Nat × List (List α) :=
  let (last, rest) := removeIfSkip mask 0
  removeIfLoop rest last last rs

/-- the specification `remove_if` is checked against: the sub-tensors whose flag is `false`, in order -/
def keptRows {α} : List Bool → List (List α) → List (List α)
  | m :: ms, r :: rs => if m then keptRows ms rs else r :: keptRows ms rs
  | _, _ => []

/-- the first-axis indices that `remove_if` keeps, in order (`base` = index of the head of the mask) -/
def keptIdx : List Bool → Nat → List Nat
  | [], _ => []
  | m :: ms, base => if m then keptIdx ms (base + 1) else base :: keptIdx ms (base + 1)

def T.removeIf {α} (t : T α) (mask : List Bool) : Option (Nat × T α) :=
  match t.dims with
  | [] => none
  | d :: ds =>
    if mask.length = d then
      let (k, rs) := removeIfRows mask (rows (size ds) d t.data)
      some (k, ⟨d :: ds, rs.flatten⟩)
    else none

/-- vector form of `stack`: concatenation, `none` unless the sizes add up to `rows` -/
def stackVec {α} (n : Nat) (blocks : List (List α)) : Option (List α) :=
  let v := blocks.flatten
  if v.length = n then some v else none

/-! ### matrix form of `stack` (stack.h:11-63, 118-127) -/

/-- a rank-2 block handed to `stack` (row-major data) -/
structure Block (α : Type) where
  rows : Nat
  cols : Nat
  data : List α
deriving Repr

/-- `matrix.block(row, col, br, bc) = block` on the row-major buffer `m` of a matrix with `cols` columns: every
    cell `(R, C)` of the rectangle `[row, row+br) × [col, col+bc)` receives `block(R - row, C - col)`, every
    other cell is left as it is (Eigen's block assignment) -/
def placeBlock {α} (cols : Nat) (m : List α) (row col br bc : Nat) (blk : List α) : List α :=
  m.mapIdx (fun o x =>
    if row ≤ o / cols ∧ o / cols < row + br ∧ col ≤ o % cols ∧ o % cols < col + bc then
      blk.getD ((o / cols - row) * bc + (o % cols - col)) x
    else x)

/-- `detail::stack(matrix, row, col, block, blocks...)`: place the block at `(row, col)`; if more blocks
    follow, continue at `(row + block_rows, 0)` when `col + block_cols >= matrix.cols()` (the block-row is
    full) and at `(row, col + block_cols)` otherwise; `none` where one of the asserts fires (block outside the
    matrix; after the last block `row + block_rows == rows` and `col + block_cols == cols`). The extra guard
    `data.length = rows * cols` says the block is a well-formed rank-2 tensor. -/
def stackMatGo {α} (rows cols : Nat) : List (Block α) → Nat → Nat → List α → Option (List α)
  | [], _, _, m => some m
  | b :: bs, row, col, m =>
    if b.data.length = b.rows * b.cols ∧ col + b.cols ≤ cols ∧ row + b.rows ≤ rows then
      let m' := placeBlock cols m row col b.rows b.cols b.data
      match bs with
      | [] => if row + b.rows = rows ∧ col + b.cols = cols then some m' else none
      | _ :: _ =>
        if col + b.cols ≥ cols then stackMatGo rows cols bs (row + b.rows) 0 m'
        else stackMatGo rows cols bs row (col + b.cols) m'
    else none

/-- `stack<tscalar>(rows, cols, blocks...)`: at least one block; the matrix is allocated without being
    initialised by the C++ code — `fill` stands for the content of the cells no block covers (none, for the
    gap-free layouts the contract asks for). -/
def stackMat {α} (fill : α) (rows cols : Nat) (blocks : List (Block α)) : Option (List α) :=
  match blocks with
  | [] => none
  | _ :: _ => stackMatGo rows cols blocks 0 0 (List.replicate (rows * cols) fill)

/-- specification side: the `(row, col)` at which each block is placed (same wrap rule) -/
def stackPos {α} (cols : Nat) : List (Block α) → Nat → Nat → List (Nat × Nat)
  | [], _, _ => []
  | b :: bs, row, col =>
    (row, col) :: (if col + b.cols ≥ cols then stackPos cols bs (row + b.rows) 0
                   else stackPos cols bs row (col + b.cols))

/-- the contract "blocks are compatible in size": a block that continues a block-row has the height of its
    left neighbour -/
def StackAligned {α} (cols : Nat) : List (Block α) → Nat → Prop
  | b :: b' :: rest, col =>
    (col + b.cols < cols → b'.rows = b.rows) ∧
    StackAligned cols (b' :: rest) (if col + b.cols ≥ cols then 0 else col + b.cols)
  | _, _ => True

end NanoVerif.Tensor
