import NanoVerif.Model.Loss
/-
  C06 — model of libnano's benchmark functions and constraint kinds (core Lean only; linked into `driver_c06`).

  Mirrors `do_vgrad` (value and gradient) of
    src/function/benchmark/{sphere, axis_ellipsoid, rotated_ellipsoid, chung_reynolds, schumer_steiglitz, sargan, trid,
      zakharov, quadratic, maxq, maxquad, maxhilb, chained_lq, chained_cb3I, chained_cb3II, kinks, exponential, geometric,
      cauchy, rosenbrock, qing, styblinski_tang, powell, dixon_price}.cpp
  and the value/gradient visitors of src/function/constraint.cpp:50-125 (`::vgrad` of `euclidean_ball_t`, `linear_t`,
  `quadratic_t`, `minimum_t`, `maximum_t`, `constant_t`).

  A point is a `List α` (its length is the dimension); every function is a pair `…F` (value) / `…G` (gradient or the
  sub-gradient the code returns). Parameters drawn at construction with libnano's RNG (`kinks`, `quadratic`,
  `geometric-optimization`) are arguments of the model; the harness reproduces them with the constructor's own calls
  (for `maxquad`: with a copy of the constructor's fill formulas, the members being private).
  Generic over the scalar as `Model/Loss.lean`.
-/
namespace NanoVerif.Fn
open NanoVerif.Loss

section
variable {α : Type} [Add α] [Sub α] [Mul α] [Div α] [Neg α] [LT α] [LE α] [DecidableLT α] [DecidableLE α]
  [OfNat α 0] [OfNat α 1] [OfNat α 2] [OfNat α 4] [NatCast α]

/-- `std::max(a, b)` = `(a < b) ? b : a` -/
def cmax (a b : α) : α := if a < b then b else a

/-- `Σ_i φ(i, x_i)`, indices starting at `i` -/
def sumIdx (φ : Nat → α → α) : Nat → List α → α
  | _, [] => 0
  | i, x :: xs => φ i x + sumIdx φ (i + 1) xs

/-- `[γ(i, x_i)]_i` -/
def mapIdx (γ : Nat → α → α) : Nat → List α → List α
  | _, [] => []
  | i, x :: xs => γ i x :: mapIdx γ (i + 1) xs

/-- matrix (list of rows) times vector -/
def mulVec (A : List (List α)) (x : List α) : List α := A.map (fun r => dot r x)

/-- `Aᵀ u = Σ_k u_k · row_k` for rows of length `n` -/
def tmulVec (n : Nat) : List (List α) → List α → List α
  | r :: A, u :: us => vadd (smul u r) (tmulVec n A us)
  | _, _ => List.replicate n 0

/-! ### separable and radial functions -/

/-- sphere.cpp: `x.dot(x)`, `2 * x` -/
def sphereF (x : List α) : α := dot x x
def sphereG (x : List α) : List α := smul 2 x

/-- axis_ellipsoid.cpp: `m_bias = lin_spaced(1, dims)` i.e. `bias(i) = i + 1`;
    `(x.square() * bias).sum()`, `2 * x * bias` -/
def axisF (x : List α) : α := sumIdx (fun i xi => xi * xi * ((i + 1 : Nat) : α)) 0 x
def axisG (x : List α) : List α := mapIdx (fun i xi => 2 * xi * ((i + 1 : Nat) : α)) 0 x

/-- schumer_steiglitz.cpp: `x.square().square().sum()`, `4 * x.cube()` -/
def schumerF (x : List α) : α := sumIdx (fun _ xi => xi * xi * (xi * xi)) 0 x
def schumerG (x : List α) : List α := mapIdx (fun _ xi => 4 * (xi * xi * xi)) 0 x

/-- qing.cpp: `(x.square() - bias).square().sum()`, `4 * (x.square() - bias) * x` with `bias(i) = i + 1` -/
def qingF (x : List α) : α :=
  sumIdx (fun i xi => (xi * xi - ((i + 1 : Nat) : α)) * (xi * xi - ((i + 1 : Nat) : α))) 0 x
def qingG (x : List α) : List α := mapIdx (fun i xi => 4 * (xi * xi - ((i + 1 : Nat) : α)) * xi) 0 x

/-- styblinski_tang.cpp: `(x⁴ - 16 x² + 5 x).sum()`, `4 x³ - 32 x + 5` -/
def styblinskiF (x : List α) : α :=
  sumIdx (fun _ xi => xi * xi * (xi * xi) - ((16 : Nat) : α) * (xi * xi) + ((5 : Nat) : α) * xi) 0 x
def styblinskiG (x : List α) : List α :=
  mapIdx (fun _ xi => 4 * (xi * xi * xi) - ((32 : Nat) : α) * xi + ((5 : Nat) : α)) 0 x

/-- chung_reynolds.cpp: `u = x.dot(x)`; `u * u`, `(4 * u) * x` -/
def chungF (x : List α) : α := dot x x * dot x x
def chungG (x : List α) : List α := smul (4 * dot x x) x

/-- sargan.cpp: `s = x.dot(x)`; `0.6 * s + 0.4 * square(s)`, `(1.2 + 1.6 * s) * x` -/
def sarganF (x : List α) : α :=
  ((6 : Nat) : α) / ((10 : Nat) : α) * dot x x + 4 / ((10 : Nat) : α) * (dot x x * dot x x)
def sarganG (x : List α) : List α :=
  smul (((12 : Nat) : α) / ((10 : Nat) : α) + ((16 : Nat) : α) / ((10 : Nat) : α) * dot x x) x

/-- zakharov.cpp: `bias(i) = (i + 1) / 2`, `u = x.dot(x)`, `v = x.dot(bias)`;
    `u + square(v) + quartic(v)`, `2 * x + (2 * v + 4 * cube(v)) * bias` -/
def zakBias (n : Nat) : List α := (List.range n).map (fun i => ((i + 1 : Nat) : α) / 2)
def zakharovF (x : List α) : α :=
  let v := dot x (zakBias x.length)
  dot x x + v * v + v * v * (v * v)
def zakharovG (x : List α) : List α :=
  let v := dot x (zakBias x.length)
  vadd (smul 2 x) (smul (2 * v + 4 * (v * (v * v))) (zakBias x.length))

/-! ### chained / banded functions -/

/-- rotated_ellipsoid.cpp: running sum `fi += x(i); fx += square(fi)`; `gx(i) = 2 * fi` followed by the
    reverse accumulation `gx(i) += gx(i + 1)`. `acc` is the running sum before the list. -/
def rotF (acc : α) : List α → α
  | [] => 0
  | x :: xs => (acc + x) * (acc + x) + rotF (acc + x) xs
def rotG (acc : α) : List α → List α
  | [] => []
  | x :: xs =>
    let r := rotG (acc + x) xs
    (2 * (acc + x) + r.headD 0) :: r

/-- `Σ_i x_i * x_{i+1}` -/
def adjSum : List α → α
  | a :: b :: r => a * b + adjSum (b :: r)
  | _ => 0

/-- sum of a function of the consecutive pairs `(x_i, x_{i+1})` -/
def pairSum (v : α → α → α) : List α → α
  | a :: b :: r => v a b + pairSum v (b :: r)
  | _ => 0

/-- gradient accumulated over the consecutive pairs: pair `i` adds `(c a b).1` to entry `i` and `(c a b).2` to entry
    `i + 1` (`gx.full(0); for i: gx(i) += …; gx(i + 1) += …`); `carry` = what the previous pair added to the head -/
def pairGrad (c : α → α → α × α) : α → List α → List α
  | _, [] => []
  | carry, [_] => [carry]
  | carry, a :: b :: r => (carry + (c a b).1) :: pairGrad c (c a b).2 (b :: r)

/-- trid.cpp: `(x - 1).square().sum() - (x[0..n-1) * x[1..n)).sum()`;
    `gx = 2 * (x - 1); gx[1..n) -= x[0..n-1); gx[0..n-1) -= x[1..n)`: the pair `(x_i, x_{i+1})` subtracts `x_{i+1}` from
    entry `i` and `x_i` from entry `i + 1` -/
def tridF (x : List α) : α := sumIdx (fun _ xi => (xi - 1) * (xi - 1)) 0 x - adjSum x
def tridG (x : List α) : List α :=
  vadd (mapIdx (fun _ xi => 2 * (xi - 1)) 0 x) (pairGrad (fun a b => (-b, -a)) 0 x)

/-- chained_lq.cpp: `v1 = -xi - xi1`, `v2 = v1 + square(xi) + square(xi1) - 1`; `fx += max(v1, v2)`;
    gradient of the second piece iff `v2 > v1` -/
def lqV1 (a b : α) : α := -a - b
def lqV2 (a b : α) : α := lqV1 a b + a * a + b * b - 1
def lqPiece (a b : α) : α := cmax (lqV1 a b) (lqV2 a b)
def lqPieceG (a b : α) : α × α :=
  if lqV1 a b < lqV2 a b then (-1 + 2 * a, -1 + 2 * b) else (-1, -1)
def chainedLqF (x : List α) : α := pairSum lqPiece x
def chainedLqG (x : List α) : List α := pairGrad lqPieceG 0 x

/-- rosenbrock.cpp: `fx += 100 * square(x(i+1) - x(i) * x(i)) + square(x(i) - 1)`;
    `gx(i) += 2 * (x(i) - 1); gx(i) += 100 * 2 * (x(i+1) - x(i)²) * (-2 * x(i)); gx(i+1) += 100 * 2 * (x(i+1) - x(i)²)` -/
def rosenPiece (a b : α) : α := ((100 : Nat) : α) * ((b - a * a) * (b - a * a)) + (a - 1) * (a - 1)
def rosenPieceG (a b : α) : α × α :=
  (2 * (a - 1) + ((100 : Nat) : α) * 2 * (b - a * a) * (-2 * a), ((100 : Nat) : α) * 2 * (b - a * a))
def rosenbrockF (x : List α) : α := pairSum rosenPiece x
def rosenbrockG (x : List α) : List α := pairGrad rosenPieceG 0 x

/-- dixon_price.cpp: `square(x(0) - 1) + Σ_{i≥1} bias(i) * square(2 x(i)² - x(i-1))`, `bias(i) = i + 1`;
    `weight_i = bias(i) * 2 * (2 x(i)² - x(i-1))`, `gx(0) = 2 (x(0) - 1)`, `gx(i) += weight_i * 4 * x(i)`, `gx(i-1) -= weight_i` -/
def dixonSum : Nat → List α → α
  | i, a :: b :: r => ((i + 1 : Nat) : α) * ((2 * (b * b) - a) * (2 * (b * b) - a)) + dixonSum (i + 1) (b :: r)
  | _, _ => 0
def dixonGradAux : Nat → α → List α → List α
  | _, _, [] => []
  | _, carry, [_] => [carry]
  | i, carry, a :: b :: r =>
    let w := ((i + 1 : Nat) : α) * 2 * (2 * (b * b) - a)
    (carry - w) :: dixonGradAux (i + 1) (w * 4 * b) (b :: r)
def dixonF : List α → α
  | [] => 0
  | x0 :: r => (x0 - 1) * (x0 - 1) + dixonSum 1 (x0 :: r)
def dixonG : List α → List α
  | [] => []
  | x0 :: r => dixonGradAux 1 (2 * (x0 - 1)) (x0 :: r)

/-- powell.cpp, one group of four coordinates -/
def powellF : List α → α
  | a :: b :: c :: d :: r =>
    (a + b * ((10 : Nat) : α)) * (a + b * ((10 : Nat) : α)) + (c - d) * (c - d) * ((5 : Nat) : α) +
      ((b - c * 2) * (b - c * 2)) * ((b - c * 2) * (b - c * 2)) +
      ((a - d) * (a - d)) * ((a - d) * (a - d)) * ((10 : Nat) : α) + powellF r
  | _ => 0
def powellG : List α → List α
  | a :: b :: c :: d :: r =>
    let g0 := (a + b * ((10 : Nat) : α)) * 2
    let g1 := (c - d) * ((5 : Nat) : α) * 2
    let g2 := (b - c * 2) * ((b - c * 2) * (b - c * 2)) * 4
    let g3 := (a - d) * ((a - d) * (a - d)) * ((10 : Nat) : α) * 4
    (g0 + g3) :: (g0 * ((10 : Nat) : α) + g2) :: (g1 - 2 * g2) :: (-g1 - g3) :: powellG r
  | _ => []

/-! ### max-type functions -/

/-- maxq.cpp: `x.square().maxCoeff(&idx)`; `gx = 0, gx(idx) = 2 * x(idx)` (the first maximum) -/
def maxqF (x : List α) : α := maxCoeff (x.map (fun xi => xi * xi))
def maxqG (x : List α) : List α :=
  let idx := argmax (x.map (fun xi => xi * xi))
  mapIdx (fun i xi => if i = idx then 2 * xi else 0) 0 x

/-- maxhilb.cpp: `weights(i, j) = 1 / (i + j + 1)` -/
def hilbert (n : Nat) : List (List α) :=
  (List.range n).map (fun i => (List.range n).map (fun j => 1 / ((i + j + 1 : Nat) : α)))

/-- maxhilb.cpp: `(W x).abs().maxCoeff(&idx)`; `gx = W.row(idx) * (signbit(x.dot(W.row(idx))) ? -1 : +1)` -/
def maxhilbF (x : List α) : α := maxCoeff ((mulVec (hilbert x.length) x).map abs')
def maxhilbG (x : List α) : List α :=
  let W : List (List α) := hilbert x.length
  let idx := argmax ((mulVec W x).map abs')
  let w := W.getD idx []
  smul (if dot x w < 0 then -1 else 1) w

/-- maxquad.cpp:69-88: `kfx = x.dot(A_k * x - b_k)` for every `k` -/
def mqVals : List (List (List α)) → List (List α) → List α → List α
  | A :: As, b :: bs, x => dot x (vsub (mulVec A x) b) :: mqVals As bs x
  | _, _, _ => []

/-- maxquad.cpp: the largest `kfx`, `kmax` = the first `k` attaining it (`kfx > fx` starting from `lowest()`);
    `gx = 2 * A_kmax * x - b_kmax`. The matrices `A_k` (symmetric, diagonally dominant) and the vectors `b_k` are filled at
    construction with exp/cos/sin formulas: parameters of the model -/
def maxquadF (As : List (List (List α))) (bs : List (List α)) (x : List α) : α := maxCoeff (mqVals As bs x)
def maxquadG (As : List (List (List α))) (bs : List (List α)) (x : List α) : List α :=
  let idx := argmax (mqVals As bs x)
  vsub (smul 2 (mulVec (As.getD idx []) x)) (bs.getD idx [])

end

section
variable {α : Type} [Add α] [Sub α] [Mul α] [Div α] [Neg α] [LT α] [LE α] [DecidableLT α] [DecidableLE α]
  [OfNat α 0] [OfNat α 1] [OfNat α 2] [OfNat α 4] [NatCast α] [Transc α]
open Transc

/-- chained_cb3I.cpp:20-29: the three pieces of one pair -/
def cbV1 (a b : α) : α := a * a * (a * a) + b * b
def cbV2 (a b : α) : α := (2 - a) * (2 - a) + (2 - b) * (2 - b)
def cbV3 (a b : α) : α := 2 * exp (-a + b)
def cbG1 (a b : α) : α × α := (4 * (a * (a * a)), 2 * b)
def cbG2 (a b : α) : α × α := (-(4 - 2 * a), -(4 - 2 * b))
def cbG3 (a b : α) : α × α := (-(2 * exp (b - a)), 2 * exp (b - a))

/-- chained_cb3I.cpp: `fx += max({v1, v2, v3})` per pair; gradient of piece 1 iff `v1 >= max(v2, v3)`, else of piece 2
    iff `v2 >= max(v1, v3)`, else of piece 3 -/
def cb3Piece (a b : α) : α := cmax (cmax (cbV1 a b) (cbV2 a b)) (cbV3 a b)
def cb3PieceG (a b : α) : α × α :=
  if cbV1 a b ≥ cmax (cbV2 a b) (cbV3 a b) then cbG1 a b
  else if cbV2 a b ≥ cmax (cbV1 a b) (cbV3 a b) then cbG2 a b
  else cbG3 a b
def cb3IF (x : List α) : α := pairSum cb3Piece x
def cb3IG (x : List α) : List α := pairGrad cb3PieceG 0 x

/-- chained_cb3II.cpp: the three pieces are summed over the pairs first; `max({fx1, fx2, fx3})`; the gradient of the
    piece selected by the same `>=` chain, accumulated over the pairs -/
def cb3IIF (x : List α) : α := cmax (cmax (pairSum cbV1 x) (pairSum cbV2 x)) (pairSum cbV3 x)
def cb3IIG (x : List α) : List α :=
  let f1 := pairSum cbV1 x
  let f2 := pairSum cbV2 x
  let f3 := pairSum cbV3 x
  if f1 ≥ cmax f2 f3 then pairGrad cbG1 0 x
  else if f2 ≥ cmax f1 f3 then pairGrad cbG2 0 x
  else pairGrad cbG3 0 x

/-- kinks.cpp: `Σ_rows Σ_j |x_j - K(row, j)| - offset`; `gx = Σ_rows sign(x - K.row)` -/
def kinksF (K : List (List α)) (offset : α) (x : List α) : α :=
  sumL (K.map (fun r => sum2 (fun k xi => abs' (xi - k)) r x)) - offset
def kinksG (K : List (List α)) (x : List α) : List α :=
  K.foldl (fun g r => vadd g (map2 (fun k xi => sign' (xi - k)) r x)) (List.replicate x.length 0)

/-- exponential.cpp: `alpha = 1 / size`, `fx = exp(1 + x.dot(x) * alpha)`; `(2 * fx * alpha) * x` -/
def expfnF (x : List α) : α := exp (1 + dot x x * (1 / (x.length : α)))
def expfnG (x : List α) : List α := smul (2 * expfnF x * (1 / (x.length : α))) x

/-- geometric.cpp: `(a + A x).exp().sum()`; `Aᵀ (a + A x).exp()` -/
def geomE (a : List α) (A : List (List α)) (x : List α) : List α := (vadd a (mulVec A x)).map exp
def geomF (a : List α) (A : List (List α)) (x : List α) : α := sumL (geomE a A x)
def geomG (a : List α) (A : List (List α)) (x : List α) : List α := tmulVec x.length A (geomE a A x)

/-- cauchy.cpp: `log1p(x.dot(x))`; `2 * x / (1 + x.dot(x))` -/
def cauchyF (x : List α) : α := log1p (dot x x)
def cauchyG (x : List α) : List α := x.map (fun xi => 2 * xi / (1 + dot x x))

/-- quadratic.cpp: `x.dot(a + 0.5 * (A x))`; `a + A x` (`A = I + R Rᵀ` is drawn at construction) -/
def quadraticF (a : List α) (A : List (List α)) (x : List α) : α := dot x (vadd a (smul (1 / 2) (mulVec A x)))
def quadraticG (a : List α) (A : List (List α)) (x : List α) : List α := vadd a (mulVec A x)

/-! ### elastic-net prototypes (elastic_net.h / elastic_net.cpp, linear.cpp) -/

/-- the per-sample kernels of `loss_mse_t`, `loss_mae_t`, `loss_cauchy_t`, `loss_hinge_t`, `loss_logistic_t`
    (elastic_net.h:58-170): value and derivative in the output `o` for the target `t` -/
def enetMseV (t o : α) : α := 1 / 2 * ((o - t) * (o - t))
def enetMseG (t o : α) : α := o - t
def enetCauchyV (t o : α) : α := log ((o - t) * (o - t) + 1)
def enetCauchyG (t o : α) : α := 2 * (o - t) / (1 + (o - t) * (o - t))
def enetHingeV (t o : α) : α := max0 (1 + -o * t)
def enetHingeG (t o : α) : α := -t * (sign' (1 + -o * t) * (1 / 2) + 1 / 2)
def enetLogisticV (t o : α) : α := log (1 + exp (-o * t))
def enetLogisticG (t o : α) : α := -t * exp (-o * t) / (1 + exp (-o * t))

/-- `synthetic_linear_t::outputs`: `inputs * w + bopt` for every sample (one output) -/
def enetOutputs (A : List (List α)) (b : α) (x : List α) : List α := (mulVec A x).map (fun y => y + b)

/-- `function_enet_t::do_vgrad`, value: `loss(outputs, targets) / N + alpha1 * |x|_1 + 0.5 * |sqrt(alpha2) x|²` -/
def enetF (kV : α → α → α) (a1 a2 : α) (A : List (List α)) (b : α) (t x : List α) : α :=
  sum2 kV t (enetOutputs A b x) / (t.length : α) + a1 * sumL (x.map abs')
    + 1 / 2 * dot (smul (sqrt a2) x) (smul (sqrt a2) x)

/-- gradient: `ggᵀ inputs / N + alpha1 * sign(x) + alpha2 * x` -/
def enetG (kG : α → α → α) (a1 a2 : α) (A : List (List α)) (b : α) (t x : List α) : List α :=
  vadd ((tmulVec x.length A (map2 kG t (enetOutputs A b x))).map (fun v => v / (t.length : α)))
    (vadd (smul a1 (x.map sign')) (smul a2 x))

/-! ### constraint kinds (constraint.cpp:50-125) -/

/-- `euclidean_ball_t`: `(x - origin).squaredNorm() - radius * radius`, `2 * (x - origin)` -/
def ballF (origin : List α) (radius : α) (x : List α) : α :=
  dot (vsub x origin) (vsub x origin) - radius * radius
def ballG (origin : List α) (x : List α) : List α := smul 2 (vsub x origin)

/-- `linear_t`: `q.dot(x) + r`, `q` -/
def linearF (q : List α) (r : α) (x : List α) : α := dot q x + r
def linearG (q : List α) (_x : List α) : List α := q

/-- `quadratic_t`: `0.5 * x.dot(P x) + q.dot(x) + r`, `0.5 * (P x + Pᵀ x) + q` (the gradient of the symmetric part
    of `P`, constraint.cpp:84-93 after 78c1895) -/
def cquadF (P : List (List α)) (q : List α) (r : α) (x : List α) : α :=
  1 / 2 * dot x (mulVec P x) + dot q x + r
def cquadG (P : List (List α)) (q : List α) (x : List α) : List α :=
  vadd (smul (1 / 2) (vadd (mulVec P x) (tmulVec x.length P x))) q

/-- `minimum_t`: `value - x(dimension)`, `-e_dimension` -/
def minimumF (v : α) (d : Nat) (x : List α) : α := v - x.getD d 0
def minimumG (d : Nat) (x : List α) : List α := mapIdx (fun i _ => if i = d then -1 else 0) 0 x

/-- `maximum_t` and `constant_t`: `x(dimension) - value`, `+e_dimension` -/
def maximumF (v : α) (d : Nat) (x : List α) : α := x.getD d 0 - v
def maximumG (d : Nat) (x : List α) : List α := mapIdx (fun i _ => if i = d then 1 else 0) 0 x

end

end NanoVerif.Fn
