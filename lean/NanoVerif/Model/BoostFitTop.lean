import NanoVerif.Model.BoostFit
import NanoVerif.Model.MLResult
import NanoVerif.Model.LinearFit
/-!
  C11 — the two `fit()` functions end to end, as compositions of the pieces: `ml::tune` over the batches the tuner asks for
  (`MLResult.runTune`), `optimum_trial()` (`MLResult.optimumOf`, C13's scan), then

  * `gboost_model_t::fit` (src/gboost/model.cpp:286-356): the fold models `extra(optimum_trial, fold)` of all folds summed / merged /
    scaled by `1 / folds` into the cleared object (`BoostFit.finalize`), the final statistics from the final model's own
    predictions on the given samples (`finalValues`), stored without model data (`fit_result.store(::selected(values, samples))`);
  * `linear_t::fit` (src/linear.cpp:78-113): `fit_result.params(optimum_trial)` handed to the cold refit on all samples
    (`LinearFit.refit`).
  Core Lean only.
-/
namespace NanoVerif.BoostFit
open NanoVerif.Tune NanoVerif.Stats NanoVerif.MLResult

variable {W X S P M α : Type} [Add α] [Sub α] [Mul α] [Div α] [LT α] [LE α] [DecidableLT α] [DecidableLE α]
  [OfNat α 0] [OfNat α 1] [OfNat α 2] [OfNat α 50] [OfNat α 100] [FloorI α] [HasSqrt α] [NatCast α]

/-- the fold models of a trial, in fold order (model.cpp:317-326: `std::any_cast<gboost::result_t>(&fit_result.extra(trial, fold))`) -/
def foldModels (r : Result (Payload (FoldResult W X α) α)) (trial folds : Nat) : List (GModel W X α) :=
  (List.range folds).filterMap (fun f => (extraOf r trial f).map (fun R => ({ bias := R.bias, ws := R.ws } : GModel W X α)))

/-- `gboost_model_t::fit`; `top` = `DBL_MAX`, `dflt` = NaN, `denom` = `1.0 / folds`, `prev` = the object before the call -/
def gboostFit (sort : List α → List α) (env : BoostFit.Env W X S α) (top dflt zero denom : α) (folds : Nat)
    (bs : List (Batch (FoldResult W X α) α)) (samples : List S) (prev : GModel W X α) :
    GModel W X α × Full (FoldResult W X α) α :=
  let r := runTune sort folds bs
  let m := finalize env zero denom prev (foldModels r (optimumOf top dflt r) folds)
  (m, storeFinal sort r (finalValues env m samples) none)

/-- `linear_t::fit`; `rowOf trial` = `fit_result.params(trial)` -/
def linearFit (sort : List α → List α) (env : LinearFit.Env P M S α) (top dflt : α) (folds : Nat) (bs : List (Batch M α))
    (rowOf : Nat → P) (samples : List S) (prev : LinearFit.Obj M) : LinearFit.Obj M × Full M α :=
  let r := runTune sort folds bs
  LinearFit.refit sort env prev r (rowOf (optimumOf top dflt r)) samples

end NanoVerif.BoostFit
