import NanoVerif.Model.MLResult
/-!
  C11 — the bookkeeping of `linear_t::fit` (src/linear.cpp:78-113) and of its model callback (86-94), `::fit` (30-48) and
  `make_x0` (16-28). Core Lean only.

  Oracles: `solve params samples x0` = `::fit`: build the function for the regularisation parameters, `solver.minimize` from
  `make_x0(function, extra)` (zero, or the weights and bias of the closest earlier trial), read `bias` / `weights` from the
  solution, `upscale`; `evalOn model s` = the (error, loss value) `linear::evaluate` (src/linear/util.cpp:30-48) computes for sample
  `s` with the given weights and bias. `M` is the type of `linear::result_t` (weights, bias, solver statistics), `P` of a row of
  hyper-parameter values.
-/
namespace NanoVerif.LinearFit
open NanoVerif.Tune NanoVerif.Stats NanoVerif.MLResult

structure Env (P M S α : Type) where
  /-- linear.cpp:30-48; the third argument is `extra` (`none` = an empty `std::any`: cold start from zero) -/
  solve : P → List S → Option M → M
  /-- util.cpp:30-48 per sample -/
  evalOn : M → S → α × α

variable {P M S α : Type}

/-- the model callback (linear.cpp:86-94): fit on the training samples of the fold, warm-started from `extra`; evaluate the
    fitted weights on the training and on the validation samples; hand all three to `result.store` -/
def callback (env : Env P M S α) (params : P) (train valid : List S) (extra : Option M) : FoldFit M α :=
  let m := env.solve params train extra
  { trainValues := train.map (env.evalOn m), validValues := valid.map (env.evalOn m), extra := m }

/-- the callback of one batch as `ml::tune` sees it: `rows t` = the hyper-parameter values of the batch's trial `t`,
    `splits f` = the (train, valid) sample lists of fold `f` -/
def batchFit (env : Env P M S α) (rows : Nat → P) (splits : Nat → List S × List S) :
    Nat → Nat → Option M → FoldFit M α :=
  fun t f extra => callback env (rows t) (splits f).1 (splits f).2 extra

/-- the fitted object: `m_bias`, `m_weights` (here: the `linear::result_t` they are copied from) -/
structure Obj (M : Type) where
  model : Option M

section
variable [Add α] [Sub α] [Mul α] [Div α] [LT α] [LE α] [DecidableLT α] [DecidableLE α]
  [OfNat α 0] [OfNat α 1] [OfNat α 2] [OfNat α 50] [OfNat α 100] [FloorI α] [HasSqrt α]

/-- the refit (linear.cpp:97-109): `::fit` on **all** given samples with the parameters of the optimum trial and **no**
    warm start (`extra` defaulted), the statistics of that model on those samples, `m_bias` / `m_weights` := that model,
    `fit_result.store(values, result)`. `_prev` = what an earlier `fit()` left in the object: never read. -/
def refit (sort : List α → List α) (env : Env P M S α) (_prev : Obj M) (tuned : Result (Payload M α))
    (optParams : P) (samples : List S) : Obj M × Full M α :=
  let m := env.solve optParams samples none
  ({ model := some m }, storeFinal sort tuned (samples.map (env.evalOn m)) (some m))

end
end NanoVerif.LinearFit
