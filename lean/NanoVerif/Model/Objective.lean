/-
  C09 — model of how libnano evaluates its machine-learning objectives (core Lean only; generic over the scalar type:
  run at `Float` in `driver_c09`, proved over an ordered field in `Props/C09.lean`).

  Mirrors (line numbers of /repo at the time of writing):
    include/nano/core/parallel.h:294-366  pool_t::map(elements, chunksize, op)      -> `chunks`, `runChunks` (+ `asg`)
    src/dataset/iterator.cpp:149-180      flatten_iterator_t / targets_iterator_t::loop  -> `chunks n batch`
    include/nano/core/reduce.h:22-31      sum_reduce(accumulators, samples)         -> `sumReduce`
    src/linear/accumulator.cpp            clear / operator+= / operator/=          -> `LinAcc.zero/add/divN`
    src/linear/util.cpp:6-21              linear::predict                           -> `predict`
    src/linear/function.cpp:44-110        linear::function_t::do_vgrad              -> `linTerm`, `linStep`, `linearVGrad`
    src/gboost/accumulator.cpp            clear / operator+= / operator/= / update / vgrad -> `GbAcc.*`
    src/gboost/function.cpp:117-153       bias_function_t::do_vgrad                 -> `biasVGrad`
    src/gboost/function.cpp:44-97         scale_function_t::do_vgrad                -> `scaleStep`, `scaleVGrad`
    src/gboost/function.cpp:171-201       grads_function_t::do_vgrad / gradients    -> `writeRange`, `gradsVGrad`

  What is abstract: the loss. `L i o` / `dL i o` are the loss value and its gradient w.r.t. the outputs of the sample at
  position `i` of the iterator's sample list when the model outputs are `o` (they hide the (scaled) target `t_i`), i.e.
  `loss_t::value` / `loss_t::vgrad` on row `i`. The (scaled, missing→0) flattened inputs served by the iterator are
  `x i j`. Two concrete kernels (`mse`, `mae`, include/nano/loss/flatten.h) are given for the driver.

  What is a parameter: `asg`, the worker (`tnum`) that executed each chunk, in queue order. The pool hands chunk `k` (the
  `k`-th task enqueued by `map`) to whichever worker pops it; a worker executes its chunks one after the other, and an
  accumulator `m_accumulators[tnum]` is touched only by worker `tnum`, so processing the chunks in queue order with the
  observed `asg` reproduces every per-worker accumulator exactly. The sequential path of `map` (`size() == 1` or
  `chunksize >= elements`) is the assignment "all 0".

  Every function returns `none` exactly where the C++ code asserts (`chunksize >= 1`, `tnum < m_accumulators.size()`)
  or would index out of bounds (`accumulators[0]` of an empty vector, `x(group)` with `group >= groups`).
-/
namespace NanoVerif.Objective

/-! ### `pool_t::map(elements, chunksize, op)`: the ranges `[b, min(b + c, n))` for `b = 0, c, 2c, …` -/

/-- `for (begin = 0; begin < elements; begin += chunksize) op(begin, min(begin + chunksize, elements))`, fuel-bounded -/
def chunksFrom (n c : Nat) : Nat → Nat → List (Nat × Nat)
  | 0, _ => []
  | fuel + 1, b => if b < n then (b, min (b + c) n) :: chunksFrom n c fuel (b + c) else []

def chunks (n c : Nat) : List (Nat × Nat) := chunksFrom n c n 0

/-- the sample positions `b, b+1, …, e-1` of a `tensor_range_t` -/
def rangeList (b e : Nat) : List Nat := (List.range (e - b)).map (· + b)

/-- the workers named by `asg` exist and there is one entry per chunk -/
def ValidAsg (workers n batch : Nat) (asg : List Nat) : Prop :=
  asg.length = (chunks n batch).length ∧ ∀ w ∈ asg, w < workers

instance (workers n batch : Nat) (asg : List Nat) : Decidable (ValidAsg workers n batch asg) := by
  unfold ValidAsg; exact inferInstance

/-! ### the map-reduce skeleton shared by the three accumulating objectives, generic in the accumulator type `M` -/
section skeleton
variable {M : Type}

/-- left-to-right sum with explicit operations -/
def msum (add : M → M → M) (zero : M) (xs : List M) : M := xs.foldl add zero

/-- the loop of `map`: chunk `k` is executed by worker `asg[k]`, which updates its own accumulator
    (`auto& accumulator = m_accumulators[tnum]`, guarded by `assert(tnum < m_accumulators.size())`) -/
def runChunks (step : M → Nat → Nat → M) : List M → List (Nat × Nat) → List Nat → Option (List M)
  | accs, [], [] => some accs
  | accs, (b, e) :: cs, w :: ws =>
    match accs[w]? with
    | some a => runChunks step (accs.set w (step a b e)) cs ws
    | none => none
  | _, _, _ => none

/-- `sum_reduce`: `accumulator0 = accumulators[0]; for i = 1 … : accumulator0 += accumulators[i]; accumulator0 /= samples` -/
def sumReduce (add : M → M → M) (divN : M → Nat → M) (n : Nat) : List M → Option M
  | [] => none
  | a0 :: rest => some (divN (rest.foldl add a0) n)

/-- `clear` all accumulators, `iterator.loop(callback)`, `sum_reduce(m_accumulators, samples.size())` -/
def mapReduce (add : M → M → M) (zero : M) (divN : M → Nat → M) (step : M → Nat → Nat → M)
    (workers n batch : Nat) (asg : List Nat) : Option M :=
  if batch = 0 then none
  else
    match runChunks step (List.replicate workers zero) (chunks n batch) asg with
    | some accs => sumReduce add divN n accs
    | none => none

end skeleton

/-- `idx < t * s → idx / s < t`: the row of a row-major `t × s` matrix entry -/
theorem idx_div_lt {t s idx : Nat} (h : idx < t * s) : idx / s < t := by
  have hs : 0 < s := by
    rcases Nat.eq_zero_or_pos s with h0 | h0
    · subst h0; simp at h
    · exact h0
  exact (Nat.div_lt_iff_lt_mul hs).2 h

section scalar
variable {α : Type} [Add α] [Sub α] [Mul α] [Div α] [Neg α] [LT α] [DecidableLT α]
  [OfNat α 0] [OfNat α 1] [OfNat α 2] [NatCast α]

/-- Eigen `.sum()` -/
def fsum (xs : List α) : α := xs.foldl (· + ·) 0

/-- Eigen `.abs()` -/
def absF (x : α) : α := if x < 0 then -x else x

/-- Eigen `.sign()`: `(0 < x) - (x < 0)` -/
def sgnF (x : α) : α := if 0 < x then 1 else if x < 0 then -1 else 0

def vzero (k : Nat) : Vector α k := Vector.replicate k 0
def vadd {k : Nat} (a b : Vector α k) : Vector α k := Vector.zipWith (· + ·) a b
def vdivN {k : Nat} (a : Vector α k) (n : Nat) : Vector α k := a.map (· / (n : α))

/-- Eigen `a.dot(b)` -/
def dot {k : Nat} (a b : Vector α k) : α := fsum (Vector.zipWith (· * ·) a b).toList

/-! ### two concrete loss kernels (include/nano/loss/flatten.h: `mse_t`, `mae_t`) -/

/-- `0.5 * (output - target).square().sum()` -/
def mseValue {t : Nat} (tg o : Vector α t) : α :=
  (1 / 2) * fsum (Vector.zipWith (fun o t => (o - t) * (o - t)) o tg).toList
/-- `output - target` -/
def mseGrad {t : Nat} (tg o : Vector α t) : Vector α t := Vector.zipWith (· - ·) o tg
/-- `(output - target).abs().sum()` -/
def maeValue {t : Nat} (tg o : Vector α t) : α := fsum (Vector.zipWith (fun o t => absF (o - t)) o tg).toList
/-- `(output - target).sign()` -/
def maeGrad {t : Nat} (tg o : Vector α t) : Vector α t := Vector.zipWith (fun o t => sgnF (o - t)) o tg

/-! ### linear models: `linear::function_t` -/

/-- `linear::accumulator_t` (the buffers `m_outputs/m_vgrads/m_values` are scratch and not part of the state) -/
structure LinAcc (α : Type) (t s : Nat) where
  vm1 : α
  gb1 : Vector α t
  gW1 : Vector α (t * s)

/-- `accumulator_t::clear` -/
def LinAcc.zero {t s : Nat} : LinAcc α t s := ⟨0, vzero t, vzero (t * s)⟩
/-- `accumulator_t::operator+=` -/
def LinAcc.add {t s : Nat} (a b : LinAcc α t s) : LinAcc α t s :=
  ⟨a.vm1 + b.vm1, vadd a.gb1 b.gb1, vadd a.gW1 b.gW1⟩
/-- `accumulator_t::operator/=` -/
def LinAcc.divN {t s : Nat} (a : LinAcc α t s) (n : Nat) : LinAcc α t s :=
  ⟨a.vm1 / (n : α), vdivN a.gb1 n, vdivN a.gW1 n⟩

/-- `linear::predict` for one row: `outputs = inputs * weights.transpose(); outputs.rowwise() += bias` with
    `weights` = `t × s` row-major (`W k j`), `bias` of size `t` -/
def predict (t s : Nat) (W : Nat → Nat → α) (b : Nat → α) (x : Nat → α) : Vector α t :=
  Vector.ofFn fun k => fsum ((List.range s).map fun j => x j * W k.val j) + b k.val

/-- what the sample at position `i` adds to the accumulator of the worker that owns its chunk:
    `m_vm1 += values.sum()` (its loss value), `m_gb1 += gmatrix.colwise().sum()` (its row of the loss gradients),
    `m_gW1 += gmatrix.transpose() * inputs` (entry `(k, j)` of `Gᵀ X` is `Σ_i g_i[k] * x_i[j]`) -/
def linTerm {t s : Nat} (W : Nat → Nat → α) (b : Nat → α) (L : Nat → Vector α t → α)
    (dL : Nat → Vector α t → Vector α t) (x : Nat → Nat → α) (i : Nat) : LinAcc α t s :=
  let o := predict t s W b (x i)
  let g := dL i o
  ⟨L i o, g, Vector.ofFn fun idx => g[idx.val / s]'(idx_div_lt idx.isLt) * x i (idx.val % s)⟩

/-- the callback of `m_iterator.loop` in `do_vgrad` for the range `[b, e)` (Eigen's sums over the rows of the chunk
    are the sums of the per-row terms; their order inside Eigen is not specified) -/
def linStep {t s : Nat} (W : Nat → Nat → α) (b : Nat → α) (L : Nat → Vector α t → α)
    (dL : Nat → Vector α t → Vector α t) (x : Nat → Nat → α) (acc : LinAcc α t s) (bg en : Nat) : LinAcc α t s :=
  acc.add (msum LinAcc.add LinAcc.zero ((rangeList bg en).map (linTerm W b L dL x)))

/-- the weights as the flat row-major list `W.array()` iterates over -/
def wlist (t s : Nat) (W : Nat → Nat → α) : List α := (List.range (t * s)).map fun idx => W (idx / s) (idx % s)

structure LinOut (α : Type) (t s : Nat) where
  fx : α
  gW : Vector α (t * s)
  gb : Vector α t

/-- `linear::function_t::do_vgrad(x, gx)` with `x = (W, b)`; `sqrt` is `std::sqrt` -/
def linearVGrad {t s : Nat} (sqrt : α → α) (l1 l2 : α) (W : Nat → Nat → α) (b : Nat → α)
    (L : Nat → Vector α t → α) (dL : Nat → Vector α t → Vector α t) (x : Nat → Nat → α)
    (workers n batch : Nat) (asg : List Nat) : Option (LinOut α t s) :=
  match mapReduce LinAcc.add LinAcc.zero LinAcc.divN (linStep W b L dL x) workers n batch asg with
  | none => none
  | some acc =>
    let size : α := ((t * s : Nat) : α)                                   -- W.size()
    -- gW = accumulator.m_gW1; if (l1 > 0) gW += l1 * sign(W) / W.size(); if (l2 > 0) gW += l2 * W / W.size()
    let gW := acc.gW1
    let gW := if 0 < l1 then Vector.ofFn fun idx => gW[idx] + l1 * sgnF (W (idx.val / s) (idx.val % s)) / size else gW
    let gW := if 0 < l2 then Vector.ofFn fun idx => gW[idx] + l2 * W (idx.val / s) (idx.val % s) / size else gW
    -- fx = m_vm1; if (l1 > 0) fx += l1 * |W|.mean(); if (l2 > 0) fx += 0.5 * (sqrt(l2) * W).square().mean()
    let fx := acc.vm1
    let fx := if 0 < l1 then fx + l1 * (fsum ((wlist t s W).map absF) / size) else fx
    let fx := if 0 < l2 then
        fx + (1 / 2) * (fsum ((wlist t s W).map fun w => (sqrt l2 * w) * (sqrt l2 * w)) / size) else fx
    some ⟨fx, gW, acc.gb1⟩

/-! the definition the property compares with (for `l1, l2 ≥ 0`) -/

/-- `mean_i loss(t_i, W x_i + b) + l1 · mean|W| + (l2/2) · mean W²` -/
def linearDefValue (t s : Nat) (l1 l2 : α) (W : Nat → Nat → α) (b : Nat → α) (L : Nat → Vector α t → α)
    (x : Nat → Nat → α) (n : Nat) : α :=
  fsum ((List.range n).map fun i => L i (predict t s W b (x i))) / (n : α)
    + l1 * (fsum ((wlist t s W).map absF) / ((t * s : Nat) : α))
    + l2 / 2 * (fsum ((wlist t s W).map fun w => w * w) / ((t * s : Nat) : α))

/-- its gradient w.r.t. `W k j`: `mean_i ∂loss_i/∂o_k · x_i[j] + l1 · sign(W k j)/|W| + l2 · W k j/|W|` -/
def linearDefGradW (t s : Nat) (l1 l2 : α) (W : Nat → Nat → α) (b : Nat → α) (dL : Nat → Vector α t → Vector α t)
    (x : Nat → Nat → α) (n : Nat) (k : Fin t) (j : Nat) : α :=
  fsum ((List.range n).map fun i => (dL i (predict t s W b (x i)))[k] * x i j) / (n : α)
    + l1 * sgnF (W k j) / ((t * s : Nat) : α)
    + l2 * W k j / ((t * s : Nat) : α)

/-- its gradient w.r.t. `b k`: `mean_i ∂loss_i/∂o_k` -/
def linearDefGradB (t s : Nat) (W : Nat → Nat → α) (b : Nat → α) (dL : Nat → Vector α t → Vector α t)
    (x : Nat → Nat → α) (n : Nat) (k : Fin t) : α :=
  fsum ((List.range n).map fun i => (dL i (predict t s W b (x i)))[k]) / (n : α)

/-! ### gradient boosting: `gboost::accumulator_t`, `bias_function_t`, `scale_function_t`, `grads_function_t` -/

/-- `gboost::accumulator_t` with `m_gb1` of size `d` (`tsize` for the bias, `groups` for the scale) -/
structure GbAcc (α : Type) (d : Nat) where
  vm1 : α
  gb1 : Vector α d

def GbAcc.zero {d : Nat} : GbAcc α d := ⟨0, vzero d⟩
def GbAcc.add {d : Nat} (a b : GbAcc α d) : GbAcc α d := ⟨a.vm1 + b.vm1, vadd a.gb1 b.gb1⟩
def GbAcc.divN {d : Nat} (a : GbAcc α d) (n : Nat) : GbAcc α d := ⟨a.vm1 / (n : α), vdivN a.gb1 n⟩

/-- bias: every output row is the bias vector `x` (`outputs.rowwise() = x.transpose()`) -/
def biasTerm {t : Nat} (L : Nat → Vector α t → α) (dL : Nat → Vector α t → Vector α t) (x : Vector α t) (i : Nat) :
    GbAcc α t := ⟨L i x, dL i x⟩

/-- `accumulator.update(values)` (`m_vm1 += values.sum()`), `m_gb1 += vgrads.colwise().sum()` -/
def biasStep {t : Nat} (L : Nat → Vector α t → α) (dL : Nat → Vector α t → Vector α t) (x : Vector α t)
    (acc : GbAcc α t) (bg en : Nat) : GbAcc α t :=
  acc.add (msum GbAcc.add GbAcc.zero ((rangeList bg en).map (biasTerm L dL x)))

/-- `bias_function_t::do_vgrad`: returns `(accumulator.m_vm1, accumulator.m_gb1)` (`accumulator_t::vgrad`) -/
def biasVGrad {t : Nat} (L : Nat → Vector α t → α) (dL : Nat → Vector α t → Vector α t) (x : Vector α t)
    (workers n batch : Nat) (asg : List Nat) : Option (α × Vector α t) :=
  (mapReduce GbAcc.add GbAcc.zero GbAcc.divN (biasStep L dL x) workers n batch asg).map fun a => (a.vm1, a.gb1)

/-- `mean_{i < n} f i` -/
def meanOver (n : Nat) (f : Nat → α) : α := fsum ((List.range n).map f) / (n : α)

/-- the definition the property compares with: `mean_i loss_i(x)` and `mean_i ∂loss_i/∂o_k (x)` -/
def biasDefValue {t : Nat} (L : Nat → Vector α t → α) (x : Vector α t) (n : Nat) : α := meanOver n fun i => L i x
def biasDefGrad {t : Nat} (dL : Nat → Vector α t → Vector α t) (x : Vector α t) (n : Nat) (k : Fin t) : α :=
  meanOver n fun i => (dL i x)[k]

/-- `scale = (group < 0) ? 0.0 : x(group)` -/
def scaleOf {G : Nat} (x : Vector α G) (grp : Int) : α := if grp < 0 then 0 else x.toList.getD grp.toNat 0

/-- `outputs.vector(i - begin) = m_soutputs.vector(samples(i)) + scale * m_woutputs.vector(samples(i))` -/
def scaleOutput {t G : Nat} (x : Vector α G) (grp : Nat → Int) (so wo : Nat → Vector α t) (i : Nat) : Vector α t :=
  Vector.zipWith (fun a w => a + scaleOf x (grp i) * w) (so i) (wo i)

/-- one iteration of the second loop: `if (group < 0) continue; accumulator.m_gb1(group) += vgrads.vector(i).dot(woutputs)` -/
def scaleGradUpdate {t G : Nat} (dL : Nat → Vector α t → Vector α t) (x : Vector α G) (grp : Nat → Int)
    (so wo : Nat → Vector α t) (gb : Vector α G) (i : Nat) : Vector α G :=
  if grp i < 0 then gb
  else
    let gw := dot (dL i (scaleOutput x grp so wo i)) (wo i)
    Vector.ofFn fun q => if (q.val : Int) = grp i then gb[q] + gw else gb[q]

/-- the callback of `scale_function_t::do_vgrad` for the range `[bg, en)` -/
def scaleStep {t G : Nat} (L : Nat → Vector α t → α) (dL : Nat → Vector α t → Vector α t) (x : Vector α G)
    (grp : Nat → Int) (so wo : Nat → Vector α t) (acc : GbAcc α G) (bg en : Nat) : GbAcc α G :=
  ⟨acc.vm1 + fsum ((rangeList bg en).map fun i => L i (scaleOutput x grp so wo i)),
   (rangeList bg en).foldl (scaleGradUpdate dL x grp so wo) acc.gb1⟩

/-- `scale_function_t::do_vgrad`; `grp i = m_cluster.group(samples(i))`, `so i`, `wo i` the rows `samples(i)` of the
    strong / weak learner outputs; `none` when a sample is assigned to a group the parameter vector does not have -/
def scaleVGrad {t G : Nat} (L : Nat → Vector α t → α) (dL : Nat → Vector α t → Vector α t) (x : Vector α G)
    (grp : Nat → Int) (so wo : Nat → Vector α t) (workers n batch : Nat) (asg : List Nat) :
    Option (α × Vector α G) :=
  if (List.range n).all (fun i => grp i < (G : Int)) then
    (mapReduce GbAcc.add GbAcc.zero GbAcc.divN (scaleStep L dL x grp so wo) workers n batch asg).map
      fun a => (a.vm1, a.gb1)
  else none

/-- the definition the property compares with: `mean_i loss_i(s_i + x[group_i] · w_i)` (unassigned: `s_i`) and, for the
    scale of group `q`, `mean_i [group_i = q] ∇loss_i · w_i` (mean over all `n` samples) -/
def scaleDefValue {t G : Nat} (L : Nat → Vector α t → α) (x : Vector α G) (grp : Nat → Int)
    (so wo : Nat → Vector α t) (n : Nat) : α := meanOver n fun i => L i (scaleOutput x grp so wo i)
def scaleDefGrad {t G : Nat} (dL : Nat → Vector α t → Vector α t) (x : Vector α G) (grp : Nat → Int)
    (so wo : Nat → Vector α t) (n : Nat) (q : Nat) : α :=
  meanOver n fun i => if (q : Int) = grp i then dot (dL i (scaleOutput x grp so wo i)) (wo i) else 0

/-- `buffer.slice(range) = values of the range` -/
def writeRange {β : Type} (f : Nat → β) (buf : List β) (bg en : Nat) : List β :=
  buf.take bg ++ (rangeList bg en).map f ++ buf.drop en

/-- the loop of `grads_function_t::gradients`: every chunk writes its slice of `m_values` / `m_vgrads`
    (no per-thread state is involved, so the executing worker does not matter) -/
def fillChunks {β : Type} (f : Nat → β) (buf : List β) (cs : List (Nat × Nat)) : List β :=
  cs.foldl (fun buf c => writeRange f buf c.1 c.2) buf

/-- `grads_function_t::do_vgrad(x, gx)` with `x` = the outputs `o i` of all samples; `values0`/`vgrads0` are the
    previous contents of the buffers `m_values`/`m_vgrads` (uninitialised after construction, stale afterwards):
    returns `m_values.mean()` and `m_vgrads / samples.size()` -/
def gradsVGrad {t : Nat} (L : Nat → Vector α t → α) (dL : Nat → Vector α t → Vector α t) (o : Nat → Vector α t)
    (values0 : List α) (vgrads0 : List (Vector α t)) (n batch : Nat) : Option (α × List (Vector α t)) :=
  if batch = 0 then none
  else
    let cs := chunks n batch
    let values := fillChunks (fun i => L i (o i)) values0 cs
    let vgrads := fillChunks (fun i => dL i (o i)) vgrads0 cs
    some (fsum values / (values.length : α), vgrads.map fun g => vdivN g n)

/-- the definition the property compares with: `mean_i loss_i(o_i)` and `∇loss_i(o_i) / n` for every sample -/
def gradsDef {t : Nat} (L : Nat → Vector α t → α) (dL : Nat → Vector α t → Vector α t) (o : Nat → Vector α t)
    (n : Nat) : α × List (Vector α t) :=
  (meanOver n fun i => L i (o i), (List.range n).map fun i => vdivN (dL i (o i)) n)

end scalar
end NanoVerif.Objective
