/-
  Line-protocol helpers shared by all driver families (core Lean only).

  Tokens: decimal integers, doubles as 16 hex digits of their IEEE-754 bit pattern, lists as `n v1 … vn`.
  A parser is a function `List String → Option (α × List String)`; anything malformed yields `none`, which the
  driver prints as `bad-op` (never a default value).
-/
namespace NanoVerif.Proto

abbrev Toks := List String
abbrev P (α : Type) := Toks → Option (α × Toks)

def hexDigit (c : Char) : Option Nat :=
  if '0' ≤ c ∧ c ≤ '9' then some (c.toNat - '0'.toNat)
  else if 'a' ≤ c ∧ c ≤ 'f' then some (c.toNat - 'a'.toNat + 10)
  else if 'A' ≤ c ∧ c ≤ 'F' then some (c.toNat - 'A'.toNat + 10)
  else none

def hexNat (s : String) : Option Nat :=
  if s.isEmpty then none
  else s.toList.foldl (fun acc c => match acc, hexDigit c with
    | some a, some d => some (a * 16 + d)
    | _, _ => none) (some 0)

def hexOfNat (width : Nat) (n : Nat) : String :=
  let ds := Nat.toDigits 16 n
  String.ofList (List.replicate (width - ds.length) '0' ++ ds)

/-- double from its 16-hex-digit bit pattern -/
def floatOfHex (s : String) : Option Float :=
  if s.length ≠ 16 then none else (hexNat s).map (fun n => Float.ofBits (UInt64.ofNat n))

def hexOfFloat (x : Float) : String :=
  if x.isNaN then "nan" else hexOfNat 16 x.toBits.toNat

def pNat : P Nat
  | t :: ts => t.toNat?.map (·, ts)
  | [] => none

def pInt : P Int
  | t :: ts => t.toInt?.map (·, ts)
  | [] => none

def pFloat : P Float
  | t :: ts => if t = "nan" then some (0.0 / 0.0, ts) else (floatOfHex t).map (·, ts)
  | [] => none

def pStr : P String
  | t :: ts => some (t, ts)
  | [] => none

/-- exactly `n` items -/
def pMany {α} (p : P α) : Nat → P (List α)
  | 0, ts => some ([], ts)
  | n + 1, ts => match p ts with
    | some (a, ts') => match pMany p n ts' with
      | some (as, ts'') => some (a :: as, ts'')
      | none => none
    | none => none

/-- `n v1 … vn` -/
def pList {α} (p : P α) : P (List α) := fun ts =>
  match pNat ts with
  | some (n, ts') => pMany p n ts'
  | none => none

def showList {α} (f : α → String) (xs : List α) : String :=
  String.intercalate " " (toString xs.length :: xs.map f)

def showNats (xs : List Nat) : String := showList toString xs
def showInts (xs : List Int) : String := showList toString xs
def showFloats (xs : List Float) : String := showList hexOfFloat xs

def showOptNat : Option Nat → String
  | some n => toString n
  | none => "none"

def showBool (b : Bool) : String := if b then "1" else "0"

def pBool : P Bool
  | "1" :: ts => some (true, ts)
  | "0" :: ts => some (false, ts)
  | _ => none

end NanoVerif.Proto
