import NanoVerif.Model.ParamFloat
/-
  C19 — what `parameter_t::operator=(string_t)` (src/parameter.cpp:300-319) does to its argument before the
  domain check (core Lean only):

    `std::stoll(value)`   → `stoll`      (libstdc++ `__stoa` over `strtoll(…, 10)`)
    `std::stod(value)`    → `stodXF`     (libstdc++ `__stoa` over glibc `strtod`, "C" locale)
    `::split_pair(value)` → `splitPair`  (src/parameter.cpp:23-32 over `tokenizer_t`, include/nano/core/tokenizer.h)

  Both conversions skip leading white space, accept a sign and convert the longest prefix of the expected form;
  no prefix → `std::invalid_argument`; `errno == ERANGE` → `std::out_of_range`. `strtod` accepts decimal numbers
  with optional fraction and exponent, hexadecimal floating point numbers (`0x1.8p3`), `inf`/`infinity` and
  `nan`/`nan(chars)` in any letter case.
-/
namespace NanoVerif.Param

/-- `isspace` in the "C" locale -/
def isSpaceC (c : Char) : Bool :=
  c == ' ' || c == '\t' || c == '\n' || c == '\x0b' || c == '\x0c' || c == '\r'

def skipSpaces : List Char → List Char
  | c :: cs => if isSpaceC c then skipSpaces cs else c :: cs
  | [] => []

/-- optional sign: (negative?, rest) -/
def takeSign : List Char → Bool × List Char
  | '-' :: cs => (true, cs)
  | '+' :: cs => (false, cs)
  | cs => (false, cs)

def isDigitC (c : Char) : Bool := '0' ≤ c && c ≤ '9'

def hexDigitVal (c : Char) : Option Nat :=
  if '0' ≤ c && c ≤ '9' then some (c.toNat - '0'.toNat)
  else if 'a' ≤ c && c ≤ 'f' then some (c.toNat - 'a'.toNat + 10)
  else if 'A' ≤ c && c ≤ 'F' then some (c.toNat - 'A'.toNat + 10)
  else none

/-- longest prefix of characters satisfying `p`, and the rest -/
def spanC (p : Char → Bool) : List Char → List Char × List Char
  | c :: cs => if p c then ((spanC p cs).1.cons c, (spanC p cs).2) else ([], c :: cs)
  | [] => ([], [])

def decVal (ds : List Char) : Nat := ds.foldl (fun acc c => acc * 10 + (c.toNat - '0'.toNat)) 0

def hexVal (ds : List Char) : Nat := ds.foldl (fun acc c => acc * 16 + (hexDigitVal c).getD 0) 0

/-- `std::stoll(s)` -/
def stoll (s : String) : Except Err Int :=
  let (neg, cs) := takeSign (skipSpaces s.toList)
  let ds := (spanC isDigitC cs).1
  if ds.isEmpty then .error .invalidArgument
  else
    let n : Int := Int.ofNat (decVal ds)
    let v : Int := if neg then -n else n
    if -XF.twoP63 ≤ v ∧ v < XF.twoP63 then .ok v else .error .outOfRange

/-- what `strtod` recognised, before rounding -/
inductive Parsed where
  | nan
  | inf (neg : Bool)
  | rat (neg : Bool) (num den : Nat)
  | huge (neg : Bool)      -- certainly above the largest double (exponent clamp)
  | tiny (neg : Bool)      -- non-zero and certainly below half the smallest subnormal (exponent clamp)
deriving Repr

def lower (c : Char) : Char := if 'A' ≤ c && c ≤ 'Z' then Char.ofNat (c.toNat + 32) else c

/-- case-insensitive prefix test; returns the rest -/
def dropPrefixCI : List Char → List Char → Option (List Char)
  | [], cs => some cs
  | _ :: _, [] => none
  | p :: ps, c :: cs => if lower c == p then dropPrefixCI ps cs else none

/-- optional exponent part `<mark>[+-]digits` (taken only when at least one digit follows) -/
def takeExponent (mark : Char) : List Char → Int
  | c :: cs =>
    if lower c == mark then
      let (neg, cs') := takeSign cs
      let ds := (spanC isDigitC cs').1
      if ds.isEmpty then 0 else (if neg then -(Int.ofNat (decVal ds)) else Int.ofNat (decVal ds))
    else 0
  | [] => 0

def dropZeros : List Char → List Char
  | '0' :: cs => dropZeros cs
  | cs => cs

/-- decimal floating constant `digits[.digits][e[+-]digits]` with at least one digit -/
def parseDec (neg : Bool) (cs : List Char) : Option Parsed :=
  let (d1, r1) := spanC isDigitC cs
  let (d2, r2) := match r1 with
    | '.' :: r => spanC isDigitC r
    | _ => ([], r1)
  if d1.isEmpty && d2.isEmpty then none
  else
    let mant := decVal (d1 ++ d2)
    let e10 : Int := takeExponent 'e' r2 - Int.ofNat d2.length
    let nd : Int := Int.ofNat (dropZeros (d1 ++ d2)).length
    if mant = 0 then some (.rat neg 0 1)
    else if e10 > 400 then some (.huge neg)
    else if e10 + nd < -400 then some (.tiny neg)
    else if e10 ≥ 0 then some (.rat neg (mant * 10 ^ e10.toNat) 1)
    else some (.rat neg mant (10 ^ (-e10).toNat))

/-- hexadecimal floating constant `0x hex[.hex][p[+-]digits]` with at least one hexadecimal digit -/
def parseHex (neg : Bool) (cs : List Char) : Option Parsed :=
  match cs with
  | '0' :: x :: r0 =>
    if lower x == 'x' then
      let isHex := fun c => (hexDigitVal c).isSome
      let (h1, r1) := spanC isHex r0
      let (h2, r2) := match r1 with
        | '.' :: r => spanC isHex r
        | _ => ([], r1)
      if h1.isEmpty && h2.isEmpty then none
      else
        let mant := hexVal (h1 ++ h2)
        let e2 : Int := takeExponent 'p' r2 - 4 * Int.ofNat h2.length
        let nb : Int := 4 * Int.ofNat (h1 ++ h2).length
        if mant = 0 then some (.rat neg 0 1)
        else if e2 > 2000 then some (.huge neg)
        else if e2 + nb < -2000 then some (.tiny neg)
        else if e2 ≥ 0 then some (.rat neg (mant <<< e2.toNat) 1)
        else some (.rat neg mant (1 <<< (-e2).toNat))
    else none
  | _ => none

/-- the subject sequence of `strtod`; `none` = no conversion could be performed -/
def parseFloat (s : String) : Option Parsed :=
  let (neg, cs) := takeSign (skipSpaces s.toList)
  match dropPrefixCI ['i', 'n', 'f'] cs with
  | some _ => some (.inf neg)
  | none =>
    match dropPrefixCI ['n', 'a', 'n'] cs with
    | some _ => some .nan
    | none =>
      match parseHex neg cs with
      | some p => some p
      | none => parseDec neg cs

/-- `std::stod(s)` -/
def stodXF (s : String) : Except Err XF :=
  match parseFloat s with
  | none => .error .invalidArgument
  | some .nan => .ok .nan
  | some (.inf neg) => .ok (.inf neg)
  | some (.huge _) => .error .outOfRange
  | some (.tiny _) => .error .outOfRange
  | some (.rat neg num den) =>
    let r := XF.roundRat neg num den
    if r.2 then .error .outOfRange else .ok r.1

/-- the delimiters of `split_pair` -/
def isPairDelim (c : Char) : Bool :=
  c == ';' || c == ',' || c == ':' || c == '|' || c == '/' || c == ' '

/-- `tokenizer_t`: the maximal runs of non-delimiters (`cur` = the run being read, reversed) -/
def tokensAux : List Char → List Char → List (List Char)
  | cur, [] => if cur.isEmpty then [] else [cur.reverse]
  | cur, c :: cs =>
    if isPairDelim c then (if cur.isEmpty then tokensAux [] cs else cur.reverse :: tokensAux [] cs)
    else tokensAux (c :: cur) cs

def tokens (cs : List Char) : List (List Char) := tokensAux [] cs

/-- `split_pair`: the first token, and the last of the following tokens (each later token overwrites `value2`);
    empty strings where there is no such token -/
def splitPair (s : String) : String × String :=
  match tokens s.toList with
  | [] => ("", "")
  | t :: ts => (String.ofList t, String.ofList (ts.getLast?.getD []))

end NanoVerif.Param
