import NanoVerif.Model.Bundle
import NanoVerif.Model.Ellipsoid
/-
  C03 — model of the three proximal bundle SOLVERS (core Lean only; generic scalar): the outer loops of RQB and FPBA1/FPBA2
  with everything they call, instantiating the bundle model of `Model/Bundle.lean`.

  Mirrors (line numbers of /repo at the time of writing):
    src/solver/proximity.cpp:7-11    make_miu0                                  -> `makeMiu0`
    src/solver/proximity.cpp:33-38   constructor: clamp(make_miu0, min, max)    -> `miuInit`, `clamp`
    src/solver/proximity.cpp:13-30   make_miu (reversal quasi-newton formula)   -> `makeMiu`
    src/solver/proximity.cpp:47-56   update(t, xn, xn1, gn, gn1)        (FPBA)  -> `proxUpdate1`
    src/solver/proximity.cpp:58-78   update(..., Gn, Gn1): min over 9   (RQB)   -> `proxUpdate2`, `nuComb`
    include/nano/solver/nesterov.h:21-47, src/solver/nesterov.cpp       (FPBA)  -> `Seq`, `lambdaNext`, `Seq.update`, `Seq.reset`
    src/solver/bundle.cpp:32-83      bundle_t::solve (1 row, 2 rows, QP ORACLE) -> `solveB`
    src/solver/csearch.cpp:34-132    csearch_t::search, the whole loop          -> `csearchLoop`, `csearch`
    src/solver/state.cpp:57-83       update_if_better                           -> `upBetter`
    src/solver/rqb.cpp:23-74         solver_rqb_t::do_minimize                  -> `pass .rqb`, `run`
    src/solver/fpba.cpp:27-86        base_solver_fpba_t::do_minimize            -> `pass .fpba1 / .fpba2`, `run`
    src/solver.cpp:119-138           solver_t::done                             -> `Ellipsoid.doneE`

  ORACLES (fields of `Env`): the objective `F y = (f y, g y)` (`function.vgrad`), `fin = std::isfinite`, the QP sub-solver
  for three or more rows `qp miu pairs`, the `nth_element` threshold of `delete_largest` (`thr`), `state.valid()`.
  The evaluation budget `while (fcalls + gcalls < max_evals)` is the counter `rem` of evaluations still allowed (shared by the
  curve search and the outer loop, `Ellipsoid.fuelOf max_evals` at the start); FPBA's extrapolated point is evaluated without
  looking at the budget (fpba.cpp:48), so `rem` saturates at 0 there.
-/
namespace NanoVerif.BundleSolver
open NanoVerif.Bundle NanoVerif.Ellipsoid

section
variable {α : Type} [Add α] [Sub α] [Mul α] [Div α] [Neg α] [LT α] [LE α] [DecidableLT α] [DecidableLE α]
  [OfNat α 0] [OfNat α 1] [OfNat α 2] [NatCast α]

/-! ### proximity parameter (proximity.cpp) -/

/-- `std::clamp(v, lo, hi)` -/
def clamp (v lo hi : α) : α := if v < lo then lo else if hi < v then hi else v

/-- `std::abs` -/
def absv (x : α) : α := if x < 0 then -x else x

/-- `a != b` on scalars that are not NaN -/
def neq (a b : α) : Bool := decide (a < b) || decide (b < a)

/-- `std::min(a, b)` -/
def cmin (a b : α) : α := if b < a then b else a

/-- proximity.cpp:10: `5.0 * gx.squaredNorm() / (std::abs(fx) + epsilon0)` -/
def makeMiu0 (gx : List α) (fx eps0 : α) : α := (2 * 2 + 1) * dot gx gx / (absv fx + eps0)

/-- proximity.cpp:35 -/
def miuInit (gx : List α) (fx eps0 lo hi : α) : α := clamp (makeMiu0 gx fx eps0) lo hi

/-- proximity.cpp:13-30: `u = xi + t / miu * nu; nu.dot(u) > min_dot_nuv ? nu.dot(nu) / nu.dot(u) : max` -/
def makeMiu (fmax miu t : α) (nu xi : List α) (minDot : α) : α :=
  let u := vaxpy (t / miu) nu xi
  if minDot < dot nu u then dot nu nu / dot nu u else fmax

/-- proximity.cpp:47-56 (the update FPBA uses) -/
def proxUpdate1 (fmax minDot miu t : α) (xn xn1 gn gn1 : List α) : α :=
  let m := makeMiu fmax miu t (vsub gn1 gn) (vsub xn1 xn) minDot
  if neq m fmax then m else miu

/-- proximity.cpp:68: `alpha1 * gn1 + (1 - alpha1) * Gn1 - alpha2 * gn - (1 - alpha2) * Gn` -/
def nuComb (a1 a2 : α) : List α → List α → List α → List α → List α
  | p :: ps, q :: qs, r :: rs, s :: ss => (a1 * p + (1 - a1) * q - a2 * r - (1 - a2) * s) :: nuComb a1 a2 ps qs rs ss
  | _, _, _, _ => []

/-- proximity.cpp:58-78 (the update RQB uses): the minimum over the nine combinations -/
def proxUpdate2 (fmax minDot miu t : α) (xn xn1 gn gn1 Gn Gn1 : List α) : α :=
  let xi := vsub xn1 xn
  let as : List α := [0, 1 / 2, 1]
  let m := as.foldl (fun m a1 => as.foldl (fun m a2 =>
    cmin m (makeMiu fmax miu t (nuComb a1 a2 gn1 Gn1 gn Gn) xi minDot)) m) fmax
  if neq m fmax then m else miu

/-! ### Nesterov sequences (nesterov.h / nesterov.cpp) -/

structure Seq (α : Type) where
  lambda : α
  x : List α
  y : List α

def Seq.init (x0 : List α) : Seq α := ⟨1, x0, x0⟩

/-- `reset()` -/
def Seq.reset (s : Seq α) : Seq α := { s with lambda := 1 }

/-- `m_x = z + ak * (z - m_y) + bk * (z - m_x)` -/
def extrap (ak bk : α) : List α → List α → List α → List α
  | z :: zs, y :: ys, x :: xs => (z + ak * (z - y) + bk * (z - x)) :: extrap ak bk zs ys xs
  | _, _, _ => []

variable [Sqrt α]

/-- `update()`: `0.5 * (1.0 + std::sqrt(1.0 + 4.0 * m_lambda * m_lambda))` -/
def lambdaNext (l : α) : α := 1 / 2 * (1 + Sqrt.sqrt (1 + 2 * 2 * l * l))

/-- `update(z)` with `make_alpha_beta` of sequence 1 (`beta = 0`) or 2 (`beta = curr / next`) -/
def Seq.update (two : Bool) (s : Seq α) (z : List α) : Seq α :=
  let next := lambdaNext s.lambda
  let ak := (s.lambda - 1) / next
  let bk := if two then s.lambda / next else 0
  ⟨next, extrap ak bk z s.y s.x, z⟩

/-! ### the curve search as a whole (csearch.cpp:34-132) -/

/-- `csearch_t::point_t`, plus the multipliers `m_alphas` the last `bundle.solve` left in the bundle -/
structure Point (α : Type) where
  t : α
  status : Status
  y : List α
  gy : List α
  fy : α
  alphas : List α

/-- parameters and oracles of a run -/
structure Env (α : Type) where
  n : Nat
  capacity : Nat
  eps : α
  P : CParams α
  fmax : α
  minDot : α
  F : List α → α × List α
  fin : α → Bool
  qp : α → List (Pair α) → List α
  thr : State α → List α → α
  valid : List α → α → Bool

/-- `bundle_t::solve(miu)` (bundle.cpp:32-83): one row, two rows (analytic), otherwise the QP oracle -/
def solveB (E : Env α) (miu : α) : List (Pair α) → List α
  | [_] => solve1
  | [p0, p1] => solve2 E.fin miu p0 p1
  | ps => E.qp miu ps

/-- the loop of `csearch_t::search`: `rem` = evaluations still allowed; returns the point and what is left of the budget.
    The status is `max_iters` (set at entry, csearch.cpp:37) unless a pass breaks out with a decision. -/
def csearchLoop (E : Env α) (b : State α) (miu : α) : Nat → CState α → Point α → Point α × Nat
  | 0, _, pt => (pt, 0)
  | rem + 1, c, pt =>
    let m := miu / c.t
    let al := solveB E m b.pairs
    let s := smearedS E.n b.pairs al
    let y := proximal m b.x s
    let fg := E.F y
    let e := smearedE b.pairs al
    let dl := delta E.n m b.pairs al
    let econv := econverged E.n E.eps b.pairs al
    let sconv := sconverged E.n E.eps b.pairs al
    let d := vsub y b.x
    match csearchStep E.P c (E.fin fg.1) econv sconv b.fx fg.1 e dl (dot fg.2 d) (dot s d) with
    | .stop st => (⟨c.t, st, y, fg.2, fg.1, al⟩, rem)
    | .again c' => csearchLoop E b miu rem c' ⟨c'.t, pt.status, y, fg.2, fg.1, al⟩

/-- `csearch_t::search(bundle, miu, max_evals, epsilon)`; `prev` = the buffer `m_point` of the previous call -/
def csearch (E : Env α) (b : State α) (miu : α) (rem : Nat) (prev : Point α) : Point α × Nat :=
  csearchLoop E b miu rem CState.start { prev with t := 1, status := .maxIters }

/-! ### the outer loops (rqb.cpp:37-70, fpba.cpp:42-81) -/

inductive Kind where
  | rqb | fpba1 | fpba2
deriving DecidableEq, Repr

/-- everything the outer loops carry: the bundle `b` (centre, value, rows), `bundle.gx()`, the multipliers of the last
    solve, the proximity parameter, RQB's `Gn`, FPBA's sequence, the curve-search buffer, and the solver state that is
    RETURNED (`sx, sfx`) -/
structure SolverSt (α : Type) where
  b : State α
  bgx : List α
  miu : α
  Gn : List α
  seq : Seq α
  pt : Point α
  sx : List α
  sfx : α

/-- `state.update_if_better(x, gx, fx)`: `(better, new x, new fx)` -/
def upBetter (fin : α → Bool) (sx : List α) (sfx : α) (x : List α) (fx : α) : Bool × List α × α :=
  if fin fx && decide (0 < sfx - fx) then (true, x, fx) else (false, sx, sfx)

/-- a serious step of RQB (status `descent_step` or `cutting_plane_step`), rqb.cpp:48-65 -/
def seriousR (E : Env α) (descent : Bool) (s : SolverSt α) (pt : Point α) (rem : Nat) : SolverSt α × Nat :=
  let Gn1 := smearedS E.n s.b.pairs pt.alphas
  let miu' := if descent then proxUpdate2 E.fmax E.minDot s.miu pt.t s.b.x pt.y s.bgx pt.gy s.Gn Gn1 else s.miu
  ({ s with b := appendFull E.capacity E.P.eps0 (E.thr s.b pt.alphas) E.n true s.b pt.alphas pt.y pt.gy pt.fy,
            bgx := pt.gy, miu := miu', Gn := Gn1, pt := pt, sx := pt.y, sfx := pt.fy }, rem)

/-- a serious step of FPBA (`two` = sequence 2), fpba.cpp:53-60 and the lambda `apply_nesterov_sequence`, fpba.cpp:26-40:
    the bundle moves to the EXTRAPOLATED point, which is evaluated without looking at the budget -/
def seriousF (E : Env α) (two : Bool) (descent : Bool) (s : SolverSt α) (pt : Point α) (rem : Nat) : SolverSt α × Nat :=
  let miu' := if descent then proxUpdate1 E.fmax E.minDot s.miu pt.t s.b.x pt.y s.bgx pt.gy else s.miu
  let u1 := upBetter E.fin s.sx s.sfx pt.y pt.fy
  let sq := s.seq.update two pt.y
  let fg := E.F sq.x
  let u2 := upBetter E.fin u1.2.1 u1.2.2 sq.x fg.1
  ({ s with b := appendFull E.capacity E.P.eps0 (E.thr s.b pt.alphas) E.n true s.b pt.alphas sq.x fg.2 fg.1,
            bgx := fg.2, miu := miu', seq := if u2.1 then sq else sq.reset, pt := pt, sx := u2.2.1, sfx := u2.2.2 },
   rem - 1)

def serious (E : Env α) (k : Kind) (descent : Bool) (s : SolverSt α) (pt : Point α) (rem : Nat) : SolverSt α × Nat :=
  match k with
  | .rqb => seriousR E descent s pt rem
  | .fpba1 => seriousF E false descent s pt rem
  | .fpba2 => seriousF E true descent s pt rem

/-- one pass of the outer loop (`rem > 0` is the loop condition, checked by `run`): `some status` = `solver_t::done`
    returned true -/
def pass (E : Env α) (k : Kind) (rem : Nat) (s : SolverSt α) : Option EStatus × SolverSt α × Nat :=
  let r := csearch E s.b s.miu rem s.pt
  let pt := r.1
  let s0 := { s with pt := pt }
  match doneE (pt.status != .failed) (solverConverged pt.status) (E.valid s.sx s.sfx) with
  | some st => (some st, s0, r.2)
  | none =>
    match pt.status with
    | .descentStep => let q := serious E k true s pt r.2; (none, q.1, q.2)
    | .cuttingPlaneStep => let q := serious E k false s pt r.2; (none, q.1, q.2)
    | .nullStep =>
      (none, { s0 with b := appendFull E.capacity E.P.eps0 (E.thr s.b pt.alphas) E.n false s.b pt.alphas pt.y pt.gy pt.fy },
       r.2)
    | _ => (none, s0, r.2)

/-- the outer loop: at most `passes` passes (every pass uses at least one evaluation, so `passes = rem` suffices) -/
def run (E : Env α) (k : Kind) : Nat → Nat → SolverSt α → EStatus × SolverSt α
  | 0, _, s => (.maxIters, s)
  | _, 0, s => (.maxIters, s)
  | passes + 1, rem + 1, s =>
    match pass E k (rem + 1) s with
    | (some st, s', _) => (st, s')
    | (none, s', rem') => run E k passes rem' s'

/-- `solver_state_t{function, x0}`, `bundle_t::make`, `proximity_t::make`, `Gn = state.gx()`, `tsequence{state}`
    (rqb.cpp:29-35, fpba.cpp:32-38); `lo, hi` = `prox::miu0_range` -/
def start (E : Env α) (x0 : List α) (lo hi : α) : SolverSt α :=
  let fg := E.F x0
  ⟨init x0 fg.2 fg.1, fg.2, miuInit fg.2 fg.1 E.P.eps0 lo hi, fg.2, Seq.init x0,
   ⟨1, .maxIters, x0, fg.2, fg.1, []⟩, x0, fg.1⟩

end
end NanoVerif.BundleSolver
