import NanoVerif.Model.TensorView
/-
  C16 — the small helpers around the tensor addressing (core Lean only; extends `Model/Tensor.lean`):

    include/nano/tensor/range.h      tensor_range_t (begin, end, size, valid), make_range
    include/nano/tensor/dims.h       make_dims (19-23), cat_dims (28-35), operator== / != (151-161)
    include/nano/tensor/algorithm.h  detail::size (9-13), detail::copy (15-29), remove_if over SEVERAL tensors (37-59)
    include/nano/tensor/stack.h      vector form as coded (65-94, 129-139: running row + segment writes), rank-1 tensors as
                                     blocks of the matrix form (53-61)
    include/nano/tensor/tensor.h     zero / full (405-414), arange (815-822; lin_spaced with integer scalars and
                                     `max - min` steps), make_tensor / make_indices / make_full_tensor / make_matrix /
                                     make_vector / make_full_vector / make_full_matrix (827-924), begin / end (394-400)
-/
namespace NanoVerif.Tensor

/-! ### range.h -/

/-- `tensor_range_t`: `tensor_size_t` is signed (`Eigen::Index`) -/
structure Range where
  b : Int
  e : Int
deriving Repr, DecidableEq

/-- `make_range(begin, end)` (range.h:56-59) -/
def makeRange (b e : Int) : Range := ⟨b, e⟩

/-- `size()` (range.h:40) -/
def Range.size (r : Range) : Int := r.e - r.b

/-- `valid(size)` (range.h:45): `0 <= begin && begin < end && end <= size` — NON-EMPTY and inside `[0, size)` -/
def Range.valid (r : Range) (n : Int) : Bool := decide (0 ≤ r.b) && decide (r.b < r.e) && decide (r.e ≤ n)

/-- the assert of `tslice` (tensor.h:771): `begin >= 0 && begin <= end && end <= size<0>()` — empty slices allowed -/
def sliceAssert (b e d : Int) : Bool := decide (0 ≤ b) && decide (b ≤ e) && decide (e ≤ d)

/-- `slice(range)` (tensor.h:291-293) = `tslice(data(), range.begin(), range.end())` on a tensor held as `T` -/
def T.sliceRange {α} (t : T α) (r : Range) : Option (T α) :=
  if 0 ≤ r.b ∧ 0 ≤ r.e then t.slice r.b.toNat r.e.toNat else none

/-! ### dims.h -/

/-- `make_dims(sizes…)` (dims.h:19-23) -/
def makeDims (sizes : List Nat) : List Nat := sizes

/-- `cat_dims(size, dims)` (dims.h:28-35) -/
def catDims (n : Nat) (dims : List Nat) : List Nat := n :: dims

/-! ### algorithm.h -/

/-- `detail::size(tensor, tensors…)` (algorithm.h:9-13): the first dimension of the FIRST tensor -/
def firstDim (ts : List (List Nat)) : Option Nat := (ts.head?).bind List.head?

/-- `detail::copy(isrc, idst, tensor)` (algorithm.h:15-29) on the list of first-axis sub-tensors: sub-tensor `idst` is
    overwritten by sub-tensor `isrc`; `none` where one of its asserts fires -/
def copyRow {α} (isrc idst : Nat) (rs : List (List α)) : Option (List (List α)) :=
  match rs[isrc]? with
  | some r => if idst < rs.length then some (rs.set idst r) else none
  | none => none

/-- the same as the release build executes it inside `remove_if` (asserts compiled out; `isrc`, `idst` in range there) -/
def copyRowD {α} (isrc idst : Nat) (rs : List (List α)) : List (List α) :=
  match rs[isrc]? with
  | some r => rs.set idst r
  | none => rs

/-- second loop of `remove_if` over SEVERAL tensors (algorithm.h:48-55): `(detail::copy(curr, last, tensors), ...)` copies
    the same pair (curr, last) in every tensor of the pack -/
def removeIfLoopN {α} : List Bool → Nat → Nat → List (List (List α)) → Nat × List (List (List α))
  | [], _, last, ts => (last, ts)
  | m :: ms, curr, last, ts =>
    if m then removeIfLoopN ms (curr + 1) last ts
    else removeIfLoopN ms (curr + 1) (last + 1) (ts.map (copyRowD curr last))

/-- `remove_if(op, tensors…)` on the lists of first-axis sub-tensors of the tensors of the pack -/
def removeIfRowsN {α} (mask : List Bool) (ts : List (List (List α))) : Nat × List (List (List α)) :=
  let r := removeIfSkip mask 0
  removeIfLoopN r.2 r.1 r.1 ts

/-! ### stack.h: the vector form as coded -/

/-- `detail::stack(vector, row, block, blocks…)` (stack.h:65-94): `vector.segment(row, block.size()) = block`, continue at
    `row + block.size()`; `none` where an assert fires (segment outside the vector; after the last block
    `row + block.size() == vector.size()`) -/
def stackVecGo {α} (n : Nat) : List (List α) → Nat → List α → Option (List α)
  | [], _, v => some v
  | b :: bs, row, v =>
    if row + b.length ≤ n then
      let v' := splice v row b
      match bs with
      | [] => if row + b.length = n then some v' else none
      | _ :: _ => stackVecGo n bs (row + b.length) v'
    else none

/-- `stack<tscalar>(rows, blocks…)` (stack.h:129-139): at least one block; the vector is allocated uninitialised (`fill`) -/
def stackVecCoded {α} (fill : α) (n : Nat) (blocks : List (List α)) : Option (List α) :=
  match blocks with
  | [] => none
  | _ :: _ => stackVecGo n blocks 0 (List.replicate n fill)

/-- a rank-1 tensor handed to the matrix form of `stack` (stack.h:53-61): `matrix.block(row, col, block.size(), 1) =
    block.vector()` — a column -/
def Block.ofVec {α} (xs : List α) : Block α := ⟨xs.length, 1, xs⟩

/-! ### tensor.h: fills and factories -/

/-- `full(value)` (tensor.h:410-414), `zero()` = `full(0)` (405): every element, nothing else (`array()` = all `size()`
    elements at `data()`) -/
def T.full {α} (t : T α) (v : α) : T α := ⟨t.dims, List.replicate t.data.length v⟩

/-- `arange(min, max)` (tensor.h:815-822): `indices_t(max - min)` filled by `lin_spaced(min, max - 1)`; with an integer
    scalar and exactly `max - min` steps Eigen's `LinSpaced(size, low, high)` has multiplier `(high - low) / (size - 1) = 1`
    (0 for a single step): `min, min + 1, …, max - 1`; `none` where `assert(min <= max)` fires -/
def arange (min max : Int) : Option (List Int) :=
  if min ≤ max then some ((List.range (max - min).toNat).map fun i => min + Int.ofNat i) else none

/-- `make_tensor<tscalar>(dims, values…)` (tensor.h:827-836); `none` where the assert fires -/
def makeTensor {α} (dims : List Nat) (values : List α) : Option (T α) :=
  if size dims = values.length then some ⟨dims, values⟩ else none

/-- `make_indices(indices…)` / `make_vector(values…)` (tensor.h:841-845, 888-896) -/
def makeVector {α} (values : List α) : T α := ⟨[values.length], values⟩

/-- `make_matrix<tscalar>(rows, values…)` (tensor.h:873-883): `size / rows` columns; `none` where `assert(size % rows ==
    0)` fires or the C++ code divides by zero -/
def makeMatrix {α} (rows : Nat) (values : List α) : Option (T α) :=
  if rows = 0 then none
  else if values.length % rows = 0 then some ⟨[rows, values.length / rows], values⟩ else none

/-- `make_full_tensor<tscalar>(dims, value)` (tensor.h:850-856), `make_full_vector`, `make_full_matrix` (901-924) -/
def makeFullTensor {α} (dims : List Nat) (v : α) : T α := ⟨dims, List.replicate (size dims) v⟩

end NanoVerif.Tensor
