import NanoVerif.Model.Program
/-
  C04 — the linear system of the Newton step (core Lean only; generic over the scalar).

  Mirrors (line numbers of /repo at the time of writing):
    src/program/solver.cpp:79-96     program_t::program_t, the constant blocks of `m_lmat`           -> `kktMat` (blocks `Aᵀ`, `A`, `0`)
    src/program/solver.cpp:123-147   program_t::solve(hessvar, rdual, rprim)                         -> `kktTopLeft`, `kktMat`, `kktVec`
    src/program/solver.cpp:293-299   the arguments of `solve` in the loop, `dx, dv, du`              -> `hessvar`, `newtonRhs`, `duOf`
    src/program/solver.cpp:397       the arguments of `solve` on the equality-only path              -> `kktTopLeft0`, `kktVec0`

  What stays an ORACLE is only `m_ldlt.compute(lmat); lsol = m_ldlt.solve(lvec)` (Eigen LDLT): a vector `lsol = (dx, dv)`.
  Its contract is "`kktMat · lsol = kktVec`"; `Props/C04.lean` proves that every exact solution of THIS system is the Newton
  direction of the residual map (`newton_solution_is_newton_direction`), and the driver prints the residual of the contract
  on every logged iteration (`kktResidual`), which the python oracle bounds (run-time monitor).
-/
namespace NanoVerif.Program

section
variable {α : Type} [Add α] [Sub α] [Mul α] [Div α] [Neg α] [LT α] [LE α] [DecidableLT α] [DecidableLE α]
  [OfNat α 0] [OfNat α 1] [OfNat α 2] [NatCast α]

/-- `a.array() * b.array()` -/
def hmul (a b : List α) : List α := List.zipWith (· * ·) a b

/-- `a.array() / b.array()` -/
def vdivE (a b : List α) : List α := List.zipWith (· / ·) a b

/-- `diag(w) * G` -/
def rowScale (w : List α) (G : List (List α)) : List (List α) := List.zipWith (fun wi r => smul wi r) w G

/-- `M.transpose()` of a matrix with `n` columns, as the list of its `n` columns -/
def transp (n : Nat) : List (List α) → List (List α)
  | [] => List.replicate n []
  | r :: M => List.zipWith (· :: ·) r (transp n M)

/-- `X * Y` (`Y` has rows of length `n`): row `r` of `X` gives `Σ_k r_k Y_k` -/
def mmul (n : Nat) (X Y : List (List α)) : List (List α) := X.map (fun r => tmv n Y r)

/-- `X - Y` -/
def msub (X Y : List (List α)) : List (List α) := List.zipWith vsub X Y

/-- `-X` -/
def mneg (X : List (List α)) : List (List α) := X.map vneg

/-- the `n × n` zero matrix (`matrix_t::zero(n, n)`) -/
def zeroM (n : Nat) : List (List α) := List.replicate n (zeros n)

/-- `G.transpose() * (u.array() / Gxh.array()).matrix().asDiagonal() * G.matrix()` with `Gxh = G x - h` (solver.cpp:294) -/
def hessvar (P : Prog α) (x u : List α) : List (List α) :=
  mmul P.n (transp P.n P.G) (rowScale (vdivE u (slack P x)) P.G)

/-- `m_lmat.block(0, 0, n, n)`: `-hessvar` for an LP, `Q - hessvar` otherwise (solver.cpp:130-137) -/
def topLeftOf (P : Prog α) (H : List (List α)) : List (List α) :=
  if P.Q.isEmpty then mneg H else msub P.Q H

def kktTopLeft (P : Prog α) (x u : List α) : List (List α) := topLeftOf P (hessvar P x u)

/-- … on the equality-only path `hessvar = matrix_t::zero(n, n)` (solver.cpp:397) -/
def kktTopLeft0 (P : Prog α) : List (List α) := topLeftOf P (zeroM P.n)

/-- `m_lmat` = `[[H, Aᵀ], [A, 0]]` (`(n+p) × (n+p)`; the blocks `Aᵀ`, `A`, `0` are written once by the constructor) -/
def kktMat (P : Prog α) (H : List (List α)) : List (List α) :=
  List.zipWith (· ++ ·) H (transp P.n P.A) ++ P.A.map (fun r => r ++ zeros P.p)

/-- the arguments `(rdual + Gᵀ (rcent / Gxh), rprim)` of `solve` in the loop (solver.cpp:295) -/
def newtonRhs (P : Prog α) (x : List α) (st : St α) : List α × List α :=
  (vadd st.rdual (tmv P.n P.G (vdivE st.rcent (slack P x))), st.rprim)

/-- `m_lvec` = `(-rdual, -rprim)` of the arguments (solver.cpp:140-141) -/
def kktVecOf (a : List α × List α) : List α := vneg a.1 ++ vneg a.2

def kktVec (P : Prog α) (x : List α) (st : St α) : List α := kktVecOf (newtonRhs P x st)

/-- … on the equality-only path the arguments are `(c, -b)` -/
def kktVec0 (P : Prog α) : List α := kktVecOf (P.c, vneg P.b)

/-- `du = (rcent - u ∘ (G dx)) / Gxh` (solver.cpp:299) -/
def duOf (P : Prog α) (x u dx : List α) (st : St α) : List α :=
  vdivE (vsub st.rcent (hmul u (mv P.G dx))) (slack P x)

/-- residual `lmat · lsol − lvec` of the oracle's contract, for a candidate `lsol = (dx, dv)` -/
def kktResidual (P : Prog α) (H : List (List α)) (rhs : List α) (dx dv : List α) : List α :=
  vsub (mv (kktMat P H) (dx ++ dv)) rhs

end

end NanoVerif.Program
