/-
  C03 — model of libnano's bundle of sub-gradients and of the curve search driving the proximal bundle solvers
  RQB / FPBA1 / FPBA2 (core Lean only; generic over the scalar type: run at `Float` in `driver_c03`, proved over an
  ordered field in `Props/C03.lean`).

  Mirrors (line numbers of /repo at the time of writing):
    src/solver/bundle.cpp:132-161      bundle_t::append(y, gy, fy, serious_step)   -> `nullError`, `shiftError`, `appendStep`
    src/solver/bundle.cpp:17-30        bundle_t::moveto / append                   -> `appendStep true/false` (moveto = serious
                                                                                      append + the centre becomes `(y, fy)`)
    src/solver/bundle.cpp:6-15         constructor = serious append on the empty bundle -> `init`
    src/solver/bundle.cpp:32-55        bundle_t::solve, sizes 1 and 2 (analytic)   -> `solve1`, `solve2` (size >= 3: QP ORACLE)
    src/solver/bundle.cpp:88-94        delete_inactive(epsilon0)                   -> `active`
    src/solver/bundle.cpp:96-130       delete_largest(2), store/append_aggregate   -> `reduce`, `NthElement` (threshold = ORACLE, see below)
    include/nano/solver/bundle.h:61-81 smeared_e, smeared_s, delta, proximal       -> `smearedE`, `smearedS`, `delta`, `proximal`
    src/solver/bundle.cpp:175-189      econverged / sconverged (tol = eps*sqrt(n)) -> `tol`, `econverged`, `sconverged`
    src/solver/csearch.cpp:34-130      csearch_t::search (one pass of the loop)    -> `csearchStep`, `newTrial`
    src/solver/rqb.cpp:41-42, fpba.cpp:62-63   converged := status == converged    -> `solverConverged`

  Vectors are lists, the bundle is a list of pairs `(s_i, e_i)` in row order. ORACLES (parameters of the model, answered by
  the implementation and logged by the trace hooks):
    * the objective: `(fy, gy)` at the trial point `y`;
    * the multipliers `alphas` = solution of the quadratic sub-problem of `bundle_t::solve` (contract: a point of the simplex);
    * the threshold of `delete_largest`: `std::nth_element` leaves the element read at index `min(count, size - count)`
      unspecified (only bounded by the element at `size - count`), so which of the active pairs survive is `{i | e_i < thres}`
      for an oracle value `thres` — any sub-collection in the lower-bound theorems, at least `count` removed in
      `append_stays_below_capacity`.
-/
namespace NanoVerif.Bundle

/-- `std::sqrt` (IEEE at `Float`; in the theorems a function with `sqrt v ≥ 0`, `sqrt v * sqrt v = v` for `v ≥ 0`) -/
class Sqrt (α : Type) where
  sqrt : α → α

instance : Sqrt Float := ⟨Float.sqrt⟩

/-- one row of the bundle: sub-gradient `s_i` (row of `m_bundleS`) and linearisation error `e_i` (`m_bundleE(i)`) -/
structure Pair (α : Type) where
  s : List α
  e : α

/-- the cutting-plane model: proximity centre `m_x`, `m_fx`, and the rows `0 .. m_size-1` -/
structure State (α : Type) where
  x : List α
  fx : α
  pairs : List (Pair α)

section
variable {α : Type} [Add α] [Sub α] [Mul α] [Div α] [Neg α] [LT α] [LE α] [DecidableLT α] [DecidableLE α]
  [OfNat α 0] [OfNat α 1] [OfNat α 2] [NatCast α]

/-- `a.dot(b)` -/
def dot : List α → List α → α
  | a :: as, b :: bs => a * b + dot as bs
  | _, _ => 0

/-- `a - b` -/
def vsub : List α → List α → List α
  | a :: as, b :: bs => (a - b) :: vsub as bs
  | _, _ => []

/-- `c * x + y` -/
def vaxpy (c : α) : List α → List α → List α
  | x :: xs, y :: ys => (c * x + y) :: vaxpy c xs ys
  | _, _ => []

def zeros (n : Nat) : List α := List.replicate n 0

/-- null step, bundle.cpp:154: `m_bundleE(m_size) = m_fx - (fy + gy.dot(m_x - y))` -/
def nullError (fx fy : α) (x y gy : List α) : α := fx - (fy + dot gy (vsub x y))

/-- serious step, bundle.cpp:147: `m_bundleE(i) += fy - m_fx - m_bundleS.vector(i).dot(y - m_x)` -/
def shiftError (fx fy : α) (x y : List α) (p : Pair α) : α := p.e + ((fy - fx) - dot p.s (vsub y x))

/-- bundle.cpp:143-157 (+ `moveto`, bundle.cpp:21-23, for the centre): what `append` does with the rows `kept` that
    survived `delete_inactive` / `delete_largest` -/
def appendStep (serious : Bool) (kept : List (Pair α)) (x : List α) (fx : α) (y gy : List α) (fy : α) : State α :=
  if serious then
    ⟨y, fy, kept.map (fun p => ⟨p.s, shiftError fx fy x y p⟩) ++ [⟨gy, 0⟩]⟩
  else
    ⟨x, fx, kept ++ [⟨gy, nullError fx fy x y gy⟩]⟩

/-- the constructor (bundle.cpp:6-15): a serious append of `(x0, g0, f0)` to the empty bundle -/
def init (x0 g0 : List α) (f0 : α) : State α := appendStep true [] x0 f0 x0 g0 f0

/-- `smeared_e() = e().dot(alpha())` -/
def smearedE : List (Pair α) → List α → α
  | p :: ps, a :: as => p.e * a + smearedE ps as
  | _, _ => 0

/-- `smeared_s() = S().transpose() * alpha()` (`n` = dimension of the problem) -/
def smearedS (n : Nat) : List (Pair α) → List α → List α
  | p :: ps, a :: as => vaxpy a p.s (smearedS n ps as)
  | _, _ => zeros n

/-- `store_aggregate`: the pair `(smeared_s, smeared_e)` -/
def aggregate (n : Nat) (pairs : List (Pair α)) (alphas : List α) : Pair α :=
  ⟨smearedS n pairs alphas, smearedE pairs alphas⟩

/-- `delete_inactive(eps0)`: `remove_if(alpha_i < eps0)` compacts rows and multipliers, keeping the order -/
def active (eps0 : α) : List (Pair α) → List α → List (Pair α × α)
  | p :: ps, a :: as => if a < eps0 then active eps0 ps as else (p, a) :: active eps0 ps as
  | _, _ => []

/-- `remove_if(e_i >= thres)` of `delete_largest` (bundle.cpp:108-109): the rows that stay -/
def deleteFrom (thres : α) (act : List (Pair α × α)) : List (Pair α) :=
  (act.filter (fun pa => !decide (thres ≤ pa.1.e))).map (·.1)

/-- the `count` of `delete_largest(2)` (bundle.cpp:140) -/
def delCount : Nat := 2

/-- `delete_inactive(epsilon0); delete_largest(2)` (bundle.cpp:139-140). `capacity = max_size + 1`. When the bundle is
    full after the inactive rows were dropped, the aggregate of the ACTIVE rows (with their multipliers) is stored first,
    the rows with `e_i >= thres` are deleted and the aggregate is appended.
    `thres = m_alphas(min(count, size - count))` is read from the buffer that `std::nth_element(first, first + (size - count),
    last)` has reordered: which element sits at that index is unspecified, so `thres` is an ORACLE value here, constrained
    by `NthElement` below (it is never larger than the count-th largest error, hence at least `count` rows go). -/
def reduce (capacity : Nat) (eps0 thres : α) (n : Nat) (pairs : List (Pair α)) (alphas : List α) : List (Pair α) :=
  let act := active eps0 pairs alphas
  if act.length + 1 = capacity then
    deleteFrom thres act ++ [aggregate n (act.map (·.1)) (act.map (·.2))]
  else act.map (·.1)

/-- the contract of `std::nth_element(first, first + k, last)` on the copy `a` of the errors `orig`: a permutation, nothing
    before position `k` exceeds `a[k]`, nothing from `k` on is below it -/
def NthElement (k : Nat) (orig a : List α) (ak : α) : Prop :=
  a.Perm orig ∧ a[k]? = some ak ∧ (∀ x ∈ a.take k, x ≤ ak) ∧ (∀ y ∈ a.drop k, ak ≤ y)

/-- `bundle_t::solve` for `m_size == 2` (bundle.cpp:41-55): the analytic minimiser of the quadratic over the segment.
    `fin` is `std::isfinite` (always true in exact arithmetic unless `q = 0`; any predicate in the theorems). -/
def solve2 (fin : α → Bool) (miu : α) (p0 p1 : Pair α) : List α :=
  let q00 := dot p0.s p0.s
  let q01 := dot p0.s p1.s
  let q10 := dot p1.s p0.s
  let q11 := dot p1.s p1.s
  let c0 := miu * p0.e
  let c1 := miu * p1.e
  let q := q00 + q11 - q01 - q10
  let p := (q01 + q10) / 2 - q11 + c0 - c1
  let b := -p / q
  let a := if fin b && decide (0 ≤ b) && decide (b ≤ 1) then b else (if 0 < q / 2 + p then 0 else 1)
  [a, 1 - a]

/-- `bundle_t::solve` for `m_size == 1` (bundle.cpp:37-40) -/
def solve1 : List α := [1]

/-- one full call `bundle_t::append(y, gy, fy, serious)` (+ the centre update of `moveto`) -/
def appendFull (capacity : Nat) (eps0 thres : α) (n : Nat) (serious : Bool) (b : State α) (alphas : List α)
    (y gy : List α) (fy : α) : State α :=
  appendStep serious (reduce capacity eps0 thres n b.pairs alphas) b.x b.fx y gy fy

variable [Sqrt α]

/-- bundle.cpp:178/186: `tol = epsilon * std::sqrt(static_cast<scalar_t>(m_x.size()))` -/
def tol (n : Nat) (eps : α) : α := eps * Sqrt.sqrt (n : α)

/-- `lpNorm<2>()` -/
def norm2 (v : List α) : α := Sqrt.sqrt (dot v v)

/-- `bundle_t::econverged` -/
def econverged (n : Nat) (eps : α) (pairs : List (Pair α)) (alphas : List α) : Bool :=
  decide (smearedE pairs alphas ≤ tol n eps)

/-- `bundle_t::sconverged` -/
def sconverged (n : Nat) (eps : α) (pairs : List (Pair α)) (alphas : List α) : Bool :=
  decide (norm2 (smearedS n pairs alphas) ≤ tol n eps)

/-- `bundle_t::delta(miu) = smeared_e() + 1.0 / (2.0 * miu) * smeared_s().squaredNorm()` -/
def delta (n : Nat) (miu : α) (pairs : List (Pair α)) (alphas : List α) : α :=
  let s := smearedS n pairs alphas
  smearedE pairs alphas + 1 / (2 * miu) * dot s s

/-- `bundle_t::proximal(miu) = m_x - smeared_s() / miu` -/
def proximal (miu : α) (x s : List α) : List α :=
  List.zipWith (fun xi si => xi - si / miu) x s

/-! ### curve search (csearch.cpp) -/

/-- `enum class csearch_status` (same numbering) -/
inductive Status where
  | failed | maxIters | converged | nullStep | descentStep | cuttingPlaneStep
deriving DecidableEq, Repr

def Status.toNat : Status → Nat
  | .failed => 0 | .maxIters => 1 | .converged => 2 | .nullStep => 3 | .descentStep => 4 | .cuttingPlaneStep => 5

/-- `m_m1 … m_extrapol`, `epsilon0<scalar_t>()` -/
structure CParams (α : Type) where
  m1 : α
  m2 : α
  m3 : α
  m4 : α
  interpol : α
  extrapol : α
  eps0 : α

/-- loop-carried variables `t, tL, tR` (`tR = none` is `+infinity`) -/
structure CState (α : Type) where
  t : α
  tL : α
  tR : Option α

/-- csearch.cpp:37-40 -/
def CState.start : CState α := ⟨1, 0, none⟩

inductive Outcome (α : Type) where
  | stop (st : Status)
  | again (c : CState α)

/-- the lambda `new_trial`, csearch.cpp:42-52 -/
def newTrial (P : CParams α) (c : CState α) : α :=
  match c.tR with
  | some r => (1 - P.interpol) * c.tL + P.interpol * r
  | none => c.t * P.extrapol

/-- one pass of the loop body, csearch.cpp:80-122, given what the bundle and the objective answered:
    `finiteFy = isfinite(fy)`, `econv`, `sconv`, `e = smeared_e`, `dl = delta(miu/t)`, `gyd = gy.dot(y - x)`,
    `sd = s.dot(y - x)` -/
def csearchStep (P : CParams α) (c : CState α) (finiteFy econv sconv : Bool) (fx fy e dl gyd sd : α) : Outcome α :=
  if !finiteFy then .stop .failed
  else if econv && sconv then .stop .converged
  else if P.m1 * dl ≤ fx - fy then
    let c1 : CState α := { c with tL := c.t }
    if -P.m2 * dl ≤ gyd then .stop .descentStep
    else if c1.tR.isNone && (sconv || decide (-P.m4 * dl ≤ sd)) then .stop .cuttingPlaneStep
    else .again { c1 with t := newTrial P c1 }
  else
    let c1 : CState α := { c with tR := some c.t }
    if decide (c1.tL < P.eps0) && decide (e ≤ P.m3 * dl) then .stop .nullStep
    else .again { c1 with t := newTrial P c1 }

/-- rqb.cpp:42 / fpba.cpp:63: the flag handed to `solver_t::done`, which then sets `solver_status::converged` -/
def solverConverged (st : Status) : Bool := st == .converged

end
end NanoVerif.Bundle
