import NanoVerif.Model.PoolSection
/-!
  C17 (gap-closing) — run-time monitors over the raw hook trace, INDEPENDENT of the trace automaton `Ck.onEvent` of
  `Model/Pool.lean` (which follows the program order of the code and folds critical sections into model events). The
  monitors are keyed on the event kinds only, so they keep their meaning when the code is re-arranged:

  * lock discipline by kind: `push`, `pop`, `clear`, `stop_set` and every predicate evaluation happen inside a critical
    section of the emitting thread (between its `lock_acquired` — or its wake-up from `wait` — and its `lock_release` /
    its next `wait`); critical sections of different threads never overlap; a task never runs inside one;
  * thread identity ↔ worker id is a bijection over the whole trace (every event carrying a worker index binds the
    emitting thread to that index, below the pool size), and no thread is both a pool worker and a client;
  * on the parallel path the operator runs only in the pool's worker thread whose index is the `tnum` it receives, between
    that thread's `run_begin` and `run_end`, exactly ONE operator call per task (the modelled task shape); the calling
    thread runs the operator only on the sequential path, with `tnum = 0`;
  * every position (index / chunk) of every `map` call is invoked exactly once before the call is left — with or without
    throwing tasks, `raise` true or false — and never afterwards; the range a task receives is the range of a position;
  * the pool size is `clampSize asked hardware_concurrency` (`sizeFor`).
  Core Lean only.
-/
namespace NanoVerif.Pool

structure Mon where
  size : Nat
  holder : Option Nat := none
  waiting : List Nat := []            -- threads blocked in `condition_variable::wait`
  wtid : List (Nat × Nat) := []       -- thread ↦ worker index
  clients : List Nat := []            -- threads that made a client call / constructed or destroyed the pool
  inRun : List (Nat × Nat) := []      -- worker thread ↦ operator calls made since its `run_begin`
  tcall : List (Nat × Nat) := []      -- client thread ↦ the call it is making
  opOf : List (Nat × Nat) := []       -- thread ↦ call of the operator it is executing
  par : Array Bool                    -- call ↦ `map_parallel` seen
  counts : Array (Array Nat)          -- call ↦ position ↦ operator invocations
  returned : Array Bool
  stopSeen : Bool := false
  parOps : Nat := 0                   -- operator calls checked against a worker thread
  seqOps : Nat := 0                   -- operator calls checked against the calling thread

def aput (l : List (Nat × Nat)) (k v : Nat) : List (Nat × Nat) := (k, v) :: l.filter (fun x => x.1 != k)
def adel (l : List (Nat × Nat)) (k : Nat) : List (Nat × Nat) := l.filter (fun x => x.1 != k)

def Mon.needHolder (m : Mon) (tid : Nat) (what : String) : Except Err Unit :=
  if m.holder = some tid then .ok ()
  else .error (.lock s!"{what} outside a critical section (thread {tid} does not hold the mutex)")

def Mon.bindWorker (m : Mon) (tid w : Nat) : Except Err Mon :=
  if w ≥ m.size then .error (.path s!"worker index {w} ≥ pool size {m.size}")
  else if m.clients.contains tid then .error (.path s!"client thread {tid} acts as pool worker {w}")
  else match m.wtid.lookup tid with
    | some w' => if w' = w then .ok m else .error (.path s!"thread {tid} acts as worker {w'} and as worker {w}")
    | none =>
      if m.wtid.any (fun x => x.2 == w) then .error (.path s!"worker index {w} is used by two threads")
      else .ok { m with wtid := (tid, w) :: m.wtid }

def Mon.noteClient (m : Mon) (tid : Nat) : Except Err Mon :=
  match m.wtid.lookup tid with
  | some w => .error (.path s!"pool worker thread {tid} (worker {w}) acts as a client")
  | none => .ok (if m.clients.contains tid then m else { m with clients := tid :: m.clients })

/-- position of the range `[a, b)` among the operator calls of `cl` -/
def Call.position (cl : Call) (a b : Nat) : Option Nat :=
  match cl with
  | .map n 0 _ => if a < n ∧ b = a + 1 then some a else none
  | .map n c _ => if a < n ∧ a % c = 0 ∧ b = min (a + c) n then some (a / c) else none
  | .enq _ => if a = 0 ∧ b = 1 then some 0 else none

def Call.nops : Call → Nat
  | .map n 0 _ => n
  | .map n c _ => (n + c - 1) / c
  | .enq _ => 1

def Call.isMap : Call → Bool
  | .map _ _ _ => true
  | .enq _ => false

def Mon.onEvent (calls : Array Call) (m : Mon) (e : Raw) : Except Err Mon := do
  let tid := e.tid
  if e.kind = K.lockAcquired then
    match m.holder with
    | none => pure { m with holder := some tid }
    | some h => .error (.lock s!"thread {tid} acquires the mutex while thread {h} holds it")
  else if e.kind = K.lockRelease then do
    m.needHolder tid "lock_release"
    pure { m with holder := none }
  else if e.kind = K.pred then do
    let m ← m.bindWorker tid e.b
    let m ← (if m.waiting.contains tid then
        match m.holder with
        | none => pure { m with holder := some tid, waiting := m.waiting.filter (· != tid) }
        | some h => .error (.lock s!"thread {tid} returns from wait while thread {h} holds the mutex")
      else do m.needHolder tid "predicate evaluation"; pure m)
    if e.a = 0 then pure { m with holder := none, waiting := tid :: m.waiting } else pure m
  else if e.kind = K.push then do
    m.needHolder tid "push"
    m.noteClient tid
  else if e.kind = K.pop then do
    m.needHolder tid "pop"
    m.bindWorker tid e.b
  else if e.kind = K.clear then do
    m.needHolder tid "clear"
    m.bindWorker tid e.b
  else if e.kind = K.stopSet then do
    m.needHolder tid "stop-set"
    let m ← m.noteClient tid
    pure { m with stopSeen := true }
  else if e.kind = K.runBegin then do
    let m ← m.bindWorker tid e.b
    if m.holder = some tid then .error (.lock s!"worker {e.b} runs a task inside its critical section")
    else if (m.inRun.lookup tid).isSome then .error (.path s!"worker {e.b}: run_begin inside a run")
    else pure { m with inRun := aput m.inRun tid 0 }
  else if e.kind = K.runEnd then do
    let m ← m.bindWorker tid e.b
    match m.inRun.lookup tid with
    | some 1 => pure { m with inRun := adel m.inRun tid }
    | some k => .error (.path s!"worker {e.b}: a task made {k} operator calls (task shape: exactly one index / chunk per task)")
    | none => .error (.path s!"worker {e.b}: run_end without run_begin")
  else if e.kind = K.workerExit then m.bindWorker tid e.b
  else if e.kind = K.joinBegin ∨ e.kind = K.joinEnd ∨ e.kind = K.mapEnter ∨ e.kind = K.blockBegin ∨ e.kind = K.mapReturn
      ∨ e.kind = K.callDestroy then m.noteClient tid
  else if e.kind = K.mapParallel then do
    let m ← m.noteClient tid
    match m.tcall.lookup tid with
    | some call => pure { m with par := m.par.setIfInBounds call true }
    | none => .error (.path s!"thread {tid}: map_parallel outside a map call")
  else if e.kind = K.callEnq ∨ e.kind = K.callMap then do
    let m ← m.noteClient tid
    pure { m with tcall := aput m.tcall tid e.a }
  else if e.kind = K.opBegin then
    match calls[e.a]? with
    | none => .error (.path s!"operator of unknown call {e.a}")
    | some cl =>
      if cl.seqPath m.size then
        -- sequential path: the caller itself, tnum 0
        if m.tcall.lookup tid ≠ some e.a then
          .error (.path s!"sequential path of call {e.a}: the operator runs in thread {tid}, not in the calling thread")
        else if e.b ≠ 0 then .error (.path s!"sequential path of call {e.a} passes tnum {e.b}")
        else if m.par.getD e.a false then .error (.path s!"call {e.a}: map_parallel on the sequential path")
        else pure { m with opOf := aput m.opOf tid e.a, seqOps := m.seqOps + 1 }
      else
        -- parallel path: only the pool's worker thread of that index, inside run_begin … run_end, once per task
        if m.wtid.lookup tid ≠ some e.b then
          .error (.path s!"call {e.a}: the operator runs with tnum {e.b} in thread {tid}, which is not the pool's worker thread {e.b}")
        else if cl.isMap && !(m.par.getD e.a false) then .error (.path s!"call {e.a}: operator before map_parallel")
        else match m.inRun.lookup tid with
          | some 0 => pure { m with inRun := aput m.inRun tid 1, opOf := aput m.opOf tid e.a, parOps := m.parOps + 1 }
          | some k => .error (.path s!"worker {e.b}: operator call number {k + 1} inside one task (task shape: exactly one index / chunk per task)")
          | none => .error (.path s!"worker {e.b}: operator call outside run_begin … run_end")
  else if e.kind = K.opArg then
    match m.opOf.lookup tid with
    | none => .error (.path s!"thread {tid}: operator arguments without an operator call")
    | some call =>
      match calls[call]? with
      | none => .error (.path s!"unknown call {call}")
      | some cl =>
        match cl.position e.a e.b with
        | none => .error (.path s!"call {call}: the operator received [{e.a},{e.b}), which is not the range of a position")
        | some pos =>
          if m.returned.getD call false then
            .error (.path s!"call {call}: position {pos} invoked after the call had been left")
          else
            let row := m.counts.getD call #[]
            if row.getD pos 1 ≠ 0 then .error (.path s!"call {call}: position {pos} invoked twice")
            else pure { m with counts := m.counts.setIfInBounds call (row.setIfInBounds pos 1) }
  else if e.kind = K.opEnd then pure { m with opOf := adel m.opOf tid }
  else if e.kind = K.callRet then
    match calls[e.a]? with
    | none => .error (.path s!"unknown call {e.a}")
    | some cl =>
      let row := m.counts.getD e.a #[]
      let missing := (List.range cl.nops).find? (fun k => row.getD k 0 ≠ 1)
      let m := { m with returned := m.returned.setIfInBounds e.a true, tcall := adel m.tcall tid }
      match missing with
      | none => pure m
      | some k =>
        if cl.isMap then
          .error (.path s!"call {e.a} left map (code {e.b}) although position {k} was not invoked (every index exactly once, also when tasks throw)")
        else if m.stopSeen then pure m
        else .error (.path s!"call {e.a}: the future is ready although the task never ran and no destructor ran")
  else pure m

def monLoop (calls : Array Call) : Mon → Nat → List Raw → Mon × Option (Nat × Err)
  | m, _, [] => (m, none)
  | m, i, e :: es =>
    match m.onEvent calls e with
    | .ok m' => monLoop calls m' (i + 1) es
    | .error err => (m, some (i, err))

structure MonVerdict where
  failure : Option (Nat × Err)
  workers : Nat        -- threads bound to a worker index
  parOps : Nat
  seqOps : Nat

/-- runs the monitors over one recorded trace; at the end nobody holds the mutex and every call has been left -/
def monitor (size : Nat) (calls : Array Call) (trace : List Raw) : MonVerdict :=
  let m0 : Mon := { size := size, par := Array.replicate calls.size false,
                    counts := calls.map (fun cl => Array.replicate cl.nops 0), returned := Array.replicate calls.size false }
  let (m, f) := monLoop calls m0 0 trace
  let f := match f with
    | some x => some x
    | none =>
      if m.holder.isSome then some (trace.length, Err.lock "the mutex is still held at the end of the trace")
      else if !(m.returned.all id) then some (trace.length, Err.path "a call was never left")
      else none
  { failure := f, workers := m.wtid.length, parOps := m.parOps, seqOps := m.seqOps }

end NanoVerif.Pool
