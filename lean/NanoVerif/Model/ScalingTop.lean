import NanoVerif.Model.Scaling
/-!
  C14 — the public entry points of `src/dataset/stats.cpp` on top of the per-column model of `Model/Scaling.lean`
  (core Lean only; generic over the scalar type):

    src/dataset/stats.cpp:266-290  scalar_stats_t::make_flatten_stats  -> `enableMask` (lines 279-286: the mask from the feature
                                                                          descriptors through `column2feature`), `flattenStats`
    src/dataset/stats.cpp:292-320  scalar_stats_t::make_targets_stats  -> `targetsStats` (`none` = the `critical0` for an invalid target;
                                                                          mask all 0x00 for a single / multi-label target, else all 0x01;
                                                                          one statistics entry per component of `target_dims`)
    src/dataset/stats.cpp:322-355  scalar_stats_t::make_feature_stats  -> `featureStats` (`none` = the `critical0` for a categorical feature)
    src/dataset/stats.cpp:402-407  scale(scaling, tensor4d_map_t)      -> `scale4`   (= the 2-D overload on `values.reshape(samples, -1)`)
    src/dataset/stats.cpp:445-450  upscale(scaling, tensor4d_map_t)    -> `upscale4`
    tensor4d addressing (row-major, include/nano/tensor/index.h)       -> `Dims3.off`, `get4`

  The batching of the three `make_*_stats` (the `for (i = 0; i < size; i += batch)` loops over `dataset.flatten / targets / select`) is
  modelled in C09's `Model/Iterator.lean` (`makeStats`, proved batch-independent there: `stats_batch_independent`); here the matrix of
  the selected samples is given row by row, in sample order, which is the order `::update` sees for every batch size.
-/
namespace NanoVerif.Scaling

/-- what the three `make_*_stats` read of a `feature_t`: `is_sclass() / is_mclass() / is_scalar() / is_struct()` … -/
inductive FKind where
  | sclass | mclass | scalar | struct
deriving DecidableEq, Repr

/-- … and the number of columns it owns: flatten columns given by the generators (for `make_flatten_stats`), or
    `size(feature.dims())` / `size(dataset.target_dims())` (for `make_feature_stats` / `make_targets_stats`) -/
structure Feat where
  kind : FKind
  cols : Nat
deriving Repr

/-- `feature.is_sclass() || feature.is_mclass()` -/
def Feat.isClass (f : Feat) : Bool :=
  match f.kind with
  | .sclass => true
  | .mclass => true
  | _ => false

/-- `dataset.column2feature(column)`: the features own consecutive blocks of flatten columns -/
def column2feature : List Feat → Nat → Option Nat
  | [], _ => none
  | f :: fs, c => if c < f.cols then some 0 else (column2feature fs (c - f.cols)).map (· + 1)

/-- `dataset.columns()` -/
def totalCols : List Feat → Nat
  | [] => 0
  | f :: fs => f.cols + totalCols fs

/-- `enable_scaling` of `make_flatten_stats` (stats.cpp:279-286): `isclass ? 0x00 : 0x01` for every column, block by block
    (`enableMask_spec`: entry `c` is the negated class test of feature `column2feature c`, as the loop computes it) -/
def enableMask : List Feat → List Bool
  | [] => []
  | f :: fs => List.replicate f.cols (!f.isClass) ++ enableMask fs

section
variable {α : Type} [Add α] [Sub α] [Mul α] [Div α] [Neg α] [LT α] [DecidableLT α]
  [OfNat α 0] [OfNat α 1] [NatCast α]

/-- column `c` of a matrix given by rows (a missing cell, or a cell outside a short row, is `none`) -/
def colOf (rows : List (List (Option α))) (c : Nat) : List (Option α) :=
  rows.map (fun r => (r[c]?).join)

/-- `::update` over all rows, then `::done(stats, mask)`: one `columnStats` per component -/
def statsOfMask [Sqrt α] (hi lo eps : α) (mask : List Bool) (rows : List (List (Option α))) : List (Stats α) :=
  mask.zipIdx.map (fun p => columnStats hi lo eps p.1 (colOf rows p.2))

/-- `scalar_stats_t::make_flatten_stats(dataset, samples, batch)`; `rows` = the flatten rows of `samples`, in order -/
def flattenStats [Sqrt α] (hi lo eps : α) (fs : List Feat) (rows : List (List (Option α))) : List (Stats α) :=
  statsOfMask hi lo eps (enableMask fs) rows

/-- `scalar_stats_t::make_targets_stats`; `target = none` ⇔ `!target.valid()` (unsupervised: `critical0`);
    `rows` = the targets of `samples` reshaped to `(samples, size(target_dims))` -/
def targetsStats [Sqrt α] (hi lo eps : α) (target : Option Feat) (rows : List (List (Option α))) : Option (List (Stats α)) :=
  match target with
  | none => none
  | some t => some (statsOfMask hi lo eps (List.replicate t.cols (!t.isClass)) rows)

/-- `scalar_stats_t::make_feature_stats`: `critical0` for a categorical feature, else every component enabled -/
def featureStats [Sqrt α] (hi lo eps : α) (f : Feat) (rows : List (List (Option α))) : Option (List (Stats α)) :=
  if f.isClass then none else some (statsOfMask hi lo eps (List.replicate f.cols true) rows)

end

/-! ### 4-D tensors `(samples, d1, d2, d3)` -/

/-- dimensions of one sample of a structured feature / target -/
structure Dims3 where
  d1 : Nat
  d2 : Nat
  d3 : Nat
deriving Repr

def Dims3.size (d : Dims3) : Nat := d.d1 * d.d2 * d.d3

/-- row-major offset of component `(i, j, k)` inside one sample: the column it has in `values.reshape(samples, -1)` -/
def Dims3.off (d : Dims3) (i j k : Nat) : Nat := (i * d.d2 + j) * d.d3 + k

/-- `tensor(s, i, j, k)` of a 4-D tensor stored row-major, given sample by sample (`reshape(samples, -1)` is the same memory) -/
def get4 {β : Type} (d : Dims3) (t : List (List β)) (s i j k : Nat) : Option β :=
  (t[s]?).bind (fun r => r[d.off i j k]?)

section
variable {α : Type} [Add α] [Sub α] [Mul α] [Div α] [Neg α] [LT α] [DecidableLT α]
  [OfNat α 0] [OfNat α 1] [NatCast α]

/-- `scalar_stats_t::scale(scaling, tensor4d_map_t)`: `scale(scaling, values.reshape(values.size<0>(), -1))`;
    `none` where `assert(values.size() == m_min.size() * values.size<0>())` fails -/
def scale4 [FinTest α] (m : Mode) (ss : List (Stats α)) (t : List (List (Option α))) : Option (List (List α)) :=
  t.mapM (scaleRow m ss)

/-- `scalar_stats_t::upscale(scaling, tensor4d_map_t)` -/
def upscale4 (m : Mode) (ss : List (Stats α)) (t : List (List α)) : Option (List (List α)) :=
  t.mapM (upscaleRow m ss)

end

end NanoVerif.Scaling
