import NanoVerif.Model.Solver
/-!
  C02 — the iteration bodies of the simple non-monotonic solvers (core Lean only; linked into `driver_c02`).

  Mirrors
    src/solver/sgm.cpp        `solver_sgm_t::do_minimize`
    src/solver/cocob.cpp      `solver_cocob_t::do_minimize`
    src/solver/pdsgm.cpp      `solver_pdsgm_t::do_minimize`, `model_t::{updateL, update, xk1}`, `solver_sda_t::update`, `solver_wda_t::update`
    src/solver/universal.cpp  `solver_pgm_t / solver_dgm_t / solver_fgm_t::do_minimize` (nesterov.cpp is not used by them)
    src/solver/asga.cpp       `solve_sk1`, `lsearch_done`, `solver_asga2_t / solver_asga4_t::do_minimize`
    src/solver/osga.cpp       `proxy_t::{Q, gQ, E, U}`, `solver_osga_t::do_minimize`

  Every one of these loops has the shape of `nmLoop` (Model/Solver.lean): guard, a body that evaluates the function a few times at
  points computed from its private variables, `update_if_better`, `done`. Here the body is no longer an oracle:

  * the objective is `F : ObjectiveI α`: `F i x` is what the call number `i` of `function.vgrad` (`i` = `function.fcalls()` before
    the call) answers at `x`, value and gradient. A mathematical function is `fun _ => f`; the index lets the driver replay a
    logged run by position. The theorems of `Props/C02.lean` are stated for `fun _ => f`, every `f`.
  * `Body α M`: from the number of calls made so far and the private variables `M` of the solver, the candidates handed to
    `update_if_better`, the `iter_ok` / `converged` arguments of `done`, the number of evaluations made and the new private
    variables. No body reads the best state (`state`) except through `state.valid()`, which is `IterOk.stateValid`.
  * `stepOf` turns a body into the step oracle of `nmLoop` (the private variables before iteration `k` are `memAt … k`);
    `nmLoopM` is the same loop with the variables threaded (what the driver runs; `Proofs/SolverNM.lean` proves them equal).
  * `EnvNM` carries what the scalar type must supply besides `Env`: `std::pow`, `tanh`, `exp`, `numeric_limits::epsilon()`, `epsilon0`
    and the conversion of the iteration counter.
  * `NmBody.asked` / `NmBody.tests` are not used by any decision: the points at which the body evaluated the function and both sides
    of every acceptance test, recorded for the correspondence.
-/
namespace NanoVerif.Solver
open NanoVerif.Gen.DoneLogic

/-- the objective as the `function_t` object the solver holds: the answer of call number `i` at `x` -/
abbrev ObjectiveI (α : Type) := Nat → Vec α → α × Vec α

/-- numeric environment of the non-monotonic bodies -/
structure EnvNM (α : Type) where
  pow : α → α → α        -- std::pow
  tanh : α → α
  exp : α → α
  epsMach : α            -- std::numeric_limits<scalar_t>::epsilon()
  eps0 : α               -- nano::epsilon0<scalar_t>() = roundpow10(10 * epsilon)
  ofNat : Nat → α        -- int → scalar_t

/-- the `iter_ok` argument of `solver_t::done`: a value the body computed, or `state.valid()` of the best state after the
    `update_if_better` calls of the iteration -/
inductive IterOk where
  | const (b : Bool)
  | stateValid

/-- what one iteration of a modelled body produces -/
structure NmBody (α : Type) (M : Type) where
  cands : List (Vec α × Vec α × α)   -- (x, gx, fx) handed to `update_if_better`, in order
  iterOk : IterOk
  conv : Option Bool                 -- `none` = `state.value_test(patience) < epsilon`
  nf : Nat                           -- calls of `function.vgrad` in this iteration
  ng : Nat                           -- … of them with the gradient
  mem : M
  asked : List (Vec α)
  tests : List (α × α)

abbrev Body (α : Type) (M : Type) := Nat → M → NmBody α M

section
variable {α : Type} [Add α] [Sub α] [Mul α] [Div α] [Neg α] [LT α] [LE α] [DecidableLT α] [DecidableLE α] [∀ n, OfNat α n]

/-- private variables and number of calls before iteration `k` -/
def memAt {M : Type} (body : Body α M) (m0 : M) (c0 : Nat) : Nat → M × Nat
  | 0 => (m0, c0)
  | k + 1 =>
    let mc := memAt body m0 c0 k
    let r := body mc.2 mc.1
    (r.mem, mc.2 + r.nf)

/-- the `NmStep` of an iteration whose body produced `r`, with the function's counters `g` at the loop guard: the counters at
    `done` and at the next guard are `g` plus the evaluations of the body (`update_calls`) -/
def stepOfBody {M : Type} (env : Env α) (r : NmBody α M) (g : Nat × Nat) (b : BState α) : NmStep α :=
  ⟨r.cands,
   match r.iterOk with
   | .const c => c
   | .stateValid => valid env (applyCands env b r.cands).1.st,
   r.conv, g.1 + r.nf, g.2 + r.ng, g.1 + r.nf, g.2 + r.ng⟩

/-- a body as the step oracle of `nmLoop` -/
def stepOf {M : Type} (env : Env α) (body : Body α M) (m0 : M) (c0 : Nat) : Nat → Nat × Nat → BState α → NmStep α :=
  fun k g b => stepOfBody env (body (memAt body m0 c0 k).2 (memAt body m0 c0 k).1) g b

/-- `nmLoop` with the private variables threaded through the iterations; also returns what every body produced -/
def nmLoopM {M : Type} (env : Env α) (body : Body α M) (patience : Nat) (eps : α) (maxEvals : Nat) :
    Nat → M → Nat → Nat → Nat → BState α → BState α × List (NmOut α × NmBody α M)
  | 0, _, _, _, _, b => (b, [])
  | fuel + 1, m, c, gf, gg, b =>
    if gdGuard gf gg maxEvals then
      let rb := body c m
      let r := nmIter env patience eps b (stepOfBody env rb (gf, gg) b)
      if r.stop then (r.b, [(r, rb)])
      else
        let o := nmLoopM env body patience eps maxEvals fuel rb.mem (c + rb.nf) r.guardF r.guardG r.b
        (o.1, (r, rb) :: o.2)
    else (b, [])

/-- `auto state = solver_state_t{function, x0}` (call number 0 of the function) as a best state with an empty history -/
def initBState (F : ObjectiveI α) (x0 : Vec α) : BState α :=
  ⟨⟨x0, (F 0 x0).1, (F 0 x0).2, Status.initial, (updateCalls (vgradCounters 0 0 true).1 (vgradCounters 0 0 true).2).1,
    (updateCalls (vgradCounters 0 0 true).1 (vgradCounters 0 0 true).2).2⟩, []⟩

/-- `do_minimize` after the construction of the state: the loop, with the body in the oracle slot of `nmLoop`; the function has
    been called once -/
def nmMinimize {M : Type} (env : Env α) (body : Body α M) (m0 : M) (patience : Nat) (eps : α) (maxEvals fuel : Nat)
    (b0 : BState α) : BState α :=
  (nmLoop env (stepOf env body m0 1) patience eps maxEvals fuel 0 b0.st.fcalls b0.st.gcalls b0).1

/-! ### element-wise expressions -/

def zip3 {β γ δ ε : Type} (f : β → γ → δ → ε) : List β → List γ → List δ → List ε
  | a :: as, b :: bs, c :: cs => f a b c :: zip3 f as bs cs
  | _, _, _ => []

def zip4 {β γ δ ε ζ : Type} (f : β → γ → δ → ε → ζ) : List β → List γ → List δ → List ε → List ζ
  | a :: as, b :: bs, c :: cs, d :: ds => f a b c d :: zip4 f as bs cs ds
  | _, _, _, _ => []

/-- `0.5` -/
def half : α := 1 / 2

/-- `a.lpNorm<2>()` = `sqrt(a.squaredNorm())` -/
def norm2 (env : Env α) (a : Vec α) : α := env.sqrt (sqNorm a)

/-! ### sgm (sgm.cpp:19-60) -/

/-- `x`, `g`, `iteration` -/
structure SgmMem (α : Type) where
  x : Vec α
  g : Vec α
  it : Nat

/-- sgm.cpp:33-57 -/
def sgmBody (env : Env α) (nm : EnvNM α) (F : ObjectiveI α) (power : α) : Body α (SgmMem α) := fun calls m =>
  -- `if (g.lpNorm<Eigen::Infinity>() < epsilon()) { done(state, true, true); break; }`
  if infNorm m.g < nm.epsMach then ⟨[], .const true, some true, 0, 0, m, [], []⟩
  else
    -- `lambda = 1.0 / std::pow(iteration + 1, power); x -= lambda * g / g.lpNorm<2>();`
    let lambda := 1 / nm.pow (nm.ofNat (m.it + 1)) power
    let gn := norm2 env m.g
    let x := List.zipWith (fun xi gi => xi - lambda * gi / gn) m.x m.g
    -- `f = function.vgrad(x, g); state.update_if_better(x, g, f); iter_ok = isfinite(f); converged = value_test < epsilon`
    let r := F calls x
    ⟨[(x, r.2, r.1)], .const (env.fin r.1), none, 1, 1, ⟨x, r.2, m.it + 1⟩, [x], []⟩

/-- `auto x = state.x(); auto g = state.gx(); auto iteration = 0;` -/
def sgmInit (F : ObjectiveI α) (x0 : Vec α) : SgmMem α := ⟨x0, (F 0 x0).2, 0⟩

def sgmMinimize (env : Env α) (nm : EnvNM α) (F : ObjectiveI α) (power : α) (patience : Nat) (eps : α) (maxEvals fuel : Nat)
    (x0 : Vec α) : BState α :=
  nmMinimize env (sgmBody env nm F power) (sgmInit F x0) patience eps maxEvals fuel (initBState F x0)

/-! ### cocob (cocob.cpp:23-69) -/

/-- `x`, `gx`, `L`, `G`, `theta`, `reward` -/
structure CocobMem (α : Type) where
  x : Vec α
  gx : Vec α
  L : Vec α
  G : Vec α
  theta : Vec α
  reward : Vec α

/-- `L0 = function.smooth() ? L0_smooth : L0_nonsmooth` -/
def cocobL0 (smooth : Bool) (l0s l0ns : α) : α := if smooth then l0s else l0ns

/-- cocob.cpp:42-66 (every line is an element-wise expression) -/
def cocobBody (env : Env α) (nm : EnvNM α) (F : ObjectiveI α) (x0 : Vec α) : Body α (CocobMem α) := fun calls m =>
  -- `L = L.max(|gx|); G += |gx|; theta -= gx; reward = (reward - (x - x0) * gx).max(0)`
  let L := List.zipWith (fun l g => cmax l (absv g)) m.L m.gx
  let G := List.zipWith (fun s g => s + absv g) m.G m.gx
  let theta := vsub m.theta m.gx
  let reward := zip4 (fun r x z g => cmax (r - (x - z) * g) 0) m.reward m.x x0 m.gx
  -- `beta = (theta / (G + L)).tanh() / L; x = x0 + beta * (L + reward)`
  let x := zip4 (fun z t gl lr => z + nm.tanh (t / gl.1) / gl.2 * lr) x0 theta
    (List.zipWith (fun s l => (s + l, l)) G L) (vadd L reward)
  let r := F calls x
  ⟨[(x, r.2, r.1)], .const (env.fin r.1), none, 1, 1, ⟨x, r.2, L, G, theta, reward⟩, [x], []⟩

/-- cocob.cpp:33-40: `L = full(L0)`, `G = theta = reward = full(0)` -/
def cocobInit (F : ObjectiveI α) (l0 : α) (x0 : Vec α) : CocobMem α :=
  ⟨x0, (F 0 x0).2, x0.map (fun _ => l0), x0.map (fun _ => 0), x0.map (fun _ => 0), x0.map (fun _ => 0)⟩

def cocobMinimize (env : Env α) (nm : EnvNM α) (F : ObjectiveI α) (l0 : α) (patience : Nat) (eps : α) (maxEvals fuel : Nat)
    (x0 : Vec α) : BState α :=
  nmMinimize env (cocobBody env nm F x0) (cocobInit F l0 x0) patience eps maxEvals fuel (initBState F x0)

/-! ### sda / wda (pdsgm.cpp:5-152) -/

/-- `x`, `gx` and the members of `model_t` that the loop reads: `m_L`, `m_sk1`, `m_Sk`, `m_beta` (`m_xk1h`, `m_lgx` are only read by
    `gap()` and `dual_xk1()`, which nothing calls) -/
structure PdsgmMem (α : Type) where
  x : Vec α
  gx : Vec α
  L : α
  sk1 : Vec α
  Sk : α
  beta : α

/-- pdsgm.cpp:91-118; `wda = false`: `solver_sda_t::update`, `wda = true`: `solver_wda_t::update` -/
def pdsgmBody (env : Env α) (nm : EnvNM α) (F : ObjectiveI α) (wda : Bool) (D : α) (x0 : Vec α) : Body α (PdsgmMem α) :=
  fun calls m =>
  -- `if (gx.lpNorm<Eigen::Infinity>() < epsilon()) { done(state, state.valid(), true); break; }`
  if infNorm m.gx < nm.epsMach then ⟨[], .stateValid, some true, 0, 0, m, [], []⟩
  else
    -- `model.updateL(gx)`: a larger gradient norm resets the model
    let gnorm := norm2 env m.gx
    let reset := decide (gnorm > m.L)
    let L := if reset then gnorm else m.L
    let sk1 := if reset then m.sk1.map (fun _ => (0 : α)) else m.sk1
    let Sk := if reset then 0 else m.Sk
    let beta := if reset then 1 else m.beta
    -- `[lambda, betah] = update(model, gx)`
    let lambda : α := if wda then 1 / norm2 env m.gx else 1
    let betah := if wda then beta / env.sqrt (2 * D) else L / env.sqrt (2 * D) * beta
    -- `model.update(lambda, x, gx)`: `m_beta += 1 / m_beta; m_Sk += lambda; m_sk1 += lambda * gx`
    let beta' := beta + 1 / beta
    let Sk' := Sk + lambda
    let sk1' := List.zipWith (fun s g => s + lambda * g) sk1 m.gx
    -- `x = model.xk1(betah) = x0 - sk1 / betah`
    let x := List.zipWith (fun z s => z - s / betah) x0 sk1'
    let r := F calls x
    ⟨[(x, r.2, r.1)], .const (env.fin r.1), none, 1, 1, ⟨x, r.2, L, sk1', Sk', beta'⟩, [x], [(gnorm, m.L)]⟩

/-- `model_t{x0, D}`: `m_L = 0`, `m_sk1 = 0`, `m_Sk = 0`, `m_beta = 1` -/
def pdsgmInit (F : ObjectiveI α) (x0 : Vec α) : PdsgmMem α := ⟨x0, (F 0 x0).2, 0, x0.map (fun _ => 0), 0, 1⟩

def pdsgmMinimize (env : Env α) (nm : EnvNM α) (F : ObjectiveI α) (wda : Bool) (D : α) (patience : Nat) (eps : α)
    (maxEvals fuel : Nat) (x0 : Vec α) : BState α :=
  nmMinimize env (pdsgmBody env nm F wda D x0) (pdsgmInit F x0) patience eps maxEvals fuel (initBState F x0)

/-! ### pgm / dgm / fgm (universal.cpp) -/

/-- what the inner line search of an iteration leaves behind: `iter_ok`, `M` (already doubled), the trial point with its
    gradient and value, a second trial point where there is one (fgm: `xk1`, `gxk1`, `ak1`), the number of calls -/
structure Trial (α : Type) where
  ok : Bool
  M : α
  x1 : Vec α
  g1 : Vec α
  f1 : α
  x2 : Vec α
  g2 : Vec α
  f2 : α
  a : α
  nf : Nat
  ng : Nat
  asked : List (Vec α)
  tests : List (α × α)

/-- one more trial in front of the trials `t` that followed it -/
def Trial.after (t : Trial α) (nf ng : Nat) (asked : List (Vec α)) (test : List (α × α)) : Trial α :=
  { t with nf := t.nf + nf, ng := t.ng + ng, asked := asked ++ t.asked, tests := test ++ t.tests }

/-- pgm: `L`, `xk`, `gxk`, `fxk`, and `xk1`, `gxk1`, `fxk1` (they keep the last trial between iterations) -/
structure PgmMem (α : Type) where
  L : α
  xk : Vec α
  gxk : Vec α
  fxk : α
  xk1 : Vec α
  gxk1 : Vec α
  fxk1 : α

/-- universal.cpp:51-58 `for (k = 0; k < lsearch_max_iterations && !iter_ok && std::isfinite(fxk1); ++k)`: the remaining number of
    trials is the fuel -/
def pgmSearch (env : Env α) (F : ObjectiveI α) (eps : α) (xk gxk : Vec α) (fxk : α) :
    Nat → Nat → α → Vec α → Vec α → α → Trial α
  | 0, _, M, x1, g1, f1 => ⟨false, M, x1, g1, f1, [], [], 0, 0, 0, 0, [], []⟩
  | j + 1, c, M, x1, g1, f1 =>
    if env.fin f1 then
      -- `xk1 = xk - gxk / M; fxk1 = function.vgrad(xk1, gxk1);`
      let x := List.zipWith (fun x g => x - g / M) xk gxk
      let r := F c x
      -- `iter_ok = isfinite(fxk1) && fxk1 <= fxk + gxk.dot(xk1 - xk) + 0.5 * M * (xk1 - xk).dot(xk1 - xk) + 0.5 * epsilon; M *= 2.0;`
      let d := vsub x xk
      let rhs := fxk + vdot gxk d + half * M * vdot d d + half * eps
      if env.fin r.1 && decide (r.1 ≤ rhs) then ⟨true, M * 2, x, r.2, r.1, [], [], 0, 0, 1, 1, [x], [(r.1, rhs)]⟩
      else (pgmSearch env F eps xk gxk fxk j (c + 1) (M * 2) x r.2 r.1).after 1 1 [x] [(r.1, rhs)]
    else ⟨false, M, x1, g1, f1, [], [], 0, 0, 0, 0, [], []⟩

/-- universal.cpp:46-77 -/
def pgmBody (env : Env α) (F : ObjectiveI α) (eps : α) (lsmax : Nat) : Body α (PgmMem α) := fun calls m =>
  let t := pgmSearch env F eps m.xk m.gxk m.fxk lsmax calls m.L m.xk1 m.gxk1 m.fxk1
  if t.ok then
    -- `L = 0.5 * M; xk = xk1; gxk = gxk1; fxk = fxk1; state.update_if_better(xk1, gxk1, fxk1); converged = value_test < epsilon`
    ⟨[(t.x1, t.g1, t.f1)], .const true, none, t.nf, t.ng, ⟨half * t.M, t.x1, t.g1, t.f1, t.x1, t.g1, t.f1⟩, t.asked, t.tests⟩
  else
    -- `done(state, false, false)`
    ⟨[], .const false, some false, t.nf, t.ng, { m with xk1 := t.x1, gxk1 := t.g1, fxk1 := t.f1 }, t.asked, t.tests⟩

/-- universal.cpp:37-44 -/
def pgmInit (F : ObjectiveI α) (l0 : α) (x0 : Vec α) : PgmMem α :=
  ⟨l0, x0, (F 0 x0).2, (F 0 x0).1, x0, (F 0 x0).2, (F 0 x0).1⟩

def pgmMinimize (env : Env α) (F : ObjectiveI α) (l0 : α) (lsmax patience : Nat) (eps : α) (maxEvals fuel : Nat)
    (x0 : Vec α) : BState α :=
  nmMinimize env (pgmBody env F eps lsmax) (pgmInit F l0 x0) patience eps maxEvals fuel (initBState F x0)

/-- dgm: `L`, `gxk`, `gphi`, and `xk1`, `gxk1`, `fxk1` (`yk` is assigned and never read) -/
structure DgmMem (α : Type) where
  L : α
  gxk : Vec α
  gphi : Vec α
  xk1 : Vec α
  gxk1 : Vec α
  fxk1 : α

/-- universal.cpp:115-122; the value-only call `function.vgrad(yk = xk1 - gxk1 / M)` is made only when `fxk1` is finite (`&&`) -/
def dgmSearch (env : Env α) (F : ObjectiveI α) (eps : α) (gphi gxk : Vec α) :
    Nat → Nat → α → Vec α → Vec α → α → Trial α
  | 0, _, M, x1, g1, f1 => ⟨false, M, x1, g1, f1, [], [], 0, 0, 0, 0, [], []⟩
  | j + 1, c, M, x1, g1, f1 =>
    if env.fin f1 then
      -- `xk1 = gphi - gxk / M; fxk1 = function.vgrad(xk1, gxk1);`
      let x := List.zipWith (fun p g => p - g / M) gphi gxk
      let r := F c x
      if env.fin r.1 then
        -- `function.vgrad(yk = xk1 - gxk1 / M) <= fxk1 - 0.5 * gxk1.dot(gxk1) / M + 0.5 * epsilon; M *= 2.0;`
        let y := List.zipWith (fun x g => x - g / M) x r.2
        let fy := (F (c + 1) y).1
        let rhs := r.1 - half * vdot r.2 r.2 / M + half * eps
        if fy ≤ rhs then ⟨true, M * 2, x, r.2, r.1, y, [], fy, 0, 2, 1, [x, y], [(fy, rhs)]⟩
        else (dgmSearch env F eps gphi gxk j (c + 2) (M * 2) x r.2 r.1).after 2 1 [x, y] [(fy, rhs)]
      else (dgmSearch env F eps gphi gxk j (c + 1) (M * 2) x r.2 r.1).after 1 1 [x] []
    else ⟨false, M, x1, g1, f1, [], [], 0, 0, 0, 0, [], []⟩

/-- universal.cpp:110-141 -/
def dgmBody (env : Env α) (F : ObjectiveI α) (eps : α) (lsmax : Nat) : Body α (DgmMem α) := fun calls m =>
  let t := dgmSearch env F eps m.gphi m.gxk lsmax calls m.L m.xk1 m.gxk1 m.fxk1
  if t.ok then
    -- `gphi -= gxk / M; L = 0.5 * M; gxk = gxk1; state.update_if_better(xk1, gxk1, fxk1);` (`M` is the doubled one)
    ⟨[(t.x1, t.g1, t.f1)], .const true, none, t.nf, t.ng,
      ⟨half * t.M, t.g1, List.zipWith (fun p g => p - g / t.M) m.gphi m.gxk, t.x1, t.g1, t.f1⟩, t.asked, t.tests⟩
  else
    ⟨[], .const false, some false, t.nf, t.ng, { m with xk1 := t.x1, gxk1 := t.g1, fxk1 := t.f1 }, t.asked, t.tests⟩

/-- universal.cpp:101-108: `gphi = x0` -/
def dgmInit (F : ObjectiveI α) (l0 : α) (x0 : Vec α) : DgmMem α := ⟨l0, (F 0 x0).2, x0, x0, (F 0 x0).2, (F 0 x0).1⟩

def dgmMinimize (env : Env α) (F : ObjectiveI α) (l0 : α) (lsmax patience : Nat) (eps : α) (maxEvals fuel : Nat)
    (x0 : Vec α) : BState α :=
  nmMinimize env (dgmBody env F eps lsmax) (dgmInit F l0 x0) patience eps maxEvals fuel (initBState F x0)

/-- fgm: `L`, `Ak`, `vk`, `yk`, and `fxk1`, `fyk1` of the last trial -/
structure FgmMem (α : Type) where
  L : α
  Ak : α
  vk : Vec α
  yk : Vec α
  fxk1 : α
  fyk1 : α

/-- universal.cpp:181-196; in the result `x1, g1, f1` are `yk1, gyk1, fyk1`, `x2, g2, f2` are `xk1, gxk1, fxk1`, `a` is `ak1` -/
def fgmSearch (env : Env α) (F : ObjectiveI α) (eps Ak : α) (vk yk : Vec α) : Nat → Nat → α → α → α → Trial α
  | 0, _, M, fx1, fy1 => ⟨false, M, [], [], fy1, [], [], fx1, 0, 0, 0, [], []⟩
  | j + 1, c, M, fx1, fy1 =>
    if env.fin fx1 && env.fin fy1 then
      -- `ak1 = (1.0 + sqrt(1.0 + 4.0 * M * Ak)) / (2.0 * M); tau = ak1 / (Ak + ak1);`
      let ak1 := (1 + env.sqrt (1 + 4 * M * Ak)) / (2 * M)
      let tau := ak1 / (Ak + ak1)
      -- `xk1 = tau * vk + (1.0 - tau) * yk; fxk1 = function.vgrad(xk1, gxk1);`
      let x := List.zipWith (fun v y => tau * v + (1 - tau) * y) vk yk
      let rx := F c x
      -- `yk1 = tau * (vk - ak1 * gxk1) + (1.0 - tau) * yk; fyk1 = function.vgrad(yk1, gyk1);`
      let y := zip3 (fun v g y => tau * (v - ak1 * g) + (1 - tau) * y) vk rx.2 yk
      let ry := F (c + 1) y
      -- `fyk1 <= fxk1 + gxk1.dot(yk1 - xk1) + 0.5 * M * (yk1 - xk1).dot(yk1 - xk1) + 0.5 * epsilon * tau`
      let d := vsub y x
      let rhs := rx.1 + vdot rx.2 d + half * M * vdot d d + half * eps * tau
      if env.fin rx.1 && env.fin ry.1 && decide (ry.1 ≤ rhs) then
        ⟨true, M * 2, y, ry.2, ry.1, x, rx.2, rx.1, ak1, 2, 2, [x, y], [(ry.1, rhs)]⟩
      else (fgmSearch env F eps Ak vk yk j (c + 2) (M * 2) rx.1 ry.1).after 2 2 [x, y] [(ry.1, rhs)]
    else ⟨false, M, [], [], fy1, [], [], fx1, 0, 0, 0, [], []⟩

/-- universal.cpp:176-213 -/
def fgmBody (env : Env α) (F : ObjectiveI α) (eps : α) (lsmax : Nat) : Body α (FgmMem α) := fun calls m =>
  let t := fgmSearch env F eps m.Ak m.vk m.yk lsmax calls m.L m.fxk1 m.fyk1
  if t.ok then
    -- `yk = yk1; Ak += ak1; L = 0.5 * M; vk -= ak1 * gxk1; state.update_if_better(yk1, gyk1, fyk1);`
    ⟨[(t.x1, t.g1, t.f1)], .const true, none, t.nf, t.ng,
      ⟨half * t.M, m.Ak + t.a, List.zipWith (fun v g => v - t.a * g) m.vk t.g2, t.x1, t.f2, t.f1⟩, t.asked, t.tests⟩
  else
    ⟨[], .const false, some false, t.nf, t.ng, { m with fxk1 := t.f2, fyk1 := t.f1 }, t.asked, t.tests⟩

/-- universal.cpp:162-174 -/
def fgmInit (F : ObjectiveI α) (l0 : α) (x0 : Vec α) : FgmMem α := ⟨l0, 0, x0, x0, (F 0 x0).1, (F 0 x0).1⟩

def fgmMinimize (env : Env α) (F : ObjectiveI α) (l0 : α) (lsmax patience : Nat) (eps : α) (maxEvals fuel : Nat)
    (x0 : Vec α) : BState α :=
  nmMinimize env (fgmBody env F eps lsmax) (fgmInit F l0 x0) patience eps maxEvals fuel (initBState F x0)

/-! ### asga2 / asga4 (asga.cpp) -/

/-- asga.cpp:7-11 `solve_sk1` -/
def solveSk1 (env : Env α) (miu Sk Lk1 : α) : α :=
  let r := 1 + Sk * miu
  (r + env.sqrt (r * r + 4 * Lk1 * Sk * r)) / (2 * Lk1)

/-- asga.cpp:13-17 `lsearch_done(y, fy, x, fx, gx, Lk, alphak, epsilon)`: both sides of
    `fy <= fx + gx.dot(y - x) + 0.5 * Lk * (y - x).squaredNorm() + 0.5 * alphak * epsilon` -/
def lsearchDoneSides (y : Vec α) (fy : α) (x : Vec α) (fx : α) (gx : Vec α) (Lk alphak eps : α) : α × α :=
  (fy, fx + vdot gx (vsub y x) + half * Lk * sqNorm (vsub y x) + half * alphak * eps)

/-- what the inner loop of asga2 / asga4 leaves behind (the values of its LAST trial): `iter_ok`, `Lk1`, `sk1`, `Sk1`, the point
    handed to `update_if_better` with its gradient and value (asga2: `xk1`, asga4: `yk1`), `zk1` (asga2), the other trial point
    with its gradient (asga2: `yk, gyk`; asga4: `xk1, gxk1`), the number of trials -/
structure AsgaTrial (α : Type) where
  ok : Bool
  L : α
  s : α
  S : α
  x : Vec α
  gx : Vec α
  fx : α
  z : Vec α
  y : Vec α
  gy : Vec α
  n : Nat
  asked : List (Vec α)
  tests : List (α × α)

def AsgaTrial.after (t : AsgaTrial α) (asked : List (Vec α)) (test : α × α) : AsgaTrial α :=
  { t with n := t.n + 1, asked := asked ++ t.asked, tests := test :: t.tests }

/-- asga.cpp:80-97 `for (p = 0; p < lsearch_max_iters && !iter_ok; ++p)`; `L` is `Lk1` before `Lk1 *= gamma1`. No trial at all
    (`lsearch_max_iters = 0`, outside the registered domain [10, 1000]) leaves `fxk1 = fxk` and nothing else -/
def asga2Search (env : Env α) (F : ObjectiveI α) (eps miu gamma1 : α) (x0 sum : Vec α) (Sk fxk : α) (xk zk : Vec α) :
    Nat → Nat → α → AsgaTrial α
  | 0, _, L => ⟨false, L, 0, Sk, [], [], fxk, [], [], [], 0, [], []⟩
  | j + 1, c, L =>
    -- `Lk1 *= gamma1; sk1 = solve_sk1(miu, Sk, Lk1); Sk1 = Sk + sk1; alphak = sk1 / Sk1;`
    let Lk1 := L * gamma1
    let sk1 := solveSk1 env miu Sk Lk1
    let Sk1 := Sk + sk1
    let alphak := sk1 / Sk1
    -- `yk = alphak * zk + (1.0 - alphak) * xk; fyk = function.vgrad(yk, gyk);`
    let yk := List.zipWith (fun z x => alphak * z + (1 - alphak) * x) zk xk
    let ry := F c yk
    -- `zk1 = (x0 + sum_skgyk + sk1 * (miu * yk - gyk)) / (1.0 + miu * Sk1); xk1 = alphak * zk1 + (1.0 - alphak) * xk;`
    let zk1 := zip4 (fun a s y g => (a + s + sk1 * (miu * y - g)) / (1 + miu * Sk1)) x0 sum yk ry.2
    let xk1 := List.zipWith (fun z x => alphak * z + (1 - alphak) * x) zk1 xk
    -- `fxk1 = function.vgrad(xk1, gxk1);`
    let rx := F (c + 1) xk1
    let sides := lsearchDoneSides xk1 rx.1 yk ry.1 ry.2 Lk1 alphak eps
    let ok := env.fin Lk1 && env.fin rx.1 && env.fin ry.1 && decide (sides.1 ≤ sides.2)
    if ok || j == 0 then ⟨ok, Lk1, sk1, Sk1, xk1, rx.2, rx.1, zk1, yk, ry.2, 1, [yk, xk1], [sides]⟩
    else (asga2Search env F eps miu gamma1 x0 sum Sk fxk xk zk j (c + 2) Lk1).after [yk, xk1] sides

/-- asga2: `Lk`, `Sk`, `fxk`, `xk`, `zk`, `sum_skgyk` -/
structure Asga2Mem (α : Type) where
  Lk : α
  Sk : α
  fxk : α
  xk : Vec α
  zk : Vec α
  sum : Vec α

/-- asga.cpp:73-114 -/
def asga2Body (env : Env α) (F : ObjectiveI α) (eps miu gamma1 gamma2 : α) (lsmax : Nat) (x0 : Vec α) : Body α (Asga2Mem α) :=
  fun calls m =>
  -- `Lk1 = Lk / gamma1`
  let t := asga2Search env F eps miu gamma1 x0 m.sum m.Sk m.fxk m.xk m.zk lsmax calls (m.Lk / gamma1)
  -- `state.update_if_better(xk1, gxk1, fxk1); converged = value_test < epsilon; done(state, iter_ok, converged)`
  -- `xk = xk1; zk = zk1; Sk = Sk1; fxk = fxk1; Lk = gamma2 * Lk1; sum_skgyk += sk1 * (miu * yk - gyk);`
  ⟨[(t.x, t.gx, t.fx)], .const t.ok, none, 2 * t.n, 2 * t.n,
    ⟨gamma2 * t.L, t.S, t.fx, t.x, t.z, zip3 (fun s y g => s + t.s * (miu * y - g)) m.sum t.y t.gy⟩, t.asked, t.tests⟩

/-- asga.cpp:60-71 -/
def asga2Init (env : Env α) (l0 : α) (x0 : Vec α) : Asga2Mem α := ⟨l0, 0, env.maxv, x0, x0, x0.map (fun _ => 0)⟩

/-- asga.cpp:44-117; `if (state.gradient_test() < epsilon()) return state;` comes before the loop -/
def asga2Minimize (env : Env α) (nm : EnvNM α) (F : ObjectiveI α) (miu l0 gamma1 gamma2 : α) (lsmax patience : Nat) (eps : α)
    (maxEvals fuel : Nat) (x0 : Vec α) : BState α :=
  if gradientTestS (initBState F x0).st < nm.epsMach then initBState F x0
  else nmMinimize env (asga2Body env F eps miu gamma1 gamma2 lsmax x0) (asga2Init env l0 x0) patience eps maxEvals fuel
    (initBState F x0)

/-- asga.cpp:168-185 -/
def asga4Search (env : Env α) (F : ObjectiveI α) (eps miu gamma1 : α) (Sk fyk : α) (vk yk : Vec α) :
    Nat → Nat → α → AsgaTrial α
  | 0, _, L => ⟨false, L, 0, Sk, [], [], fyk, [], [], [], 0, [], []⟩
  | j + 1, c, L =>
    let Lk1 := L * gamma1
    let sk1 := solveSk1 env miu Sk Lk1
    let Sk1 := Sk + sk1
    let alphak := sk1 / Sk1
    -- `xk1 = alphak * vk + (1.0 - alphak) * yk; fxk1 = function.vgrad(xk1, gxk1);`
    let xk1 := List.zipWith (fun v y => alphak * v + (1 - alphak) * y) vk yk
    let rx := F c xk1
    -- `uk1 = (vk + sk1 * (miu * xk1 - gxk1)) / (1.0 + miu * sk1); yk1 = alphak * uk1 + (1.0 - alphak) * yk;`
    let uk1 := zip3 (fun v x g => (v + sk1 * (miu * x - g)) / (1 + miu * sk1)) vk xk1 rx.2
    let yk1 := List.zipWith (fun u y => alphak * u + (1 - alphak) * y) uk1 yk
    -- `fyk1 = function.vgrad(yk1, gyk1);`
    let ry := F (c + 1) yk1
    let sides := lsearchDoneSides yk1 ry.1 xk1 rx.1 rx.2 Lk1 alphak eps
    let ok := env.fin Lk1 && env.fin rx.1 && env.fin ry.1 && decide (sides.1 ≤ sides.2)
    if ok || j == 0 then ⟨ok, Lk1, sk1, Sk1, yk1, ry.2, ry.1, uk1, xk1, rx.2, 1, [xk1, yk1], [sides]⟩
    else (asga4Search env F eps miu gamma1 Sk fyk vk yk j (c + 2) Lk1).after [xk1, yk1] sides

/-- asga4: `Lk`, `Sk`, `fyk`, `vk`, `yk`, `sum_skgk` -/
structure Asga4Mem (α : Type) where
  Lk : α
  Sk : α
  fyk : α
  vk : Vec α
  yk : Vec α
  sum : Vec α

/-- asga.cpp:161-203 -/
def asga4Body (env : Env α) (F : ObjectiveI α) (eps miu gamma1 gamma2 : α) (lsmax : Nat) (x0 : Vec α) : Body α (Asga4Mem α) :=
  fun calls m =>
  let t := asga4Search env F eps miu gamma1 m.Sk m.fyk m.vk m.yk lsmax calls (m.Lk / gamma1)
  -- `yk = yk1; Sk = Sk1; fyk = fyk1; Lk = gamma2 * Lk1; sum_skgk += sk1 * (miu * xk1 - gxk1); vk = (x0 + sum_skgk) / (1.0 + miu * Sk);`
  let sum := zip3 (fun s x g => s + t.s * (miu * x - g)) m.sum t.y t.gy
  ⟨[(t.x, t.gx, t.fx)], .const t.ok, none, 2 * t.n, 2 * t.n,
    ⟨gamma2 * t.L, t.S, t.fx, List.zipWith (fun a s => (a + s) / (1 + miu * t.S)) x0 sum, t.x, sum⟩, t.asked, t.tests⟩

/-- asga.cpp:148-159 -/
def asga4Init (env : Env α) (l0 : α) (x0 : Vec α) : Asga4Mem α := ⟨l0, 0, env.maxv, x0, x0, x0.map (fun _ => 0)⟩

/-- asga.cpp:132-206 -/
def asga4Minimize (env : Env α) (nm : EnvNM α) (F : ObjectiveI α) (miu l0 gamma1 gamma2 : α) (lsmax patience : Nat) (eps : α)
    (maxEvals fuel : Nat) (x0 : Vec α) : BState α :=
  if gradientTestS (initBState F x0).st < nm.epsMach then initBState F x0
  else nmMinimize env (asga4Body env F eps miu gamma1 gamma2 lsmax x0) (asga4Init env l0 x0) patience eps maxEvals fuel
    (initBState F x0)

/-! ### osga (osga.cpp) -/

/-- osga.cpp:12-16 `proxy_t::m_Q0 = 0.5 * sqrt(z0.lpNorm<2>() + epsilon)` with `epsilon = numeric_limits::epsilon()` -/
def osgaQ0 (env : Env α) (nm : EnvNM α) (z0 : Vec α) : α := half * env.sqrt (norm2 env z0 + nm.epsMach)

/-- osga.cpp:18 `Q(z) = m_Q0 + 0.5 * (z - m_z0).dot(z - m_z0)` -/
def osgaQ (q0 : α) (z0 z : Vec α) : α := q0 + half * vdot (vsub z z0) (vsub z z0)

/-- osga.cpp:22-35 `E(gamma, h)` -/
def osgaE (env : Env α) (q0 : α) (z0 : Vec α) (gamma : α) (h : Vec α) : α :=
  let beta := gamma + vdot h z0
  let sq := env.sqrt (beta * beta + 2 * q0 * vdot h h)
  if beta ≤ 0 then (-beta + sq) / (2 * q0) else vdot h h / (beta + sq)

/-- osga.cpp:37 `U(gamma, h) = m_z0 - h / E(gamma, h)` -/
def osgaU (env : Env α) (q0 : α) (z0 : Vec α) (gamma : α) (h : Vec α) : Vec α :=
  List.zipWith (fun z hi => z - hi / osgaE env q0 z0 gamma h) z0 h

/-- `h`, `gamma`, `u`, `eta`, `alpha`, `xb`, `fb` -/
structure OsgaMem (α : Type) where
  h : Vec α
  gamma : α
  u : Vec α
  eta : α
  alpha : α
  xb : Vec α
  fb : α

/-- both sides of the branch condition `beta <= 0.0` of `proxy_t::E` written as `gamma <= -h.dot(z0)`. By construction
    `beta = gamma + h.z0` is a difference of nearly equal numbers in the first iterations (exactly 0 in exact arithmetic at the
    start): which branch is taken is decided by rounding; the two branches are the same number in exact arithmetic -/
def osgaBetaSides (z0 : Vec α) (gamma : α) (h : Vec α) : α × α := (gamma, -(vdot h z0))

/-- what one iteration computes before it decides (osga.cpp:98-121) -/
structure OsgaIter (α : Type) where
  betas : List (α × α)
  x : Vec α
  xPrime : Vec α
  xbHat : Vec α
  fbHat : α
  hHat : Vec α
  gammaHat : α
  uHat : Vec α
  etaHat : α

/-- osga.cpp:98-121; `z0 = x0`, `q0 = m_Q0` -/
def osgaIter (env : Env α) (F : ObjectiveI α) (miu q0 : α) (z0 : Vec α) (calls : Nat) (m : OsgaMem α) : OsgaIter α :=
  -- `x = xb + alpha * (u - xb); f = function.vgrad(x, g); g = g - miu * proxy.gQ(x);`
  let x := List.zipWith (fun b u => b + m.alpha * (u - b)) m.xb m.u
  let r := F calls x
  let g := zip3 (fun g x z => g - miu * (x - z)) r.2 x z0
  -- `h_hat = h + alpha * (g - h); gamma_hat = gamma + alpha * (f - miu * proxy.Q(x) - g.dot(x) - gamma);`
  let hHat := List.zipWith (fun h g => h + m.alpha * (g - h)) m.h g
  let gammaHat := m.gamma + m.alpha * (r.1 - miu * osgaQ q0 z0 x - vdot g x - m.gamma)
  -- `xb_prime = (f < fb) ? x : xb; fb_prime = (f < fb) ? f : fb;`
  let xbP := if r.1 < m.fb then x else m.xb
  let fbP := if r.1 < m.fb then r.1 else m.fb
  -- `u_prime = proxy.U(gamma_hat - fb_prime, h_hat); x_prime = xb + alpha * (u_prime - xb); f_prime = function.vgrad(x_prime);`
  let uP := osgaU env q0 z0 (gammaHat - fbP) hHat
  let xP := List.zipWith (fun b u => b + m.alpha * (u - b)) m.xb uP
  let fP := (F (calls + 1) xP).1
  -- `xb_hat = (f_prime < fb_prime) ? x_prime : xb_prime; fb_hat = (f_prime < fb_prime) ? f_prime : fb_prime;`
  let xbH := if fP < fbP then xP else xbP
  let fbH := if fP < fbP then fP else fbP
  -- `u_hat = proxy.U(gamma_hat - fb_hat, h_hat); eta_hat = proxy.E(gamma_hat - fb_hat, h_hat) - miu;`
  ⟨[osgaBetaSides z0 (gammaHat - fbP) hHat, osgaBetaSides z0 (gammaHat - fbH) hHat],
   x, xP, xbH, fbH, hHat, gammaHat, osgaU env q0 z0 (gammaHat - fbH) hHat, osgaE env q0 z0 (gammaHat - fbH) hHat - miu⟩

/-- osga.cpp:86-147; `g0` is `state.gx()`: `update_if_better(x, fx)` never changes the stored gradient, so it is the gradient at `x0`
    throughout, also in the candidates -/
def osgaBody (env : Env α) (nm : EnvNM α) (F : ObjectiveI α) (eps miu lambda alphaMax kappaP kappa : α) (z0 g0 : Vec α) :
    Body α (OsgaMem α) := fun calls m =>
  -- `if (state.gx().lpNorm<Eigen::Infinity>() < epsilon0()) { if (done(state, state.valid(), true)) break; }` (`done` with
  -- `converged = true` always returns true)
  if infNorm g0 < nm.eps0 then ⟨[], .stateValid, some true, 0, 0, m, [], []⟩
  else
    let q0 := osgaQ0 env nm z0
    let it := osgaIter env F miu q0 z0 calls m
    -- `state.update_if_better(xb_hat, fb_hat); iter_ok = state.valid(); converged = eta_hat < epsilon || value_test < epsilon;`
    -- `R = (eta - eta_hat) / (lambda * alpha * eta);`
    let R := (m.eta - it.etaHat) / (lambda * m.alpha * m.eta)
    -- `alpha = (R < 1.0) ? (alpha * exp(-kappa)) : min(alpha * exp(kappa_prime * (R - 1.0)), alpha_max);`
    let alpha := if R < 1 then m.alpha * nm.exp (-kappa) else cmin (m.alpha * nm.exp (kappaP * (R - 1))) alphaMax
    -- `if (eta_hat < eta) { h = h_hat; u = u_hat; eta = eta_hat; gamma = gamma_hat; } xb = xb_hat; fb = fb_hat;`
    let better := decide (it.etaHat < m.eta)
    ⟨[(it.xbHat, g0, it.fbHat)], .stateValid, if it.etaHat < eps then some true else none, 2, 1,
      ⟨if better then it.hHat else m.h, if better then it.gammaHat else m.gamma, if better then it.uHat else m.u,
       if better then it.etaHat else m.eta, alpha, it.xbHat, it.fbHat⟩,
      [it.x, it.xPrime], [(it.etaHat, eps), (R, 1), (it.etaHat, m.eta)] ++ it.betas⟩

/-- osga.cpp:68-84 (`miu = strong_convexity / 2`) -/
def osgaInit (env : Env α) (nm : EnvNM α) (F : ObjectiveI α) (miu alphaMax : α) (x0 : Vec α) : OsgaMem α :=
  let q0 := osgaQ0 env nm x0
  let fx := (F 0 x0).1
  -- `h = state.gx() - miu * proxy.gQ(state.x()); gamma = state.fx() - miu * proxy.Q(state.x()) - h.dot(state.x());`
  let h := zip3 (fun g x z => g - miu * (x - z)) (F 0 x0).2 x0 x0
  let gamma := fx - miu * osgaQ q0 x0 x0 - vdot h x0
  -- `u = proxy.U(gamma - state.fx(), h); eta = proxy.E(gamma - state.fx(), h) - miu;`
  ⟨h, gamma, osgaU env q0 x0 (gamma - fx) h, osgaE env q0 x0 (gamma - fx) h - miu, alphaMax, x0, fx⟩

def osgaMinimize (env : Env α) (nm : EnvNM α) (F : ObjectiveI α) (miu lambda alphaMax kappaP kappa : α) (patience : Nat) (eps : α)
    (maxEvals fuel : Nat) (x0 : Vec α) : BState α :=
  nmMinimize env (osgaBody env nm F eps miu lambda alphaMax kappaP kappa x0 (F 0 x0).2) (osgaInit env nm F miu alphaMax x0)
    patience eps maxEvals fuel (initBState F x0)

end
end NanoVerif.Solver
