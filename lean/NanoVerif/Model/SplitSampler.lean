import NanoVerif.Model.Split
/-
  C12 (gap-closing round) — the objects around the core routines of `Model/Split.lean` (core Lean only):

    src/core/random.cpp:6-17          make_rng(seed)           -> `lcgSeed` (std::minstd_rand, libstdc++ `linear_congruential_engine`)
    libstdc++ bits/random.tcc         generate_canonical<double,53>(minstd_rand)  -> `canonNum`, `canonical`
    libstdc++ bits/random.tcc:2662-2720  discrete_distribution::param_type::_M_initialize, operator()
                                      -> `accum`, `normalize`, `partialSums`, `setLast`, `ddCp`, `lbGo`/`lowerBound`, `ddDraw`
    src/core/sampling.cpp:5-57        the `rng_t&` overloads with the generator threaded through -> `withoutG`, `withG`, `wwithG`
    src/gboost/sampler.cpp:7-62       sampler_t (constructor, sample) -> `Sampler`, `Sampler.make`, `Sampler.sample`, `Sampler.run`
    src/splitter.cpp / kfold.cpp / random.cpp as OBJECTS (parameters are the only state; `split` is const) -> `Splitter`, `HCmd`, `hRun`

  Oracles that remain (fields of `StdLib`): `std::shuffle` and `uniform_int_distribution(0, n-1)` as functions of the generator
  state. `generate_canonical` is an oracle of the generic model too (field `canon`), instantiated in the driver by the model
  `canonical` of the libstdc++ code on the `minstd_rand` state (`lcgNext`), so that the weighted modes are a function of the seed.
-/
namespace NanoVerif.Split

/-! ### `make_rng(seed)` = `std::minstd_rand{seed}` (random.cpp:6-17; only the seeded branch: the other one reads
    `std::random_device` and is outside) -/

/-- modulus `m = 2^31 - 1` and multiplier `a = 48271` of `std::minstd_rand` (increment `c = 0`) -/
def lcgM : Nat := 2147483647
def lcgA : Nat := 48271

/-- `linear_congruential_engine::seed(s)`: `c mod m = 0`, so a seed that is `0 mod m` becomes `1`, else `s mod m` -/
def lcgSeed (seed : Nat) : Nat := if seed % lcgM = 0 then 1 else seed % lcgM

/-- `operator()`: `x = a·x mod m`, the new state is the value returned -/
def lcgNext (x : Nat) : Nat := (lcgA * x) % lcgM

/-- `urng.max() - urng.min() + 1 = (m - 1) - 1 + 1` -/
def lcgRange : Nat := lcgM - 1

/-- numerator of `generate_canonical<double, 53>` with `minstd_rand`: two calls (`⌈53 / 30⌉`), the first one is the low
    digit: `(x1 - min) + (x2 - min)·R`; the value is this over `R²` -/
def canonNum (x : Nat) : Nat := (lcgNext x - 1) + (lcgNext (lcgNext x) - 1) * lcgRange

/-- the same at `Float`, operation by operation (`sum += double(urng() - min) * tmp; tmp *= r; ret = sum / tmp`, and the
    guard `ret >= 1 → nextafter(1, 0)`), with the generator state after the two calls -/
def canonical (x : Nat) : Float × Nat :=
  let x1 := lcgNext x
  let x2 := lcgNext x1
  let r : Float := lcgRange.toFloat
  let s1 : Float := 0.0 + (x1 - 1).toFloat * 1.0
  let s2 : Float := s1 + (x2 - 1).toFloat * r
  let ret := s2 / (r * r)
  (if ret ≥ 1.0 then 1.0 - 1.1102230246251565e-16 else ret, x2)

/-! ### `std::discrete_distribution` as coded in libstdc++ (random.tcc:2662-2720) -/

section dd
variable {α : Type} [Add α] [Div α] [LT α] [DecidableLT α] [OfNat α 0] [OfNat α 1]

/-- `std::accumulate(begin, end, 0.0)`: `((0 + w0) + w1) + …` -/
def accum (w : List α) : α := w.foldl (· + ·) 0

/-- `__detail::__normalize`: every weight divided by the sum -/
def normalize (w : List α) (s : α) : List α := w.map (· / s)

/-- `std::partial_sum`: `acc = *first; out = acc; while (++first != last) { acc = acc + *first; out = acc; }` -/
def psGo : α → List α → List α
  | _, [] => []
  | acc, x :: xs => (acc + x) :: psGo (acc + x) xs

def partialSums : List α → List α
  | [] => []
  | x :: xs => x :: psGo x xs

/-- `_M_cp[_M_cp.size() - 1] = 1.0` -/
def setLast : List α → α → List α
  | [], _ => []
  | [_], v => [v]
  | x :: y :: l, v => x :: setLast (y :: l) v

/-- `_M_initialize`: fewer than two weights ⇒ no table at all (every draw is 0 and consumes nothing); otherwise the
    cumulative sums of the normalised weights with the last one forced to 1. No check of the sum: `__glibcxx_assert(sum > 0)`
    is compiled out, an all-zero (or NaN) weight vector yields a table of NaNs closed by 1 -/
def ddCp (w : List α) : List α :=
  if w.length < 2 then [] else setLast (partialSums (normalize w (accum w))) 1

/-- `std::__lower_bound` over positions: `lt i` is `cp[i] < u` -/
def lbGo (lt : Nat → Bool) : Nat → Nat → Nat → Nat
  | 0, first, _ => first
  | fuel + 1, first, len =>
    if len = 0 then first
    else
      let half := len / 2
      if lt (first + half) then lbGo lt fuel (first + half + 1) (len - half - 1) else lbGo lt fuel first half

/-- `std::lower_bound(begin, end, val) - begin` on `n` positions (the length strictly decreases: `n` steps suffice) -/
def lowerBound (lt : Nat → Bool) (n : Nat) : Nat := lbGo lt n 0 n

/-- `operator()` given the canonical draw `u` (only asked for when the table is not empty) -/
def ddDraw (cp : Array α) (u : α) : Nat := lowerBound (fun i => decide (cp.getD i 0 < u)) cp.size

end dd

/-! ### the standard-library calls that stay oracles, as functions of the generator state `G` -/

structure StdLib (G α : Type) where
  /-- `std::shuffle(begin, end, rng)`: the shuffled list and the generator afterwards -/
  shuffle : G → List Int → List Int × G
  /-- `uniform_int_distribution<int64>(0, hi)(rng)` -/
  uniform : G → Nat → Nat × G
  /-- `generate_canonical<double, 53>(rng)` -/
  canon : G → α × G

/-- the three scalar conversions of `sampler_t::sample` -/
structure Num (α : Type) where
  /-- `static_cast<scalar_t>(m_samples.size())` -/
  ofNat : Nat → α
  /-- `static_cast<tensor_size_t>(x)` for `x ≥ 0` (truncation) -/
  trunc : α → Nat
  /-- `gradients.vector(i).lpNorm<2>()` -/
  norm2 : List α → α

section core
variable {G α : Type}

/-- `std::generate(begin, end, draw)`: `count` consecutive draws, generator threaded -/
def drawsG (draw : G → Nat × G) : Nat → G → List Nat × G
  | 0, g => ([], g)
  | k + 1, g =>
    let d := draw g
    let r := drawsG draw k d.2
    (d.1 :: r.1, r.2)

/-- `sample_without_replacement(samples, count, rng)` (sampling.cpp:41-51): one shuffle of a copy -/
def withoutG (L : StdLib G α) (sort : List Int → List Int) (samples : List Int) (count : Nat) (g : G) :
    Option (List Int) × G :=
  let r := L.shuffle g samples
  (sampleWithout sort r.1 count, r.2)

/-- `sample_with_replacement(samples, count, rng)` (sampling.cpp:5-13): `udist(0, size - 1)` asked `count` times -/
def withG (L : StdLib G α) (sort : List Int → List Int) (samples : List Int) (count : Nat) (g : G) :
    Option (List Int) × G :=
  let r := drawsG (fun g => L.uniform g (samples.length - 1)) count g
  (sampleWith sort samples count r.1, r.2)

variable [Add α] [Div α] [LT α] [DecidableLT α] [OfNat α 0] [OfNat α 1]

/-- one draw of the discrete distribution: nothing is consumed when the table is empty -/
def ddDrawG (L : StdLib G α) (cp : Array α) (g : G) : Nat × G :=
  if cp.size = 0 then (0, g) else
    let r := L.canon g
    (ddDraw cp r.1, r.2)

/-- `sample_with_replacement(samples, weights, count, rng)` (sampling.cpp:21-33). The two `assert`s are compiled out:
    weights shorter than the samples restrict the draws to the first positions; a position that is not one of `samples`
    (weights longer than the samples) gives `none` (the code reads outside the tensor) -/
def wwithG (L : StdLib G α) (sort : List Int → List Int) (samples : List Int) (weights : List α) (count : Nat) (g : G) :
    Option (List Int) × G :=
  let cp := (ddCp weights).toArray
  let r := drawsG (ddDrawG L cp) count g
  (sampleWith sort samples count r.1, r.2)

/-! ### `gboost::sampler_t` (sampler.cpp:7-62) -/

/-- the members: `m_samples` (a reference: the caller's tensor), `m_type`, `m_rng`, `m_ratio`, `m_weights` -/
structure Sampler (G α : Type) where
  samples : List Int
  mode : Mode
  rng : G
  ratio : α
  weights : List α

/-- constructor: `m_rng(make_rng(seed))`; `m_weights` has no element for `off` / `bootstrap`, `samples.size()` (not
    initialised; every element is written before it is read) otherwise -/
def Sampler.make (samples : List Int) (mode : Mode) (g : G) (ratio : α) : Sampler G α :=
  { samples := samples, mode := mode, rng := g, ratio := ratio,
    weights := match mode with
      | .off | .bootstrap => []
      | _ => List.replicate samples.length 0 }

/-- `count = static_cast<tensor_size_t>(m_ratio * static_cast<scalar_t>(m_samples.size()))` -/
def Sampler.count [Mul α] (N : Num α) (s : Sampler G α) : Nat := N.trunc (s.ratio * N.ofNat s.samples.length)

/-- the weights written by the two weighted modes: `errors_losses(1, m_samples(i))`, `gradients.vector(m_samples(i)).lpNorm<2>()` -/
def Sampler.newWeights (N : Num α) (s : Sampler G α) (loss : Int → α) (grad : Int → List α) : List α :=
  match s.mode with
  | .weiLoss => s.samples.map loss
  | .weiGrad => s.samples.map (fun i => N.norm2 (grad i))
  | _ => s.weights

/-- one call of `sampler_t::sample(errors_losses, gradients)`: the answer (`none` where a core routine reads outside) and
    the object afterwards (generator advanced, weights overwritten) -/
def Sampler.sample [Mul α] (N : Num α) (L : StdLib G α) (sort : List Int → List Int) (s : Sampler G α)
    (loss : Int → α) (grad : Int → List α) : Option (List Int) × Sampler G α :=
  let count := s.count N
  match s.mode with
  | .off => (some s.samples, s)
  | .subsample =>
    let r := withoutG L sort s.samples count s.rng
    (r.1, { s with rng := r.2 })
  | .bootstrap =>
    let r := withG L sort s.samples count s.rng
    (r.1, { s with rng := r.2 })
  | .weiLoss | .weiGrad =>
    let w := s.newWeights N loss grad
    let r := wwithG L sort s.samples w count s.rng
    (r.1, { s with rng := r.2, weights := w })

/-- consecutive calls on one object (one `(loss, grad)` per boosting round) -/
def Sampler.run [Mul α] (N : Num α) (L : StdLib G α) (sort : List Int → List Int) :
    Sampler G α → List ((Int → α) × (Int → List α)) → List (Option (List Int)) × Sampler G α
  | s, [] => ([], s)
  | s, c :: cs =>
    let r := s.sample N L sort c.1 c.2
    let rs := Sampler.run N L sort r.2 cs
    (r.1 :: rs.1, rs.2)

end core

/-! ### splitters as objects (splitter.cpp:7-12, kfold.cpp, random.cpp): the registered parameters are the only state -/

inductive Kind
  | kfold | random
deriving Repr, DecidableEq

/-- the values of `splitter::folds`, `splitter::seed`, `splitter::random::train_per` (the last one exists only for `random`) -/
structure Splitter where
  kind : Kind
  folds : Nat
  seed : Nat
  trainPer : Nat
deriving Repr, DecidableEq

/-- a freshly constructed object: the registered defaults (translated from the source) -/
def Splitter.fresh (k : Kind) : Splitter :=
  ⟨k, Gen.Splitter.foldsDefault, Gen.Splitter.seedDefault, Gen.Splitter.trainPerDefault⟩

inductive PName
  | folds | seed | trainPer
deriving Repr, DecidableEq

/-- `parameter(name) = value`: refused (exception, value unchanged) outside the domain, and for a name the object does
    not have -/
def Splitter.set (s : Splitter) (p : PName) (v : Int) : Option Splitter :=
  match p with
  | .folds => if Int.ofNat Gen.Splitter.foldsMin ≤ v ∧ v ≤ Int.ofNat Gen.Splitter.foldsMax then some { s with folds := v.toNat } else none
  | .seed => if Int.ofNat Gen.Splitter.seedMin ≤ v ∧ v ≤ Int.ofNat Gen.Splitter.seedMax then some { s with seed := v.toNat } else none
  | .trainPer =>
    if s.kind = .random ∧ Int.ofNat Gen.Splitter.trainPerMin ≤ v ∧ v ≤ Int.ofNat Gen.Splitter.trainPerMax
    then some { s with trainPer := v.toNat } else none

/-- `split(samples)` of an object whose parameters are `s`: a new generator from the seed on every call
    (`make_rng(seed)` is a local of `split`), one shuffle (k-fold) or one per fold (random) -/
def Splitter.split {G : Type} (seedRng : Nat → G) (shuffle : G → List Int → List Int × G) (sort : List Int → List Int)
    (s : Splitter) (samples : List Int) : List (List Int × List Int) :=
  match s.kind with
  | .kfold => kfold sort (shuffle (seedRng s.seed) samples).1 s.folds
  | .random => randomSplit sort (randomPerms shuffle (seedRng s.seed) samples s.folds) s.trainPer

/-- a history over numbered objects (slot 0 is the first one constructed) -/
inductive HCmd
  | set (slot : Nat) (p : PName) (v : Int)
  | split (slot : Nat) (samples : List Int)
  | clone (slot : Nat)
deriving Repr

inductive HOut
  | ok
  | refused
  | splits (r : List (List Int × List Int))
  | badSlot
deriving Repr, DecidableEq

def hStep {G : Type} (seedRng : Nat → G) (shuffle : G → List Int → List Int × G) (sort : List Int → List Int)
    (objs : List Splitter) : HCmd → HOut × List Splitter
  | .set slot p v =>
    match objs[slot]? with
    | none => (.badSlot, objs)
    | some s =>
      match s.set p v with
      | some s' => (.ok, objs.set slot s')
      | none => (.refused, objs)
  | .split slot samples =>
    match objs[slot]? with
    | none => (.badSlot, objs)
    | some s => (.splits (s.split seedRng shuffle sort samples), objs)
  | .clone slot =>
    match objs[slot]? with
    | none => (.badSlot, objs)
    | some s => (.ok, objs ++ [s])

def hRun {G : Type} (seedRng : Nat → G) (shuffle : G → List Int → List Int × G) (sort : List Int → List Int) :
    List Splitter → List HCmd → List HOut × List Splitter
  | objs, [] => ([], objs)
  | objs, c :: cs =>
    let r := hStep seedRng shuffle sort objs c
    let rs := hRun seedRng shuffle sort r.2 cs
    (r.1 :: rs.1, rs.2)

end NanoVerif.Split
