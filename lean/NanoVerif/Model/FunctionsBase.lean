import NanoVerif.Model.Constraint
/-
  C06 — model of the `function_t` base class (core Lean only; linked into `driver_c06`).

  Mirrors
    src/function.cpp:58-66      `function_t::constrain(constraint_t&&)`            -> `Op.cg`  (acceptance = `C.compatible`, Model/Constraint.lean)
    src/function.cpp:68-77      `function_t::constrain(min, max, dimension)`       -> `Op.cd`
    src/function.cpp:79-91      `function_t::constrain(min, max)`                  -> `Op.cb`
    src/function.cpp:93-105     `function_t::constrain(const vector_t&, const vector_t&)` -> `Op.cv`
    src/function.cpp:107-115    `function_t::valid(x)`                             -> `Op.valid`
    src/function.cpp:122-130    `function_t::vgrad(x, gx)`: the two call counters  -> `Op.eval`
    src/function.cpp:132-146    `fcalls`, `gcalls`, `clear_statistics`             -> `St.fcalls`, `St.gcalls`, `Op.clr`
    src/function/benchmark/{powell.cpp:7, rosenbrock.cpp:7, elastic_net.cpp:27-35} and the other constructors:
                                `size()` of `make(dims, summands)`                 -> `SizeRule`, `sizeBy`, `makeSize`

  The values / gradients (`do_vgrad`) are in Model/Functions.lean; here is the bookkeeping around them: which constraints a
  function accepts and stores, in which order, what `valid` answers, and what the call counters count.
-/
namespace NanoVerif.FnBase
open NanoVerif.Constraint

/-! ### `size()` of the prototype built by `make(dims, summands)` -/

/-- the three rules of the constructors: `dims` itself; `max(dims, 2)` (rosenbrock, the elastic-net prototypes);
    `max(4, dims - dims % 4)` (powell) -/
inductive SizeRule where
  | same | atLeast2 | powell
deriving DecidableEq, Repr

def sizeBy : SizeRule → Nat → Nat
  | .same, d => d
  | .atLeast2, d => max d 2
  | .powell, d => max 4 (d - d % 4)

/-- the rule by registered id (`<loss>+<regulariser>[…]` = the elastic-net prototypes) -/
def sizeRuleOfId (id : String) : SizeRule :=
  if id.toList.contains '+' then .atLeast2
  else if id = "rosenbrock" then .atLeast2
  else if id = "powell" then .powell
  else .same

def makeSize (id : String) (dims : Nat) : Nat := sizeBy (sizeRuleOfId id) dims

/-! ### the state of the base class and the operations on it -/

/-- `m_size`, `m_constraints`, `m_fcalls`, `m_gcalls` -/
structure St (α : Type) where
  size : Nat
  cons : List (C α)
  fcalls : Nat
  gcalls : Nat

inductive Op (α : Type) where
  /-- `constrain(constraint_t&&)` -/
  | cg (c : C α)
  /-- `constrain(min, max)`: every dimension -/
  | cb (lo hi : α)
  /-- `constrain(min, max, dimension)`; `dimension` is a signed `tensor_size_t` -/
  | cd (lo hi : α) (dim : Int)
  /-- `constrain(const vector_t& min, const vector_t& max)` -/
  | cv (lo hi : List α)
  /-- `valid(x)` -/
  | valid (x : List α)
  /-- `vgrad(x, gx)` with `gx.size() = gxSize` (0 = value only) -/
  | eval (gxSize : Nat)
  /-- `clear_statistics()` -/
  | clr

section
variable {α : Type} [Add α] [Sub α] [Mul α] [Div α] [Neg α] [LT α] [DecidableLT α]
  [OfNat α 0] [OfNat α 1] [OfNat α 2]

/-- `for i in start..start+k: emplace_back(minimum_t{min, i}); emplace_back(maximum_t{max, i})` -/
def boxFrom (lo hi : α) : Nat → Nat → List (C α)
  | 0, _ => []
  | k + 1, i => C.minimum lo i :: C.maximum hi i :: boxFrom lo hi k (i + 1)

/-- `for i: emplace_back(minimum_t{min(i), i}); emplace_back(maximum_t{max(i), i})` -/
def boxVec : List α → List α → Nat → List (C α)
  | l :: ls, h :: hs, i => C.minimum l i :: C.maximum h i :: boxVec ls hs (i + 1)
  | _, _, _ => []

/-- `(max - min).minCoeff() > 0.0` on non-NaN data: every difference is positive -/
def allPos : List α → List α → Bool
  | l :: ls, h :: hs => decide (0 < h - l) && allPos ls hs
  | _, _ => true

/-- one operation: the new state and the `bool` the call returns (`none` for `vgrad` / `clear_statistics`);
    `eps` = `std::numeric_limits<scalar_t>::epsilon()` of `valid` -/
def step (eps : α) (s : St α) : Op α → St α × Option Bool
  | .cg c =>
    if c.compatible s.size then ({ s with cons := s.cons ++ [c] }, some true) else (s, some false)
  | .cb lo hi =>
    if lo < hi then ({ s with cons := s.cons ++ boxFrom lo hi s.size 0 }, some true) else (s, some false)
  | .cd lo hi dim =>
    if lo < hi ∧ 0 ≤ dim ∧ dim < (s.size : Int) then
      ({ s with cons := s.cons ++ [C.minimum lo dim.toNat, C.maximum hi dim.toNat] }, some true)
    else (s, some false)
  | .cv lo hi =>
    if lo.length = s.size ∧ hi.length = s.size ∧ allPos lo hi = true then
      ({ s with cons := s.cons ++ boxVec lo hi 0 }, some true)
    else (s, some false)
  | .valid x => (s, some (s.cons.all fun c => decide (c.valid x < eps)))
  | .eval gxSize =>
    ({ s with fcalls := s.fcalls + 1, gcalls := s.gcalls + (if gxSize = s.size then 1 else 0) }, none)
  | .clr => ({ s with fcalls := 0, gcalls := 0 }, none)

/-- a history: the final state and the answers in order -/
def run (eps : α) : St α → List (Op α) → St α × List (Option Bool)
  | s, [] => (s, [])
  | s, op :: ops =>
    let r := step eps s op
    let rest := run eps r.1 ops
    (rest.1, r.2 :: rest.2)

/-- a freshly constructed function: no constraint, no call -/
def fresh (size : Nat) : St α := ⟨size, [], 0, 0⟩

end
end NanoVerif.FnBase
