import NanoVerif.Gen.DoneLogic
/-!
  C01 / C02 — model of libnano's solver skeleton (core Lean only; linked into `driver_c01` and `driver_c02`).

  Mirrors
    src/solver.cpp            `solver_t::done`  (through `Gen/DoneLogic.lean`, re-translated from the source on every check)
    src/solver/state.cpp      `gradient_test`, `valid`, `update_if_better`, `value_test`, `update_calls`, `nano::converged`
    src/solver/gd.cpp         `solver_gd_t::do_minimize`
    src/solver/cgd.cpp        `solver_cgd_t::do_minimize`, the ten β formulas, the restart rule
    src/solver/lbfgs.cpp      `solver_lbfgs_t::do_minimize`: two-loop recursion, forced-descent fallback, pair skipping, history bound
    src/solver/quasi.cpp      `solver_quasi_t::do_minimize`: SR1 / DFP / BFGS / Hoshino / Fletcher updates of `H`, restart, scaled start
    src/function.cpp          `function_t::vgrad` (the call counters)
    src/solver/{sgm,cocob,asga,pdsgm,universal,osga,ellipsoid,…}.cpp  only through the generic non-monotonic loop `nmLoop`

  One definition, generic over the scalar `α`: run at `Float` by the drivers, proved over ordered fields in `Props/C01.lean`,
  `Props/C02.lean`.

  * The objective is an ORACLE `f : Vec α → α × Vec α` (value and gradient).
  * The line search (`lsearch_t::get` = `lsearch0_t::get` + `lsearchk_t::get`) is an ORACLE
    `ls : Nat → State α → Vec α → State α × Bool`: the answer to the `k`-th call (counted from 0 inside one `minimize`), from
    the current state and the descent direction, is the state it leaves behind and its `ok` flag. The drivers replay the
    logged answers by position; the theorems hold for every oracle that meets the contract "the state left behind is an
    evaluation of `f`" (C07 proves that the five line searches meet it).
  * `Env` carries what the scalar type must supply besides ring operations: `std::isfinite`, `sqrt`,
    `numeric_limits::lowest()` and `max()`.
  * Every C++ `while (fcalls + gcalls < max_evals)` loop recurses structurally on an explicit fuel (each real iteration
    either evaluates the function at least once or stops; the model does not assume it).
-/
namespace NanoVerif.Solver
open NanoVerif.Gen.DoneLogic

abbrev Vec (α : Type) := List α
abbrev Mat (α : Type) := List (List α)

/-- numeric environment of the scalar type -/
structure Env (α : Type) where
  fin : α → Bool          -- std::isfinite
  sqrt : α → α
  lowest : α              -- std::numeric_limits<scalar_t>::lowest()
  maxv : α                -- std::numeric_limits<scalar_t>::max()

/-- `solver_state_t` as far as the unconstrained solvers use it -/
structure State (α : Type) where
  x : Vec α
  fx : α
  gx : Vec α
  status : Status
  fcalls : Nat
  gcalls : Nat

section
variable {α : Type} [Add α] [Sub α] [Mul α] [Div α] [Neg α] [LT α] [LE α] [DecidableLT α] [DecidableLE α] [∀ n, OfNat α n]

/-! ### vectors and matrices (Eigen expressions, element by element) -/

/-- `a.dot(b)` -/
def vdot : Vec α → Vec α → α
  | a :: as, b :: bs => a * b + vdot as bs
  | _, _ => 0

/-- `a + b` -/
def vadd : Vec α → Vec α → Vec α
  | a :: as, b :: bs => (a + b) :: vadd as bs
  | _, _ => []

/-- `a - b` -/
def vsub : Vec α → Vec α → Vec α
  | a :: as, b :: bs => (a - b) :: vsub as bs
  | _, _ => []

/-- `-a` -/
def vneg (a : Vec α) : Vec α := a.map (fun v => -v)

/-- `c * a` -/
def vscale (c : α) (a : Vec α) : Vec α := a.map (fun v => c * v)

/-- `q - c * y` (lbfgs.cpp:51 `q -= alpha * y`) -/
def vsubScaled : Vec α → α → Vec α → Vec α
  | q :: qs, c, y :: ys => (q - c * y) :: vsubScaled qs c ys
  | _, _, _ => []

/-- `r + s * c` (lbfgs.cpp:74 `r += s * (alpha - beta)`) -/
def vaddScaled : Vec α → Vec α → α → Vec α
  | r :: rs, s :: ss, c => (r + s * c) :: vaddScaled rs ss c
  | _, _, _ => []

/-- `a.lpNorm<Eigen::Infinity>()` = `a.cwiseAbs().maxCoeff()`. The third branch is unreachable in a linear order; at `Float`
    it is taken exactly when a NaN is involved and makes the result NaN (Eigen leaves the NaN behaviour of `maxCoeff`
    unspecified; the runs of the harness show a NaN result — `gradient_test() < epsilon` is false — whenever an entry is NaN) -/
def infNorm (a : Vec α) : α :=
  a.foldl (fun m v => let w := absv v; if m < w then w else if w ≤ m then m else m + w) 0

/-- `a.squaredNorm()` -/
def sqNorm (a : Vec α) : α := vdot a a

/-- `H * v` -/
def matVec (H : Mat α) (v : Vec α) : Vec α := H.map (fun row => vdot row v)

/-- column `j` of a matrix given by rows -/
def matCol (H : Mat α) (j : Nat) : Vec α := H.map (fun row => row.getD j 0)

/-- `v.transpose() * H` -/
def vecMat (n : Nat) (v : Vec α) (H : Mat α) : Vec α := (List.range n).map (fun j => vdot v (matCol H j))

/-- `A * B` (square matrices of size `n`) -/
def matMul (n : Nat) (A B : Mat α) : Mat α := A.map (fun row => (List.range n).map (fun j => vdot row (matCol B j)))

/-- `u * v.transpose()` -/
def outer (u v : Vec α) : Mat α := u.map (fun a => v.map (fun b => a * b))

def matZipWith (f : α → α → α) : Mat α → Mat α → Mat α
  | a :: as, b :: bs => List.zipWith f a b :: matZipWith f as bs
  | _, _ => []

def matAdd (A B : Mat α) : Mat α := matZipWith (· + ·) A B
def matSub (A B : Mat α) : Mat α := matZipWith (· - ·) A B
/-- `A / c` -/
def matDiv (A : Mat α) (c : α) : Mat α := A.map (fun row => row.map (fun v => v / c))
/-- `c * A` -/
def matScale (c : α) (A : Mat α) : Mat α := A.map (fun row => row.map (fun v => c * v))

/-- `matrix_t::identity(n, n)` -/
def identity (n : Nat) : Mat α := (List.range n).map (fun i => (List.range n).map (fun j => if i = j then 1 else 0))

/-! ### `solver_state_t` -/

/-- `solver_state_t::gradient_test()` (state.cpp:155-163) -/
def gradientTestS (s : State α) : α := gradientTest (infNorm s.gx) s.fx

/-- `solver_state_t::valid()` (state.cpp:165-169) for a function without constraints (the four constraint vectors are empty) -/
def valid (env : Env α) (s : State α) : Bool :=
  validShape (env.fin s.fx) (s.x.all env.fin) (s.gx.all env.fin) true true true true

/-- `solver_state_t::dg(descent)` / `has_descent(descent)` (state.h:118-126) -/
def hasDescent (g d : Vec α) : Bool := decide (vdot g d < 0)

/-- `solver_t::done(state, iter_ok, converged)` (solver.cpp:118-136): the decision is the generated `doneCond`/`doneStatus`;
    the counters of the modelled state already are the function's counters (`update_calls`) -/
def done (env : Env α) (s : State α) (iterOk converged : Bool) : State α × Bool :=
  let v := valid env s
  ({ s with status := doneNewStatus s.status iterOk converged v }, doneReturn iterOk converged v)

/-! ### the loop shared by gd / cgd / lbfgs / quasi -/

/-- the objective as an oracle: value and gradient -/
abbrev Objective (α : Type) := Vec α → α × Vec α

/-- the line search as an oracle (see the header) -/
abbrev Ls (α : Type) := Nat → State α → Vec α → State α × Bool

/-- what distinguishes the four solver bodies: the memory `M` kept between iterations, how the direction is computed from
    it (`direction mem pstate cstate`), how it is updated after an iteration that does not stop (`update mem pstate cstate`,
    with `pstate` the state before the line search), and the four generated fragments of the body -/
structure Rule (α : Type) (M : Type) where
  init : M
  direction : M → State α → State α → Vec α × M
  update : M → State α → State α → M
  convInit : α → α → Bool
  conv : α → α → Bool
  guard : Nat → Nat → Nat → Bool
  returnsCurrent : Bool → Bool

/-- result of the loop: previous state, current state, and per iteration the direction handed to the line search
    together with the memory at that moment (oldest first) -/
structure Out (α : Type) (M : Type) where
  p : State α
  c : State α
  trace : List (Vec α × M)

/-- `while (function.fcalls() + function.gcalls() < max_evals) { direction; pstate = cstate; iter_ok = lsearch.get(cstate, d);
    converged = cstate.gradient_test() < epsilon; if (done(cstate, iter_ok, converged)) break; update memory; }` -/
def lsLoop {M : Type} (env : Env α) (rule : Rule α M) (ls : Ls α) (eps : α) (maxEvals : Nat) :
    Nat → Nat → M → State α → State α → Out α M
  | 0, _, _, p, c => ⟨p, c, []⟩
  | fuel + 1, k, m, p, c =>
    if rule.guard c.fcalls c.gcalls maxEvals then
      let dm := rule.direction m p c
      let r := ls k c dm.1
      let d := done env r.1 r.2 (rule.conv (gradientTestS r.1) eps)
      if d.2 then ⟨c, d.1, [dm]⟩
      else
        let o := lsLoop env rule ls eps maxEvals fuel (k + 1) (rule.update dm.2 c d.1) c d.1
        ⟨o.p, o.c, dm :: o.trace⟩
    else ⟨p, c, []⟩

/-- `return cstate.valid() ? cstate : pstate;` (or `return state;` for gd) -/
def lsResult {M : Type} (env : Env α) (rule : Rule α M) (o : Out α M) : State α :=
  if rule.returnsCurrent (valid env o.c) then o.c else o.p

/-- `solver_state_t{function, x0}` after `function.clear_statistics()`: one value and one gradient evaluation -/
def initState (f : Objective α) (x0 : Vec α) : State α :=
  let c := vgradCounters 0 0 true
  let u := updateCalls c.1 c.2
  ⟨x0, (f x0).1, (f x0).2, Status.initial, u.1, u.2⟩

/-- the part of `do_minimize` after the construction of the initial state `c0` -/
def lsRun {M : Type} (env : Env α) (rule : Rule α M) (ls : Ls α) (eps : α) (maxEvals fuel : Nat) (c0 : State α) :
    State α × List (Vec α × M) :=
  let d := done env c0 true (rule.convInit (gradientTestS c0) eps)
  if d.2 then (d.1, [])
  else
    -- NB: quasi.cpp starts with a default-constructed `pstate`; it is overwritten before its first use and it is only
    -- returned when `cstate` is invalid, which cannot be the case before the first iteration (the initial `done` returned false)
    let o := lsLoop env rule ls eps maxEvals fuel 0 rule.init d.1 d.1
    (lsResult env rule o, o.trace)

/-- `solver_t::minimize` of a line-search solver -/
def lsMinimize {M : Type} (env : Env α) (rule : Rule α M) (ls : Ls α) (f : Objective α) (eps : α) (maxEvals fuel : Nat)
    (x0 : Vec α) : State α :=
  (lsRun env rule ls eps maxEvals fuel (initState f x0)).1

/-! ### gd (gd.cpp:33-47) -/

def gdRule : Rule α Unit where
  init := ()
  direction := fun _ _ c => (vneg c.gx, ())
  update := fun _ _ _ => ()
  convInit := gdConvergedInit
  conv := gdConverged
  guard := gdGuard
  returnsCurrent := gdReturnsCurrent

/-! ### L-BFGS (lbfgs.cpp:36-115) -/

/-- the two loops of lbfgs.cpp:44-75 as one structural recursion over the history, newest pair first:
    first loop on the way down (`alpha = s.dot(q) / s.dot(y); q -= alpha * y`), the scaling `r = s.dot(y) / y.dot(y) * q` with
    the newest pair at the bottom (`gamma`; `none` for an empty history: `r = q`), second loop on the way up
    (`beta = y.dot(r) / s.dot(y); r += s * (alpha - beta)`) -/
def twoLoop (gamma : Option α) : List (Vec α × Vec α) → Vec α → Vec α
  | [], q => match gamma with
    | none => q
    | some c => vscale c q
  | (s, y) :: older, q =>
    let a := vdot s q / vdot s y
    let r := twoLoop gamma older (vsubScaled q a y)
    let b := vdot y r / vdot s y
    vaddScaled r s (a - b)

/-- lbfgs.cpp:57-66: the scaling factor taken from the newest pair -/
def lbfgsGamma : List (Vec α × Vec α) → Option α
  | [] => none
  | (s, y) :: _ => some (vdot s y / vdot y y)

/-- `descent = -r` before the forced-descent test -/
def lbfgsRaw (hist : List (Vec α × Vec α)) (g : Vec α) : Vec α := vneg (twoLoop (lbfgsGamma hist) hist g)

/-- memory of L-BFGS: the pairs `(s, y)` newest first and the `has_descent` flag of the current iteration -/
structure LbfgsMem (α : Type) where
  hist : List (Vec α × Vec α)
  descentOk : Bool

/-- lbfgs.cpp:77-85: `has_descent = cstate.has_descent(descent); if (!has_descent) descent = -cstate.gx();` -/
def lbfgsDirection (m : LbfgsMem α) (c : State α) : Vec α × LbfgsMem α :=
  let d := lbfgsRaw m.hist c.gx
  let ok := hasDescent c.gx d
  (if ok then d else vneg c.gx, ⟨m.hist, ok⟩)

/-- lbfgs.cpp:96-112: the pair is stored iff the recursion gave a descent direction (NOT iff `s·y > 0`); otherwise the
    history is cleared; at most `history` pairs are kept (`pop_front` drops the oldest) -/
def lbfgsUpdate (history : Nat) (m : LbfgsMem α) (p c : State α) : LbfgsMem α :=
  if m.descentOk then ⟨((vsub c.x p.x, vsub c.gx p.gx) :: m.hist).take history, m.descentOk⟩
  else ⟨[], m.descentOk⟩

def lbfgsRule (history : Nat) : Rule α (LbfgsMem α) where
  init := ⟨[], true⟩
  direction := fun m _ c => lbfgsDirection m c
  update := lbfgsUpdate history
  convInit := lbfgsConvergedInit
  conv := lbfgsConverged
  guard := lbfgsGuard
  returnsCurrent := lbfgsReturnsCurrent

/-! ### conjugate gradient descent (cgd.cpp:8-140) -/

inductive CgdKind where
  | hs | fr | pr | cd | ls | dy | n | dycd | dyhs | frpr
deriving DecidableEq, Repr

def betaHS (pg pd cg : Vec α) : α := vdot cg (vsub cg pg) / vdot pd (vsub cg pg)
def betaFR (pg _pd cg : Vec α) : α := sqNorm cg / sqNorm pg
def betaPR (pg _pd cg : Vec α) : α := vdot cg (vsub cg pg) / sqNorm pg
def betaCD (pg pd cg : Vec α) : α := (-(sqNorm cg)) / vdot pd pg
def betaLS (pg pd cg : Vec α) : α := (-(vdot cg (vsub cg pg))) / vdot pd pg
def betaDY (pg pd cg : Vec α) : α := sqNorm cg / vdot pd (vsub cg pg)

/-- cgd.cpp:38-49 `N(+)`; `eta` is `solver::cgdN::eta` -/
def betaN (env : Env α) (eta : α) (pg pd cg : Vec α) : α :=
  let y := vsub cg pg
  let div := 1 / vdot pd y
  let pd2 := env.sqrt (sqNorm pd)
  let pg2 := env.sqrt (sqNorm pg)
  let eta' := (-1) / (pd2 * cmin eta pg2)
  let ysq := sqNorm y
  -- `(y - 2 * pd * y.squaredNorm() * div).dot(cg)`
  let w := (List.zipWith (fun yi pi => yi - 2 * pi * ysq * div) y pd)
  cmax eta' (div * vdot w cg)

def betaDYHS (pg pd cg : Vec α) : α := cmax 0 (cmin (betaDY pg pd cg) (betaHS pg pd cg))
def betaDYCD (pg pd cg : Vec α) : α := sqNorm cg / cmax (vdot pd (vsub cg pg)) (-(vdot pd pg))
def betaFRPR (pg pd cg : Vec α) : α :=
  let fr := betaFR pg pd cg
  let pr := betaPR pg pd cg
  if pr < -fr then -fr else if absv pr ≤ fr then pr else fr

/-- the virtual `beta(pg, pd, cg)` of the ten solver classes (cgd.cpp:215-270) -/
def cgdBeta (env : Env α) (kind : CgdKind) (eta : α) (pg pd cg : Vec α) : α :=
  match kind with
  | .hs => cmax (betaHS pg pd cg) 0
  | .fr => betaFR pg pd cg
  | .pr => cmax (betaPR pg pd cg) 0
  | .cd => betaCD pg pd cg
  | .ls => cmax (betaLS pg pd cg) 0
  | .dy => betaDY pg pd cg
  | .n => betaN env eta pg pd cg
  | .dycd => betaDYCD pg pd cg
  | .dyhs => betaDYHS pg pd cg
  | .frpr => betaFRPR pg pd cg

/-- cgd.cpp:93-117; memory = the previous descent direction (`none` while `cdescent.size() == 0`) -/
def cgdDirection (env : Env α) (kind : CgdKind) (eta orthotest : α) (m : Option (Vec α)) (p c : State α) :
    Vec α × Option (Vec α) :=
  match m with
  | none => (vneg c.gx, some (vneg c.gx))
  | some pd =>
    let beta := cgdBeta env kind eta p.gx pd c.gx
    -- `-cstate.gx() + beta * pdescent`
    let d := List.zipWith (fun g q => (-g) + beta * q) c.gx pd
    let restart := (!hasDescent c.gx d) || decide (absv (vdot c.gx p.gx) ≥ orthotest * vdot c.gx c.gx)
    let d' := if restart then vneg c.gx else d
    (d', some d')

def cgdRule (env : Env α) (kind : CgdKind) (eta orthotest : α) : Rule α (Option (Vec α)) where
  init := none
  direction := cgdDirection env kind eta orthotest
  update := fun m _ _ => m
  convInit := cgdConvergedInit
  conv := cgdConverged
  guard := cgdGuard
  returnsCurrent := cgdReturnsCurrent

/-! ### quasi-Newton (quasi.cpp:6-143) -/

inductive QuasiKind where
  | sr1 | dfp | bfgs | hoshino | fletcher
deriving DecidableEq, Repr

/-- quasi.cpp:8-12 `H + (dx - H dg)(dx - H dg)ᵀ / (dx - H dg)·dg` -/
def sr1Update (H : Mat α) (dx dg : Vec α) : Mat α :=
  let u := vsub dx (matVec H dg)
  matAdd H (matDiv (outer u u) (vdot u dg))

/-- quasi.cpp:14-24: SR1 is applied only when `|denom| ≥ r ‖dx‖ ‖dx − H dg‖` -/
def sr1Guarded (env : Env α) (r : α) (H : Mat α) (dx dg : Vec α) : Mat α :=
  let u := vsub dx (matVec H dg)
  let denom := vdot u dg
  if absv denom ≥ r * env.sqrt (sqNorm dx) * env.sqrt (sqNorm u) then sr1Update H dx dg else H

/-- quasi.cpp:26-30 `H + dx dxᵀ / dx·dg − (H dg dgᵀ H) / (dgᵀ H dg)` -/
def dfpUpdate (n : Nat) (H : Mat α) (dx dg : Vec α) : Mat α :=
  let Hdg := matVec H dg
  matSub (matAdd H (matDiv (outer dx dx) (vdot dx dg)))
    (matDiv (matMul n (outer Hdg dg) H) (vdot (vecMat n dg H) dg))

/-- quasi.cpp:38-45 `(I − dx dgᵀ / dx·dg) H (I − dg dxᵀ / dx·dg) + dx dxᵀ / dx·dg` -/
def bfgsUpdate (n : Nat) (H : Mat α) (dx dg : Vec α) : Mat α :=
  let sy := vdot dx dg
  let A := matSub (identity n) (matDiv (outer dx dg) sy)
  let B := matSub (identity n) (matDiv (outer dg dx) sy)
  matAdd (matMul n (matMul n A H) B) (matDiv (outer dx dx) sy)

/-- quasi.cpp:53-59 -/
def hoshinoUpdate (n : Nat) (H : Mat α) (dx dg : Vec α) : Mat α :=
  let phi := vdot dx dg / (vdot dx dg + vdot (vecMat n dg H) dg)
  matAdd (matScale (1 - phi) (dfpUpdate n H dx dg)) (matScale phi (bfgsUpdate n H dx dg))

/-- quasi.cpp:61-78 -/
def fletcherUpdate (n : Nat) (H : Mat α) (dx dg : Vec α) : Mat α :=
  let phi := vdot dx dg / (vdot dx dg - vdot (vecMat n dg H) dg)
  if phi < 0 then dfpUpdate n H dx dg
  else if phi > 1 then bfgsUpdate n H dx dg
  else sr1Update H dx dg

def quasiUpdateH (env : Env α) (kind : QuasiKind) (r : α) (n : Nat) (H : Mat α) (dx dg : Vec α) : Mat α :=
  match kind with
  | .sr1 => sr1Guarded env r H dx dg
  | .dfp => dfpUpdate n H dx dg
  | .bfgs => bfgsUpdate n H dx dg
  | .hoshino => hoshinoUpdate n H dx dg
  | .fletcher => fletcherUpdate n H dx dg

/-- memory of the quasi-Newton solvers: `H`, `first_iteration`, and the restart flag of the current iteration -/
structure QuasiMem (α : Type) where
  H : Mat α
  first : Bool
  descentOk : Bool

/-- quasi.cpp:109-118: `descent = -H * g; if (!has_descent) { descent = -g; H = I; }` -/
def quasiDirection (n : Nat) (m : QuasiMem α) (c : State α) : Vec α × QuasiMem α :=
  let d := vneg (matVec m.H c.gx)
  let ok := hasDescent c.gx d
  if ok then (d, ⟨m.H, m.first, true⟩) else (vneg c.gx, ⟨identity n, m.first, false⟩)

/-- quasi.cpp:129-139: scaled initialisation on the first iteration, then the update formula -/
def quasiUpdate (env : Env α) (kind : QuasiKind) (r : α) (scaled : Bool) (n : Nat) (m : QuasiMem α) (p c : State α) :
    QuasiMem α :=
  let dx := vsub c.x p.x
  let dg := vsub c.gx p.gx
  -- `H = identity * dx.dot(dg) / dg.dot(dg)`
  let H0 := if m.first && scaled then matDiv (matScale' (identity n) (vdot dx dg)) (vdot dg dg) else m.H
  ⟨quasiUpdateH env kind r n H0 dx dg, false, m.descentOk⟩
where
  /-- `A * c` -/
  matScale' (A : Mat α) (c : α) : Mat α := A.map (fun row => row.map (fun v => v * c))

def quasiRule (env : Env α) (kind : QuasiKind) (r : α) (scaled : Bool) (n : Nat) : Rule α (QuasiMem α) where
  init := ⟨identity n, true, true⟩
  direction := fun m _ c => quasiDirection n m c
  update := quasiUpdate env kind r scaled n
  convInit := quasiConvergedInit
  conv := quasiConverged
  guard := quasiGuard
  returnsCurrent := quasiReturnsCurrent

/-! ### best-state tracking of the non-monotonic solvers (state.cpp:51-153) -/

/-- a `solver_state_t` that is used through `update_if_better`: the state plus `m_history_df/dx` (most recent first) -/
structure BState (α : Type) where
  st : State α
  hist : List (α × α)

/-- `solver_state_t::update_if_better(x, gx, fx)` (state.cpp:51-80); `df` and `better` are the generated `uibDf`, `uibBetter` -/
def updateIfBetter (env : Env α) (b : BState α) (x gx : Vec α) (fx : α) : BState α × Bool :=
  if env.fin fx then
    let df := uibDf b.st.fx fx
    let dx := infNorm (vsub b.st.x x)
    let better := uibBetter df
    (⟨if better then { b.st with x := x, fx := fx, gx := gx } else b.st, (df, dx) :: b.hist⟩, better)
  else
    (⟨b.st, (env.lowest, env.lowest) :: b.hist⟩, false)

/-- position (0 = most recent) and entry of the most recent recorded improvement `df > 0` -/
def lastImprovement : List (α × α) → Nat → Option (Nat × α × α)
  | [], _ => none
  | (df, dx) :: rest, k => if df > 0 then some (k, df, dx) else lastImprovement rest (k + 1)

/-- `solver_state_t::value_test(patience)` (state.cpp:117-153) -/
def valueTest (env : Env α) (patience : Nat) (b : BState α) : α :=
  match lastImprovement b.hist 0 with
  | none => if b.hist.length ≥ patience then 0 else env.maxv
  | some (k, df, dx) => if k < patience then cmax df dx else 0

/-- what one iteration of a non-monotonic solver hands to the shared plumbing: the triples given to `update_if_better`
    (in order), `iter_ok`, the `converged` flag when it is not `value_test(patience) < epsilon` (`none` = it is), and the
    function's counters when `done` is called, and the function's counters when the loop guard is evaluated next (bundle
    solvers evaluate the function after `done`: there the two differ) -/
structure NmStep (α : Type) where
  cands : List (Vec α × Vec α × α)
  iterOk : Bool
  conv : Option Bool
  fcalls : Nat
  gcalls : Nat
  guardF : Nat
  guardG : Nat

/-- the candidates of one iteration, in order; also returns the best value before each call (most recent call first) -/
def applyCands (env : Env α) (b : BState α) (cands : List (Vec α × Vec α × α)) : BState α × List α :=
  cands.foldl (fun acc c => ((updateIfBetter env acc.1 c.1 c.2.1 c.2.2).1, acc.1.st.fx :: acc.2)) (b, [])

/-- what one iteration leaves behind: the state, whether `done` said stop, and for the record the best values seen by the
    `update_if_better` calls (in call order) and the `converged` flag handed to `done` -/
structure NmOut (α : Type) where
  b : BState α
  stop : Bool
  bests : List α
  conv : Bool
  guardF : Nat
  guardG : Nat

/-- one iteration: candidates, counters (`update_calls`), convergence flag, `done` -/
def nmIter (env : Env α) (patience : Nat) (eps : α) (b : BState α) (r : NmStep α) : NmOut α :=
  let ac := applyCands env b r.cands
  let b1 := ac.1
  let u := updateCalls r.fcalls r.gcalls
  let s1 : State α := { b1.st with fcalls := u.1, gcalls := u.2 }
  let conv := match r.conv with
    | some c => c
    | none => decide (valueTest env patience b1 < eps)
  let d := done env s1 r.iterOk conv
  ⟨⟨d.1, b1.hist⟩, d.2, ac.2.reverse, conv, r.guardF, r.guardG⟩

/-- the generic loop `while (function.fcalls() + function.gcalls() < max_evals) { step; update_if_better…; if (done(state,
    iter_ok, converged)) break; … }` with the step as an oracle (it is told the iteration number, the function's counters `gf`, `gg` at the guard and the state). Returns
    the final state and the per-iteration records (oldest first). The guard is the generated guard of gd.cpp (every
    `do_minimize` has the same one) -/
def nmLoop (env : Env α) (step : Nat → Nat × Nat → BState α → NmStep α) (patience : Nat) (eps : α) (maxEvals : Nat) :
    Nat → Nat → Nat → Nat → BState α → BState α × List (NmOut α)
  | 0, _, _, _, b => (b, [])
  | fuel + 1, k, gf, gg, b =>
    if gdGuard gf gg maxEvals then
      let r := nmIter env patience eps b (step k (gf, gg) b)
      if r.stop then (r.b, [r])
      else
        let o := nmLoop env step patience eps maxEvals fuel (k + 1) r.guardF r.guardG r.b
        (o.1, r :: o.2)
    else (b, [])

end
end NanoVerif.Solver
