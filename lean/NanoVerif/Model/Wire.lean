import NanoVerif.Model.Codec
import NanoVerif.Gen.CodecConsts
/-!
  C15 — the concrete wire formats of libnano, built from the combinators of `Model/Codec.lean` (core Lean only).

  Strings (names, ids, labels) are byte lists; doubles are their 64-bit patterns (`Nat`); tensor payloads are raw bytes.
  Every definition names the C++ lines it mirrors.
-/
namespace NanoVerif.Codec
open NanoVerif.Gen.CodecConsts

/-! ### tensors — include/nano/tensor/stream.h:12-62, include/nano/core/hash.h:18-50 -/

/-- the ten scalar types tensors are instantiated with -/
inductive Scalar
  | i8 | i16 | i32 | i64 | u8 | u16 | u32 | u64 | f32 | f64
  deriving DecidableEq, Repr, Inhabited

def Scalar.size : Scalar → Nat
  | .i8 | .u8 => 1
  | .i16 | .u16 => 2
  | .i32 | .u32 | .f32 => 4
  | .i64 | .u64 | .f64 => 8

/-- `static_cast<uint64_t>(data[i])` sign-extends exactly for the signed integer types; floats are hashed through
    their bit pattern (zero-extended), unsigned integers are zero-extended (hash.h:31-47) -/
def Scalar.signed : Scalar → Bool
  | .i8 | .i16 | .i32 | .i64 => true
  | _ => false

/-- the 64-bit value `hash_combine` receives for one element, from the element's bytes -/
def elemHash (k : Scalar) (chunk : Bytes) : UInt64 :=
  let u := leNat chunk
  if k.signed && decide (256 ^ k.size / 2 ≤ u) then UInt64.ofNat (u + (2 ^ 64 - 256 ^ k.size)) else UInt64.ofNat u

/-- the payload cut into `n` elements of `sz` bytes -/
def chunkN (sz : Nat) : Nat → Bytes → List Bytes
  | 0, _ => []
  | n + 1, bs => bs.take sz :: chunkN sz n (bs.drop sz)

/-- `hash = hash_combine(hash, element)` from 0 over the elements (hash.h:26-49) -/
def hashList (hs : List UInt64) : UInt64 := hs.foldl hashCombine 0

/-- `detail::hash(tensor.data(), tensor.size())` as a function of the payload bytes -/
def hashPayload (k : Scalar) (n : Nat) (payload : Bytes) : UInt64 :=
  hashList ((chunkN k.size n payload).map (elemHash k))

structure Tensor where
  dims : List Int
  payload : Bytes
  deriving DecidableEq, Repr, Inhabited

/-- `tensor.size()`: the product of the dimensions (read back as `int32_t`, so possibly negative) -/
def dimsSize : List Int → Int
  | [] => 1
  | d :: ds => d * dimsSize ds

/-- version, rank, `int32` dimensions, sizeof(scalar); the reader refuses a mismatch of any of the three constants
    (stream.h:15-18 / 39-46). The value is the list of dimensions. -/
def tensorHeader (k : Scalar) (rank : Nat) : Codec (List Int) :=
  pmap (seq (const u32 hashVersion) (seq (const u32 rank) (seq (rep i32 rank) (const u32 k.size))))
    (fun p => some p.2.2.1) (fun ds => ((), (), ds, ()))

/-- hash(content), content; the reader recomputes the hash (stream.h:19-20 / 43, 52-57) -/
def tensorBody (k : Scalar) (n : Nat) : Codec Bytes :=
  pmap (seq u64 (raw (n * k.size)))
    (fun p => if p.1 = (hashPayload k n p.2).toNat then some p.2 else none)
    (fun pl => ((hashPayload k n pl).toNat, pl))

/-- `nano::write/read(stream, tensor_t<…, tscalar, trank>)`. A negative element count makes `tensor.resize` allocate
    nothing and `istream::read` fail on the negative byte count (release build; `harness/c15.cpp` is compiled with
    `-DNDEBUG`, a build with Eigen's assertions enabled aborts there instead) -/
def tensor (k : Scalar) (rank : Nat) : Codec Tensor :=
  pmap (dseq (tensorHeader k rank)
          (fun ds => if dimsSize ds < 0 then fail else tensorBody k (dimsSize ds).toNat))
    (fun p => some ⟨p.1, p.2⟩) (fun t => (t.dims, t.payload))

/-! ### parameters — src/parameter.cpp:103-146 (readers), 148-175 + 380-408 (writers), 340-378 (`parameter_t::read`) -/

inductive PStorage
  | none
  | enum (value : Bytes) (domain : List Bytes)
  | irange (value min max : Int) (minLE maxLE : Bool)
  | frange (value min max : Nat) (minLE maxLE : Bool)
  | iprange (value1 value2 min max : Int) (minLE maxLE valLE : Bool)
  | fprange (value1 value2 min max : Nat) (minLE maxLE valLE : Bool)
  | str (value : Bytes)
  deriving DecidableEq, Repr, Inhabited

/-- the `int32_t type` written in front of each alternative -/
def PStorage.tag : PStorage → Int
  | .none => -1
  | .enum .. => 0
  | .irange .. => 1
  | .frange .. => 2
  | .iprange .. => 3
  | .fprange .. => 4
  | .str .. => 5

def rangeOf {α : Type} (c : Codec α) : Codec (α × α × α × Bool × Bool) := seq c (seq c (seq c (seq flag flag)))

/-- wire order of a pair range: value1, value2, min, max, minLE, maxLE, valueLE (parameter.cpp:136-142, 166-172) -/
def prangeOf {α : Type} (c : Codec α) : Codec (α × α × α × α × Bool × Bool × Bool) :=
  seq c (seq c (seq c (seq c (seq flag (seq flag flag)))))

/-- the fields that follow `type` and `name`, selected by `type` (the `switch` of parameter.cpp:346-375) -/
def storage (tag : Int) : Codec PStorage :=
  if tag = -1 then pmap unit (fun _ => some .none) (fun _ => ())
  else if tag = 0 then
    pmap (seq str (vec str)) (fun p => some (.enum p.1 p.2))
      (fun s => match s with | .enum v d => (v, d) | _ => default)
  else if tag = 1 then
    pmap (rangeOf i64) (fun p => some (.irange p.1 p.2.1 p.2.2.1 p.2.2.2.1 p.2.2.2.2))
      (fun s => match s with | .irange v mn mx a b => (v, mn, mx, a, b) | _ => default)
  else if tag = 2 then
    pmap (rangeOf u64) (fun p => some (.frange p.1 p.2.1 p.2.2.1 p.2.2.2.1 p.2.2.2.2))
      (fun s => match s with | .frange v mn mx a b => (v, mn, mx, a, b) | _ => default)
  else if tag = 3 then
    pmap (prangeOf i64) (fun p => some (.iprange p.1 p.2.1 p.2.2.1 p.2.2.2.1 p.2.2.2.2.1 p.2.2.2.2.2.1 p.2.2.2.2.2.2))
      (fun s => match s with | .iprange v1 v2 mn mx a b c => (v1, v2, mn, mx, a, b, c) | _ => default)
  else if tag = 4 then
    pmap (prangeOf u64) (fun p => some (.fprange p.1 p.2.1 p.2.2.1 p.2.2.2.1 p.2.2.2.2.1 p.2.2.2.2.2.1 p.2.2.2.2.2.2))
      (fun s => match s with | .fprange v1 v2 mn mx a b c => (v1, v2, mn, mx, a, b, c) | _ => default)
  else if tag = 5 then
    pmap str (fun v => some (.str v)) (fun s => match s with | .str v => v | _ => default)
  else fail

structure Parameter where
  name : Bytes
  storage : PStorage
  deriving DecidableEq, Repr, Inhabited

/-- `parameter_t::write/read`: type, name, then the alternative's fields -/
def parameter : Codec Parameter :=
  pmap (dseq i32 (fun tag => seq str (storage tag)))
    (fun p => some ⟨p.2.1, p.2.2⟩) (fun q => (q.storage.tag, q.name, q.storage))

/-! ### configurables — src/configurable.cpp:58-84 -/

abbrev Version := Int × Int × Int

def libVersion : Version := (majorVersion, minorVersion, patchVersion)

/-- the negation of the `critical(...)` condition of configurable.cpp:64-68: not newer than the library -/
def versionOk (v : Version) : Bool :=
  !(decide (v.1 > majorVersion) ||
    (decide (v.1 = majorVersion) && decide (v.2.1 > minorVersion)) ||
    (decide (v.1 = majorVersion) && decide (v.2.1 = minorVersion) && decide (v.2.2 > patchVersion)))

/-- three `int32_t`; the writer always emits the library's version (configurable.cpp:77-79), the reader keeps what it
    read if it is not newer than the library -/
def version : Codec Version :=
  pmap (seq i32 (seq i32 i32)) (fun v => if versionOk v then some v else none) (fun _ => libVersion)

structure Configurable where
  ver : Version
  params : List Parameter
  deriving DecidableEq, Repr, Inhabited

def configurable : Codec Configurable :=
  pmap (seq version (vec parameter)) (fun p => some ⟨p.1, p.2⟩) (fun c => (c.ver, c.params))

/-! ### features — src/feature.cpp:114-133, include/nano/feature.h:17-53, include/nano/core/strutil.h:45-62 -/

/-- `enum_string<feature_type>()` in declaration order, as ASCII bytes -/
def featureNames : List Bytes := [
  [0x69, 0x6e, 0x74, 0x38],                          -- int8
  [0x69, 0x6e, 0x74, 0x31, 0x36],                    -- int16
  [0x69, 0x6e, 0x74, 0x33, 0x32],                    -- int32
  [0x69, 0x6e, 0x74, 0x36, 0x34],                    -- int64
  [0x75, 0x69, 0x6e, 0x74, 0x38],                    -- uint8
  [0x75, 0x69, 0x6e, 0x74, 0x31, 0x36],              -- uint16
  [0x75, 0x69, 0x6e, 0x74, 0x33, 0x32],              -- uint32
  [0x75, 0x69, 0x6e, 0x74, 0x36, 0x34],              -- uint64
  [0x66, 0x6c, 0x6f, 0x61, 0x74, 0x33, 0x32],        -- float32
  [0x66, 0x6c, 0x6f, 0x61, 0x74, 0x36, 0x34],        -- float64
  [0x73, 0x63, 0x6c, 0x61, 0x73, 0x73],              -- sclass
  [0x6d, 0x63, 0x6c, 0x61, 0x73, 0x73]]              -- mclass

def findIdx {α : Type} (p : α → Bool) : List α → Option Nat
  | [] => none
  | x :: xs => if p x then some 0 else (findIdx p xs).map (· + 1)

/-- `from_string<feature_type>`: first an exact match, then the first option that is a prefix of the string, else
    `std::invalid_argument` -/
def featureTypeOf (s : Bytes) : Option Nat :=
  match findIdx (fun n => n == s) featureNames with
  | some i => some i
  | none => findIdx (fun n => n.isPrefixOf s) featureNames

def featureType : Codec Nat := pmap str featureTypeOf (fun i => featureNames.getD i [])

structure Feature where
  type : Nat
  dims : Int × Int × Int
  name : Bytes
  labels : List Bytes
  deriving DecidableEq, Repr, Inhabited

/-- type name, `tensor3d_dims_t` as 24 raw bytes (three `int64_t`: the trivially-copyable overload), name, labels -/
def feature : Codec Feature :=
  pmap (seq featureType (seq (seq i64 (seq i64 i64)) (seq str (vec str))))
    (fun p => some ⟨p.1, p.2.1, p.2.2.1, p.2.2.2⟩) (fun f => (f.type, f.dims, f.name, f.labels))

/-! ### learners — src/learner.cpp:30-48 -/

structure Learner where
  cfg : Configurable
  inputs : List Feature
  target : Feature
  deriving DecidableEq, Repr, Inhabited

def learner : Codec Learner :=
  pmap (seq configurable (seq (vec feature) feature))
    (fun p => some ⟨p.1, p.2.1, p.2.2⟩) (fun l => (l.cfg, l.inputs, l.target))

/-! ### linear models — src/linear.cpp:58-76 -/

structure Linear where
  base : Learner
  bias : Tensor
  weights : Tensor
  deriving DecidableEq, Repr, Inhabited

/-- `critical(m_bias.size() != m_weights.rows(), …)` -/
def linearOk (bias weights : Tensor) : Bool := decide (dimsSize bias.dims = weights.dims.headD 0)

def linear : Codec Linear :=
  pmap (seq learner (seq (tensor .f64 1) (tensor .f64 2)))
    (fun p => if linearOk p.2.1 p.2.2 then some ⟨p.1, p.2.1, p.2.2⟩ else none)
    (fun l => (l.base, l.bias, l.weights))

/-! ### weak learners — src/wlearner/{single,stump,hinge,table,dtree}.cpp -/

/-- single.cpp:19-37: learner, feature index as `int64_t`, tables (`tensor4d_t`) -/
structure Single where
  base : Learner
  feature : Int
  tables : Tensor
  deriving DecidableEq, Repr, Inhabited

def single : Codec Single :=
  pmap (seq learner (seq i64 (tensor .f64 4)))
    (fun p => some ⟨p.1, p.2.1, p.2.2⟩) (fun s => (s.base, s.feature, s.tables))

/-- dtree.cpp:68-87: feature `int32_t`, threshold, next `uint32_t`, table `int32_t` -/
structure DNode where
  feature : Int
  threshold : Nat
  next : Nat
  table : Int
  deriving DecidableEq, Repr, Inhabited

def dnode : Codec DNode :=
  pmap (seq i32 (seq u64 (seq u32 i32)))
    (fun p => some ⟨p.1, p.2.1, p.2.2.1, p.2.2.2⟩) (fun n => (n.feature, n.threshold, n.next, n.table))

inductive WBody
  | affine (s : Single)
  | stump (s : Single) (threshold : Nat)
  | hinge (s : Single) (threshold : Nat) (hinge : Nat)
  | table (s : Single) (hashes : Tensor) (hash2tables : Tensor)
  | dtree (base : Learner) (nodes : List DNode) (features : Tensor) (tables : Tensor)
  deriving DecidableEq, Repr, Inhabited

def idAffine : Bytes := [0x61, 0x66, 0x66, 0x69, 0x6e, 0x65]                                   -- affine
def idStump : Bytes := [0x73, 0x74, 0x75, 0x6d, 0x70]                                           -- stump
def idHinge : Bytes := [0x68, 0x69, 0x6e, 0x67, 0x65]                                           -- hinge
def idDtree : Bytes := [0x64, 0x74, 0x72, 0x65, 0x65]                                           -- dtree
def idsTable : List Bytes := [
  [0x64, 0x65, 0x6e, 0x73, 0x65, 0x2d, 0x74, 0x61, 0x62, 0x6c, 0x65],                          -- dense-table
  [0x6b, 0x62, 0x65, 0x73, 0x74, 0x2d, 0x74, 0x61, 0x62, 0x6c, 0x65],                          -- kbest-table
  [0x6b, 0x73, 0x70, 0x6c, 0x69, 0x74, 0x2d, 0x74, 0x61, 0x62, 0x6c, 0x65],                    -- ksplit-table
  [0x64, 0x73, 0x74, 0x65, 0x70, 0x2d, 0x74, 0x61, 0x62, 0x6c, 0x65]]                          -- dstep-table

/-- what kind of body the factory `wlearner_t::all()` (src/wlearner.cpp:45-65) holds under an id: 0 affine, 1 stump,
    2 hinge, 3 look-up table, 4 decision tree -/
def wkind (id : Bytes) : Option Nat :=
  if id = idAffine then some 0
  else if id = idStump then some 1
  else if id = idHinge then some 2
  else if id ∈ idsTable then some 3
  else if id = idDtree then some 4
  else none

def WBody.kind : WBody → Nat
  | .affine .. => 0
  | .stump .. => 1
  | .hinge .. => 2
  | .table .. => 3
  | .dtree .. => 4

/-- the reader of the class registered under a kind:
    affine = single (affine.cpp has no own fields); stump.cpp:102-118 threshold; hinge.cpp:158-176 threshold + hinge as
    `uint32_t` (cast to the `uint8_t` enum: modulo 256); table.cpp:229-247 hashes (`uint64`, rank 1) + hash2tables
    (`int64` indices); dtree.cpp:112-130 nodes, features (indices), tables -/
def wbodyOf (kind : Nat) : Codec WBody :=
  if kind = 0 then
    pmap single (fun s => some (.affine s)) (fun b => match b with | .affine s => s | _ => default)
  else if kind = 1 then
    pmap (seq single u64) (fun p => some (.stump p.1 p.2)) (fun b => match b with | .stump s t => (s, t) | _ => default)
  else if kind = 2 then
    pmap (seq single (seq u64 (pmap u32 (fun h => some (h % 256)) id)))
      (fun p => some (.hinge p.1 p.2.1 p.2.2)) (fun b => match b with | .hinge s t h => (s, t, h) | _ => default)
  else if kind = 3 then
    pmap (seq single (seq (tensor .u64 1) (tensor .i64 1)))
      (fun p => some (.table p.1 p.2.1 p.2.2)) (fun b => match b with | .table s h t => (s, h, t) | _ => default)
  else if kind = 4 then
    pmap (seq learner (seq (vec dnode) (seq (tensor .i64 1) (tensor .f64 4))))
      (fun p => some (.dtree p.1 p.2.1 p.2.2.1 p.2.2.2))
      (fun b => match b with | .dtree l n f t => (l, n, f, t) | _ => default)
  else fail

structure WLearner where
  id : Bytes
  body : WBody
  deriving DecidableEq, Repr, Inhabited

/-- `nano::write/read(stream, rwlearner_t)`: type id, then the object of that class -/
def wlearner : Codec WLearner :=
  pmap (dseq str (fun id => match wkind id with | some k => wbodyOf k | none => fail))
    (fun p => some ⟨p.1, p.2⟩) (fun w => (w.id, w.body))

/-! ### gradient boosting model — src/gboost/model.cpp:248-267 -/

structure GBoost where
  base : Learner
  bias : Tensor
  wlearners : List WLearner
  protos : List WLearner
  deriving DecidableEq, Repr, Inhabited

def gboost : Codec GBoost :=
  pmap (seq learner (seq (tensor .f64 1) (seq (vec wlearner) (vec wlearner))))
    (fun p => some ⟨p.1, p.2.1, p.2.2.1, p.2.2.2⟩) (fun g => (g.base, g.bias, g.wlearners, g.protos))

end NanoVerif.Codec
