/-
  C10 — model of libnano's weak learners (core Lean only; generic over the scalar type: run at `Float` in
  `driver_c10`, proved over an ordered field in `Props/C10.lean`).

  Mirrors (line numbers of /repo at the time of writing):
    include/nano/wlearner/accumulator.h:46-61  accumulator_t::update          -> `Mom.upd0`, `Mom.upd`
    src/wlearner/criterion.cpp:6-17            make_score                     -> `makeScore` (`cmax rss K`, K = 1e3·ε)
    include/nano/core/stats.h:100-147          AIC / AICc / BIC               -> `aic`, `aicc`, `bic`
    src/wlearner/stump.cpp:13-17, 42-88        ::score, cache_t::clear/score  -> `sideScore`, `present`, `missRss`, `stumpCand`
    src/wlearner/stump.cpp:128-160             the sorted sweep of do_fit     -> `sweep`, `stumpCands`
    src/wlearner/hinge.cpp:14-30, 98-140       ::beta, ::score, score_neg/pos -> `hingeBeta`, `hingeSide`, `hingeCands`
    src/wlearner/affine.cpp:27-70, 100-122     constant, w, b, rss_affine     -> `affineConst`, `affineW`, `affineB`, `affineCand`
    src/wlearner/table.cpp:52-86, 154-181      score, score_dense, update     -> `binMom`, `binScore`, `denseCand`
    src/wlearner/table.cpp:88-124              score_kbest(…, 1) (dstep)      -> `dstepCand`
    src/dataset/hash.cpp:17-43, core/hash.h    make_hashes, hash, find        -> `hashesOf`, `hashBits`, `findHash`
    include/nano/core/reduce.h:19-31           min_reduce_feature             -> `lessSF`, `minReduce` (`minReduceOld`: before 62472c9)
    `if (std::isfinite(score) && score < cache.m_score)` of affine/stump/hinge -> `pick`, `fitSeq`, `fitAssigned`
    `… && (score < m_score || (score == m_score && feature < m_feature))` of table.cpp (5de0896) -> `pickLex`, `fitSeqLex`
    src/wlearner/{affine,stump,hinge,table,dtree}.cpp do_predict / do_split   -> `eval`, `predictOne`, `splitOne`
    src/wlearner/util.cpp:5-15                 scale                          -> `scaleTables`, `Learner.scale`
    src/wlearner/util.cpp:30-58, single.cpp:48-56, affine.cpp:142-149, table.cpp:431-441
                                               merge, try_merge               -> `tryMerge`, `absorb`, `merge`

  Conventions.
  * A vector over the outputs (`tensor3d` of `target_dims`) is a function `Nat → α` used at the indices `< T`;
    `vsum v T` is Eigen's `.sum()` (left to right).
  * The residual of a sample is `r = -gradient`: `r1 -= g`, `rx -= g·x`, `r2 += g·g` of the C++ accumulator are
    `r1 + r`, `rx + r·x`, `r2 + r·r` (bit-identical at `Float`: `a - g = a + (-g)`, `(-g)·x = -(g·x)`, `g·g = (-g)·(-g)`).
  * A missing feature value (NaN for scalars, label −1 / first indicator −1 for categorical features) is `none`.
  * `std::sort` is a parameter `sort` (any sorted permutation, `SortSpec` in the proofs); the driver uses
    `List.mergeSort` with the order of `std::pair<scalar, index>`.
  * No theorem relies on the totalised field division `x / 0 = 0`: the affine closed form is only used on the branch
    `x2·x0 − x1² > ε₁·x2·x0` of `cache_t::constant()` (where the denominator is positive), the sweep denominators
    (`x0_neg`, `x0_pos`, the hinge's `Σ(x−t)²`, a bin's count) are positive in exact arithmetic (proved, not assumed).
-/
namespace NanoVerif.WLearner

/-- a vector over the outputs, used at indices `< T` -/
abbrev Vec (α : Type) := Nat → α

/-- `std::isfinite` on a computed score (overflow / NaN at `Float`; always true in exact arithmetic) -/
class FinTest (α : Type) where
  isFin : α → Bool

instance : FinTest Float := ⟨Float.isFinite⟩

/-- `std::log` (only used by the AIC / AICc / BIC criteria) -/
class Log (α : Type) where
  log : α → α

instance : Log Float := ⟨Float.log⟩

/-- `enum class wlearner_criterion { rss, aic, aicc, bic }` -/
inductive Crit where
  | rss | aic | aicc | bic
deriving DecidableEq, Repr

def Crit.ofNat? : Nat → Option Crit
  | 0 => some .rss
  | 1 => some .aic
  | 2 => some .aicc
  | 3 => some .bic
  | _ => none

/-- moment sums of one accumulator bin (`n` = the count as an integer, `x0` = the same count as a scalar) -/
structure Mom (α : Type) where
  n : Nat
  x0 : α
  x1 : α
  x2 : α
  r1 : Vec α
  rx : Vec α
  r2 : Vec α

/-- one selected sample seen through one scalar feature -/
structure Row (α : Type) where
  idx : Nat
  x : Option α
  r : Vec α

/-- a selected sample whose scalar feature value is present (`m_ivalues` entry plus its residual) -/
structure Item (α : Type) where
  v : α
  idx : Nat
  r : Vec α

/-- one selected sample seen through one categorical feature (`h` = hash of its label / label set) -/
structure CRow (α : Type) where
  idx : Nat
  h : Option Nat
  r : Vec α

/-- a candidate of a fit: what a per-thread `cache_t` remembers (`rss` is the value handed to `make_score`) -/
structure Cand (α : Type) where
  score : α
  rss : α
  feature : Nat
  thr : α
  dir : Nat
  hashes : List Nat
  h2t : List Nat
  tables : List (Vec α)

/-- the value of one feature of one sample -/
inductive FVal (α : Type) where
  | num (x : α)
  | cls (h : Nat)
  | missing

/-- `dtree_node_t` -/
structure Node (α : Type) where
  feature : Nat
  thr : α
  next : Nat
  table : Int

/-- the fitted weak learners (`tables` = `m_tables`, one vector per row) -/
inductive Learner (α : Type) where
  | affine (f : Nat) (tables : List (Vec α))
  | stump (f : Nat) (thr : α) (tables : List (Vec α))
  | hinge (f : Nat) (thr : α) (left : Bool) (tables : List (Vec α))
  | table (f : Nat) (hashes h2t : List Nat) (tables : List (Vec α))
  | dtree (nodes : List (Node α)) (tables : List (Vec α))

/-! ### hashes of label sets — include/nano/core/hash.h:13-16, 42-47 -/

/-- `hash_combine` -/
def hashCombine (seed h : UInt64) : UInt64 :=
  seed ^^^ (h + (0x9e3779b9 : UInt64) + (seed <<< (6 : UInt64)) + (seed >>> (2 : UInt64)))

/-- `detail::hash(values.data(), values.size())` of the `int8_t` indicators of a multi-label value -/
def hashBits (bits : List Nat) : Nat :=
  (bits.foldl (fun s b => hashCombine s (UInt64.ofNat b)) 0).toNat

/-- `std::set<uint64_t>::insert` on the sorted list of distinct hashes -/
def insertUniq (h : Nat) : List Nat → List Nat
  | [] => [h]
  | a :: as => if h < a then h :: a :: as else if h = a then a :: as else a :: insertUniq h as

/-- `std::lower_bound(begin, end, hash)` as libstdc++ runs it (bisection on `[first, first + len)`); on a list that is
    not sorted it still returns what the bisection returns -/
def lowerBound (l : List Nat) (h : Nat) : Nat → Nat → Nat → Nat
  | 0, first, _ => first
  | fuel + 1, first, len =>
    if len = 0 then first
    else
      let half := len / 2
      let mid := first + half
      if l.getD mid 0 < h then lowerBound l h fuel (mid + 1) (len - half - 1)
      else lowerBound l h fuel first half

/-- `nano::find(hashes, value)`: `(it == end || *it != hash) ? -1 : distance(begin, it)` -/
def findHash (hashes : List Nat) (h : Nat) : Option Nat :=
  let i := lowerBound hashes h hashes.length 0 hashes.length
  if hashes[i]? = some h then some i else none

section
variable {α : Type} [Add α] [Sub α] [Mul α] [Div α] [Neg α] [LT α] [DecidableLT α] [OfNat α 0] [OfNat α 1]

def two : α := 1 + 1

/-- the `0.5` of `0.5 * (ivalue1.first + ivalue2.first)` -/
def half : α := 1 / (1 + 1)

/-- Eigen's `.sum()` over the `T` outputs -/
def vsum (v : Vec α) : Nat → α
  | 0 => 0
  | T + 1 => vsum v T + v T

/-- `std::max(a, b)` = `(a < b) ? b : a` -/
def cmax (a b : α) : α := if a < b then b else a

def zeroV : Vec α := fun _ => 0

/-- `acc + f x` folded from the left over a list (the order of every `+=` loop of the C++ code) -/
def sumL {β : Type} (f : β → α) (l : List β) (a : α) : α := l.foldl (fun acc x => acc + f x) a

/-! ### accumulators -/

def Mom.zero : Mom α := ⟨0, 0, 0, 0, zeroV, zeroV, zeroV⟩

/-- `update(vgrad)`: `x0 += 1; r1 -= g; r2 += g·g` -/
def Mom.upd0 (m : Mom α) (r : Vec α) : Mom α :=
  { n := m.n + 1, x0 := m.x0 + 1, x1 := m.x1, x2 := m.x2,
    r1 := fun o => m.r1 o + r o, rx := m.rx, r2 := fun o => m.r2 o + r o * r o }

/-- `update(value, vgrad)`: additionally `x1 += x; x2 += x·x; rx -= g·x` -/
def Mom.upd (m : Mom α) (x : α) (r : Vec α) : Mom α :=
  { n := m.n + 1, x0 := m.x0 + 1, x1 := m.x1 + x, x2 := m.x2 + x * x,
    r1 := fun o => m.r1 o + r o, rx := fun o => m.rx o + r o * x, r2 := fun o => m.r2 o + r o * r o }

/-- `x0_pos() = m_acc_sum.x0() - m_acc_neg.x0()` … -/
def Mom.sub (a b : Mom α) : Mom α :=
  { n := a.n - b.n, x0 := a.x0 - b.x0, x1 := a.x1 - b.x1, x2 := a.x2 - b.x2,
    r1 := fun o => a.r1 o - b.r1 o, rx := fun o => a.rx o - b.rx o, r2 := fun o => a.r2 o - b.r2 o }

def Item.upd0 (m : Mom α) (it : Item α) : Mom α := m.upd0 it.r
def Item.upd (m : Mom α) (it : Item α) : Mom α := m.upd it.v it.r

/-- the present values of the selected samples, in selection order (`m_ivalues` before the sort) -/
def present (rows : List (Row α)) : List (Item α) :=
  rows.filterMap fun row => row.x.map fun v => ⟨v, row.idx, row.r⟩

/-- `missing_rss += gradients.array(samples(i)).square().sum()` -/
def missRss (T : Nat) (rows : List (Row α)) : α :=
  rows.foldl (fun acc row => match row.x with
    | none => acc + vsum (fun o => row.r o * row.r o) T
    | some _ => acc) 0

/-- `missing_cnt` -/
def missCnt (rows : List (Row α)) : Nat := (rows.filter fun row => row.x.isNone).length

/-- the order of `std::pair<scalar_t, tensor_size_t>` -/
def itemLe (a b : Item α) : Bool :=
  decide (a.v < b.v) || (!decide (b.v < a.v) && decide (a.idx ≤ b.idx))

/-! ### criteria — src/wlearner/criterion.cpp, include/nano/core/stats.h -/

section
variable [NatCast α] [Log α]

def aic (rss : α) (k n : Nat) : α :=
  two * (k : α) + (n : α) * Log.log rss - (n : α) * Log.log (n : α)

def aicc (rss : α) (k n : Nat) : α :=
  aic rss k n + two * ((k : α) * (k : α) + (k : α)) / ((n : α) - (k : α) - 1)

def bic (rss : α) (k n : Nat) : α :=
  (k : α) * Log.log (n : α) + (n : α) * Log.log (rss / (n : α))

/-- `make_score(criterion, rss, k, n)`; `K` = `epsilon · 1e+3` -/
def makeScore (K : α) (c : Crit) (rss : α) (k n : Nat) : α :=
  match c with
  | .rss => cmax rss K
  | .aic => aic (cmax rss K) k n
  | .aicc => aicc (cmax rss K) k n
  | .bic => bic (cmax rss K) k n

/-! ### decision stump — src/wlearner/stump.cpp -/

/-- `::score(r0, r1, r2, outputs)` -/
def sideScore (T : Nat) (x0 : α) (r1 r2 out : Vec α) : α :=
  vsum (fun o => r2 o + out o * out o * x0 - two * out o * r1 o) T

/-- The sorted sweep (stump.cpp:137-159, hinge.cpp:201-245): the running accumulator `neg` takes the items one by one;
    between two consecutive *distinct* values a candidate (mid-point threshold, moments of the left side) is tried. -/
def sweep (upd : Mom α → Item α → Mom α) (neg : Mom α) : List (Item α) → List (α × Mom α)
  | a :: b :: rest =>
    if a.v < b.v then (half * (a.v + b.v), upd neg a) :: sweep upd (upd neg a) (b :: rest)
    else sweep upd (upd neg a) (b :: rest)
  | _ => []

/-- `cache_t::score` + the assignments of the `if (… score < cache.m_score)` block for one threshold -/
def stumpCand (T : Nat) (K : α) (crit : Crit) (f : Nat) (sum : Mom α) (mrss : α) (mcnt : Nat)
    (c : α × Mom α) : Cand α :=
  let neg := c.2
  let pos := sum.sub neg
  let outN : Vec α := fun o => neg.r1 o / neg.x0
  let outP : Vec α := fun o => pos.r1 o / pos.x0
  let rss := sideScore T neg.x0 neg.r1 neg.r2 outN + sideScore T pos.x0 pos.r1 pos.r2 outP + mrss
  { score := makeScore K crit rss (2 * T + 1) (sum.n + mcnt), rss := rss, feature := f, thr := c.1, dir := 0,
    hashes := [], h2t := [], tables := [outN, outP] }

/-- all candidates of one scalar feature, in the order they are tried -/
def stumpCands (sort : List (Item α) → List (Item α)) (T : Nat) (K : α) (crit : Crit) (f : Nat)
    (rows : List (Row α)) : List (Cand α) :=
  let items := present rows
  let sum := items.foldl Item.upd0 Mom.zero
  (sweep Item.upd0 Mom.zero (sort items)).map (stumpCand T K crit f sum (missRss T rows) (missCnt rows))

/-! ### hinge — src/wlearner/hinge.cpp -/

/-- the denominator as written in `::beta` -/
def hingeDenB (m : Mom α) (t : α) : α := m.x2 + m.x0 * t * t - two * m.x1 * t

/-- the same quantity as written in `::score` (`threshold2 = threshold * threshold`) -/
def hingeDenS (m : Mom α) (t : α) : α := m.x2 + m.x0 * (t * t) - two * m.x1 * t

/-- `::beta` -/
def hingeBeta (m : Mom α) (t : α) : Vec α := fun o => (m.rx o - m.r1 o * t) / hingeDenB m t

/-- `::score(x0, x1, x2, r1, rx, r2, threshold, beta)` -/
def hingeSide (T : Nat) (m : Mom α) (t : α) (beta : Vec α) : α :=
  vsum (fun o => m.r2 o + beta o * beta o * hingeDenS m t - two * beta o * (m.rx o - m.r1 o * t)) T

/-- the left hinge, then the right hinge, for one threshold -/
def hingeCands (T : Nat) (K : α) (crit : Crit) (f : Nat) (sum : Mom α) (mrss : α) (mcnt : Nat)
    (c : α × Mom α) : List (Cand α) :=
  let t := c.1
  let neg := c.2
  let pos := sum.sub neg
  let bN := hingeBeta neg t
  let bP := hingeBeta pos t
  let rssL := hingeSide T neg t bN + hingeSide T pos t zeroV + mrss
  let rssR := hingeSide T neg t zeroV + hingeSide T pos t bP + mrss
  [ { score := makeScore K crit rssL (T + 1) (neg.n + mcnt), rss := rssL, feature := f, thr := t, dir := 0,
      hashes := [], h2t := [], tables := [bN, fun o => -t * bN o] },
    { score := makeScore K crit rssR (T + 1) (pos.n + mcnt), rss := rssR, feature := f, thr := t, dir := 1,
      hashes := [], h2t := [], tables := [bP, fun o => -t * bP o] } ]

def hingeFeatureCands (sort : List (Item α) → List (Item α)) (T : Nat) (K : α) (crit : Crit) (f : Nat)
    (rows : List (Row α)) : List (Cand α) :=
  let items := present rows
  let sum := items.foldl Item.upd Mom.zero
  (sweep Item.upd Mom.zero (sort items)).flatMap (hingeCands T K crit f sum (missRss T rows) (missCnt rows))

/-! ### affine — src/wlearner/affine.cpp -/

/-- the accumulator of the samples whose feature value is missing (`bin_missed`) -/
def missedMom (rows : List (Row α)) : Mom α :=
  rows.foldl (fun m row => match row.x with
    | none => m.upd0 row.r
    | some _ => m) Mom.zero

def affineDen (m : Mom α) : α := m.x2 * m.x0 - m.x1 * m.x1

/-- `cache_t::constant()`: `!(x0x2 - x1·x1 > epsilon1 · x0x2)` with `x0x2 = x2·x0` — the normal equations are
    (numerically) singular, the feature is treated as constant over the fitted samples (also when no value is present) -/
def affineConst (eps1 : α) (m : Mom α) : Bool :=
  !decide (eps1 * (m.x2 * m.x0) < m.x2 * m.x0 - m.x1 * m.x1)

/-- `fit_constant(bin)`: `r1 / std::max(1.0, x0)` -/
def fitConstant (m : Mom α) : Vec α := fun o => m.r1 o / cmax 1 m.x0

/-- `cache_t::w()` -/
def affineW (eps1 : α) (m : Mom α) : Vec α :=
  if affineConst eps1 m then zeroV else fun o => (m.rx o * m.x0 - m.r1 o * m.x1) / affineDen m

/-- `cache_t::b()` -/
def affineB (eps1 : α) (m : Mom α) : Vec α :=
  if affineConst eps1 m then fitConstant m else fun o => (m.r1 o * m.x2 - m.rx o * m.x1) / affineDen m

/-- `rss_affine()` -/
def affineRss (T : Nat) (m : Mom α) (w b : Vec α) : α :=
  vsum (fun o => m.r2 o + w o * w o * m.x2 + b o * b o * m.x0 - two * w o * m.rx o - two * b o * m.r1 o
    + two * w o * b o * m.x1) T

/-- the candidate of one scalar feature (`eps1` = `epsilon1<scalar_t>()`) -/
def affineCand (eps1 : α) (T : Nat) (K : α) (crit : Crit) (f : Nat) (rows : List (Row α)) : Cand α :=
  let m := (present rows).foldl Item.upd Mom.zero
  let ms := missedMom rows
  let w := affineW eps1 m
  let b := affineB eps1 m
  let rss := affineRss T m w b + vsum ms.r2 T
  { score := makeScore K crit rss (2 * T) (m.n + ms.n), rss := rss, feature := f, thr := 0, dir := 0,
    hashes := [], h2t := [], tables := [w, b] }

/-! ### look-up tables — src/wlearner/table.cpp -/

/-- `make_hashes`: the sorted distinct hashes of the present values -/
def hashesOf (rows : List (CRow α)) : List Nat :=
  rows.foldl (fun acc row => match row.h with
    | some h => insertUniq h acc
    | none => acc) []

/-- the accumulator of one bin: the samples with this hash, in selection order -/
def binMom (rows : List (CRow α)) (h : Nat) : Mom α :=
  rows.foldl (fun m row => if row.h = some h then m.upd0 row.r else m) Mom.zero

/-- `m_missing_rss` -/
def missRssC (T : Nat) (rows : List (CRow α)) : α :=
  rows.foldl (fun acc row => match row.h with
    | none => acc + vsum (fun o => row.r o * row.r o) T
    | some _ => acc) 0

/-- `cache_t::score(bin)` -/
def binScore (T : Nat) (m : Mom α) : α := vsum (fun o => m.r2 o - m.r1 o * m.r1 o / m.x0) T

def binMean (m : Mom α) : Vec α := fun o => m.r1 o / m.x0

/-- `score_dense` -/
def denseCand (T : Nat) (K : α) (crit : Crit) (f : Nat) (rows : List (CRow α)) : Cand α :=
  let hs := hashesOf rows
  let rss := sumL (fun h => binScore T (binMom rows h)) hs (missRssC T rows)
  { score := makeScore K crit rss (hs.length * T) rows.length, rss := rss, feature := f, thr := 0, dir := 0,
    hashes := hs, h2t := List.range hs.length, tables := hs.map fun h => binMean (binMom rows h) }

/-- `accumulator_t::sort()` entry of a bin: `-r1.square().sum() / x0` -/
def binDelta (T : Nat) (m : Mom α) : α := -(vsum (fun o => m.r1 o * m.r1 o) T) / m.x0

/-- first smallest entry (the front of the sorted `(delta, bin)` pairs) -/
def argminFirst : List (α × Nat) → Option (α × Nat)
  | [] => none
  | p :: ps => match argminFirst ps with
    | none => some p
    | some q => if q.1 < p.1 then some q else some p

/-- `rss` before the best delta is added: `m_missing_rss + Σ_bins r2(bin).sum()` -/
def dstepRss0 (T : Nat) (rows : List (CRow α)) : α :=
  sumL (fun h => vsum (binMom rows h).r2 T) (hashesOf rows) (missRssC T rows)

/-- the candidate that keeps only the bin with hash `h` -/
def dstepCandOf (T : Nat) (K : α) (crit : Crit) (f : Nat) (rows : List (CRow α)) (h : Nat) : Cand α :=
  let m := binMom rows h
  let rss := dstepRss0 T rows + binDelta T m
  { score := makeScore K crit rss T rows.length, rss := rss, feature := f, thr := 0, dir := 0,
    hashes := [h], h2t := [0], tables := [binMean m] }

/-- `score_kbest(feature, hashes, criterion, 1)`; `none` when no value is present (the C++ code then reads
    `mapping[0]` of an empty vector: undefined behaviour, see KNOWN_FINDINGS / the report) -/
def dstepCand (T : Nat) (K : α) (crit : Crit) (f : Nat) (rows : List (CRow α)) : Option (Cand α) :=
  let hs := hashesOf rows
  match argminFirst ((hs.map fun h => binDelta T (binMom rows h)).zipIdx) with
  | none => none
  | some (_, bin) => (hs[bin]?).map (dstepCandOf T K crit f rows)

end

/-! ### selecting the best candidate — every do_fit, include/nano/core/reduce.h -/

/-- an empty cache: `m_score{wlearner_t::no_fit_score()}`; `big` = `std::numeric_limits<scalar_t>::max()` -/
def noFit (big : α) : Cand α :=
  { score := big, rss := big, feature := 0, thr := 0, dir := 0, hashes := [], h2t := [], tables := [] }

/-- `if (std::isfinite(score) && score < cache.m_score) { cache = candidate }` -/
def pick [FinTest α] (best c : Cand α) : Cand α :=
  if FinTest.isFin c.score = true ∧ c.score < best.score then c else best

/-- one cache that sees all candidates in order (one thread) -/
def fitSeq [FinTest α] (big : α) (cands : List (Cand α)) : Cand α := cands.foldl pick (noFit big)

/-- the comparison of `min_reduce_feature` (reduce.h:25-31, commit 62472c9):
    `one.m_score < other.m_score || (one.m_score == other.m_score && one.m_feature < other.m_feature)`;
    a stored score is never NaN, so `a == b` is `¬ a < b ∧ ¬ b < a` and `<` alone suffices. The empty cache (`noFit`) has
    `m_feature = -1` (`0` in affine.cpp) in the code and `0` here: never compared at equal scores with a stored candidate
    (those score strictly below `no_fit_score()`), and two empty caches are interchangeable. -/
def lessSF (d c : Cand α) : Prop := d.score < c.score ∨ (¬ c.score < d.score ∧ d.feature < c.feature)

instance (d c : Cand α) : Decidable (lessSF d c) := by unfold lessSF; exact inferInstance

/-- `std::min_element` with the comparison above: the first smallest (score, then feature index) -/
def minReduce : Cand α → List (Cand α) → Cand α
  | c, [] => c
  | c, d :: ds => minReduce (if lessSF d c then d else c) ds

/-- the cache update of the TABLE learners since commit 5de0896 (table.cpp:72, 110, 164):
    `if (std::isfinite(score) && (score < m_score || (score == m_score && feature < m_feature)))` — a table fit runs two
    loops (single-label, then multi-label features) into the same caches, so a cache may see feature indices out of order -/
def pickLex [FinTest α] (best c : Cand α) : Cand α :=
  if FinTest.isFin c.score = true ∧ lessSF c best then c else best

/-- one table cache that sees all candidates in order -/
def fitSeqLex [FinTest α] (big : α) (cands : List (Cand α)) : Cand α := cands.foldl pickLex (noFit big)

/-- the rule before commit 62472c9 (`min_reduce`: score only) — kept for the counterexample of Props/C10.lean only -/
def minReduceOld : Cand α → List (Cand α) → Cand α
  | c, [] => c
  | c, d :: ds => minReduceOld (if d.score < c.score then d else c) ds

/-- the per-thread caches (each sees the candidates of the chunks it was handed, in its order), then `min_reduce_feature` -/
def fitAssigned [FinTest α] (big : α) (workers : List (List (Cand α))) : Cand α :=
  match workers.map (fitSeq big) with
  | [] => noFit big
  | c :: cs => minReduce c cs

/-- table fits: lexicographic per-thread caches, then `min_reduce_feature` -/
def fitAssignedLex [FinTest α] (big : α) (workers : List (List (Cand α))) : Cand α :=
  match workers.map (fitSeqLex big) with
  | [] => noFit big
  | c :: cs => minReduce c cs

/-- the same with the rule before commit 62472c9 -/
def fitAssignedOld [FinTest α] (big : α) (workers : List (List (Cand α))) : Cand α :=
  match workers.map (fitSeq big) with
  | [] => noFit big
  | c :: cs => minReduceOld c cs

/-- a feature as a fit sees it: its index and its candidates in the fixed order of its sweep -/
abbrev FeatC (α : Type) := Nat × List (Cand α)

/-- the candidates a worker feeds to its cache: those of the features it processed, feature after feature -/
def streamC (w : List (FeatC α)) : List (Cand α) := w.flatMap (·.2)

/-- every worker processed its features in increasing index order — what `pool_t::map` produces for one loop over one
    feature list (parallel.h:295-347: chunks enqueued in order under one lock into a FIFO queue, every worker pops from the
    front; dataset/iterator.cpp:236-276: increasing loop inside a chunk) -/
def WorkersSorted (workers : List (List (FeatC α))) : Prop := ∀ w ∈ workers, (w.map Prod.fst).Pairwise (· < ·)

instance (workers : List (List (FeatC α))) : Decidable (WorkersSorted workers) :=
  inferInstanceAs (Decidable (∀ w ∈ workers, (w.map Prod.fst).Pairwise (· < ·)))

/-- `best.m_score != wlearner_t::no_fit_score()` (a cache only ever replaces its score by a smaller one) -/
def Cand.fitted (big : α) (c : Cand α) : Bool := decide (c.score < big)

/-! ### predict / split — do_predict, do_split -/

def tab (tables : List (Vec α)) (i : Nat) : Vec α := tables.getD i zeroV

/-- `w * value + b` -/
def lin (tables : List (Vec α)) (x : α) : Vec α := fun o => tab tables 0 o * x + tab tables 1 o

/-- the leaf of a sample: dtree.cpp:253-297 (followed sample by sample); `none` = a feature on the path is missing -/
def dtreeGroup (nodes : List (Node α)) (s : Nat → FVal α) : Nat → Nat → Option Nat
  | 0, _ => none
  | fuel + 1, i =>
    match nodes[i]? with
    | none => none
    | some nd =>
      match s nd.feature with
      | .num v =>
        let g := if v < nd.thr then 0 else 1
        if nd.next = 0 then some (nd.table.toNat + g)
        else match nodes[i + g]? with
          | some nd' => dtreeGroup nodes s fuel nd'.next
          | none => none
      | _ => none

/-- the group of a sample and the vector its prediction adds; `none` = not assigned, nothing added -/
def eval (l : Learner α) (s : Nat → FVal α) : Option (Nat × Vec α) :=
  match l with
  | .affine f tables =>
    match s f with
    | .num x => some (0, lin tables x)
    | _ => none
  | .stump f thr tables =>
    match s f with
    | .num x => let g := if x < thr then 0 else 1; some (g, tab tables g)
    | _ => none
  | .hinge f thr left tables =>
    match s f with
    | .num x =>
      if (left = true ∧ x < thr) ∨ (left = false ∧ ¬ x < thr) then some (0, lin tables x) else none
    | _ => none
  | .table f hashes h2t tables =>
    match s f with
    | .cls h =>
      match findHash hashes h with
      | some i => match h2t[i]? with
        | some t => some (t, tab tables t)
        | none => none
      | none => none
    | _ => none
  | .dtree nodes tables =>
    match dtreeGroup nodes s nodes.length 0 with
    | some g => some (g, tab tables g)
    | none => none

/-- `outputs.vector(i) += …` -/
def predictOne (l : Learner α) (s : Nat → FVal α) (out : Vec α) : Vec α :=
  match eval l s with
  | some (_, v) => fun o => out o + v o
  | none => out

/-- `cluster.assign(samples(i), group)` (`none` = −1) -/
def splitOne (l : Learner α) (s : Nat → FVal α) : Option Nat := (eval l s).map (·.1)

def Learner.tables : Learner α → List (Vec α)
  | .affine _ t => t
  | .stump _ _ t => t
  | .hinge _ _ _ t => t
  | .table _ _ _ t => t
  | .dtree _ t => t

def Learner.withTables (l : Learner α) (t : List (Vec α)) : Learner α :=
  match l with
  | .affine f _ => .affine f t
  | .stump f thr _ => .stump f thr t
  | .hinge f thr left _ => .hinge f thr left t
  | .table f hs h2t _ => .table f hs h2t t
  | .dtree nodes _ => .dtree nodes t

/-! ### scale / merge — src/wlearner/util.cpp -/

/-- `tables.array(i) *= scale(std::min(i, scale.size() - 1))` -/
def scaleTables (s : List α) (tables : List (Vec α)) : List (Vec α) :=
  tables.mapIdx fun i t => fun o => t o * s.getD (min i (s.length - 1)) 0

def Learner.scale (s : List α) (l : Learner α) : Learner α := l.withTables (scaleTables s l.tables)

/-- `m_tables.vector() += tables.vector()` -/
def addTables (a b : List (Vec α)) : List (Vec α) := List.zipWith (fun u v => fun o => u o + v o) a b

/-- `try_merge`: only affine learners (same feature) and look-up tables (same feature, hashes and mapping) merge -/
def tryMerge (a b : Learner α) : Option (Learner α) :=
  match a, b with
  | .affine f t, .affine f' t' =>
    if f = f' ∧ t.length = t'.length then some (.affine f (addTables t t')) else none
  | .table f hs h2t t, .table f' hs' h2t' t' =>
    if hs = hs' ∧ h2t = h2t' ∧ f = f' ∧ t.length = t'.length then some (.table f hs h2t (addTables t t')) else none
  | _, _ => none

/-- the inner loop of `merge`: learner `a` absorbs every later learner it can merge with; returns the merged learner,
    the learners left over and whether anything merged -/
def absorb (a : Learner α) : List (Learner α) → Learner α × List (Learner α) × Bool
  | [] => (a, [], false)
  | b :: bs =>
    match tryMerge a b with
    | some a' => let r := absorb a' bs; (r.1, r.2.1, true)
    | none => let r := absorb a bs; (r.1, b :: r.2.1, r.2.2)

/-- the outer loop of `merge` (it stops at the first learner that merged with nothing) -/
def mergeAux : Nat → List (Learner α) → List (Learner α)
  | 0, ls => ls
  | _, [] => []
  | fuel + 1, a :: rest =>
    let r := absorb a rest
    if r.2.2 then r.1 :: mergeAux fuel r.2.1 else r.1 :: r.2.1

def merge (ls : List (Learner α)) : List (Learner α) := mergeAux ls.length ls

/-- the fitted learner of a candidate -/
def Cand.toStump (c : Cand α) : Learner α := .stump c.feature c.thr c.tables
def Cand.toHinge (c : Cand α) : Learner α := .hinge c.feature c.thr (c.dir == 0) c.tables
def Cand.toAffine (c : Cand α) : Learner α := .affine c.feature c.tables
def Cand.toTable (c : Cand α) : Learner α := .table c.feature c.hashes c.h2t c.tables

/-! ### brute-force specifications (from the definition of the residual sum of squares) -/

def lsum : List α → α
  | [] => 0
  | a :: as => a + lsum as

/-- `Σ_o (r_o − p_o)²` -/
def sqErr (T : Nat) (r p : Vec α) : α := vsum (fun o => (r o - p o) * (r o - p o)) T

/-- the residual sum of squares of a predictor (a function of the feature value) over the selected samples -/
def rssOf (T : Nat) (rows : List (Row α)) (pred : Option α → Vec α) : α :=
  lsum (rows.map fun row => sqErr T row.r (pred row.x))

def rssOfC (T : Nat) (rows : List (CRow α)) (pred : Option Nat → Vec α) : α :=
  lsum (rows.map fun row => sqErr T row.r (pred row.h))

/-- the hypothesis classes -/
def stumpPred (t : α) (lo hi : Vec α) : Option α → Vec α
  | none => zeroV
  | some x => if x < t then lo else hi

def hingePred (t : α) (left : Bool) (beta : Vec α) : Option α → Vec α
  | none => zeroV
  | some x =>
    if (left = true ∧ x < t) ∨ (left = false ∧ ¬ x < t) then fun o => beta o * (x - t) else zeroV

def affinePred (w b : Vec α) : Option α → Vec α
  | none => zeroV
  | some x => fun o => w o * x + b o

def tablePred (tbl : Nat → Vec α) : Option Nat → Vec α
  | none => zeroV
  | some h => tbl h

/-- count and mean of residuals, from the definition -/
def countOf {β : Type} (l : List β) : α := lsum (l.map fun _ => 1)

def meanOf (rs : List (Vec α)) : Vec α := fun o => lsum (rs.map fun r => r o) / countOf rs

def leftRows (t : α) (rows : List (Row α)) : List (Row α) :=
  rows.filter fun row => match row.x with
    | some x => decide (x < t)
    | none => false

def rightRows (t : α) (rows : List (Row α)) : List (Row α) :=
  rows.filter fun row => match row.x with
    | some x => !decide (x < t)
    | none => false

/-- the best stump with threshold `t`: the means of the two sides -/
def stumpBruteAt (T : Nat) (rows : List (Row α)) (t : α) : α :=
  rssOf T rows (stumpPred t (meanOf ((leftRows t rows).map (·.r))) (meanOf ((rightRows t rows).map (·.r))))

/-- the mid-points of all pairs of distinct present values (a superset of the consecutive ones: a threshold between two
    non-consecutive values splits the samples like one of the consecutive mid-points) -/
def midpoints (vals : List α) : List α :=
  vals.flatMap fun a => vals.filterMap fun b => if a < b then some (half * (a + b)) else none

def presentVals (rows : List (Row α)) : List α := rows.filterMap (·.x)

/-- minimum of a list (`none` for the empty list) -/
def lmin? : List α → Option α
  | [] => none
  | a :: as => match lmin? as with
    | none => some a
    | some m => if m < a then some m else some a

/-- brute force over all features and all thresholds -/
def stumpBrute (T : Nat) (cols : List (List (Row α))) : Option α :=
  lmin? (cols.flatMap fun rows => (midpoints (presentVals rows)).map (stumpBruteAt T rows))

/-- the best table on one categorical feature: the mean of every label set -/
def denseBruteAt (T : Nat) (rows : List (CRow α)) : α :=
  rssOfC T rows (tablePred fun h => meanOf ((rows.filter fun row => row.h = some h).map (·.r)))

def denseBrute (T : Nat) (cols : List (List (CRow α))) : Option α :=
  lmin? (cols.map (denseBruteAt T))

end

end NanoVerif.WLearner
