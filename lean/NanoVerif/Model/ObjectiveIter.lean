import NanoVerif.Model.Objective
import NanoVerif.Model.Iterator
/-
  C09 — the objectives of `Model/Objective.lean` wired to the iterator of `Model/Iterator.lean` (core Lean only), plus the
  members of `linear::function_t` / `gboost::accumulator_t` the first model did not mention.

  Mirrors (line numbers of /repo at the time of writing):
    src/linear/function.cpp:21-37     function_t::function_t: size `(isize + 1) * tsize`, one accumulator per worker
                                      (`m_accumulators(concurrency(), …)`), `assert(m_isize > 0)`, `assert(m_tsize > 0)`
                                                                                  -> `linearSize`, `linearVGradIter` (guards)
    include/nano/linear/function.h    weights(x) / bias(x): `x = [W (tsize × isize, row-major) | b (tsize)]`
                                                                                  -> `unpackW`, `unpackB`
    src/linear/function.cpp:44-110    do_vgrad: the callback reads `inputs` / `targets` of ITS range (row `i - begin`)
                                                                                  -> `servedRow`, `linearVGradIter`
    src/linear/function.cpp:65,81,97  the branch `gx.size() == 0` (value-only call: no gradient is accumulated)
                                                                                  -> `linTermV`, `linearValue`
    src/gboost/function.cpp           the three callbacks read `targets` of their range
                                                                                  -> `biasVGradIter`, `scaleVGradIter`, `gradsVGradIter`
    src/gboost/accumulator.cpp:34-43  accumulator_t::update / vgrad(gx)           -> `GbAcc.update`, `GbAcc.vgrad`

  The loss is a function of the target row and the outputs: `loss tg o`, `dloss tg o` (`loss_t::value/vgrad` on one row).
-/
namespace NanoVerif.Objective
open NanoVerif.Iterator NanoVerif.Scaling

section
variable {α : Type} [Add α] [Sub α] [Mul α] [Div α] [Neg α] [LT α] [DecidableLT α]
  [OfNat α 0] [OfNat α 1] [OfNat α 2] [NatCast α]

/-- the row of position `i` as the callbacks see it: row `i - begin` of the block handed to the call whose range
    `[begin, end)` contains `i` (`sel` picks `inputs` or `targets`) -/
def servedRow (sel : Served α → List (List α)) : List (Served α) → Nat → List α
  | [], _ => []
  | c :: cs, i => if c.b ≤ i ∧ i < c.e then (sel c).getD (i - c.b) [] else servedRow sel cs i

/-- `inputs(i - begin, j)` -/
def inputsOf (served : List (Served α)) (i j : Nat) : α := (servedRow Served.inputs served i).getD j 0
/-- `targets.tensor(i - begin)` flattened -/
def targetOf (served : List (Served α)) (i : Nat) : List α := servedRow Served.targets served i

/-- `function_t("linear", (isize + 1) * tsize)` -/
def linearSize (isize tsize : Nat) : Nat := (isize + 1) * tsize

/-- `weights(x)`: the first `tsize * isize` entries of `x`, row-major `tsize × isize` -/
def unpackW (x : Array α) (s : Nat) (k j : Nat) : α := x.getD (k * s + j) 0
/-- `bias(x)`: the last `tsize` entries -/
def unpackB (x : Array α) (t s : Nat) (k : Nat) : α := x.getD (t * s + k) 0

/-- `linear::function_t::do_vgrad(x, gx)` on an iterator: one `m_iterator.loop` with the schedule `asg` feeds the per-worker
    accumulators; `none` where the loop or the reduction asserts, or where the constructor's `assert(m_isize > 0)`,
    `assert(m_tsize > 0)` fail -/
def linearVGradIter [FinTest α] {t s : Nat} (sqrt : α → α) (l1 l2 : α) (W : Nat → Nat → α) (b : Nat → α)
    (loss : List α → Vector α t → α) (dloss : List α → Vector α t → Vector α t)
    (it : Iter α) (D : Data α) (asg : List Nat) : Option (LinOut α t s) :=
  if s = 0 ∨ t = 0 then none
  else
    match it.loopFT D asg with
    | none => none
    | some served =>
      linearVGrad sqrt l1 l2 W b (fun i => loss (targetOf served i)) (fun i => dloss (targetOf served i))
        (inputsOf served) it.workers it.samples.length it.batch asg

/-- value-only call (`gx.size() == 0`): the callback skips `m_loss.vgrad` and leaves `m_gb1`, `m_gW1` at zero -/
def linTermV {t s : Nat} (W : Nat → Nat → α) (b : Nat → α) (L : Nat → Vector α t → α) (x : Nat → Nat → α) (i : Nat) :
    LinAcc α t s := ⟨L i (predict t s W b (x i)), vzero t, vzero (t * s)⟩

def linStepV {t s : Nat} (W : Nat → Nat → α) (b : Nat → α) (L : Nat → Vector α t → α) (x : Nat → Nat → α)
    (acc : LinAcc α t s) (bg en : Nat) : LinAcc α t s :=
  acc.add (msum LinAcc.add LinAcc.zero ((rangeList bg en).map (linTermV W b L x)))

/-- `linear::function_t::do_vgrad(x)` without gradient -/
def linearValue {t s : Nat} (sqrt : α → α) (l1 l2 : α) (W : Nat → Nat → α) (b : Nat → α)
    (L : Nat → Vector α t → α) (x : Nat → Nat → α) (workers n batch : Nat) (asg : List Nat) : Option α :=
  match mapReduce LinAcc.add LinAcc.zero LinAcc.divN (linStepV (s := s) W b L x) workers n batch asg with
  | none => none
  | some acc =>
    let size : α := ((t * s : Nat) : α)
    let fx := acc.vm1
    let fx := if 0 < l1 then fx + l1 * (fsum ((wlist t s W).map absF) / size) else fx
    let fx := if 0 < l2 then
        fx + (1 / 2) * (fsum ((wlist t s W).map fun w => (sqrt l2 * w) * (sqrt l2 * w)) / size) else fx
    some fx

/-- `gboost::accumulator_t::update(values)`: `m_vm1 += values.sum()` -/
def GbAcc.update {d : Nat} (a : GbAcc α d) (values : List α) : GbAcc α d := ⟨a.vm1 + fsum values, a.gb1⟩

/-- `gboost::accumulator_t::vgrad(gx)`: `if (gx.size() > 0) gx = m_gb1; return m_vm1` -/
def GbAcc.vgrad {d : Nat} (a : GbAcc α d) (wantGrad : Bool) : α × Option (Vector α d) :=
  (a.vm1, if wantGrad then some a.gb1 else none)

/-- `gboost::bias_function_t::do_vgrad` on an iterator -/
def biasVGradIter [FinTest α] {t : Nat} (loss : List α → Vector α t → α) (dloss : List α → Vector α t → Vector α t)
    (x : Vector α t) (it : Iter α) (D : Data α) (asg : List Nat) : Option (α × Vector α t) :=
  match it.loopT D asg with
  | none => none
  | some served =>
    biasVGrad (fun i => loss (targetOf served i)) (fun i => dloss (targetOf served i)) x
      it.workers it.samples.length it.batch asg

/-- `gboost::scale_function_t::do_vgrad` on an iterator -/
def scaleVGradIter [FinTest α] {t G : Nat} (loss : List α → Vector α t → α) (dloss : List α → Vector α t → Vector α t)
    (x : Vector α G) (grp : Nat → Int) (so wo : Nat → Vector α t) (it : Iter α) (D : Data α) (asg : List Nat) :
    Option (α × Vector α G) :=
  match it.loopT D asg with
  | none => none
  | some served =>
    scaleVGrad (fun i => loss (targetOf served i)) (fun i => dloss (targetOf served i)) x grp so wo
      it.workers it.samples.length it.batch asg

/-- `gboost::grads_function_t::do_vgrad` on an iterator (`values0` / `vgrads0`: previous contents of the buffers) -/
def gradsVGradIter [FinTest α] {t : Nat} (loss : List α → Vector α t → α) (dloss : List α → Vector α t → Vector α t)
    (o : Nat → Vector α t) (values0 : List α) (vgrads0 : List (Vector α t)) (it : Iter α) (D : Data α) (asg : List Nat) :
    Option (α × List (Vector α t)) :=
  match it.loopT D asg with
  | none => none
  | some served =>
    gradsVGrad (fun i => loss (targetOf served i)) (fun i => dloss (targetOf served i)) o values0 vgrads0
      it.samples.length it.batch

end
end NanoVerif.Objective
