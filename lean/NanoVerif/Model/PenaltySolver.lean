import NanoVerif.Model.Penalty
/-
  C05 — model of the outer loop of libnano's two exterior-penalty solvers (`linear-penalty`, `quadratic-penalty`)
  and of the feasibility residuals of `solver_state_t` (core Lean only; generic over the scalar type: run at `Float` in
  `driver_c05`, proved over an ordered field).

  Mirrors (line numbers of /repo at the time of writing):
    src/solver/penalty.cpp:17-62      solver_penalty_t::minimize (the outer loop shared by both solvers) -> `penInit`, `penStep`, `penLoop`
    src/solver/penalty.cpp:75-81      solver_linear_penalty_t::do_minimize                              -> `linearPenaltySolve`
    src/solver/penalty.cpp:94-100     solver_quadratic_penalty_t::do_minimize                           -> `quadraticPenaltySolve`
    src/solver/augmented.cpp:70-77    how the augmented-Lagrangian solver builds its inner problem                    -> `alInnerOf`
    src/solver.cpp:119-138            solver_t::done (status decision)                                  -> inside `penStep`
    src/solver.cpp:196-201            solver_t::more_precise                                            -> `innerEps` of `penStep`
    include/nano/solver/state.h:32-42 solver_state_t::update(x) (re-evaluates the function and its constraints at x) -> `mkState`
    src/solver/state.cpp:214-222      kkt_optimality_test1 / test2                                      -> `kktTest1`, `kktTest2`
    src/solver/state.cpp:258-263      nano::converged(bstate, cstate, epsilon)                          -> `xConverged` (Model/Penalty.lean)

  The objective and the inner solver are oracles: per outer iteration the loop takes the point `cstate.x()` the inner
  solver returned, `cstate.valid()`, and `bstate.valid()` as `done` sees it after `bstate.update(cstate.x())`.
  The field `calls` of the loop state is a ghost log (one record per call of the inner solver, in order): nothing in the
  loop reads it; the theorems about the penalty schedule, the number of inner calls and the returned point are stated on it.
-/
namespace NanoVerif.Penalty
open NanoVerif.Constraint

/-- ghost record of one outer iteration: what was passed to the inner solver (`penalty_function.penalty(penalty)`,
    the solver's `solver::epsilon`, the starting point `bstate.x()`) and what came back -/
structure PCall (α : Type) where
  penalty : α
  innerEps : α
  start : List α
  cx : List α
  iterOk : Bool
  bvalid : Bool
  /-- `::nano::converged(bstate, cstate, epsilon)` evaluated with the `bstate` of before the update -/
  xconv : Bool

/-- the variables of the outer loop of `solver_penalty_t::minimize`: `bstate`, `penalty`, the inner solver's
    `solver::epsilon`, the loop variable `outer` (= the number of inner solves done so far) and `bstate.status()`
    (0 max_iters — the default of a fresh `solver_state_t` —, 1 converged, 2 failed) -/
structure PState (α : Type) where
  best : St α
  penalty : α
  innerEps : α
  iters : Nat
  status : Nat
  calls : List (PCall α)

/-- what the oracle (inner solver + objective) answers in one outer iteration -/
structure PAnswer (α : Type) where
  /-- `cstate.x()` -/
  cx : List α
  /-- `cstate.valid()` -/
  iterOk : Bool
  /-- `bstate.valid()` after `bstate.update(cstate.x())`, as read by `done` -/
  bvalid : Bool

/-- the parameters read at penalty.cpp:20-26 that the loop body uses -/
structure PParams (α : Type) where
  /-- `solver::epsilon` -/
  eps : α
  /-- `solver::penalty::eta` -/
  eta : α
  /-- `solver::penalty::epsilonK` -/
  epsK : α

section
variable {α : Type} [Add α] [Sub α] [Mul α] [Div α] [Neg α] [LT α] [LE α] [DecidableLT α] [DecidableLE α]
  [OfNat α 0] [OfNat α 1] [OfNat α 2]

/-- `solver_state_t::kkt_optimality_test1` (state.cpp:214-217): `|max(g, 0)|_inf` -/
def kktTest1 (c : St α) : α := maxL (c.cineq.map (fun g => cmax g 0))

/-- `solver_state_t::kkt_optimality_test2` (state.cpp:219-222): `|h|_inf` -/
def kktTest2 (c : St α) : α := maxL (c.ceq.map absv)

/-- one iteration of the outer loop (penalty.cpp:32-59) given the oracle's answer; the flag says whether the loop
    stops (`done(...)` returned true) -/
def penStep (cs : List (C α)) (p : PParams α) (s : PState α) (a : PAnswer α) : PState α × Bool :=
  let conv := xConverged s.best.x a.cx p.eps
  let call : PCall α := ⟨s.penalty, s.innerEps, s.best.x, a.cx, a.iterOk, a.bvalid, conv⟩
  if !a.iterOk then
    -- `if (!iter_ok) { penalty *= eta; continue; }`: `bstate` and the inner precision stay
    ({ s with penalty := s.penalty * p.eta, iters := s.iters + 1, calls := s.calls ++ [call] }, false)
  else
    -- `bstate.update(cstate.x())` re-evaluates the function and its constraints at `cstate.x()`
    let best := mkState cs a.cx
    -- `done(bstate, iter_ok, converged)`: `step_ok = iter_ok && bstate.valid(); if (converged || !step_ok) …`
    if conv || !a.bvalid then
      ({ s with best := best, iters := s.iters + 1, status := if conv then 1 else 2, calls := s.calls ++ [call] }, true)
    else
      -- `penalty *= eta; solver->more_precise(epsilonK);`
      ({ best := best, penalty := s.penalty * p.eta, innerEps := s.innerEps * p.epsK, iters := s.iters + 1,
         status := s.status, calls := s.calls ++ [call] }, false)

/-- the outer loop: `fuel` = the iterations left (`max_outers - outer`), `inner k s` = the oracle's answer at outer
    iteration `k` from the loop state `s` -/
def penLoop (cs : List (C α)) (p : PParams α) (inner : Nat → PState α → PAnswer α) : Nat → PState α → PState α
  | 0, s => s
  | fuel + 1, s =>
    let r := penStep cs p s (inner s.iters s)
    if r.2 then r.1 else penLoop cs p inner fuel r.1

/-- the variables before the loop (penalty.cpp:28-30): `penalty = penalty0`, the inner solver made with `epsilon0`,
    `bstate = solver_state_t{function, x0}` -/
def penInit (cs : List (C α)) (x0 : List α) (penalty0 eps0 : α) : PState α :=
  { best := mkState cs x0, penalty := penalty0, innerEps := eps0, iters := 0, status := 0, calls := [] }

/-- `solver_penalty_t::minimize`: the state the solver returns (its `best`, `status`) and the ghost log -/
def penSolve (cs : List (C α)) (p : PParams α) (penalty0 eps0 : α) (maxOuters : Nat)
    (inner : Nat → PState α → PAnswer α) (x0 : List α) : PState α :=
  penLoop cs p inner maxOuters (penInit cs x0 penalty0 eps0)

/-- an inner solver as a black box: outer iteration, the function to minimise (value and gradient), its
    `solver::epsilon`, the starting point ↦ the answer -/
abbrev InnerSolver (α : Type) := Nat → (List α → α × List α) → α → List α → PAnswer α

/-- `solver_linear_penalty_t::do_minimize`: the inner solver minimises `linear_penalty_function_t{function}` with the
    current penalty, started at `bstate.x()` -/
def linearPenaltySolve (f : List α → α × List α) (cs : List (C α)) (p : PParams α) (penalty0 eps0 : α)
    (maxOuters : Nat) (solver : InnerSolver α) (x0 : List α) : PState α :=
  penSolve cs p penalty0 eps0 maxOuters
    (fun k s => solver k (linearPenaltyAt s.penalty f cs) s.innerEps s.best.x) x0

/-- `solver_quadratic_penalty_t::do_minimize`: the same with `quadratic_penalty_function_t{function}` -/
def quadraticPenaltySolve (f : List α → α × List α) (cs : List (C α)) (p : PParams α) (penalty0 eps0 : α)
    (maxOuters : Nat) (solver : InnerSolver α) (x0 : List α) : PState α :=
  penSolve cs p penalty0 eps0 maxOuters
    (fun k s => solver k (quadraticPenaltyAt s.penalty f cs) s.innerEps s.best.x) x0

/-- `solver_augmented_lagrangian_t::do_minimize` (augmented.cpp:70-77): the oracle of `alLoop` when the inner solver is a
    black box `solver`: at outer iteration `k` it minimises `augmented_lagrangian_function_t{function, lambda, miu}` with
    `penalty(ro)` — the current `ro`, `lambda`, `miu` of the loop state — started at `bstate.x()` -/
def alInnerOf (f : List α → α × List α) (cs : List (C α))
    (solver : Nat → (List α → Option (α × List α)) → List α → Answer α) : Nat → ALState α → Answer α :=
  fun k s => solver k (augLagrangianAt s.ro s.lambda s.miu f cs) s.best.x

end
end NanoVerif.Penalty
