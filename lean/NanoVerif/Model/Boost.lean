import NanoVerif.Model.EarlyStopping
/-!
  C11 — skeleton of the round loop of gradient boosting (`::fit` in src/gboost/model.cpp:72-194), of the prediction
  (`gboost_model_t::do_predict`, model.cpp:332-340) and of the fold averaging (`gboost_model_t::fit`, model.cpp:286-311).
  Core Lean only.

  Everything numeric of a boosting round (gradients, the choice and the scaling of the weak learner, shrinkage, the
  evaluation of the loss) is an *oracle answer* carried by `RoundEv`: the theorems hold for every such answer.
  `wlearner::merge` (called by `result_t::done` and after the fold concatenation) only re-associates weak learners
  that use the same features; it is not modelled.

  Tie to the code: with the trace hook H3 (`NANO_VERIF_TRACE("gboost.…")` in model.cpp / result.cpp) the harness runs real
  fits, logs these oracle answers and the decisions of the loop, and `Driver/Boost.lean` replays the answers through
  `roundEv` / `loopTrace` / `fitObs` / `averaged`: every decision must be reproduced exactly (family `gbloop`).
  (Line numbers: /repo before the hook lines were added.)
-/
namespace NanoVerif.Boost
open NanoVerif.Gen.EarlyStopping

/-- what one iteration of the round loop observes -/
inductive RoundEv (L α : Type) where
  /-- `if (!best_wlearner) { break; }` (model.cpp:146-149) -/
  | noLearner : RoundEv L α
  /-- the scaling failed: `result.update(round + 1, …, std::move(best_wlearner)); break;` (model.cpp:159-164) —
      the learner is appended but `optimum.done` is not called -/
  | scaleFail (w : L) : RoundEv L α
  /-- the learner was scaled, the outputs updated, `result.update(round + 1, …, best_wlearner)` appended it, and
      `optimum.done(values, …, result.m_wlearners, …)` is called with these mean errors (model.cpp:166-187) -/
  | fitted (w : L) (train valid : α) : RoundEv L α

structure LoopSt (L α : Type) where
  learners : List L      -- result.m_wlearners
  es : State α           -- optimum

variable {L α : Type} [Add α] [Sub α] [Mul α] [LT α] [LE α] [DecidableLT α] [DecidableLE α]

/-- one iteration of the body of `for (round = 0; round < max_rounds; ++round) { … }` (model.cpp:128-188): the state
    after it and whether the loop is left by a `break`; the call made when `n` learners are present names its
    `errors_losses` tensor `n + 1` (the call before the loop is 1) -/
def step (eps : α) (pat ntrain nvalid : Nat) (st : LoopSt L α) : RoundEv L α → LoopSt L α × Bool
  | .noLearner => (st, true)
  | .scaleFail w => ({ st with learners := st.learners ++ [w] }, true)
  | .fitted w t v =>
    let ws := st.learners ++ [w]
    let r := done eps pat st.es { train := t, valid := v, n := ws.length, ntrain := ntrain, nvalid := nvalid, idx := ws.length + 1 }
    ({ learners := ws, es := r.1 }, r.2)

/-- the round loop: the list holds the events of the iterations in order (it is cut at `max_rounds` by `fitLoop`) -/
def loop (eps : α) (pat ntrain nvalid : Nat) : LoopSt L α → List (RoundEv L α) → LoopSt L α
  | st, [] => st
  | st, ev :: rest =>
    if (step eps pat ntrain nvalid st ev).2 then (step eps pat ntrain nvalid st ev).1
    else loop eps pat ntrain nvalid (step eps pat ntrain nvalid st ev).1 rest

/-- the same loop, keeping what every executed iteration produced (the state after it, whether it left the loop): this is
    what the differential run compares with the records of the trace hook, iteration by iteration -/
def loopTrace (eps : α) (pat ntrain nvalid : Nat) : LoopSt L α → List (RoundEv L α) → List (LoopSt L α × Bool)
  | _, [] => []
  | st, ev :: rest =>
    step eps pat ntrain nvalid st ev ::
      (if (step eps pat ntrain nvalid st ev).2 then [] else loopTrace eps pat ntrain nvalid (step eps pat ntrain nvalid st ev).1 rest)

/-- the calls of `optimum.done` made inside the loop, in order (none by an iteration that leaves through the no-learner or
    the scaling-failure exit, none after a call that answered `true`) -/
def callsMade (eps : α) (pat ntrain nvalid : Nat) : LoopSt L α → List (RoundEv L α) → List (Call α)
  | _, [] => []
  | _, .noLearner :: _ => []
  | _, .scaleFail _ :: _ => []
  | st, .fitted w t v :: rest =>
    let c : Call α := { train := t, valid := v, n := (st.learners ++ [w]).length, ntrain := ntrain, nvalid := nvalid,
                        idx := (st.learners ++ [w]).length + 1 }
    c :: (if (done eps pat st.es c).2 then []
          else callsMade eps pat ntrain nvalid { learners := st.learners ++ [w], es := (done eps pat st.es c).1 } rest)

/-- `::fit` up to (not including) `result.done`: the call on the bias-only model (`max_rounds = 0` when it answers
    true), then the loop over at most `maxRounds` iterations -/
def fitLoop (eps : α) (pat ntrain nvalid maxRounds : Nat) (vmax train0 valid0 : α) (evs : List (RoundEv L α)) :
    LoopSt L α :=
  let r := done eps pat (init vmax) { train := train0, valid := valid0, n := 0, ntrain := ntrain, nvalid := nvalid, idx := 1 }
  if r.2 then { learners := [], es := r.1 }
  else loop eps pat ntrain nvalid { learners := [], es := r.1 } (evs.take maxRounds)

/-- every call of `optimum.done` made by `::fit`: the one on the bias-only model, then those of the loop -/
def fitCalls (eps : α) (pat ntrain nvalid maxRounds : Nat) (vmax train0 valid0 : α) (evs : List (RoundEv L α)) :
    List (Call α) :=
  let c0 : Call α := { train := train0, valid := valid0, n := 0, ntrain := ntrain, nvalid := nvalid, idx := 1 }
  c0 :: (if (done eps pat (init vmax) c0).2 then []
         else callsMade eps pat ntrain nvalid { learners := ([] : List L), es := (done eps pat (init vmax) c0).1 }
                (evs.take maxRounds))

/-- `result.done(optimum.round())` = `m_wlearners.erase(begin() + round, end())`: the kept learners and the monitor -/
def fit (eps : α) (pat ntrain nvalid maxRounds : Nat) (vmax train0 valid0 : α) (evs : List (RoundEv L α)) :
    List L × State α :=
  let st := fitLoop eps pat ntrain nvalid maxRounds vmax train0 valid0 evs
  (st.learners.take st.es.round, st.es)

/-- the learners the iterations append, in order (none after a `noLearner`/`scaleFail`, which leave the loop) -/
def learnersOf : List (RoundEv L α) → List L
  | [] => []
  | .noLearner :: _ => []
  | .scaleFail w :: _ => [w]
  | .fitted w _ _ :: rest => w :: learnersOf rest

/-! ### what an iteration observes before it decides (the oracle answers logged by the trace hook) -/

/-- the numbers one iteration reads: the score and the fitted clone of every prototype in order (model.cpp:136-145),
    `gstate.x().min()` (model.cpp:159; read only when a learner was chosen) and the mean errors after the update
    (model.cpp:180-184; read only when the scaling succeeded) -/
structure RoundObs (L α : Type) where
  cands : List (α × L)
  xmin : α
  train : α
  valid : α

/-- `best_score = no_fit_score(); best_wlearner = {}; for (prototype) { if (score < best_score) { best_score = score;
    best_wlearner = wlearner; } }` (model.cpp:134-145) -/
def pickBest (noFit : α) (cands : List (α × L)) : α × Option L :=
  cands.foldl (fun b c => if c.1 < b.1 then (c.1, some c.2) else b) (noFit, none)

/-- the branch an iteration takes: `if (!best_wlearner) break;` (model.cpp:146-149), then
    `if (gstate.x().min() < numeric_limits<scalar_t>::epsilon()) { …; break; }` (model.cpp:159-164), else the regular
    round; `epsMach` = `numeric_limits<scalar_t>::epsilon()` -/
def roundEv (noFit epsMach : α) (o : RoundObs L α) : RoundEv L α :=
  match (pickBest noFit o.cands).2 with
  | none => .noLearner
  | some w => if o.xmin < epsMach then .scaleFail w else .fitted w o.train o.valid

/-- `::fit` driven by the observations -/
def fitObs (eps : α) (pat ntrain nvalid maxRounds : Nat) (vmax noFit epsMach train0 valid0 : α)
    (obs : List (RoundObs L α)) : List L × State α :=
  fit eps pat ntrain nvalid maxRounds vmax train0 valid0 (obs.map (roundEv noFit epsMach))

/-- `gboost_model_t::do_predict`: `outputs = bias; for (wlearner : m_wlearners) wlearner->predict(…, outputs)` — every
    weak learner *adds* its prediction; a learner is represented by its prediction function -/
def predict {X : Type} (bias : α) (ws : List (X → α)) (x : X) : α :=
  ws.foldl (fun acc w => acc + w x) bias

/-- `wlearner_t::scale` with a one-element vector: all predictions multiplied by the factor -/
def scale {X : Type} (c : α) (w : X → α) : X → α := fun x => c * w x

/-- fold averaging (model.cpp:284-304): biases summed then multiplied by `denom = 1 / folds`, the learners of all folds
    concatenated and each scaled by `denom` -/
def averaged {X : Type} (zero denom : α) (folds : List (α × List (X → α))) : α × List (X → α) :=
  ((folds.foldl (fun acc f => acc + f.1) zero) * denom, (folds.flatMap (·.2)).map (scale denom))

end NanoVerif.Boost
