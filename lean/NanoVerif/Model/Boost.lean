import NanoVerif.Model.EarlyStopping
/-!
  C11 — skeleton of the round loop of gradient boosting (`::fit` in src/gboost/model.cpp:74-196), of the prediction
  (`gboost_model_t::do_predict`, model.cpp:331-339) and of the fold averaging (`gboost_model_t::fit`, model.cpp:284-304).
  Core Lean only.

  Everything numeric of a boosting round (gradients, the choice and the scaling of the weak learner, shrinkage, the
  evaluation of the loss) is an *oracle answer* carried by `RoundEv`: the theorems hold for every such answer.
  `wlearner::merge` (called by `result_t::done` and after the fold concatenation) only re-associates weak learners
  that use the same features; it is not modelled.
-/
namespace NanoVerif.Boost
open NanoVerif.Gen.EarlyStopping

/-- what one iteration of the round loop observes -/
inductive RoundEv (L α : Type) where
  /-- `if (!best_wlearner) { break; }` (model.cpp:147-150) -/
  | noLearner : RoundEv L α
  /-- the scaling failed: `result.update(round + 1, …, std::move(best_wlearner)); break;` (model.cpp:160-165) —
      the learner is appended but `optimum.done` is not called -/
  | scaleFail (w : L) : RoundEv L α
  /-- the learner was scaled, the outputs updated, `result.update(round + 1, …, best_wlearner)` appended it, and
      `optimum.done(values, …, result.m_wlearners, …)` is called with these mean errors (model.cpp:167-191) -/
  | fitted (w : L) (train valid : α) : RoundEv L α

structure LoopSt (L α : Type) where
  learners : List L      -- result.m_wlearners
  es : State α           -- optimum

variable {L α : Type} [Add α] [Sub α] [Mul α] [LT α] [LE α] [DecidableLT α] [DecidableLE α]

/-- `for (round = 0; round < max_rounds; ++round) { … }`: the list holds the events of the iterations in order; the
    call made when `n` learners are present names its `errors_losses` tensor `n + 1` (the call before the loop is 1) -/
def loop (eps : α) (pat ntrain nvalid : Nat) : LoopSt L α → List (RoundEv L α) → LoopSt L α
  | st, [] => st
  | st, .noLearner :: _ => st
  | st, .scaleFail w :: _ => { st with learners := st.learners ++ [w] }
  | st, .fitted w t v :: rest =>
    let ws := st.learners ++ [w]
    let r := done eps pat st.es { train := t, valid := v, n := ws.length, ntrain := ntrain, nvalid := nvalid, idx := ws.length + 1 }
    if r.2 then { learners := ws, es := r.1 } else loop eps pat ntrain nvalid { learners := ws, es := r.1 } rest

/-- `::fit` up to (not including) `result.done`: the call on the bias-only model (`max_rounds = 0` when it answers
    true), then the loop over at most `maxRounds` iterations -/
def fitLoop (eps : α) (pat ntrain nvalid maxRounds : Nat) (vmax train0 valid0 : α) (evs : List (RoundEv L α)) :
    LoopSt L α :=
  let r := done eps pat (init vmax) { train := train0, valid := valid0, n := 0, ntrain := ntrain, nvalid := nvalid, idx := 1 }
  if r.2 then { learners := [], es := r.1 }
  else loop eps pat ntrain nvalid { learners := [], es := r.1 } (evs.take maxRounds)

/-- `result.done(optimum.round())` = `m_wlearners.erase(begin() + round, end())`: the kept learners and the monitor -/
def fit (eps : α) (pat ntrain nvalid maxRounds : Nat) (vmax train0 valid0 : α) (evs : List (RoundEv L α)) :
    List L × State α :=
  let st := fitLoop eps pat ntrain nvalid maxRounds vmax train0 valid0 evs
  (st.learners.take st.es.round, st.es)

/-- the learners the iterations append, in order (none after a `noLearner`/`scaleFail`, which leave the loop) -/
def learnersOf : List (RoundEv L α) → List L
  | [] => []
  | .noLearner :: _ => []
  | .scaleFail w :: _ => [w]
  | .fitted w _ _ :: rest => w :: learnersOf rest

/-- `gboost_model_t::do_predict`: `outputs = bias; for (wlearner : m_wlearners) wlearner->predict(…, outputs)` — every
    weak learner *adds* its prediction; a learner is represented by its prediction function -/
def predict {X : Type} (bias : α) (ws : List (X → α)) (x : X) : α :=
  ws.foldl (fun acc w => acc + w x) bias

/-- `wlearner_t::scale` with a one-element vector: all predictions multiplied by the factor -/
def scale {X : Type} (c : α) (w : X → α) : X → α := fun x => c * w x

/-- fold averaging (model.cpp:284-304): biases summed then multiplied by `denom = 1 / folds`, the learners of all folds
    concatenated and each scaled by `denom` -/
def averaged {X : Type} (zero denom : α) (folds : List (α × List (X → α))) : α × List (X → α) :=
  ((folds.foldl (fun acc f => acc + f.1) zero) * denom, (folds.flatMap (·.2)).map (scale denom))

end NanoVerif.Boost
