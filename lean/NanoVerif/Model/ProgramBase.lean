/-
  C04 — basic definitions of the interior-point model (core Lean only): scalars classes, the program, list vectors.
  The model itself is `Model/Program.lean`; `Gen/ProgramDone.lean` (generated from the C++ source) sits between the two.
-/
namespace NanoVerif.Program

class Sqrt (α : Type) where
  sqrt : α → α

instance : Sqrt Float := ⟨Float.sqrt⟩

class FinTest (α : Type) where
  isFin : α → Bool

instance : FinTest Float := ⟨Float.isFinite⟩

/-- `enum class solver_status` (include/nano/solver/status.h), same order -/
inductive Status where
  | maxIters | converged | failed | unfeasible | unbounded
deriving DecidableEq, Repr

def Status.code : Status → Nat
  | .maxIters => 0 | .converged => 1 | .failed => 2 | .unfeasible => 3 | .unbounded => 4

/-- the program `min 1/2 x.Qx + c.x  s.t.  Ax = b, Gx <= h` (`program_t::m_Q … m_h`) -/
structure Prog (α : Type) where
  Q : List (List α)
  c : List α
  A : List (List α)
  b : List α
  G : List (List α)
  h : List α

def Prog.n {α} (P : Prog α) : Nat := P.c.length
def Prog.p {α} (P : Prog α) : Nat := P.A.length
def Prog.m {α} (P : Prog α) : Nat := P.G.length

/-- the parameters of `solver_t` and the constants of the code (`min_norm = 1e-3`, `epsilon2<scalar_t>()`,
    `numeric_limits<scalar_t>::max()`) -/
structure Params (α : Type) where
  minNorm : α
  eps2 : α
  big : α
  s0 : α
  miu : α
  alpha : α
  beta : α
  epsilon : α
  epsilon0 : α
  maxIters : Nat
  maxLs : Nat

/-- the derived part of `solver_state_t`: `m_fx, m_eta, m_rdual, m_rprim, m_rcent` -/
structure St (α : Type) where
  fx : α
  eta : α
  rdual : List α
  rprim : List α
  rcent : List α

section
variable {α : Type} [Add α] [Sub α] [Mul α] [Div α] [Neg α] [LT α] [LE α] [DecidableLT α] [DecidableLE α]
  [OfNat α 0] [OfNat α 1] [OfNat α 2] [NatCast α]

/-- `std::max(a, b)` = `(a < b) ? b : a` -/
def cmax (a b : α) : α := if a < b then b else a

/-- `std::min(a, b)` = `(b < a) ? b : a` -/
def cmin (a b : α) : α := if b < a then b else a

/-- `std::max({a, b, c})` (`max_element`: the first largest) -/
def cmax3 (a b c : α) : α := cmax (cmax a b) c

/-! ### vectors and matrices -/

def dot : List α → List α → α
  | a :: as, b :: bs => a * b + dot as bs
  | _, _ => 0

/-- `A * x` -/
def mv (A : List (List α)) (x : List α) : List α := A.map (fun r => dot r x)

def vadd (x y : List α) : List α := List.zipWith (· + ·) x y
def vsub (x y : List α) : List α := List.zipWith (· - ·) x y
def smul (s : α) (x : List α) : List α := x.map (fun a => s * a)
def vdivs (x : List α) (d : α) : List α := x.map (fun a => a / d)
def vneg (x : List α) : List α := x.map (fun a => -a)
def zeros (n : Nat) : List α := List.replicate n 0

/-- `c * x + y` -/
def axpy (c : α) : List α → List α → List α
  | a :: as, b :: bs => (c * a + b) :: axpy c as bs
  | _, _ => []

/-- `A.transpose() * u` = Σᵢ uᵢ · rowᵢ (vectors of length `n`) -/
def tmv (n : Nat) : List (List α) → List α → List α
  | r :: A, u :: us => axpy u r (tmv n A us)
  | _, _ => zeros n

/-- `x + s * d` -/
def move (x : List α) (s : α) (d : List α) : List α := vadd x (smul s d)

def sumsq (x : List α) : α := dot x x

/-- squared Frobenius norm (`lpNorm<2>` of a tensor is the 2-norm of the flattened array) -/
def sumsqM : List (List α) → α
  | [] => 0
  | r :: A => sumsq r + sumsqM A

def norm2 [Sqrt α] (x : List α) : α := Sqrt.sqrt (sumsq x)
def normF [Sqrt α] (A : List (List α)) : α := Sqrt.sqrt (sumsqM A)

/-- `maxCoeff()`; `none` for an empty vector (the C++ code never asks: `m > 0` on the inequality path, guarded in
    `feasible`) -/
def maxCoeff : List α → Option α
  | [] => none
  | a :: as => some (as.foldl cmax a)

/-- `v.maxCoeff() < c` -/
def maxLt (v : List α) (c : α) : Bool :=
  match maxCoeff v with
  | none => true
  | some m => decide (m < c)

/-- `G * x - h` -/
def slack (P : Prog α) (x : List α) : List α := vsub (mv P.G x) P.h

end

end NanoVerif.Program
