import NanoVerif.Model.WLearner
/-!
  C10 — model of the FIT of libnano's k-best and k-split look-up tables (core Lean only; generic over the scalar type).

  Mirrors /repo (line numbers at the time of writing):
    src/wlearner/accumulator.cpp:35-50   accumulator_t::sort(): `(-r1(bin).square().sum() / x0(bin), bin)` sorted as pairs
                                                                          -> `binDeltas`, the oracle `sortP` (`pairLe`)
    src/wlearner/table.cpp:89-136        cache_t::score_kbest(feature, hashes, criterion, max_kbest)
                                                                          -> `kbestCands` (one candidate per `kbest = 1..max`,
                                                                             running `rss += mapping[kbest-1].first`,
                                                                             `std::sort(bins_kbest)` -> `sortAsc`)
    src/wlearner/accumulator.cpp:52-135  accumulator_t::cluster(): agglomerative merging of the two clusters whose mean
                                         outputs are closest (first strictly smaller squared distance in the double loop)
                                                                          -> `Clu`, `cluDist`, `closestPair`, `cluStep`, `cluTrials`
    src/wlearner/table.cpp:138-173       cache_t::score_ksplit             -> `ksplitCands` (one candidate per trial: `bins − ic`
                                                                             clusters, `m_hash2tables = id`, `m_tables = rx`)
    src/wlearner/table.cpp:344-403       kbest / ksplit do_fit: the candidates of all categorical features go through the
                                         lexicographic cache (`pickLex`, `fitSeqLex` of Model/WLearner.lean)
  A feature without any present value has no bins: neither loop runs, no candidate.
-/
namespace NanoVerif.WLearner

section
variable {α : Type} [Add α] [Sub α] [Mul α] [Div α] [Neg α] [LT α] [DecidableLT α] [OfNat α 0] [OfNat α 1]

/-- the order of `std::pair<scalar_t, tensor_size_t>` -/
def pairLe (a b : α × Nat) : Bool :=
  decide (a.1 < b.1) || (!decide (b.1 < a.1) && decide (a.2 ≤ b.2))

/-- `std::sort(bins_kbest.begin(), bins_kbest.end())` -/
def insertAsc (a : Nat) : List Nat → List Nat
  | [] => [a]
  | b :: bs => if a ≤ b then a :: b :: bs else b :: insertAsc a bs

def sortAsc (l : List Nat) : List Nat := l.foldr insertAsc []

/-- the entries of `accumulator_t::sort()` before the sort: `(delta(bin), bin)` in bin order -/
def binDeltas (T : Nat) (rows : List (CRow α)) : List (α × Nat) :=
  ((hashesOf rows).map fun h => binDelta T (binMom rows h)).zipIdx

variable [NatCast α] [Log α]

/-- the candidate that keeps the bins `bins` (indices into the sorted hashes, ascending): `m_hashes(fv) = hashes(bin)`,
    `m_tables.array(fv) = r1(bin) / x0(bin)`, `m_hash2tables = arange(0, kbest)` -/
def kbestCandOf (T : Nat) (K : α) (crit : Crit) (f : Nat) (rows : List (CRow α)) (rss : α) (bins : List Nat) : Cand α :=
  let hs := hashesOf rows
  { score := makeScore K crit rss (bins.length * T) rows.length, rss := rss, feature := f, thr := 0, dir := 0,
    hashes := bins.map fun b => hs.getD b 0, h2t := List.range bins.length,
    tables := bins.map fun b => binMean (binMom rows (hs.getD b 0)) }

/-- `rss` after `kbest` deltas were added, one after the other, to `m_missing_rss + Σ_bins r2(bin).sum()` -/
def kbestRss (T : Nat) (rows : List (CRow α)) (pre : List (α × Nat)) : α :=
  pre.foldl (fun acc p => acc + p.1) (dstepRss0 T rows)

/-- `score_kbest`: the candidates `kbest = 1 .. max` of one feature, in the order they are tried
    (`maxK = 0`: the default `max_kbest = -1`, i.e. all bins; `maxK = 1`: the discrete-step table) -/
def kbestCands (sortP : List (α × Nat) → List (α × Nat)) (T : Nat) (K : α) (crit : Crit) (f : Nat)
    (rows : List (CRow α)) (maxK : Nat) : List (Cand α) :=
  let mapping := sortP (binDeltas T rows)
  let bins := (hashesOf rows).length
  let kmax := if maxK < 1 then bins else min maxK bins
  (List.range kmax).map fun i =>
    let pre := mapping.take (i + 1)
    kbestCandOf T K crit f rows (kbestRss T rows pre) (sortAsc (pre.map (·.2)))

/-! ### k-split: agglomerative clustering of the bins -/

/-- one cluster: `cluster_x0, cluster_r1, cluster_r2, cluster_rx` (`rx` = its mean output) -/
structure Clu (α : Type) where
  x0 : α
  r1 : Vec α
  r2 : Vec α
  rx : Vec α

def Clu.dflt : Clu α := ⟨0, zeroV, zeroV, zeroV⟩

/-- trial 0: every bin is a cluster -/
def Clu.ofBin (m : Mom α) : Clu α := ⟨m.x0, m.r1, m.r2, fun o => m.r1 o / m.x0⟩

/-- `(output1 - output2).square().sum()` -/
def cluDist (T : Nat) (a b : Clu α) : α := vsum (fun o => (a.rx o - b.rx o) * (a.rx o - b.rx o)) T

/-- the double loop over `icluster1 < icluster2 < n_clusters`: the first pair with a strictly smaller distance than all
    pairs before it (start: `numeric_limits::max()`, `(0, 1)`) -/
def closestPair (T : Nat) (big : α) (cl : List (Clu α)) : Nat × Nat :=
  let n := cl.length
  let pairs := (List.range n).flatMap fun i => ((List.range n).filter fun j => i < j).map fun j => (i, j)
  (pairs.foldl (fun (best : α × Nat × Nat) p =>
    let d := cluDist T (cl.getD p.1 Clu.dflt) (cl.getD p.2 Clu.dflt)
    if d < best.1 then (d, p.1, p.2) else best) (big, 0, 1)).2

/-- `cluster1 += cluster2`, `rx = r1 / x0` -/
def Clu.merge (a b : Clu α) : Clu α :=
  { x0 := a.x0 + b.x0, r1 := fun o => a.r1 o + b.r1 o, r2 := fun o => a.r2 o + b.r2 o,
    rx := fun o => (a.r1 o + b.r1 o) / (a.x0 + b.x0) }

/-- one trial: merge the closest two clusters, shift the later clusters down, renumber `cluster_id` -/
def cluStep (T : Nat) (big : α) (st : List (Clu α) × List Nat) : List (Clu α) × List Nat :=
  let p := closestPair T big st.1
  let merged := Clu.merge (st.1.getD p.1 Clu.dflt) (st.1.getD p.2 Clu.dflt)
  ((st.1.set p.1 merged).eraseIdx p.2,
   st.2.map fun id => if id = p.2 then p.1 else if p.2 < id then id - 1 else id)

/-- the states of all trials `0 .. bins−1` -/
def cluTrials (T : Nat) (big : α) : Nat → List (Clu α) × List Nat → List (List (Clu α) × List Nat)
  | 0, _ => []
  | n + 1, st => st :: cluTrials T big n (cluStep T big st)

/-- `(r2.array(fv) - r1.array(fv).square() / x0(fv)).sum()` -/
def cluScore (T : Nat) (c : Clu α) : α := vsum (fun o => c.r2 o - c.r1 o * c.r1 o / c.x0) T

/-- `score_ksplit`: one candidate per trial (`bins − ic` clusters), in the order they are tried -/
def ksplitCands (T : Nat) (K big : α) (crit : Crit) (f : Nat) (rows : List (CRow α)) : List (Cand α) :=
  let hs := hashesOf rows
  let init : List (Clu α) × List Nat := (hs.map fun h => Clu.ofBin (binMom rows h), List.range hs.length)
  (cluTrials T big hs.length init).map fun st =>
    let rss := sumL (cluScore T) st.1 (missRssC T rows)
    { score := makeScore K crit rss (st.1.length * T) rows.length, rss := rss, feature := f, thr := 0, dir := 0,
      hashes := hs, h2t := st.2, tables := st.1.map (·.rx) }

end

end NanoVerif.WLearner
