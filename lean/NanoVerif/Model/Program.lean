import NanoVerif.Gen.ProgramDone
/-
  C04 — model of libnano's primal-dual interior-point solver for linear / quadratic programs
  (core Lean only; generic over the scalar: run at `Float` by `driver_c04`, proved over an ordered field in
  `Props/C04.lean`).

  Mirrors (line numbers of /repo at the time of writing):
    src/program/solver.cpp:25-39     ::make_smax                                   -> `makeSmax`
    src/program/solver.cpp:41-47     ::normalize(A, b, min_norm)                   -> `normalizePair`
    src/program/solver.cpp:70-98     program_t::program_t (three normalisations)   -> `normalizePair` (three times), `normalize`
    src/program/solver.cpp:106-115   program_t::feasible                           -> `feasible`   (GENERATED: Gen/ProgramDone.lean)
    src/program/solver.cpp:149-188   program_t::update                             -> `objective`, `gradObj`, `update`
    src/program/state.cpp:18-21      solver_state_t::residual                      -> `residual`
    src/program/solver.cpp:243-282   solve_with_inequality, start                  -> `start`
    src/program/solver.cpp:311-329   backtracking stage 1                          -> `stage1`
    src/program/solver.cpp:331-352   backtracking stage 2 (+ the revert)           -> `stage2`, `stage2Fail`
    src/program/solver.cpp:357-385   state update, stopping criteria               -> `iterate`
    src/program/solver.cpp:390-418   solve_without_inequality                      -> `noineq`
    src/program/solver.cpp:420-438   solver_t::done                                -> `doneStatus` (GENERATED: Gen/ProgramDone.lean), `done`

  Vectors are lists, matrices lists of rows; an LP has `Q = []` (`matrix_t{}` in the C++ code).

  ORACLES (their logged answers are inputs of the model, never recomputed):
    * the Newton step `(dx, du, dv)` of `program_t::solve` (Eigen LDLT) together with the test
      `isfinite(rcond) && dx, dv, du all finite` (`stepOk`);
    * `program::reduce` (Eigen FullPivLU), which replaces a rank-deficient `[A|b]` by an equivalent full-row-rank
      system: the driver takes the reduced, normalised `A, b` from the trace in that case;
    * the solution `(x, v)` of the KKT system on the equality-only path.
  `Sqrt` is `std::sqrt` (only a function in the theorems; where its value matters the hypotheses say what is used);
  `FinTest` is `std::isfinite` on computed values.
-/
namespace NanoVerif.Program

section
variable {α : Type} [Add α] [Sub α] [Mul α] [Div α] [Neg α] [LT α] [LE α] [DecidableLT α] [DecidableLE α]
  [OfNat α 0] [OfNat α 1] [OfNat α 2] [NatCast α]

/-! ### normalisation (solver.cpp:41-47, 77-85) -/

/-- `::normalize`: `denom = std::max({min_norm, A.lpNorm<2>(), b.lpNorm<2>()})`, both divided by it -/
def normDenom [Sqrt α] (minNorm : α) (A : List (List α)) (b : List α) : α :=
  cmax3 minNorm (normF A) (norm2 b)

def normalizePair [Sqrt α] (minNorm : α) (A : List (List α)) (b : List α) : α × List (List α) × List α :=
  let d := normDenom minNorm A b
  (d, A.map (fun r => vdivs r d), vdivs b d)

/-- the program after the three normalisations, and `m_mufx` (no row reduction: `reduce` is an oracle) -/
def normalize [Sqrt α] (minNorm : α) (P : Prog α) : α × Prog α :=
  let o := normalizePair minNorm P.Q P.c
  let e := normalizePair minNorm P.A P.b
  let i := normalizePair minNorm P.G P.h
  (o.1, ⟨o.2.1, o.2.2, e.2.1, e.2.2, i.2.1, i.2.2⟩)

/-! ### objective, residuals (`program_t::update`) -/

/-- `x.dot(c)` for an LP, `0.5 * x.dot(Q * x) + x.dot(c)` otherwise -/
def objective (P : Prog α) (x : List α) : α :=
  if P.Q.isEmpty then dot x P.c else (1 / 2) * dot x (mv P.Q x) + dot x P.c

/-- `c` for an LP, `Q * x + c` otherwise -/
def gradObj (P : Prog α) (x : List α) : List α :=
  if P.Q.isEmpty then P.c else vadd (mv P.Q x) P.c

/-- `program_t::update(x, u, v, miu, state)`: the fields that the `if (m > 0)` / `if (p > 0)` guards skip keep
    their previous value -/
def update (P : Prog α) (mufx miu : α) (x u v : List α) (st : St α) : St α :=
  let fx := objective P x * mufx
  let rd0 := gradObj P x
  let g := slack P x
  let eta := if P.G.isEmpty then st.eta else -(dot u g)
  let rd1 := if P.A.isEmpty then rd0 else vadd rd0 (tmv P.n P.A v)
  let rprim := if P.A.isEmpty then st.rprim else vsub (mv P.A x) P.b
  let rd2 := if P.G.isEmpty then rd1 else vadd rd1 (tmv P.n P.G u)
  let rcent := if P.G.isEmpty then st.rcent
    else
      let t := -eta / (miu * (P.m : α))
      List.zipWith (fun ui gi => t - ui * gi) u g
  ⟨fx, eta, rd2, rprim, rcent⟩

/-- `solver_state_t::residual` -/
def residual [Sqrt α] (st : St α) : α :=
  Sqrt.sqrt (sumsq st.rdual + sumsq st.rcent + sumsq st.rprim)

/-! ### step length (`make_smax`, the two backtracking stages) -/

/-- the loop of `make_smax` -/
def smaxLoop : α → List α → List α → α
  | acc, u :: us, d :: ds => smaxLoop (if d < 0 then cmin acc (-u / d) else acc) us ds
  | acc, _, _ => acc

/-- `make_smax(u, du)` -/
def makeSmax (big : α) (u du : List α) : α := cmin (smaxLoop big u du) 1

/-- stage 1: shrink `s` until `G (x + s dx) - h < 0`; `none` ⇔ `iter == max_lsearch_iters` -/
def stage1 (P : Prog α) (beta : α) (x dx : List α) : Nat → α → Option α
  | 0, _ => none
  | k + 1, s => if maxLt (slack P (move x s dx)) 0 then some s else stage1 P beta x dx k (s * beta)

/-- stage 2: shrink `s` until `residual <= (1 - alpha s) r0`. Returns the accepted step (or `none`) and the state
    left in `state` (the last trial). `st` is the state before the loop (kept when no trial is made). -/
def stage2 [Sqrt α] (P : Prog α) (mufx miu alpha beta : α) (x u v dx du dv : List α) (r0 : α) :
    Nat → α → St α → Option α × St α
  | 0, _, st => (none, st)
  | k + 1, s, st =>
    let st' := update P mufx miu (move x s dx) (move u s du) (move v s dv) st
    if residual st' ≤ (1 - alpha * s) * r0 then (some s, st')
    else stage2 P mufx miu alpha beta x u v dx du dv r0 k (s * beta) st'

/-- `program.update(x, u, v, miu, state)` after a failed stage 2: the state is reverted to that of `(x, u, v)`, so that
    `done` decides on — and the caller receives — the objective and the residuals of the returned point -/
def stage2Fail (P : Prog α) (mufx miu : α) (x u v : List α) (st : St α) : St α :=
  update P mufx miu x u v st

/- `feasible` (`program_t::feasible`) and `doneStatus` (the `if` of `solver_t::done`) are the definitions of
   `Gen/ProgramDone.lean`, re-translated from the C++ source on every check. -/

/-- `solver_t::done(program, state, epsilon)` -/
def done [Sqrt α] (P : Prog α) (par : Params α) (x : List α) (st : St α) : Status :=
  doneStatus (feasible P par.eps2 x) st.eta (norm2 st.rdual) (norm2 st.rprim) par.epsilon

/-! ### one iteration of the primal-dual loop -/

/-- what one pass through the loop body leaves behind: either the loop goes on with `(x, u, v, state)`, or it
    `break`s with a status and the state that is returned to the caller -/
inductive Outcome (α : Type) where
  | next (x u v : List α) (st : St α)
  | stop (status : Status) (x u v : List α) (st : St α)

/-- loop body (solver.cpp:286-385). `stepOk = false`: the linear system was found unstable (oracle). -/
def iterate [Sqrt α] [FinTest α] (P : Prog α) (mufx : α) (par : Params α) (x u v : List α) (st : St α)
    (stepOk : Bool) (dx du dv : List α) : Outcome α :=
  if !stepOk then .stop (done P par x st) x u v st
  else
    match stage1 P par.beta x dx par.maxLs (par.s0 * makeSmax par.big u du) with
    | none => .stop (done P par x st) x u v st
    | some s1 =>
      let r0 := residual st
      match stage2 P mufx par.miu par.alpha par.beta x u v dx du dv r0 par.maxLs s1 st with
      | (none, stT) =>
        let st' := stage2Fail P mufx par.miu x u v stT
        .stop (done P par x st') x u v st'
      | (some s2, st2) =>
        let x' := move x s2 dx
        let u' := move u s2 du
        let v' := move v s2 dv
        let prd := norm2 st.rdual
        let prp := norm2 st.rprim
        let crd := norm2 st2.rdual
        let crp := norm2 st2.rprim
        if !(FinTest.isFin st2.eta && FinTest.isFin crd && FinTest.isFin crp) then .stop .failed x' u' v' st2
        else if cmax3 (st.eta - st2.eta) (prd - crd) (prp - crp) < par.epsilon0 then
          .stop (done P par x' st2) x' u' v' st2
        else .next x' u' v' st2

/-- before the loop (solver.cpp:261-281): `none` ⇔ `x0` is not strictly feasible (status `unfeasible`);
    otherwise `u = -1 / (G x0 - h)`, `v = 0` and the first `update`. The fields `update` may skip start as the
    C++ constructor leaves them: `nan` scalars, vectors of the right (possibly zero) size. -/
def start (P : Prog α) (mufx miu nan : α) (x0 : List α) : Option (List α × List α × St α) :=
  match maxCoeff (slack P x0) with
  | none => none
  | some mx =>
    if 0 ≤ mx then none
    else
      let u := (slack P x0).map (fun g => -1 / g)
      let v : List α := zeros P.p
      let st0 : St α := ⟨nan, nan, [], [], []⟩
      some (u, v, update P mufx miu x0 u v st0)

/-! ### the equality-only path (`solve_without_inequality`) -/

/-- `(lmat * lsol).isApprox(lvec, prec)` with `lmat = [[Q, Aᵀ], [A, 0]]`, `lsol = (x, v)`, `lvec = (-c, b)`:
    `‖l - r‖² <= prec² min(‖l‖², ‖r‖²)` -/
def kktApprox (P : Prog α) (eps2 : α) (x v : List α) : Bool :=
  let top0 := if P.Q.isEmpty then zeros P.n else mv P.Q x
  let top := if P.A.isEmpty then top0 else vadd top0 (tmv P.n P.A v)
  let l := top ++ mv P.A x
  let r := vneg P.c ++ P.b
  decide (sumsq (vsub l r) ≤ eps2 * eps2 * cmin (sumsq l) (sumsq r))

/-- `solve_without_inequality` after the KKT system was solved (oracle `(x, v)`): `m_eta = 0`, `update`, status -/
def noineq [Sqrt α] [FinTest α] (P : Prog α) (mufx : α) (par : Params α) (x v : List α) : Status × St α :=
  let st0 : St α := ⟨0, 0, [], [], []⟩
  let st := update P mufx par.miu x [] v st0
  let valid := FinTest.isFin (residual st)
  let aprox := kktApprox P par.eps2 x v
  (if valid && aprox then .converged else if !valid then .failed else .unfeasible, st)

end

end NanoVerif.Program
