/-
  C04 — model of libnano's primal-dual interior-point solver for linear / quadratic programs
  (core Lean only; generic over the scalar: run at `Float` by `driver_c04`, proved over an ordered field in
  `Props/C04.lean`).

  Mirrors (line numbers of /repo at the time of writing):
    src/program/solver.cpp:25-39     ::make_smax                                   -> `makeSmax`
    src/program/solver.cpp:41-47     ::normalize(A, b, min_norm)                   -> `normalizePair`
    src/program/solver.cpp:70-98     program_t::program_t (three normalisations)   -> `normalizeObj/Eq/Ineq`, `normalize`
    src/program/solver.cpp:106-115   program_t::feasible                           -> `feasible`
    src/program/solver.cpp:149-188   program_t::update                             -> `objective`, `gradObj`, `update`
    src/program/state.cpp:18-21      solver_state_t::residual                      -> `residual`
    src/program/solver.cpp:243-282   solve_with_inequality, start                  -> `start`
    src/program/solver.cpp:311-329   backtracking stage 1                          -> `stage1`
    src/program/solver.cpp:331-355   backtracking stage 2 (+ the revert)           -> `stage2`, `stage2Fail`
    src/program/solver.cpp:357-385   state update, stopping criteria               -> `iterate`
    src/program/solver.cpp:390-418   solve_without_inequality                      -> `noineq`
    src/program/solver.cpp:420-438   solver_t::done                                -> `doneStatus`, `done`

  Vectors are lists, matrices lists of rows; an LP has `Q = []` (`matrix_t{}` in the C++ code).

  ORACLES (their logged answers are inputs of the model, never recomputed):
    * the Newton step `(dx, du, dv)` of `program_t::solve` (Eigen LDLT) together with the test
      `isfinite(rcond) && dx, dv, du all finite` (`stepOk`);
    * `program::reduce` (Eigen FullPivLU), which replaces a rank-deficient `[A|b]` by an equivalent full-row-rank
      system: the driver takes the reduced, normalised `A, b` from the trace in that case;
    * the solution `(x, v)` of the KKT system on the equality-only path.
  `Sqrt` is `std::sqrt` (only a function in the theorems; where its value matters the hypotheses say what is used);
  `FinTest` is `std::isfinite` on computed values.
-/
namespace NanoVerif.Program

class Sqrt (α : Type) where
  sqrt : α → α

instance : Sqrt Float := ⟨Float.sqrt⟩

class FinTest (α : Type) where
  isFin : α → Bool

instance : FinTest Float := ⟨Float.isFinite⟩

/-- `enum class solver_status` (include/nano/solver/status.h), same order -/
inductive Status where
  | maxIters | converged | failed | unfeasible | unbounded
deriving DecidableEq, Repr

def Status.code : Status → Nat
  | .maxIters => 0 | .converged => 1 | .failed => 2 | .unfeasible => 3 | .unbounded => 4

/-- the program `min 1/2 x.Qx + c.x  s.t.  Ax = b, Gx <= h` (`program_t::m_Q … m_h`) -/
structure Prog (α : Type) where
  Q : List (List α)
  c : List α
  A : List (List α)
  b : List α
  G : List (List α)
  h : List α

def Prog.n {α} (P : Prog α) : Nat := P.c.length
def Prog.p {α} (P : Prog α) : Nat := P.A.length
def Prog.m {α} (P : Prog α) : Nat := P.G.length

/-- the parameters of `solver_t` and the constants of the code (`min_norm = 1e-3`, `epsilon2<scalar_t>()`,
    `numeric_limits<scalar_t>::max()`) -/
structure Params (α : Type) where
  minNorm : α
  eps2 : α
  big : α
  s0 : α
  miu : α
  alpha : α
  beta : α
  epsilon : α
  epsilon0 : α
  maxIters : Nat
  maxLs : Nat

/-- the derived part of `solver_state_t`: `m_fx, m_eta, m_rdual, m_rprim, m_rcent` -/
structure St (α : Type) where
  fx : α
  eta : α
  rdual : List α
  rprim : List α
  rcent : List α

section
variable {α : Type} [Add α] [Sub α] [Mul α] [Div α] [Neg α] [LT α] [LE α] [DecidableLT α] [DecidableLE α]
  [OfNat α 0] [OfNat α 1] [OfNat α 2] [NatCast α]

/-- `std::max(a, b)` = `(a < b) ? b : a` -/
def cmax (a b : α) : α := if a < b then b else a

/-- `std::min(a, b)` = `(b < a) ? b : a` -/
def cmin (a b : α) : α := if b < a then b else a

/-- `std::max({a, b, c})` (`max_element`: the first largest) -/
def cmax3 (a b c : α) : α := cmax (cmax a b) c

/-! ### vectors and matrices -/

def dot : List α → List α → α
  | a :: as, b :: bs => a * b + dot as bs
  | _, _ => 0

/-- `A * x` -/
def mv (A : List (List α)) (x : List α) : List α := A.map (fun r => dot r x)

def vadd (x y : List α) : List α := List.zipWith (· + ·) x y
def vsub (x y : List α) : List α := List.zipWith (· - ·) x y
def smul (s : α) (x : List α) : List α := x.map (fun a => s * a)
def vdivs (x : List α) (d : α) : List α := x.map (fun a => a / d)
def vneg (x : List α) : List α := x.map (fun a => -a)
def zeros (n : Nat) : List α := List.replicate n 0

/-- `c * x + y` -/
def axpy (c : α) : List α → List α → List α
  | a :: as, b :: bs => (c * a + b) :: axpy c as bs
  | _, _ => []

/-- `A.transpose() * u` = Σᵢ uᵢ · rowᵢ (vectors of length `n`) -/
def tmv (n : Nat) : List (List α) → List α → List α
  | r :: A, u :: us => axpy u r (tmv n A us)
  | _, _ => zeros n

/-- `x + s * d` -/
def move (x : List α) (s : α) (d : List α) : List α := vadd x (smul s d)

def sumsq (x : List α) : α := dot x x

/-- squared Frobenius norm (`lpNorm<2>` of a tensor is the 2-norm of the flattened array) -/
def sumsqM : List (List α) → α
  | [] => 0
  | r :: A => sumsq r + sumsqM A

def norm2 [Sqrt α] (x : List α) : α := Sqrt.sqrt (sumsq x)
def normF [Sqrt α] (A : List (List α)) : α := Sqrt.sqrt (sumsqM A)

/-- `maxCoeff()`; `none` for an empty vector (the C++ code never asks: `m > 0` on the inequality path, guarded in
    `feasible`) -/
def maxCoeff : List α → Option α
  | [] => none
  | a :: as => some (as.foldl cmax a)

/-- `v.maxCoeff() < c` -/
def maxLt (v : List α) (c : α) : Bool :=
  match maxCoeff v with
  | none => true
  | some m => decide (m < c)

/-! ### normalisation (solver.cpp:41-47, 77-85) -/

/-- `::normalize`: `denom = std::max({min_norm, A.lpNorm<2>(), b.lpNorm<2>()})`, both divided by it -/
def normDenom [Sqrt α] (minNorm : α) (A : List (List α)) (b : List α) : α :=
  cmax3 minNorm (normF A) (norm2 b)

def normalizePair [Sqrt α] (minNorm : α) (A : List (List α)) (b : List α) : α × List (List α) × List α :=
  let d := normDenom minNorm A b
  (d, A.map (fun r => vdivs r d), vdivs b d)

/-- the program after the three normalisations, and `m_mufx` (no row reduction: `reduce` is an oracle) -/
def normalize [Sqrt α] (minNorm : α) (P : Prog α) : α × Prog α :=
  let o := normalizePair minNorm P.Q P.c
  let e := normalizePair minNorm P.A P.b
  let i := normalizePair minNorm P.G P.h
  (o.1, ⟨o.2.1, o.2.2, e.2.1, e.2.2, i.2.1, i.2.2⟩)

/-! ### objective, residuals (`program_t::update`) -/

/-- `x.dot(c)` for an LP, `0.5 * x.dot(Q * x) + x.dot(c)` otherwise -/
def objective (P : Prog α) (x : List α) : α :=
  if P.Q.isEmpty then dot x P.c else (1 / 2) * dot x (mv P.Q x) + dot x P.c

/-- `c` for an LP, `Q * x + c` otherwise -/
def gradObj (P : Prog α) (x : List α) : List α :=
  if P.Q.isEmpty then P.c else vadd (mv P.Q x) P.c

/-- `G * x - h` -/
def slack (P : Prog α) (x : List α) : List α := vsub (mv P.G x) P.h

/-- `program_t::update(x, u, v, miu, state)`: the fields that the `if (m > 0)` / `if (p > 0)` guards skip keep
    their previous value -/
def update (P : Prog α) (mufx miu : α) (x u v : List α) (st : St α) : St α :=
  let fx := objective P x * mufx
  let rd0 := gradObj P x
  let g := slack P x
  let eta := if P.G.isEmpty then st.eta else -(dot u g)
  let rd1 := if P.A.isEmpty then rd0 else vadd rd0 (tmv P.n P.A v)
  let rprim := if P.A.isEmpty then st.rprim else vsub (mv P.A x) P.b
  let rd2 := if P.G.isEmpty then rd1 else vadd rd1 (tmv P.n P.G u)
  let rcent := if P.G.isEmpty then st.rcent
    else
      let t := -eta / (miu * (P.m : α))
      List.zipWith (fun ui gi => t - ui * gi) u g
  ⟨fx, eta, rd2, rprim, rcent⟩

/-- `solver_state_t::residual` -/
def residual [Sqrt α] (st : St α) : α :=
  Sqrt.sqrt (sumsq st.rdual + sumsq st.rcent + sumsq st.rprim)

/-! ### step length (`make_smax`, the two backtracking stages) -/

/-- the loop of `make_smax` -/
def smaxLoop : α → List α → List α → α
  | acc, u :: us, d :: ds => smaxLoop (if d < 0 then cmin acc (-u / d) else acc) us ds
  | acc, _, _ => acc

/-- `make_smax(u, du)` -/
def makeSmax (big : α) (u du : List α) : α := cmin (smaxLoop big u du) 1

/-- stage 1: shrink `s` until `G (x + s dx) - h < 0`; `none` ⇔ `iter == max_lsearch_iters` -/
def stage1 (P : Prog α) (beta : α) (x dx : List α) : Nat → α → Option α
  | 0, _ => none
  | k + 1, s => if maxLt (slack P (move x s dx)) 0 then some s else stage1 P beta x dx k (s * beta)

/-- stage 2: shrink `s` until `residual <= (1 - alpha s) r0`. Returns the accepted step (or `none`) and the state
    left in `state` (the last trial). `st` is the state before the loop (kept when no trial is made). -/
def stage2 [Sqrt α] (P : Prog α) (mufx miu alpha beta : α) (x u v dx du dv : List α) (r0 : α) :
    Nat → α → St α → Option α × St α
  | 0, _, st => (none, st)
  | k + 1, s, st =>
    let st' := update P mufx miu (move x s dx) (move u s du) (move v s dv) st
    if residual st' ≤ (1 - alpha * s) * r0 then (some s, st')
    else stage2 P mufx miu alpha beta x u v dx du dv r0 k (s * beta) st'

/-- `if (state.residual() > r0) program.update(x, u, v, miu, state)` after a failed stage 2 -/
def stage2Fail [Sqrt α] (P : Prog α) (mufx miu : α) (x u v : List α) (r0 : α) (st : St α) : St α :=
  if r0 < residual st then update P mufx miu x u v st else st

/-! ### the status decision -/

/-- `program_t::feasible` -/
def feasible [Sqrt α] (P : Prog α) (eps2 : α) (x : List α) : Bool :=
  (P.A.isEmpty || decide (norm2 (vsub (mv P.A x) P.b) < eps2)) && (P.G.isEmpty || maxLt (slack P x) eps2)

/-- the `if` of `solver_t::done` -/
def doneStatus (feas : Bool) (eta rd rp epsilon : α) : Status :=
  if feas && decide (cmax3 eta rd rp < epsilon) then .converged
  else if feas then .unbounded else .unfeasible

/-- `solver_t::done(program, state, epsilon)` -/
def done [Sqrt α] (P : Prog α) (par : Params α) (x : List α) (st : St α) : Status :=
  doneStatus (feasible P par.eps2 x) st.eta (norm2 st.rdual) (norm2 st.rprim) par.epsilon

/-! ### one iteration of the primal-dual loop -/

/-- what one pass through the loop body leaves behind: either the loop goes on with `(x, u, v, state)`, or it
    `break`s with a status and the state that is returned to the caller -/
inductive Outcome (α : Type) where
  | next (x u v : List α) (st : St α)
  | stop (status : Status) (x u v : List α) (st : St α)

/-- loop body (solver.cpp:286-385). `stepOk = false`: the linear system was found unstable (oracle).
    NB (as in the code): when stage 2 fails without the revert, the status is decided on — and the caller gets — the
    residuals, `eta` and `fx` of the last trial point, while `x, u, v` are those of the iteration's start. -/
def iterate [Sqrt α] [FinTest α] (P : Prog α) (mufx : α) (par : Params α) (x u v : List α) (st : St α)
    (stepOk : Bool) (dx du dv : List α) : Outcome α :=
  if !stepOk then .stop (done P par x st) x u v st
  else
    match stage1 P par.beta x dx par.maxLs (par.s0 * makeSmax par.big u du) with
    | none => .stop (done P par x st) x u v st
    | some s1 =>
      let r0 := residual st
      match stage2 P mufx par.miu par.alpha par.beta x u v dx du dv r0 par.maxLs s1 st with
      | (none, stT) =>
        let st' := stage2Fail P mufx par.miu x u v r0 stT
        .stop (done P par x st') x u v st'
      | (some s2, st2) =>
        let x' := move x s2 dx
        let u' := move u s2 du
        let v' := move v s2 dv
        let prd := norm2 st.rdual
        let prp := norm2 st.rprim
        let crd := norm2 st2.rdual
        let crp := norm2 st2.rprim
        if !(FinTest.isFin st2.eta && FinTest.isFin crd && FinTest.isFin crp) then .stop .failed x' u' v' st2
        else if cmax3 (st.eta - st2.eta) (prd - crd) (prp - crp) < par.epsilon0 then
          .stop (done P par x' st2) x' u' v' st2
        else .next x' u' v' st2

/-- before the loop (solver.cpp:261-281): `none` ⇔ `x0` is not strictly feasible (status `unfeasible`);
    otherwise `u = -1 / (G x0 - h)`, `v = 0` and the first `update`. The fields `update` may skip start as the
    C++ constructor leaves them: `nan` scalars, vectors of the right (possibly zero) size. -/
def start (P : Prog α) (mufx miu nan : α) (x0 : List α) : Option (List α × List α × St α) :=
  match maxCoeff (slack P x0) with
  | none => none
  | some mx =>
    if 0 ≤ mx then none
    else
      let u := (slack P x0).map (fun g => -1 / g)
      let v : List α := zeros P.p
      let st0 : St α := ⟨nan, nan, [], [], []⟩
      some (u, v, update P mufx miu x0 u v st0)

/-! ### the equality-only path (`solve_without_inequality`) -/

/-- `(lmat * lsol).isApprox(lvec, prec)` with `lmat = [[Q, Aᵀ], [A, 0]]`, `lsol = (x, v)`, `lvec = (-c, b)`:
    `‖l - r‖² <= prec² min(‖l‖², ‖r‖²)` -/
def kktApprox (P : Prog α) (eps2 : α) (x v : List α) : Bool :=
  let top0 := if P.Q.isEmpty then zeros P.n else mv P.Q x
  let top := if P.A.isEmpty then top0 else vadd top0 (tmv P.n P.A v)
  let l := top ++ mv P.A x
  let r := vneg P.c ++ P.b
  decide (sumsq (vsub l r) ≤ eps2 * eps2 * cmin (sumsq l) (sumsq r))

/-- `solve_without_inequality` after the KKT system was solved (oracle `(x, v)`): `m_eta = 0`, `update`, status -/
def noineq [Sqrt α] [FinTest α] (P : Prog α) (mufx : α) (par : Params α) (x v : List α) : Status × St α :=
  let st0 : St α := ⟨0, 0, [], [], []⟩
  let st := update P mufx par.miu x [] v st0
  let valid := FinTest.isFin (residual st)
  let aprox := kktApprox P par.eps2 x v
  (if valid && aprox then .converged else if !valid then .failed else .unfeasible, st)

end

end NanoVerif.Program
