/-
  C08 — the presence bit mask of the in-memory datasource (core Lean only).

  Mirrors include/nano/datasource/mask.h:31-44. A mask is the list of its bytes (as `Nat`); bit `sample` lives in
  byte `sample / 8`, MSB first: `0x01 << (7 - sample % 8)`.
-/
namespace NanoVerif.Mask

/-- `0x01 << (7 - (sample % 8))` -/
def bitOf (sample : Nat) : Nat := 1 <<< (7 - sample % 8)

/-- `setbit`: `mask(sample / 8) |= bitOf sample` (mask.h:31-35) -/
def setbit (m : List Nat) (sample : Nat) : List Nat :=
  m.set (sample / 8) (m.getD (sample / 8) 0 ||| bitOf sample)

/-- `getbit`: `(mask(sample / 8) & bitOf sample) != 0` (mask.h:40-44) -/
def getbit (m : List Nat) (sample : Nat) : Bool :=
  (m.getD (sample / 8) 0 &&& bitOf sample) != 0

/-- `make_mask` / `m_storage_mask.resize(features, (samples + 7) / 8); zero()` (datasource.cpp:131-132) -/
def zeros (samples : Nat) : List Nat := List.replicate ((samples + 7) / 8) 0

end NanoVerif.Mask
