import NanoVerif.Gen.Numeric
import NanoVerif.Model.Iterator
/-
  C09 (closing `src/dataset/iterator.cpp`) — model of `select_iterator_t`, the per-feature iterator of the feature-selection
  models (core Lean only).

  Mirrors (line numbers of /repo at the time of writing):
    src/dataset/iterator.cpp:8-11      features_per_thread                       -> `featuresPerThread` (through the TRANSLATED `Gen.idiv`)
    src/dataset/stats.cpp:25-47        make_features / make_{sclass,mclass,scalar,struct}_features -> `makeFeatures`
    src/dataset/iterator.cpp:184-192   select_iterator_t::select_iterator_t      -> `makeFeatures kinds k` per kind, `workers` buffers
    src/dataset/iterator.cpp:194-212   loop(samples, callback) ×4                -> `loopKind`
    src/dataset/iterator.cpp:214-236   loop(samples, ifeature, callback) ×4      -> `loopOne` (always `tnum = 0`, no pool)
    src/dataset/iterator.cpp:238-290   loop(samples, features, callback) ×4      -> `loopList` (`selectLoop` over the chunks of `map`)

  The values handed to the callback are `dataset.select(samples, ifeature, m_buffers[tnum].m_<kind>)`: the C08 model's
  `Dataset.select` (they do not depend on `tnum`; the harness compares them with a direct single-threaded `select`).
  `none` exactly where `assert(tnum < m_buffers.size())` fails or the schedule does not name one worker per chunk.
-/
namespace NanoVerif.Iterator
open NanoVerif.Objective (chunks)

/-- the four feature kinds `select_iterator_t` distinguishes (`feature_t::is_sclass/is_mclass/is_scalar/is_struct`) -/
inductive FKind where
  | sclass | mclass | scalar | struct
deriving DecidableEq, Repr

def FKind.ofNat? : Nat → Option FKind
  | 0 => some .sclass
  | 1 => some .mclass
  | 2 => some .scalar
  | 3 => some .struct
  | _ => none

/-- `make_features(dataset, op)`: the indices of the dataset's features of kind `k`, increasing -/
def makeFeatures (kinds : List FKind) (k : FKind) : List Nat :=
  (List.range kinds.length).filter fun i => kinds[i]? == some k

/-- `std::max(tensor_size_t{1}, idiv(features.size(), concurrency))` -/
def featuresPerThread (nfeatures concurrency : Nat) : Nat :=
  (max 1 (NanoVerif.Gen.idiv (nfeatures : Int) (concurrency : Int))).toNat

/-- one call of the callback: `(feature_index, thread_number, …)` -/
structure Call where
  ifeature : Nat
  tnum : Nat
deriving DecidableEq, Repr

/-- the `map(features.size(), features_per_thread(…), …)` of `loop(samples, features, callback)`: chunk `[b, e)` is executed by
    worker `w`, which calls the callback for `features(b), …, features(e-1)` one after the other -/
def selectLoop (features : List Nat) (workers : Nat) : List (Nat × Nat) → List Nat → Option (List Call)
  | [], [] => some []
  | (b, e) :: cs, w :: ws =>
    if w < workers then
      (selectLoop features workers cs ws).map fun rest => (sliceOf features b e).map (fun f => (⟨f, w⟩ : Call)) ++ rest
    else none
  | _, _ => none

/-- `select_iterator_t::loop(samples, features, callback)`: the calls in queue order of the chunks -/
def loopList (features : List Nat) (workers : Nat) (asg : List Nat) : Option (List Call) :=
  selectLoop features workers (chunks features.length (featuresPerThread features.length workers)) asg

/-- `select_iterator_t::loop(samples, callback)` for the callbacks of kind `k` -/
def loopKind (kinds : List FKind) (k : FKind) (workers : Nat) (asg : List Nat) : Option (List Call) :=
  loopList (makeFeatures kinds k) workers asg

/-- `select_iterator_t::loop(samples, ifeature, callback)`: one call, by the caller, with buffer 0 -/
def loopOne (ifeature : Nat) : List Call := [⟨ifeature, 0⟩]

end NanoVerif.Iterator
