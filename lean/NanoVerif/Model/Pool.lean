/-
  C17 — protocol model of libnano's thread pool (core Lean only).

  Mirrors:
    include/nano/core/parallel.h   queue_t::enqueue, queue_t::enqueue_no_lock, pool_t::map (both overloads), section_t
    src/core/parallel.cpp          worker_t::operator(), section_t::block, ~section_t, pool_t::pool_t, ~pool_t

  Every critical section of the code (the region between locking and unlocking `queue_t::m_mutex`) is ONE atomic
  event of the labelled transition system `step`; this is justified by the mutex and the lock discipline itself is
  checked on every recorded trace by the trace layer at the end of this file (`checkTrace`).

  Oracles / assumptions (DESIGN.md §3): `std::mutex` excludes, `condition_variable::wait` releases the lock atomically
  and may wake spuriously (`wWake` is always enabled for a sleeping worker), `notify_one` wakes one waiting thread if
  there is one, `notify_all` wakes all, a `packaged_task` destroyed before it ran makes its future ready with
  `broken_promise` (`TS.dropped`), `shared_future::get` rethrows the stored exception, `wait` does not.
  Usage contract assumed by the model: nobody submits work once the destructor has set `m_stop` (`cPush` is disabled
  when `stop`).
-/
namespace NanoVerif.Pool

/-- status of a task (one `packaged_task` pushed into `queue_t::m_tasks`) -/
inductive TS
  | fresh               -- id not used yet
  | queued              -- in `m_tasks`
  | running (w : Nat)   -- popped by worker `w`, `task(m_tnum)` in progress
  | done                -- `task(m_tnum)` returned: the future is ready (value or stored exception)
  | dropped             -- destroyed un-run by `m_tasks.clear()`: the future is ready with `broken_promise`
  deriving DecidableEq, Repr

/-- program counter of a worker thread (`worker_t::operator()`, parallel.cpp:33-80) -/
inductive WPc
  | ready               -- about to lock and evaluate the wait predicate
  | sleeping            -- inside `m_condition.wait` (predicate was false)
  | running (t : Nat)   -- executing task `t` outside the lock
  | exited              -- left the loop (`break` after seeing `m_stop`)
  deriving DecidableEq, Repr

/-- program counter of one client call (`enqueue`, `map`, `~pool_t`); a client id is used for one call only -/
inductive CPc
  | idle
  | pushed (ts : List Nat) (all : Bool)   -- tasks pushed under the lock, notification pending (`all` = `notify_all`)
  | waiting (ts : List Nat)                -- blocked on the futures of `ts` (`section_t::block` / the caller's `future.get`)
  | stopSet                                -- destructor: `m_stop = true` done, `notify_all` pending
  | joining                                -- destructor: in the `join` loop
  | finished
  | seq (n i : Nat) (busy : Bool) (err : Option Nat)
                                           -- sequential path of `map` (`size()==1 || …`): `n` operator calls to make,
                                           -- `i` made, `busy` = call `i` is in progress in the caller with `tnum = 0`,
                                           -- `err` = position of the first call that threw (`std::exception_ptr error`)
  deriving DecidableEq, Repr

structure St where
  nw : Nat                  -- `m_threads.size()`
  queue : List Nat          -- `m_tasks` (task ids, front first)
  stop : Bool               -- `m_stop`
  ts : Nat → TS
  wpc : Nat → WPc
  cpc : Nat → CPc
  exec : Nat → Nat          -- ghost: how many times task `t` was started
  threw : Nat → Bool        -- outcome stored in the shared state of the future of a `done` task: true = exception
  sexec : Nat → Nat → Nat   -- ghost: how many times the sequential path of client `c` started its operator call `k`
  sthrew : Nat → Nat → Bool -- ghost: did operator call `k` of the sequential path of client `c` throw

def upd {β : Type} (f : Nat → β) (k : Nat) (v : β) : Nat → β := fun i => if i = k then v else f i

/-- effect of a notification on a waiting worker -/
def wake : WPc → WPc
  | .sleeping => .ready
  | p => p

/-- effect of `m_tasks.clear()` on a task -/
def drop : TS → TS
  | .queued => .dropped
  | x => x

inductive Ev
  | wTake (w : Nat)        -- worker: lock; predicate true, ¬stop; pop front; unlock; start running   (parallel.cpp:41-56,69-72,76)
  | wSleep (w : Nat)       -- worker: lock held; predicate false; wait (releases the lock)            (parallel.cpp:45-56)
  | wExit (w : Nat)        -- worker: lock held; predicate true, stop; clear; notify_all; unlock; exit (parallel.cpp:57-67)
  | wRunEnd (w : Nat) (threw : Bool)  -- `task(m_tnum)` returned: future ready, outcome stored      (parallel.cpp:77-78)
  | wWake (w : Nat)        -- the wait returns (notified or spuriously) and re-acquires the lock
  | cPush (c : Nat) (ts : List Nat) (all : Bool)  -- client: lock; push tasks; unlock  (`enqueue`: one task; `map`: all tasks)
  | cNotify (c : Nat) (w : Option Nat)  -- `notify_one` (wakes the waiting worker `w` if any) / `notify_all`
  | cReturn (c : Nat)      -- client: all its futures are ready, the call returns (`section_t::block` + `~section_t`)
  | dStop (c : Nat)        -- destructor: lock; `m_stop = true`; unlock                                (parallel.cpp:124-131)
  | dJoined (c : Nat)      -- destructor: every `join` returned                                        (parallel.cpp:135-140)
  | sStart (c n : Nat)     -- `map` takes the sequential path with `n` operator calls                   (parallel.h:239-262,300-323)
  | sOpBegin (c : Nat)     -- the caller starts operator call `i` with `tnum = 0`
  | sOpEnd (c : Nat) (threw : Bool)  -- it returns or throws; the first exception is kept, the loop goes on
  | sReturn (c : Nat)      -- the loop is over: `map` returns, or rethrows the kept exception if `raise`
  deriving Repr

/-- `if (!error) error = std::current_exception();` in the `catch` of the sequential loops -/
def firstErr (err : Option Nat) (i : Nat) (threw : Bool) : Option Nat :=
  match err with
  | some p => some p
  | none => if threw then some i else none

/-- `if (raise && error) std::rethrow_exception(error);` after the sequential loops: the position whose exception leaves -/
def seqResult (err : Option Nat) (raise : Bool) : Option Nat := if raise then err else none

/-- is the future of a task ready? -/
def ready? (t : TS) : Bool := match t with | .done => true | .dropped => true | _ => false

def step (s : St) : Ev → Option St
  | .wTake w =>
    if w < s.nw ∧ s.wpc w = .ready ∧ s.stop = false then
      match s.queue with
      | [] => none
      | t :: q => some { s with queue := q, ts := upd s.ts t (.running w), wpc := upd s.wpc w (.running t),
                                exec := upd s.exec t (s.exec t + 1) }
    else none
  | .wSleep w =>
    if w < s.nw ∧ s.wpc w = .ready ∧ s.stop = false ∧ s.queue = [] then
      some { s with wpc := upd s.wpc w .sleeping } else none
  | .wExit w =>
    if w < s.nw ∧ s.wpc w = .ready ∧ s.stop = true then
      some { s with queue := [], ts := fun t => drop (s.ts t),
                    wpc := fun v => if v = w then .exited else wake (s.wpc v) }
    else none
  | .wRunEnd w threw =>
    if w < s.nw then
      match s.wpc w with
      | .running t => some { s with ts := upd s.ts t .done, wpc := upd s.wpc w .ready, threw := upd s.threw t threw }
      | _ => none
    else none
  | .wWake w =>
    if w < s.nw ∧ s.wpc w = .sleeping then some { s with wpc := upd s.wpc w .ready } else none
  | .cPush c ts all =>
    if s.cpc c = .idle ∧ (∀ t ∈ ts, s.ts t = .fresh) ∧ ts.Nodup ∧ s.stop = false then
      some { s with queue := s.queue ++ ts, ts := fun t => if t ∈ ts then .queued else s.ts t,
                    cpc := upd s.cpc c (.pushed ts all) }
    else none
  | .cNotify c w =>
    match s.cpc c with
    | .pushed ts all =>
      if all then
        some { s with wpc := fun v => wake (s.wpc v), cpc := upd s.cpc c (.waiting ts) }
      else
        match w with
        | some v =>
          if v < s.nw ∧ s.wpc v = .sleeping then
            some { s with wpc := upd s.wpc v .ready, cpc := upd s.cpc c (.waiting ts) } else none
        | none =>
          if ∀ v, v < s.nw → s.wpc v ≠ .sleeping then some { s with cpc := upd s.cpc c (.waiting ts) } else none
    | .stopSet =>
      some { s with wpc := fun v => wake (s.wpc v), cpc := upd s.cpc c .joining }
    | _ => none
  | .cReturn c =>
    match s.cpc c with
    | .waiting ts => if ∀ t ∈ ts, ready? (s.ts t) = true then some { s with cpc := upd s.cpc c .finished } else none
    | _ => none
  | .dStop c =>
    if s.cpc c = .idle then some { s with stop := true, cpc := upd s.cpc c .stopSet } else none
  | .dJoined c =>
    if s.cpc c = .joining ∧ (∀ v, v < s.nw → s.wpc v = .exited) then some { s with cpc := upd s.cpc c .finished } else none
  | .sStart c n =>
    if s.cpc c = .idle then some { s with cpc := upd s.cpc c (.seq n 0 false none) } else none
  | .sOpBegin c =>
    match s.cpc c with
    | .seq n i busy err =>
      if busy = false ∧ i < n then
        some { s with cpc := upd s.cpc c (.seq n i true err),
                      sexec := fun c' k => if c' = c ∧ k = i then s.sexec c i + 1 else s.sexec c' k }
      else none
    | _ => none
  | .sOpEnd c threw =>
    match s.cpc c with
    | .seq n i busy err =>
      if busy = true then
        some { s with cpc := upd s.cpc c (.seq n (i + 1) false (firstErr err i threw)),
                      sthrew := fun c' k => if c' = c ∧ k = i then threw else s.sthrew c' k }
      else none
    | _ => none
  | .sReturn c =>
    match s.cpc c with
    | .seq n i busy _ => if busy = false ∧ i = n then some { s with cpc := upd s.cpc c .finished } else none
    | _ => none

def run : St → List Ev → Option St
  | s, [] => some s
  | s, e :: es => match step s e with
    | none => none
    | some s' => run s' es

/-- a freshly constructed pool with `nw` workers, no client call yet -/
def init (nw : Nat) : St :=
  { nw := nw, queue := [], stop := false, ts := fun _ => .fresh, wpc := fun _ => .ready, cpc := fun _ => .idle,
    exec := fun _ => 0, threw := fun _ => false, sexec := fun _ _ => 0, sthrew := fun _ _ => false }

def Reachable (s : St) : Prop := ∃ nw es, run (init nw) es = some s

/-- does the future of task `t` hold an exception (`get()` throws)? -/
def holdsExc (s : St) (t : Nat) : Bool :=
  match s.ts t with
  | .done => s.threw t
  | .dropped => true
  | _ => false

/-- `section_t::block(raise)` (parallel.cpp:82-96) once every future is ready: the task whose exception leaves `map`
    (`future.get()` in index order rethrows the first stored exception; `future.wait()` never throws) -/
def blockResult (s : St) (ts : List Nat) (raise : Bool) : Option Nat :=
  if raise then ts.find? (holdsExc s) else none

/-! ### the ranges built by `map(elements, chunksize, op)` (parallel.h:305-309,333-338) -/

/-- `for (begin = 0; begin < elements; begin += chunksize) (begin, min(begin + chunksize, elements))`, fuel-bounded -/
def chunksFrom (n c : Nat) : Nat → Nat → List (Nat × Nat)
  | 0, _ => []
  | fuel + 1, b => if b < n then (b, min (b + c) n) :: chunksFrom n c fuel (b + c) else []

def chunks (n c : Nat) : List (Nat × Nat) := chunksFrom n c n 0

/-- the elements of `[b, e)` in increasing order -/
def rangeList (b e : Nat) : List Nat := (List.range (e - b)).map (· + b)

/-- the operator calls of `map(elements, op)` seen as ranges `[index, index+1)` -/
def elemRanges (n : Nat) : List (Nat × Nat) := (List.range n).map (fun i => (i, i + 1))

/-- `size() == 1 || elements <= 1` (parallel.h:239) -/
def seqPathElems (size n : Nat) : Bool := size == 1 || decide (n ≤ 1)

/-- `size() == 1 || chunksize >= elements` (parallel.h:300) -/
def seqPathChunk (size n c : Nat) : Bool := size == 1 || decide (c ≥ n)

/-! ### trace layer: raw hook events → lock discipline → folded model events → path of `step` -/

/-- one record of the observer: thread, event kind (`nano::verif::pool_event`, or a harness pseudo-event ≥ 20), a, b -/
structure Raw where
  tid : Nat
  kind : Nat
  a : Nat
  b : Nat
  deriving Repr

namespace K
def preLock := 0
def lockAcquired := 1
def lockRelease := 2
def push := 3
def notifyOne := 4
def notifyAll := 5
def pred := 6
def pop := 7
def clear := 8
def runBegin := 9
def runEnd := 10
def workerExit := 11
def stopSet := 12
def joinBegin := 13
def joinEnd := 14
def mapEnter := 15
def mapParallel := 16
def blockBegin := 17
def mapReturn := 18
-- pseudo-events logged by the harness through the same sequence counter
def callEnq := 20      -- a = call id: the thread is about to call `pool.enqueue`
def callMap := 21      -- a = call id: the thread is about to call `pool.map`
def opBegin := 22      -- inside the operator: a = call id, b = tnum received
def opArg := 23        -- inside the operator: a = begin (or index), b = end (index + 1)
def opEnd := 24        -- the operator is about to return: a = call id, b = 1 if it throws
def callRet := 25      -- a = call id, b = 0: returned normally / 1 + position of the task whose exception arrived / `broken`
def callDestroy := 26  -- the thread is about to destroy the pool
end K

/-- result code of a call that ended with an exception that is not a task's own (`broken_promise`) -/
def broken : Nat := 1000000000

/-- one client call of a scenario (from the op line) -/
inductive Call
  | map (n c : Nat) (raise : Bool)   -- `c = 0`: the per-element overload
  | enq (raise : Bool)               -- `enqueue`; the future is waited with `get()` (raise) or `wait()`
  deriving Repr

def Call.ranges : Call → List (Nat × Nat)
  | .map n 0 _ => elemRanges n
  | .map n c _ => chunks n c
  | .enq _ => [(0, 1)]

def Call.raise : Call → Bool
  | .map _ _ r => r
  | .enq r => r

def Call.seqPath (size : Nat) : Call → Bool
  | .map n 0 _ => seqPathElems size n
  | .map n c _ => seqPathChunk size n c
  | .enq _ => false

/-- per-thread program counter of the trace automaton (program order of the code) -/
inductive TPc
  | idle
  | wPre (w : Nat) | wLocked (w : Nat) | wWaiting (w : Nat) | wTrue (w : Nat) | wPopped (w : Nat) | wRel (w : Nat)
  | wRun0 (w : Nat) | wRun1 (w call : Nat) | wRun2 (w call : Nat) | wRun3 (w : Nat) | wLoop (w : Nat)
  | wClr1 (w : Nat) | wClr2 (w : Nat) | wClr3 (w : Nat) | wGone
  | eq0 (call : Nat) | eq1 (call : Nat) | eq2 (call : Nat) | eq3 (call cid : Nat) | eq4 (call cid : Nat)
  | mp0 (call : Nat)
  | mpS (call cid i : Nat) | mpS1 (call cid i : Nat) | mpS2 (call cid i : Nat) | mpSR (call : Nat)
  | mpP0 (call : Nat) | mpP1 (call : Nat) | mpP2 (call : Nat) | mpP3 (call : Nat) (rts : List Nat)
  | mpP4 (call cid : Nat) | mpP5 (call cid : Nat) | mpP6 (call cid : Nat) | mpP7 (call : Nat)
  | ds0 | ds1 | ds2 | ds3 (cid : Nat) | ds4 (cid : Nat) | dsJ (cid k : Nat) (inJoin : Bool)
  deriving Repr

inductive Err
  | lock (msg : String)   -- lock discipline / per-thread program order broken
  | path (msg : String)   -- the folded event is not enabled in the model / does not match the call's task

structure Ck where
  s : St
  holder : Option Nat := none           -- thread holding the mutex according to the trace
  thr : List (Nat × TPc) := []
  nextT : Nat := 0
  nextC : Nat := 0
  tinfo : Array (Nat × Nat) := #[]      -- task id → (call, position)
  ccid : Array (Option Nat)             -- call → client id once started
  cres : Array (Option Nat)             -- call → result code once returned
  pushes : Nat := 0
  execs : Nat := 0
  tnums : List Nat := []                -- distinct tnums received by operator calls
  sleeps : Nat := 0

def Ck.tpc (k : Ck) (tid : Nat) : TPc := (k.thr.lookup tid).getD .idle

def Ck.setTpc (k : Ck) (tid : Nat) (p : TPc) : Ck :=
  { k with thr := (tid, p) :: k.thr.filter (fun x => x.1 != tid) }

def Ck.emit (k : Ck) (e : Ev) : Except Err Ck :=
  match step k.s e with
  | some s' => .ok { k with s := s' }
  | none => .error (.path s!"model event not enabled: {reprStr e}")

def Ck.acquire (k : Ck) (tid : Nat) : Except Err Ck :=
  match k.holder with
  | none => .ok { k with holder := some tid }
  | some h => .error (.lock s!"thread {tid} acquires the mutex while thread {h} holds it")

def Ck.holds (k : Ck) (tid : Nat) : Except Err Unit :=
  if k.holder = some tid then .ok () else .error (.lock s!"thread {tid} touches the queue without holding the mutex")

def Ck.release (k : Ck) (tid : Nat) : Except Err Ck := do
  k.holds tid
  pure { k with holder := none }

/-- a sleeping worker to be woken by `notify_one` (any choice gives a path: `wWake` is always enabled) -/
def pickSleeping (s : St) : Option Nat := (List.range s.nw).find? (fun v => s.wpc v = .sleeping)

def Ck.newClient (k : Ck) (call : Nat) : Except Err (Nat × Ck) :=
  if h : call < k.ccid.size then
    match k.ccid[call] with
    | some _ => .error (.lock s!"call {call} started twice")
    | none => .ok (k.nextC, { k with nextC := k.nextC + 1, ccid := k.ccid.set call (some k.nextC) })
  else .error (.lock s!"unknown call {call}")

def Ck.newTask (k : Ck) (call pos : Nat) : Nat × Ck :=
  (k.nextT, { k with nextT := k.nextT + 1, tinfo := k.tinfo.push (call, pos), pushes := k.pushes + 1 })

def Ck.setRes (k : Ck) (call res : Nat) : Except Err Ck :=
  if call < k.cres.size then
    match k.cres[call]! with
    | some _ => .error (.lock s!"call {call} returned twice")
    | none => .ok { k with cres := k.cres.set! call (some res) }
  else .error (.lock s!"unknown call {call}")

/-- result code the model predicts for a call blocked on `ts` -/
def Ck.predict (k : Ck) (ts : List Nat) (raise : Bool) : Nat :=
  match blockResult k.s ts raise with
  | none => 0
  | some t => if k.s.ts t = .done then 1 + (k.tinfo.getD t (0, 0)).2 else broken

def Ck.noteOp (k : Ck) (tnum : Nat) : Ck :=
  { k with execs := k.execs + 1, tnums := if k.tnums.contains tnum then k.tnums else tnum :: k.tnums }

def unexpected (tid : Nat) (p : TPc) (e : Raw) : Except Err Ck :=
  .error (.lock s!"program order: thread {tid} in state {reprStr p} emits event {e.kind} ({e.a},{e.b})")

/-- the call blocked on the futures of client `cid` returns with result code `res`; `final` = the call's result is
    known to the caller at this point (otherwise `callRet` follows) -/
def Ck.doReturn (k : Ck) (calls : Array Call) (call cid res : Nat) (_final : Bool) : Except Err Ck := do
  let some cl := calls[call]? | .error (.lock s!"unknown call {call}")
  match k.s.cpc cid with
  | .waiting ts =>
    -- `cReturn` first: it is enabled only when every future is ready
    let k' ← k.emit (.cReturn cid)
    let want := k.predict ts cl.raise
    if want ≠ res then .error (.path s!"call {call} ended with code {res}, the model says {want}")
    else k'.setRes call res
  | _ => .error (.path s!"call {call} returns but its client is not waiting in the model")

def Ck.onEvent (calls : Array Call) (k : Ck) (e : Raw) : Except Err Ck := do
  let tid := e.tid
  let p := k.tpc tid
  let nw := k.s.nw
  let bad : Except Err Ck := unexpected tid p e
  match p with
  | .idle =>
    if e.kind = K.preLock then
      if e.b < nw then pure (k.setTpc tid (.wPre e.b)) else .error (.path s!"worker index {e.b} ≥ pool size {nw}")
    else if e.kind = K.callEnq then pure (k.setTpc tid (.eq0 e.a))
    else if e.kind = K.callMap then pure (k.setTpc tid (.mp0 e.a))
    else if e.kind = K.callDestroy then pure (k.setTpc tid .ds0)
    else if e.kind = K.callRet then
      -- the future of an `enqueue` call has been waited
      match k.ccid.getD e.a none with
      | some cid => k.doReturn calls e.a cid e.b true
      | none => .error (.lock s!"call {e.a} waited before it was made")
    else bad
  -- worker (parallel.cpp:33-80)
  | .wPre w => if e.kind = K.lockAcquired ∧ e.b = w then do pure ((← k.acquire tid).setTpc tid (.wLocked w)) else bad
  | .wLocked w | .wWaiting w =>
    if e.kind = K.pred ∧ e.b = w then do
      -- after a wait the mutex is re-acquired implicitly
      let k ← (match p with | .wWaiting _ => k.acquire tid | _ => do k.holds tid; pure k)
      let k ← (if k.s.wpc w = .sleeping then k.emit (.wWake w) else pure k)
      if e.a = 0 then do
        let k ← k.emit (.wSleep w)
        let k ← k.release tid
        pure ({ k with sleeps := k.sleeps + 1 }.setTpc tid (.wWaiting w))
      else pure (k.setTpc tid (.wTrue w))
    else bad
  | .wTrue w =>
    if e.kind = K.pop ∧ e.b = w then do
      k.holds tid
      pure ((← k.emit (.wTake w)).setTpc tid (.wPopped w))
    else if e.kind = K.clear ∧ e.b = w then do
      k.holds tid
      if e.a ≠ k.s.queue.length then .error (.path s!"worker {w} clears {e.a} tasks, the model queue holds {k.s.queue.length}")
      else pure ((← k.emit (.wExit w)).setTpc tid (.wClr1 w))
    else bad
  | .wPopped w => if e.kind = K.lockRelease ∧ e.b = w then do pure ((← k.release tid).setTpc tid (.wRel w)) else bad
  | .wRel w => if e.kind = K.runBegin ∧ e.b = w then pure (k.setTpc tid (.wRun0 w)) else bad
  | .wRun0 w =>
    if e.kind = K.opBegin then
      if e.b ≠ w then .error (.path s!"worker {w} passes tnum {e.b} to the operator")
      else
        match k.s.wpc w with
        | .running t =>
          if (k.tinfo.getD t (0, 0)).1 = e.a ∧ t < k.tinfo.size then pure ((k.noteOp e.b).setTpc tid (.wRun1 w e.a))
          else .error (.path s!"worker {w} runs an operator of call {e.a}, the model says task {t} of call {(k.tinfo.getD t (0, 0)).1}")
        | _ => .error (.path s!"worker {w} runs an operator but is not running a task in the model")
    else bad
  | .wRun1 w call =>
    if e.kind = K.opArg then
      match k.s.wpc w, calls[call]? with
      | .running t, some cl =>
        let pos := (k.tinfo.getD t (0, 0)).2
        if cl.ranges[pos]? = some (e.a, e.b) then pure (k.setTpc tid (.wRun2 w call))
        else .error (.path s!"task {t} (call {call}, position {pos}) got range [{e.a},{e.b}), the model says {reprStr (cl.ranges[pos]?)}")
      | _, _ => .error (.path s!"worker {w}: operator arguments without a running task")
    else bad
  | .wRun2 w call =>
    -- the future becomes ready inside `packaged_task::operator()` right after the operator returns, i.e. between the
    -- harness's `opEnd` and the hook's `run_end`; the waiting client may be observed before `run_end`, hence the
    -- model's `wRunEnd` is folded at `opEnd` (the last observable point before the future is ready)
    if e.kind = K.opEnd ∧ e.a = call then do pure ((← k.emit (.wRunEnd w (e.b != 0))).setTpc tid (.wRun3 w)) else bad
  | .wRun3 w => if e.kind = K.runEnd ∧ e.b = w then pure (k.setTpc tid (.wLoop w)) else bad
  | .wLoop w => if e.kind = K.preLock ∧ e.b = w then pure (k.setTpc tid (.wPre w)) else bad
  | .wClr1 w => if e.kind = K.notifyAll ∧ e.b = w then do k.holds tid; pure (k.setTpc tid (.wClr2 w)) else bad
  | .wClr2 w => if e.kind = K.lockRelease ∧ e.b = w then do pure ((← k.release tid).setTpc tid (.wClr3 w)) else bad
  | .wClr3 w => if e.kind = K.workerExit ∧ e.b = w then pure (k.setTpc tid .wGone) else bad
  | .wGone => bad
  -- enqueue (parallel.h:81-97)
  | .eq0 call => if e.kind = K.preLock then pure (k.setTpc tid (.eq1 call)) else bad
  | .eq1 call => if e.kind = K.lockAcquired then do pure ((← k.acquire tid).setTpc tid (.eq2 call)) else bad
  | .eq2 call =>
    if e.kind = K.push ∧ e.a = 1 then do
      k.holds tid
      let (cid, k) ← k.newClient call
      let (t, k) := k.newTask call 0
      pure ((← k.emit (.cPush cid [t] false)).setTpc tid (.eq3 call cid))
    else bad
  | .eq3 call cid => if e.kind = K.lockRelease then do pure ((← k.release tid).setTpc tid (.eq4 call cid)) else bad
  | .eq4 _ cid =>
    if e.kind = K.notifyOne then do pure ((← k.emit (.cNotify cid (pickSleeping k.s))).setTpc tid .idle) else bad
  -- map (parallel.h:235-285, 294-348)
  | .mp0 call =>
    if e.kind = K.mapEnter then
      match calls[call]? with
      | some (.map n c r) =>
        if e.a ≠ n ∨ e.b ≠ c then .error (.path s!"call {call}: map_enter({e.a},{e.b}) but the scenario says ({n},{c})")
        else if (Call.map n c r).seqPath nw then do
          let (cid, k) ← k.newClient call
          pure ((← k.emit (.sStart cid (Call.map n c r).ranges.length)).setTpc tid (.mpS call cid 0))
        else pure (k.setTpc tid (.mpP0 call))
      | _ => .error (.lock s!"call {call} is not a map call")
    else bad
  | .mpS call cid i =>
    if e.kind = K.opBegin ∧ e.a = call then
      if e.b ≠ 0 then .error (.path s!"sequential path passes tnum {e.b}")
      else pure ((k.noteOp 0).setTpc tid (.mpS1 call cid i))
    else if e.kind = K.mapReturn ∨ (e.kind = K.callRet ∧ e.a = call) then
      -- `sReturn` is enabled only when the loop is over; `map_return` is reached iff nothing is rethrown
      match k.s.cpc cid, calls[call]? with
      | .seq n j _ err, some cl =>
        let want := match seqResult err cl.raise with | none => 0 | some p => 1 + p
        if j ≠ n then .error (.path s!"call {call}: sequential map ends after {j} of {n} operator calls")
        else if e.kind = K.mapReturn then
          if want ≠ 0 then .error (.path s!"call {call}: map_return although the model rethrows (code {want})")
          else do pure ((← (← k.emit (.sReturn cid)).setRes call 0).setTpc tid (.mpSR call))
        else if e.b = 0 then .error (.path s!"call {call}: no map_return although no exception leaves")
        else if e.b ≠ want then .error (.path s!"call {call} ended with code {e.b}, the model says {want}")
        else do pure ((← (← k.emit (.sReturn cid)).setRes call want).setTpc tid .idle)
      | _, _ => .error (.path s!"call {call}: sequential map ends in a wrong state")
    else bad
  | .mpS1 call cid i =>
    if e.kind = K.opArg then
      match calls[call]? with
      | some cl =>
        if cl.ranges[i]? = some (e.a, e.b) then do pure ((← k.emit (.sOpBegin cid)).setTpc tid (.mpS2 call cid i))
        else .error (.path s!"call {call} position {i} got range [{e.a},{e.b}), the model says {reprStr (cl.ranges[i]?)}")
      | none => bad
    else bad
  | .mpS2 call cid i =>
    if e.kind = K.opEnd ∧ e.a = call then do
      pure ((← k.emit (.sOpEnd cid (e.b != 0))).setTpc tid (.mpS call cid (i + 1)))
    else bad
  | .mpSR call =>
    if e.kind = K.callRet ∧ e.a = call then
      if e.b = 0 then pure (k.setTpc tid .idle)
      else .error (.path s!"call {call}: map_return although an exception leaves (code {e.b})")
    else bad
  | .mpP0 call => if e.kind = K.mapParallel then pure (k.setTpc tid (.mpP1 call)) else bad
  | .mpP1 call => if e.kind = K.preLock then pure (k.setTpc tid (.mpP2 call)) else bad
  | .mpP2 call => if e.kind = K.lockAcquired then do pure ((← k.acquire tid).setTpc tid (.mpP3 call [])) else bad
  | .mpP3 call rts =>
    if e.kind = K.push ∧ e.a = 1 then do
      k.holds tid
      let (t, k) := k.newTask call rts.length
      pure (k.setTpc tid (.mpP3 call (t :: rts)))
    else if e.kind = K.lockRelease then do
      let some cl := calls[call]? | bad
      if rts.length ≠ cl.ranges.length then
        .error (.path s!"call {call} pushed {rts.length} tasks, the model says {cl.ranges.length}")
      else do
        let (cid, k) ← k.newClient call
        let k ← k.emit (.cPush cid rts.reverse true)
        pure ((← k.release tid).setTpc tid (.mpP4 call cid))
    else bad
  | .mpP4 call cid =>
    if e.kind = K.notifyAll then do pure ((← k.emit (.cNotify cid none)).setTpc tid (.mpP5 call cid)) else bad
  | .mpP5 call cid => if e.kind = K.blockBegin then pure (k.setTpc tid (.mpP6 call cid)) else bad
  | .mpP6 call cid =>
    -- normal return: `cReturn` is emitted here (it is enabled only when every future is ready) and the model must say
    -- that no exception leaves; otherwise the exception arrives at the caller (`callRet` without `map_return`)
    if e.kind = K.mapReturn then do pure ((← k.doReturn calls call cid 0 false).setTpc tid (.mpP7 call))
    else if e.kind = K.callRet ∧ e.a = call then
      if e.b = 0 then .error (.path s!"call {call}: no map_return although no exception leaves")
      else do pure ((← k.doReturn calls call cid e.b true).setTpc tid .idle)
    else bad
  | .mpP7 call =>
    if e.kind = K.callRet ∧ e.a = call then
      if e.b = 0 then pure (k.setTpc tid .idle)
      else .error (.path s!"call {call}: map_return although an exception leaves (code {e.b})")
    else bad
  -- destructor (parallel.cpp:122-141)
  | .ds0 => if e.kind = K.preLock then pure (k.setTpc tid .ds1) else bad
  | .ds1 => if e.kind = K.lockAcquired then do pure ((← k.acquire tid).setTpc tid .ds2) else bad
  | .ds2 =>
    if e.kind = K.stopSet then do
      k.holds tid
      let cid := k.nextC
      let k := { k with nextC := k.nextC + 1 }
      pure ((← k.emit (.dStop cid)).setTpc tid (.ds3 cid))
    else bad
  | .ds3 cid => if e.kind = K.lockRelease then do pure ((← k.release tid).setTpc tid (.ds4 cid)) else bad
  | .ds4 cid =>
    if e.kind = K.notifyAll then do pure ((← k.emit (.cNotify cid none)).setTpc tid (.dsJ cid 0 false)) else bad
  | .dsJ cid j inJoin =>
    if inJoin = false ∧ e.kind = K.joinBegin ∧ e.a = j ∧ j < nw then pure (k.setTpc tid (.dsJ cid j true))
    else if inJoin = true ∧ e.kind = K.joinEnd ∧ e.a = j then
      if j + 1 = nw then do pure ((← k.emit (.dJoined cid)).setTpc tid .idle)
      else pure (k.setTpc tid (.dsJ cid (j + 1) false))
    else bad

/-- quiescent-complete final state: nobody holds the lock, every thread is between calls or gone, every call has
    returned, every client of the model has finished, the queue is empty and (the destructor ran) every worker exited -/
def Ck.quiet (k : Ck) : Bool :=
  k.holder.isNone
  && k.thr.all (fun x => match x.2 with | .idle => true | .wGone => true | _ => false)
  && k.cres.all Option.isSome
  && (List.range k.nextC).all (fun c => k.s.cpc c = .finished)
  && k.s.queue.isEmpty
  && k.s.stop
  && (List.range k.s.nw).all (fun w => k.s.wpc w = .exited)

structure Verdict where
  size : Nat
  calls : Nat
  queued : Nat
  execs : Nat
  dropped : Nat
  tnums : List Nat
  res : List (Option Nat)
  sleeps : Nat
  failure : Option (Nat × Err)   -- index of the offending raw event
  quiet : Bool

def Ck.verdict (k : Ck) (failure : Option (Nat × Err)) : Verdict :=
  { size := k.s.nw, calls := k.cres.size, queued := k.pushes, execs := k.execs,
    dropped := ((List.range k.nextT).filter (fun t => k.s.ts t = .dropped)).length,
    tnums := k.tnums, res := k.cres.toList, sleeps := k.sleeps, failure := failure, quiet := k.quiet }

def checkLoop (calls : Array Call) : Ck → Nat → List Raw → Verdict
  | k, _, [] => k.verdict none
  | k, i, e :: es =>
    match k.onEvent calls e with
    | .ok k' => checkLoop calls k' (i + 1) es
    | .error err => k.verdict (some (i, err))

/-- validates one recorded trace of a pool with `size` workers on which the calls `calls` were made -/
def checkTrace (size : Nat) (calls : Array Call) (trace : List Raw) : Verdict :=
  checkLoop calls { s := init size, ccid := Array.replicate calls.size none, cres := Array.replicate calls.size none } 0 trace

end NanoVerif.Pool
