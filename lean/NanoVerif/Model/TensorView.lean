import NanoVerif.Model.Tensor
/-
  C16 — model of libnano's non-owning tensors, of the assignments between the three storages and of the
  integral with distinct input / output scalar types (core Lean only; extends `Model/Tensor.lean`, kept in its
  own file because `Model/Tensor.lean` is also imported by the dataset model of another property).

  Mirrors:
    include/nano/tensor/storage.h   tensor_vector_storage_t::operator=(carray / marray)   (owning = map)
                                    tensor_vector_storage_t(carray / marray)              (owning{map})
                                    tensor_marray_storage_t::copy                         (map = anything)
                                    tensor_vector_storage_t::resize
    include/nano/tensor/tensor.h    tslice / ttensor / tvector / tmatrix / treshape applied to `data()` of ANY storage,
                                    operator()(index) through a map, indexed(indices, mem&) / indexed(indices, map)
    include/nano/tensor/integral.h  integral_t<trank>::get<tscalari, tscalaro>

  Memory is a `List α` (the buffer some owning tensor holds); a non-owning tensor is a `View`: where it starts in
  that buffer and its own dimensions. Assignments are PURE functions of the buffer as it is before the assignment,
  which is the contract: whether the destination owns the very buffer the view points into cannot matter.
-/
namespace NanoVerif.Tensor

/-- `tensor_map_t` / `tensor_cmap_t` (storage.h:107-250): a pointer into somebody's buffer — `off` is its distance
    from the start of that buffer — and the dimensions; it owns nothing. -/
structure View where
  off : Nat
  dims : List Nat
deriving Repr, BEq, DecidableEq

/-- the pointer `data()` and the dims of an owning tensor (storage.h:94-96); also what `tensor()` without indices and the
    converting constructors `tensor_map_t(tensor_mem_t&)`, `tensor_cmap_t(const tensor_mem_t&)` produce
    (storage.h:140-150, 209-213) -/
def T.view {α} (t : T α) : View := ⟨0, t.dims⟩

/-- the view lies inside a buffer of `n` elements -/
def View.InBounds (v : View) (n : Nat) : Prop := v.off + size v.dims ≤ n

/-- `ttensor(data(), i…)` (tensor.h:745-750), also `tvector` / `tmatrix` / `array` (tensor.h:731-743: the same pointer
    `ptr + offset0(i…)`, the same `size(dims0(dims, i…))` elements, seen flat or as rows × cols): the sub-tensor with the
    leading indices fixed, of ANY storage (`data()` = where this tensor itself starts) -/
def View.sub (v : View) (pre : List Nat) : Option View :=
  if ValidPrefix v.dims pre then some ⟨v.off + index v.dims pre, dims0 v.dims pre.length⟩ else none

/-- `tslice(data(), begin, end)` (tensor.h:768-775) -/
def View.slice (v : View) (b e : Nat) : Option View :=
  match v.dims with
  | [] => none
  | d :: ds => if b ≤ e ∧ e ≤ d then some ⟨v.off + index (d :: ds) [b], (e - b) :: ds⟩ else none

/-- `treshape(data(), sizes…)` (tensor.h:752-766): same pointer, new dimensions -/
def View.reshape (v : View) (sizes : List Int) : Option View :=
  (reshapeDims (size v.dims) sizes).map fun ds => ⟨v.off, ds⟩

/-- the elements a view sees in the buffer: `map_vector(other.data(), other.size())` (storage.h:55, 61, 67, 75, 245) -/
def View.read {α} (v : View) (buf : List α) : List α := (buf.drop v.off).take (size v.dims)

/-- `owning = map`, `owning = constant map` (storage.h:65-79, reached through tensor_t::operator=, tensor.h:197-202) and
    the converting constructors (storage.h:53-63): `data = map_vector(other.data(), other.size())` copies the viewed
    elements out of the buffer AS IT IS BEFORE THE ASSIGNMENT, `_resize(other.dims())` takes over the dimensions,
    `swap(data, m_data)` installs the copy. Neither the previous dimensions nor the previous contents of the
    destination appear: `buf` may be the destination's own buffer (`t = t.slice(b, e)`) or anybody else's. -/
def assignView {α} (buf : List α) (v : View) : T α := ⟨v.dims, v.read buf⟩

/-- overwrite `buf[off, off + |vals|)` by `vals` -/
def splice {α} (buf : List α) (off : Nat) (vals : List α) : List α :=
  buf.take off ++ vals ++ buf.drop (off + vals.length)

/-- writes through a view: `map = other` (tensor_marray_storage_t::copy, storage.h:241-246, under its
    `assert(size() == other.size())`), and element-wise `view(j) = vals[j]` for every `j < size()` through
    operator() / an Eigen map (tensor.h:349-354, 731-743). `none` where the assert fires or the view is not inside the
    buffer. -/
def View.write {α} (v : View) (buf vals : List α) : Option (List α) :=
  if vals.length = size v.dims ∧ v.off + size v.dims ≤ buf.length then some (splice buf v.off vals) else none

/-- `m_data.resize(size())` of the owning storage (storage.h:82-92; Eigen keeps the allocation when the number of
    elements is unchanged and otherwise allocates a new, un-initialised one: `junk`) -/
def resizeBuf {α} (junk : α) (buf : List α) (n : Nat) : List α :=
  if buf.length = n then buf else List.replicate n junk

/-- the loop of `indexed(indices, map)` (tensor.h:318-331): `subtensor.vector(k) = vector(indices(k))` for
    `k = 0, 1, …` (`n` = elements per sub-tensor; rank 1: `n = 1`, `subtensor(k) = (*this)(indices(k))`) -/
def gatherRows {α} (n : Nat) (src : List α) : List Nat → Nat → List α → List α
  | [], _, out => out
  | i :: is, k, out => gatherRows n src is (k + 1) (splice out (k * n) ((src.drop (i * n)).take n))

/-- `indexed(indices, tensor_map_t subtensor)` (tensor.h:309-332): writes into memory of exactly the right shape;
    `none` where one of its two asserts fires -/
def T.gatherIntoMap {α} (t : T α) (I : List Nat) (out : T α) : Option (T α) :=
  match t.dims with
  | [] => none
  | d :: ds =>
    if I.all (· < d) ∧ out.dims = I.length :: ds then
      some ⟨out.dims, gatherRows (size ds) t.data I 0 out.data⟩
    else none

/-- `indexed(indices, tensor_mem_t& subtensor)` (tensor.h:299-307): the provided output is first re-dimensioned
    (`subtensor.resize(dimensions)`), whatever it held, then filled by the overload above -/
def T.gatherInto {α} (junk : α) (t : T α) (I : List Nat) (out : T α) : Option (T α) :=
  match t.dims with
  | [] => none
  | _ :: ds => t.gatherIntoMap I ⟨I.length :: ds, resizeBuf junk out.data (size (I.length :: ds))⟩

/-- `nano::integral(itensor, otensor)` for an input scalar `β` and an output scalar `α` (integral.h:13-56): every
    input element enters the recursion through `otensor(0) = itensor(0)` / `otensor(i0 - 1) + itensor(i0)`, i.e.
    converted to the OUTPUT type (`conv`), and every sum is formed in the output type — the integral of the
    converted tensor. -/
def T.integralX {α β} [Add α] (conv : β → α) (t : T β) : T α :=
  T.integral ⟨t.dims, t.data.map conv⟩

/-- the same computed in `w`-bit two's-complement arithmetic (what an `intN_t` output does when a sum leaves
    the type), read back as integers -/
def integralWrapped (w : Nat) (dims : List Nat) (xs : List Int) : List Int :=
  (integralData dims (xs.map (BitVec.ofInt w))).map BitVec.toInt

end NanoVerif.Tensor
