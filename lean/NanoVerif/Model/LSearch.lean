import NanoVerif.Gen.LsPredicates
/-!
  C07 — model of libnano's line searches (core Lean only; linked into `driver_c07`).

  Mirrors
    src/lsearchk.cpp             `lsearchk_t::get` (descent guard, the two step-adjusting loops, the validity guard between them),
                                 `lsearchk_t::update`
    src/lsearchk/backtrack.cpp   `lsearchk_backtrack_t::do_get`
    src/lsearchk/lemarechal.cpp  `lsearchk_lemarechal_t::do_get`
    src/lsearchk/fletcher.cpp    `lsearchk_fletcher_t::do_get`, `zoom`
    src/lsearchk/morethuente.cpp `dcstep`, `lsearchk_morethuente_t::do_get`
    src/lsearchk/cgdescent.cpp   `interval_t::done`, `move`, `update`, `updateU`, `bracket`, `do_get`
    src/solver/lstep.cpp         `lsearch_step_t::{cubic, quadratic, secant, bisection, interpolate}`
  The acceptance predicates (`hasArmijo`, `hasWolfe`, …, `stpmin`, `stpmax`) are NOT written here: they are the
  definitions of `Gen/LsPredicates.lean`, re-translated from the C++ source on every check.

  One definition, generic over the scalar `α`: run at `Float` by the driver, proved over ordered fields in `Props/C07.lean`.

  * The line function is an ORACLE `φ : Nat → α → Eval α`: the answer to the `k`-th evaluation request (counted from 0
    inside one call of `get`) at trial step `t` is `φ k t = (f(x0 + t d), ∇f(x0 + t d)·d, solver_state_t::valid())`.
    A mathematical line function `ψ : α → Eval α` is the special case `φ = fun _ => ψ`; the index lets the driver replay
    logged answers by position and makes the theorems hold for oracles that do not even answer consistently.
    The C++ code keeps using `fx`/`dg` of an invalid state (e.g. in the second loop of `get` after the first one ran
    out of iterations), hence the triple rather than an `Option`.
  * `Ctx` is the mutable `solver_state_t& state` of the C++ code as far as a line search can see it (its `fx()`,
    `dg(descent)`, `valid()`), together with the list of trial steps requested so far (most recent first).
  * The interpolation formula of `lsearch_step_t::interpolate` (with the configured mode) and `lsearch_step_t::cubic`
    are fields of `Cfg`: concrete `Float` formulas in the driver (`interpolate`, `cubic` below, through `Sqrt`),
    arbitrary functions in the theorems. `std::isfinite` is the field `fin`, also arbitrary in the theorems.
  * Every C++ loop is bounded by `max_iterations`; the model recurses structurally on that fuel.
  * `std::min(a,b) = (b < a) ? b : a`, `std::max(a,b) = (a < b) ? b : a`, `std::clamp(v,lo,hi) = (v < lo) ? lo : (hi < v) ? hi : v`
    are modelled with exactly these argument orders (they matter for NaN at `Float`).
-/
namespace NanoVerif.LSearch
open NanoVerif.Gen.LsPredicates

/-- what one evaluation of the user function tells a line search: `fx()`, `dg(descent)`, `valid()` -/
structure Eval (α : Type) where
  f : α
  g : α
  ok : Bool

/-- `lsearch_step_t` -/
structure Step (α : Type) where
  t : α
  f : α
  g : α

/-- the state variable `state` + the trial steps requested so far (most recent first) -/
structure Ctx (α : Type) where
  cur : Eval α
  trace : List α

/-- `lsearchk_t::result_t` together with the final `state` -/
structure Res (α : Type) where
  ok : Bool
  t : α
  ctx : Ctx α

inductive Method where
  | backtrack | lemarechal | fletcher | morethuente | cgdescent
deriving DecidableEq, Repr

abbrev Oracle (α : Type) := Nat → α → Eval α

/-- parameters of a line search object (`lsearchk::tolerance`, `lsearchk::max_iterations`, the per-method parameters) and
    the numeric environment (`epsilon0/1<scalar_t>()`, machine epsilon, `std::isfinite`, the interpolation formulas) -/
structure Cfg (α : Type) where
  c1 : α
  c2 : α
  maxIter : Nat
  fin : α → Bool
  interp : Step α → Step α → α
  cubic : Step α → Step α → α
  eps0 : α
  eps1 : α
  macheps : α
  safeguard : α
  tau1 : α
  tau2 : α
  tau3 : α
  delta : α
  cgEpsilon : α
  cgTheta : α
  cgGamma : α
  cgRo : α

section
variable {α : Type} [Add α] [Sub α] [Mul α] [Div α] [Neg α] [LT α] [LE α] [DecidableLT α] [DecidableLE α] [∀ n, OfNat α n]

/-- `std::min(a, b)` -/
def cmin (a b : α) : α := if b < a then b else a
/-- `std::max(a, b)` -/
def cmax (a b : α) : α := if a < b then b else a
/-- `std::clamp(v, lo, hi)` -/
def clamp (v lo hi : α) : α := if v < lo then lo else if hi < v then hi else v

/-- `lsearchk_t::update` (lsearchk.cpp:81-93): evaluate at `x0 + t d`, overwrite `state` (also when invalid) -/
def ask (φ : Oracle α) (ctx : Ctx α) (t : α) : Ctx α := ⟨φ ctx.trace.length t, t :: ctx.trace⟩

/-- `lsearch_step_t{state, descent, t}` -/
def stepOf (ctx : Ctx α) (t : α) : Step α := ⟨t, ctx.cur.f, ctx.cur.g⟩

/-! ### `lsearch_step_t` formulas that need no square root (lstep.cpp:24-43) -/

/-- `lsearch_step_t::quadratic` -/
def quadratic (u v : Step α) : α :=
  let dt := u.t - v.t
  let df := u.f - v.f
  u.t - 1 / 2 * u.g * dt / (u.g - df / dt)

/-- `lsearch_step_t::secant` -/
def secant (u v : Step α) : α := (v.t * u.g - u.t * v.g) / (u.g - v.g)

/-- `lsearch_step_t::bisection` -/
def bisection (u v : Step α) : α := 1 / 2 * (u.t + v.t)

/-! ### preamble of `lsearchk_t::get` (lsearchk.cpp:49-73) -/

/-- lsearchk.cpp:53-57 `for (i < max_iterations && !update(state, state0, descent, step_size)) step_size *= 0.3;` -/
def shrink (φ : Oracle α) : Nat → α → Ctx α → α × Ctx α
  | 0, t, ctx => (t, ctx)
  | n + 1, t, ctx =>
    let ctx' := ask φ ctx t
    if ctx'.cur.ok then (t, ctx') else shrink φ n (t * (3 / 10)) ctx'

/-- lsearchk.cpp:65-73 `for (i < max_iterations && |fx - f0| < epsilon1) { step_size *= 3; if (!update(..)) return {false, step_size}; }`;
    `.inl` = the early `return {false, step_size}` -/
def grow (φ : Oracle α) (eps1 f0 : α) : Nat → α → Ctx α → Sum (α × Ctx α) (α × Ctx α)
  | 0, t, ctx => .inr (t, ctx)
  | n + 1, t, ctx =>
    if absv (ctx.cur.f - f0) < eps1 then
      let t' := t * 3
      let ctx' := ask φ ctx t'
      if ctx'.cur.ok then grow φ eps1 f0 n t' ctx' else .inl (t', ctx')
    else .inr (t, ctx)

/-! ### backtracking (backtrack.cpp:27-52) -/

def backtrack (cfg : Cfg α) (φ : Oracle α) (s0 : Eval α) : Nat → α → Ctx α → Res α
  | 0, t, ctx => ⟨false, t, ctx⟩
  | n + 1, t, ctx =>
    if ctx.cur.ok then
      if hasArmijo s0.f s0.g ctx.cur.f t cfg.c1 then ⟨true, t, ctx⟩
      else
        let tmin := cmin 0 t
        let tmax := cmax 0 t
        let imin := tmin + cfg.safeguard * (tmax - tmin)
        let imax := tmax - cfg.safeguard * (tmax - tmin)
        let t' := clamp (cfg.interp ⟨0, s0.f, s0.g⟩ (stepOf ctx t)) imin imax
        let ctx' := ask φ ctx t'
        if ctx'.cur.ok then backtrack cfg φ s0 n t' ctx' else ⟨false, t', ctx'⟩
    else ⟨false, t, ctx⟩

/-! ### LeMaréchal (lemarechal.cpp:30-79); the loop runs for `i = 1 … max_iterations - 1` -/

/-- lemarechal.cpp:53-56 / 66-69 -/
def lemInterp (cfg : Cfg α) (L R : Step α) : α :=
  let imin := L.t + cfg.safeguard * (R.t - L.t)
  let imax := R.t - cfg.safeguard * (R.t - L.t)
  clamp (cfg.interp L R) imin imax

def lemarechal (cfg : Cfg α) (φ : Oracle α) (s0 : Eval α) : Nat → Step α → Step α → α → Ctx α → Res α
  | 0, _, _, t, ctx => ⟨false, t, ctx⟩
  | n + 1, L, R, t, ctx =>
    if hasArmijo s0.f s0.g ctx.cur.f t cfg.c1 then
      if hasWolfe s0.g ctx.cur.g cfg.c2 then ⟨true, t, ctx⟩
      else
        let L' := stepOf ctx t
        let t' := if R.t < cfg.eps0 then cfg.tau1 * L'.t else lemInterp cfg L' R
        let ctx' := ask φ ctx t'
        if ctx'.cur.ok then lemarechal cfg φ s0 n L' R t' ctx' else ⟨false, t', ctx'⟩
    else
      let R' := stepOf ctx t
      let t' := lemInterp cfg L R'
      let ctx' := ask φ ctx t'
      if ctx'.cur.ok then lemarechal cfg φ s0 n L R' t' ctx' else ⟨false, t', ctx'⟩

/-! ### Fletcher (fletcher.cpp) -/

/-- `lsearchk_fletcher_t::zoom` (fletcher.cpp:19-58) -/
def zoom (cfg : Cfg α) (φ : Oracle α) (s0 : Eval α) : Nat → Step α → Step α → Ctx α → Res α
  | 0, _, hi, ctx => ⟨false, hi.t, ctx⟩
  | n + 1, lo, hi, ctx =>
    if absv (lo.t - hi.t) > cfg.eps0 then
      let tmin := cmin lo.t hi.t + cmin cfg.tau2 cfg.c2 * absv (hi.t - lo.t)
      let tmax := cmax lo.t hi.t - cfg.tau3 * absv (hi.t - lo.t)
      let t := clamp (cfg.interp lo hi) tmin tmax
      let ctx' := ask φ ctx t
      if ctx'.cur.ok then
        if hasArmijo s0.f s0.g ctx'.cur.f t cfg.c1 = false ∨ ctx'.cur.f ≥ lo.f then
          zoom cfg φ s0 n lo (stepOf ctx' t) ctx'
        else if hasStrongWolfe s0.g ctx'.cur.g cfg.c2 then ⟨true, t, ctx'⟩
        else
          let hi' := if ctx'.cur.g * (hi.t - lo.t) ≥ 0 then lo else hi
          zoom cfg φ s0 n (stepOf ctx' t) hi' ctx'
      else ⟨false, t, ctx'⟩
    else ⟨false, hi.t, ctx⟩

/-- `lsearchk_fletcher_t::do_get` (fletcher.cpp:69-105); the loop runs for `i = 1 … max_iterations - 1` -/
def fletcher (cfg : Cfg α) (φ : Oracle α) (s0 : Eval α) : Nat → Step α → Step α → α → Ctx α → Res α
  | 0, _, _, t, ctx => ⟨false, t, ctx⟩
  | n + 1, prev, curr, t, ctx =>
    if hasArmijo s0.f s0.g ctx.cur.f t cfg.c1 = false ∨ curr.f ≥ prev.f then
      zoom cfg φ s0 cfg.maxIter prev curr ctx
    else if hasStrongWolfe s0.g ctx.cur.g cfg.c2 then ⟨true, t, ctx⟩
    else if hasDescent ctx.cur.g = false then
      zoom cfg φ s0 cfg.maxIter curr prev ctx
    else
      let tmin := curr.t + 2 * (curr.t - prev.t)
      let tmax := curr.t + cfg.tau1 * (curr.t - prev.t)
      let t' := clamp (cfg.interp prev curr) tmin tmax
      let ctx' := ask φ ctx t'
      if ctx'.cur.ok then fletcher cfg φ s0 n curr (stepOf ctx' t') t' ctx' else ⟨false, t', ctx'⟩

/-! ### Moré–Thuente (morethuente.cpp) -/

/-- the variables `dcstep` reads and writes -/
structure DC (α : Type) where
  stx : α
  fx : α
  dx : α
  sty : α
  fy : α
  dy : α
  stp : α
  brackt : Bool

/-- `dcstep` (morethuente.cpp:8-137); `fp, dp` = value/slope at `stp`, `lo, hi` = the arguments named `stpmin, stpmax` -/
def dcstep (cfg : Cfg α) (s : DC α) (fp dp lo hi : α) : DC α :=
  let sgnd := dp * (s.dx / absv s.dx)
  let X : Step α := ⟨s.stx, s.fx, s.dx⟩
  let P : Step α := ⟨s.stp, fp, dp⟩
  -- (stpf, brackt)
  let r : α × Bool :=
    if fp > s.fx then
      let stpc := cfg.cubic X P
      let stpq := quadratic X P
      (if absv (stpc - s.stx) < absv (stpq - s.stx) then stpc else stpc + (stpq - stpc) / 2, true)
    else if sgnd < 0 then
      let stpc := cfg.cubic X P
      let stpq := secant X P
      (if absv (stpc - s.stp) > absv (stpq - s.stp) then stpc else stpq, true)
    else if absv dp < absv s.dx then
      let stpc0 := cfg.cubic X P
      let stpq := secant X P
      let stpc :=
        if cfg.fin stpc0 = true ∧ (s.stp - s.stx) * (stpc0 - s.stp) > 0 then stpc0
        else if s.stp > s.stx then hi else lo
      if s.brackt then
        let stpf := if absv (stpc - s.stp) < absv (stpq - s.stp) then stpc else stpq
        (if s.stp > s.stx then cmin stpf (s.stp + (s.sty - s.stp) * cfg.delta)
         else cmax stpf (s.stp + (s.sty - s.stp) * cfg.delta), s.brackt)
      else
        let stpf := if absv (stpc - s.stp) > absv (stpq - s.stp) then stpc else stpq
        (cmax lo (cmin hi stpf), s.brackt)
    else
      if s.brackt then (cfg.cubic P ⟨s.sty, s.fy, s.dy⟩, s.brackt)
      else if s.stp > s.stx then (hi, s.brackt) else (lo, s.brackt)
  if fp > s.fx then
    { s with sty := s.stp, fy := fp, dy := dp, stp := r.1, brackt := r.2 }
  else if sgnd < 0 then
    { stx := s.stp, fx := fp, dx := dp, sty := s.stx, fy := s.fx, dy := s.dx, stp := r.1, brackt := r.2 }
  else
    { s with stx := s.stp, fx := fp, dx := dp, stp := r.1, brackt := r.2 }

/-- loop-carried variables of `lsearchk_morethuente_t::do_get` other than `state` -/
structure MT (α : Type) where
  stage1 : Bool
  dc : DC α
  stmin : α
  stmax : α
  width : α
  width1 : α

/-- the convergence test (morethuente.cpp, "Check convergence"; since 3b214f8 it is evaluated FIRST and is the only
    `return {true, stp}`): sufficient decrease and curvature; `f, g` are `state.fx()`, `state.dg(descent)` -/
def mtConverged (cfg : Cfg α) (s0 : Eval α) (m : MT α) (f g : α) : Bool :=
  let gtest := cfg.c1 * s0.g
  let ftest := s0.f + m.dc.stp * gtest
  decide (f ≤ ftest ∧ absv g ≤ cfg.c2 * (-s0.g))

/-- the four `return {false, stp}` that follow ("Check if further progress can be made"; they reported success before
    3b214f8): "no further progress" (×2), `stp` at `stpmax()` / `stpmin()` -/
def mtGiveUp (cfg : Cfg α) (s0 : Eval α) (m : MT α) (f g : α) : Bool :=
  let gtest := cfg.c1 * s0.g
  let stp := m.dc.stp
  let ftest := s0.f + stp * gtest
  decide (m.dc.brackt = true ∧ (stp ≤ m.stmin ∨ stp ≥ m.stmax)) ||
  decide (m.dc.brackt = true ∧ (m.stmax - m.stmin) ≤ cfg.eps0 * m.stmax) ||
  decide (stp ≥ stpmax cfg.macheps ∧ f ≤ ftest ∧ g ≤ gtest) ||
  decide (stp ≤ stpmin cfg.macheps ∧ (f > ftest ∨ g ≥ gtest))

/-- morethuente.cpp:220-240: `dcstep` on the function itself or, in stage 1 while the modified function
    `ψ(t) = φ(t) - φ(0) - ftol·φ'(0)·t` has not yet a non-positive value and non-negative slope, on the modified function -/
def mtDcstep (cfg : Cfg α) (s0 : Eval α) (m : MT α) (f g : α) (stage1 : Bool) : DC α :=
  let gtest := cfg.c1 * s0.g
  let stp := m.dc.stp
  let ftest := s0.f + stp * gtest
  if stage1 = true ∧ f ≤ m.dc.fx ∧ f > ftest then
    let d := m.dc
    let r := dcstep cfg
      { d with fx := d.fx - d.stx * gtest, fy := d.fy - d.sty * gtest, dx := d.dx - gtest, dy := d.dy - gtest }
      (f - stp * gtest) (g - gtest) m.stmin m.stmax
    { r with fx := r.fx + r.stx * gtest, fy := r.fy + r.sty * gtest, dx := r.dx + gtest, dy := r.dy + gtest }
  else dcstep cfg m.dc f g m.stmin m.stmax

/-- morethuente.cpp:242-270 given the outcome `dc` of `dcstep`: bisection safeguard, new bounds `stmin/stmax`, widths,
    clamping to `[stpmin(), stpmax()]`, and the fallback `stp = stx` when no further progress is possible -/
def mtBounds (cfg : Cfg α) (m : MT α) (stage1 : Bool) (dc : DC α) : MT α :=
  let stp1 :=
    if dc.brackt then
      if absv (dc.sty - dc.stx) ≥ m.width1 * (66 / 100) then dc.stx + (dc.sty - dc.stx) * (1 / 2) else dc.stp
    else dc.stp
  let width1 := if dc.brackt then m.width else m.width1
  let width := if dc.brackt then absv (dc.sty - dc.stx) else m.width
  let stmin := if dc.brackt then cmin dc.stx dc.sty else stp1 + (stp1 - dc.stx) * (11 / 10)
  let stmax := if dc.brackt then cmax dc.stx dc.sty else stp1 + (stp1 - dc.stx) * 4
  let stp2 := clamp stp1 (stpmin cfg.macheps) (stpmax cfg.macheps)
  let stp3 :=
    if (dc.brackt = true ∧ (stp2 ≤ stmin ∨ stp2 ≥ stmax)) ∨ (dc.brackt = true ∧ stmax - stmin ≤ cfg.eps0 * stmax)
    then dc.stx else stp2
  ⟨stage1, { dc with stp := stp3 }, stmin, stmax, width, width1⟩

/-- the rest of the loop body up to the next trial step (morethuente.cpp: stage switch, then everything after the exit tests): stage switch, `dcstep` on the
    (possibly modified) function, bisection safeguard, new bounds, clamping, the `stp = stx` fallback.
    The next trial step is `(mtNext …).dc.stp`. -/
def mtNext (cfg : Cfg α) (s0 : Eval α) (m : MT α) (f g : α) : MT α :=
  let ftest := s0.f + m.dc.stp * (cfg.c1 * s0.g)
  let stage1 := if m.stage1 = true ∧ f ≤ ftest ∧ g ≥ 0 then false else m.stage1
  mtBounds cfg m stage1 (mtDcstep cfg s0 m f g stage1)

/-- morethuente.cpp:187-281, one entry per loop iteration -/
def morethuente (cfg : Cfg α) (φ : Oracle α) (s0 : Eval α) : Nat → MT α → Ctx α → Res α
  | 0, m, ctx => ⟨false, m.dc.stp, ctx⟩
  | n + 1, m, ctx =>
    if mtConverged cfg s0 m ctx.cur.f ctx.cur.g then ⟨true, m.dc.stp, ctx⟩
    else if mtGiveUp cfg s0 m ctx.cur.f ctx.cur.g then ⟨false, m.dc.stp, ctx⟩
    else
      let m' := mtNext cfg s0 m ctx.cur.f ctx.cur.g
      let ctx' := ask φ ctx m'.dc.stp
      if ctx'.cur.ok then morethuente cfg φ s0 n m' ctx' else ⟨false, m'.dc.stp, ctx'⟩

/-- morethuente.cpp:160-185 -/
def morethuenteInit (cfg : Cfg α) (s0 : Eval α) (t : α) : MT α :=
  let width := stpmax cfg.macheps - stpmin cfg.macheps
  ⟨true, ⟨0, s0.f, s0.g, 0, s0.f, s0.g, t, false⟩, 0, t + t * 4, width, 2 * width⟩

/-! ### CG_DESCENT (cgdescent.cpp) -/

/-- `interval_t` without the references: `a`, `b`, `step_size`; the tentative point `c` is `Ctx.cur` -/
structure CG (α : Type) where
  a : Step α
  b : Step α
  t : α

/-- `interval_t::done` (cgdescent.cpp:48-72) -/
def cgDone (cfg : Cfg α) (s0 : Eval α) (epsk : α) (bracketed : Bool) (iv : CG α) (ctx : Ctx α) : Bool :=
  if (bracketed = true ∧ (iv.a.f > s0.f + epsk ∨ iv.b.g < 0)) ∨ ctx.cur.ok = false then true
  else if iv.t < iv.a.t ∨ iv.t > iv.b.t then false
  else
    (hasArmijo s0.f s0.g ctx.cur.f iv.t cfg.c1 && hasWolfe s0.g ctx.cur.g cfg.c2) ||
    (hasApproxArmijo s0.f ctx.cur.f epsk && hasApproxWolfe s0.g ctx.cur.g cfg.c1 cfg.c2)

/-- what the helper functions of CG_DESCENT hand back: the remaining shared budget `params.m_max_iterations` (it is
    `mutable` in the C++ code), the interval and the state -/
structure CGS (α : Type) where
  m : Nat
  iv : CG α
  ctx : Ctx α

/-- `lsearchk_cgdescent_t::move` (cgdescent.cpp:98-102) -/
def cgMove (φ : Oracle α) (m : Nat) (iv : CG α) (ctx : Ctx α) (t : α) : CGS α := ⟨m, { iv with t := t }, ask φ ctx t⟩

/-- `updateU` (cgdescent.cpp:104-127); the `return`s inside the loop skip the decrement of the budget -/
def cgUpdateU (cfg : Cfg α) (φ : Oracle α) (s0 : Eval α) (epsk : α) : Nat → CG α → Ctx α → CGS α
  | 0, iv, ctx => ⟨0, iv, ctx⟩
  | m + 1, iv, ctx =>
    if iv.b.t - iv.a.t > stpmin cfg.macheps then
      let s := cgMove φ (m + 1) iv ctx ((1 - cfg.cgTheta) * iv.a.t + cfg.cgTheta * iv.b.t)
      if s.ctx.cur.ok = false then s
      else if hasDescent s.ctx.cur.g = false then { s with iv := { s.iv with b := stepOf s.ctx s.iv.t } }
      else if hasApproxArmijo s0.f s.ctx.cur.f epsk then
        cgUpdateU cfg φ s0 epsk m { s.iv with a := stepOf s.ctx s.iv.t } s.ctx
      else cgUpdateU cfg φ s0 epsk m { s.iv with b := stepOf s.ctx s.iv.t } s.ctx
    else ⟨m + 1, iv, ctx⟩

/-- `update` (cgdescent.cpp:129-148) -/
def cgUpdate (cfg : Cfg α) (φ : Oracle α) (s0 : Eval α) (epsk : α) (m : Nat) (iv : CG α) (ctx : Ctx α) : CGS α :=
  if iv.t ≤ iv.a.t ∨ iv.t ≥ iv.b.t then ⟨m, iv, ctx⟩
  else if hasDescent ctx.cur.g = false then ⟨m, { iv with b := stepOf ctx iv.t }, ctx⟩
  else if hasApproxArmijo s0.f ctx.cur.f epsk then ⟨m, { iv with a := stepOf ctx iv.t }, ctx⟩
  else cgUpdateU cfg φ s0 epsk m { iv with b := stepOf ctx iv.t } ctx

/-- `bracket` (cgdescent.cpp:150-174); `lastA` = `last_a` -/
def cgBracket (cfg : Cfg α) (φ : Oracle α) (s0 : Eval α) (epsk : α) : Nat → Step α → CG α → Ctx α → CGS α
  | 0, _, iv, ctx => ⟨0, iv, ctx⟩
  | m + 1, lastA, iv, ctx =>
    if ctx.cur.ok then
      if hasDescent ctx.cur.g = false then ⟨m + 1, { iv with a := lastA, b := stepOf ctx iv.t }, ctx⟩
      else if hasApproxArmijo s0.f ctx.cur.f epsk = false then
        cgUpdateU cfg φ s0 epsk (m + 1) { iv with a := ⟨0, s0.f, s0.g⟩, b := stepOf ctx iv.t } ctx
      else
        let s := cgMove φ m iv ctx (cfg.cgRo * iv.t)
        cgBracket cfg φ s0 epsk m (stepOf ctx iv.t) s.iv s.ctx
    else ⟨m + 1, iv, ctx⟩

/-- `move_update_and_check_done` (cgdescent.cpp:198-214): the verdict and the state afterwards -/
def cgTry (cfg : Cfg α) (φ : Oracle α) (s0 : Eval α) (epsk : α) (m : Nat) (iv : CG α) (ctx : Ctx α) (t : α) :
    Bool × CGS α :=
  if cfg.fin t = false then (false, ⟨m, iv, ctx⟩)
  else
    let s := cgMove φ m iv ctx t
    if cgDone cfg s0 epsk true s.iv s.ctx then (true, s)
    else
      let s' := cgUpdate cfg φ s0 epsk s.m s.iv s.ctx
      (cgDone cfg s0 epsk true s'.iv s'.ctx, s')

/-- the optional second secant step (cgdescent.cpp:231-244) -/
def cgSecond (cfg : Cfg α) (φ : Oracle α) (s0 : Eval α) (epsk : α) (a0 b0 : Step α) (tc : α) (s : CGS α) : Bool × CGS α :=
  if absv (tc - s.iv.a.t) < cfg.eps0 then cgTry cfg φ s0 epsk s.m s.iv s.ctx (secant a0 s.iv.a)
  else if absv (tc - s.iv.b.t) < cfg.eps0 then cgTry cfg φ s0 epsk s.m s.iv s.ctx (secant b0 s.iv.b)
  else (false, s)

/-- `return {state.valid(), interval.step_size}` -/
def cgResult (s : CGS α) : Res α := ⟨s.ctx.cur.ok, s.iv.t, s.ctx⟩

/-- main loop (cgdescent.cpp:217-254): `i` counts up, `m` is the shared (mutable) budget the guard `i < m` re-reads -/
def cgLoop (cfg : Cfg α) (φ : Oracle α) (s0 : Eval α) (epsk : α) : Nat → Nat → Nat → CG α → Ctx α → Res α
  | 0, _, _, iv, ctx => ⟨false, iv.t, ctx⟩
  | fuel + 1, i, m, iv, ctx =>
    if i < m ∧ iv.b.t - iv.a.t > stpmin cfg.macheps then
      let a0 := iv.a
      let b0 := iv.b
      let prevWidth := iv.b.t - iv.a.t
      let tc := secant a0 b0
      let r1 := cgTry cfg φ s0 epsk m iv ctx tc
      if r1.1 then cgResult r1.2
      else
        let r2 := cgSecond cfg φ s0 epsk a0 b0 tc r1.2
        if r2.1 then cgResult r2.2
        else if r2.2.iv.b.t - r2.2.iv.a.t > cfg.cgGamma * prevWidth then
          let r3 := cgTry cfg φ s0 epsk r2.2.m r2.2.iv r2.2.ctx ((r2.2.iv.a.t + r2.2.iv.b.t) / 2)
          if r3.1 then cgResult r3.2
          else cgLoop cfg φ s0 epsk fuel (i + 1) r3.2.m r3.2.iv r3.2.ctx
        else cgLoop cfg φ s0 epsk fuel (i + 1) r2.2.m r2.2.iv r2.2.ctx
    else ⟨false, iv.t, ctx⟩

/-- `lsearchk_cgdescent_t::do_get` (cgdescent.cpp:176-257) -/
def cgdescent (cfg : Cfg α) (φ : Oracle α) (s0 : Eval α) (t : α) (ctx : Ctx α) : Res α :=
  let epsk := cfg.cgEpsilon * absv s0.f
  let iv : CG α := ⟨⟨0, s0.f, s0.g⟩, stepOf ctx t, t⟩
  if cgDone cfg s0 epsk false iv ctx then ⟨ctx.cur.ok, iv.t, ctx⟩
  else
    let s := cgBracket cfg φ s0 epsk cfg.maxIter iv.a iv ctx
    if cgDone cfg s0 epsk true s.iv s.ctx then cgResult s
    else cgLoop cfg φ s0 epsk s.m 0 s.m s.iv s.ctx

/-! ### `lsearchk_t::get` -/

/-- `do_get` of the five implementations, entered with the step and state the preamble produced -/
def doGet (m : Method) (cfg : Cfg α) (φ : Oracle α) (s0 : Eval α) (t : α) (ctx : Ctx α) : Res α :=
  match m with
  | .backtrack => backtrack cfg φ s0 cfg.maxIter t ctx
  | .lemarechal => lemarechal cfg φ s0 (cfg.maxIter - 1) ⟨0, s0.f, s0.g⟩ ⟨0, s0.f, s0.g⟩ t ctx
  | .fletcher => fletcher cfg φ s0 (cfg.maxIter - 1) ⟨0, s0.f, s0.g⟩ (stepOf ctx t) t ctx
  | .morethuente => morethuente cfg φ s0 cfg.maxIter (morethuenteInit cfg s0 t) ctx
  | .cgdescent => cgdescent cfg φ s0 t ctx

/-- lsearchk.cpp:52 `step_size = isfinite(step_size) ? clamp(step_size, stpmin(), 1.0) : 1` -/
def initialStep (cfg : Cfg α) (t0 : α) : α := if cfg.fin t0 then clamp t0 (stpmin cfg.macheps) 1 else 1

/-- `lsearchk_t::get(state, descent, step_size)` (lsearchk.cpp:36-79); `s0` = the state on entry (`state0`), `t0` = `step_size`.
    lsearchk.cpp:58-62: when the first loop ends without a valid state the search fails at once. -/
def get (m : Method) (cfg : Cfg α) (φ : Oracle α) (s0 : Eval α) (t0 : α) : Res α :=
  if hasDescent s0.g then
    let p := shrink φ cfg.maxIter (initialStep cfg t0) ⟨s0, []⟩
    if p.2.cur.ok then
      match grow φ cfg.eps1 s0.f cfg.maxIter p.1 p.2 with
      | .inl q => ⟨false, q.1, q.2⟩
      | .inr q => doGet m cfg φ s0 q.1 q.2
    else ⟨false, p.1, p.2⟩
  else ⟨false, t0, ⟨s0, []⟩⟩

end

/-! ### the interpolation formulas with a square root (run at `Float` by the driver; arbitrary functions in the theorems) -/

class Sqrt (α : Type) where
  sqrt : α → α

instance : Sqrt Float := ⟨Float.sqrt⟩

section
variable {α : Type} [Add α] [Sub α] [Mul α] [Div α] [Neg α] [LT α] [LE α] [DecidableLT α] [DecidableLE α] [∀ n, OfNat α n] [Sqrt α]

/-- `lsearch_step_t::cubic` (lstep.cpp:17-22) -/
def cubic (u v : Step α) : α :=
  let d1 := u.g + v.g - 3 * (u.f - v.f) / (u.t - v.t)
  let d2 := (if v.t > u.t then 1 else -1) * Sqrt.sqrt (d1 * d1 - u.g * v.g)
  v.t - (v.t - u.t) * (v.g + d2 - d1) / (v.g - u.g + 2 * d2)

/-- `interpolation_type` -/
inductive Interp where
  | bisection | quadratic | cubic
deriving DecidableEq, Repr

/-- `lsearch_step_t::interpolate` (lstep.cpp:45-69) -/
def interpolate (fin : α → Bool) (mode : Interp) (u v : Step α) : α :=
  let tc := cubic u v
  let tq := quadratic u v
  let tb := bisection u v
  match mode with
  | .cubic => if fin tc then tc else if fin tq then tq else tb
  | .quadratic => if fin tq then tq else tb
  | .bisection => tb

end

end NanoVerif.LSearch
