-- root of the library: models, generated fragments, proofs, property theorems
import NanoVerif.Model.Proto
import NanoVerif.Model.Tensor
import NanoVerif.Driver.Tensor
import NanoVerif.Props.C16
