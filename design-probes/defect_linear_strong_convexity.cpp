#include <nano/dataset.h>
#include <nano/dataset/iterator.h>
#include <nano/generator/elemwise_identity.h>
#include <nano/linear/function.h>
#include <nano/loss.h>
#include <iostream>
using namespace nano;

class my_ds_t : public datasource_t
{
public:
    my_ds_t() : datasource_t("my") {}
    rdatasource_t clone() const override { return std::make_unique<my_ds_t>(*this); }
    void do_load() override
    {
        features_t fs{feature_t{"x0"}.scalar(feature_type::float64), feature_t{"x1"}.scalar(feature_type::float64),
                      feature_t{"y"}.scalar(feature_type::float64)};
        resize(20, fs, 2);
        for (tensor_size_t s = 0; s < 20; ++s) { set(s, 0, 0.1 * s); set(s, 1, 1.0 - 0.07 * s); set(s, 2, 100.0 + s); }
    }
};

int main()
{
    my_ds_t ds; ds.load();
    dataset_t dataset(ds, 1);
    dataset.add<scalar_identity_generator_t>();
    const auto samples = arange(0, 20);
    auto iterator = flatten_iterator_t{dataset, samples};
    iterator.scaling(scaling_type::none);
    for (const char* lid : {"mae", "mse", "pinball"})
    {
        const auto loss = loss_t::all().get(lid);
        const auto f = linear::function_t{iterator, *loss, 0.0, 1e3};
        std::cout << lid << ": size=" << f.size() << " convex=" << f.convex() << " strong_convexity=" << f.strong_convexity() << "\n";
        vector_t x = vector_t::zero(f.size()), z = x, gx(f.size());
        // move only the bias (last coordinate): predictions are far below the targets, loss is linear there
        z(f.size() - 1) = 1.0;
        const auto fx = f.vgrad(x, gx);
        const auto fz = f.vgrad(z);
        const auto mu = f.strong_convexity();
        const auto rhs = fx + gx.dot(z - x) + 0.5 * mu * (z - x).dot(z - x);
        std::cout << "   f(z)=" << fz << " f(x)+g.(z-x)+mu/2|z-x|^2=" << rhs << "  violation=" << (rhs - fz) << "\n";
    }
}
