/-! core-only generic model -/
namespace Nano

section
variable {α : Type} [Add α] [Sub α] [Mul α] [Div α] [Neg α] [LT α] [LE α]
  [DecidableLT α] [DecidableLE α] [∀ n, OfNat α n]

/-- has_armijo: f <= f0 + t*c1*dg0 -/
def hasArmijo (f0 dg0 f t c1 : α) : Bool := decide (f ≤ f0 + t * c1 * dg0)

def dot : List α → List α → α
  | a :: as, b :: bs => a * b + dot as bs
  | _, _ => 0

def hinge (t o : α) : α := if 1 - t * o > 0 then 1 - t * o else 0
end

end Nano
