/-! probe: reduced thread-pool protocol model (critical sections are atomic events) -/
namespace Pool

inductive TS | fresh | queued | running (w : Nat) | done | dropped
  deriving DecidableEq, Repr

inductive WPc | ready | sleeping | running (t : Nat) | exited
  deriving DecidableEq, Repr

/-- a client call in progress -/
inductive CPc
  | idle
  | pushed (ts : List Nat) (all : Bool)   -- tasks pushed, notify pending (all = notify_all)
  | waiting (ts : List Nat)                -- blocked on the futures of ts
  | stopSet                                -- destructor: stop set, notify_all pending
  | joining                                -- destructor: waiting for all workers to exit
  | finished
  deriving DecidableEq, Repr

structure St where
  nw : Nat
  queue : List Nat
  stop : Bool
  ts : Nat → TS
  wpc : Nat → WPc
  cpc : Nat → CPc
  exec : Nat → Nat

def upd {β : Type} (f : Nat → β) (k : Nat) (v : β) : Nat → β := fun i => if i = k then v else f i

inductive Ev
  | wTake (w : Nat)        -- worker: lock; pred true, ¬stop; pop; unlock; start running
  | wSleep (w : Nat)       -- worker: lock; pred false; wait (sleep)
  | wExit (w : Nat)        -- worker: lock; stop seen; clear queue; notify_all; exit
  | wRunEnd (w : Nat)      -- worker finished its task (future ready)
  | wWake (w : Nat)        -- spurious or notified wake-up
  | cPush (c : Nat) (ts : List Nat) (all : Bool)  -- client: lock; push tasks; unlock
  | cNotify (c : Nat) (w : Option Nat)  -- notify_one (wakes sleeping w if some) / notify_all
  | cReturn (c : Nat)      -- client: all futures ready, call returns
  | dStop (c : Nat)        -- destructor: lock; stop := true; unlock
  | dJoined (c : Nat)      -- destructor: all workers exited, join returns

def ready? (t : TS) : Bool := match t with | .done => true | .dropped => true | _ => false

def step (s : St) : Ev → Option St
  | .wTake w =>
    if w < s.nw ∧ s.wpc w = .ready ∧ s.stop = false then
      match s.queue with
      | [] => none
      | t :: q => some { s with queue := q, ts := upd s.ts t (.running w), wpc := upd s.wpc w (.running t),
                                exec := upd s.exec t (s.exec t + 1) }
    else none
  | .wSleep w =>
    if w < s.nw ∧ s.wpc w = .ready ∧ s.stop = false ∧ s.queue = [] then
      some { s with wpc := upd s.wpc w .sleeping } else none
  | .wExit w =>
    if w < s.nw ∧ s.wpc w = .ready ∧ s.stop = true then
      some { s with queue := [], ts := fun t => if s.ts t = .queued then .dropped else s.ts t,
                    wpc := fun v => if v = w then .exited else if s.wpc v = .sleeping then .ready else s.wpc v }
    else none
  | .wRunEnd w =>
    if w < s.nw then
      match s.wpc w with
      | .running t => some { s with ts := upd s.ts t .done, wpc := upd s.wpc w .ready }
      | _ => none
    else none
  | .wWake w =>
    if w < s.nw ∧ s.wpc w = .sleeping then some { s with wpc := upd s.wpc w .ready } else none
  | .cPush c ts all =>
    if s.cpc c = .idle ∧ (∀ t ∈ ts, s.ts t = .fresh) ∧ ts.Nodup ∧ s.stop = false then
      some { s with queue := s.queue ++ ts, ts := fun t => if t ∈ ts then .queued else s.ts t,
                    cpc := upd s.cpc c (.pushed ts all) }
    else none
  | .cNotify c w =>
    match s.cpc c with
    | .pushed ts all =>
      if all then
        some { s with wpc := fun v => if s.wpc v = .sleeping then .ready else s.wpc v, cpc := upd s.cpc c (.waiting ts) }
      else
        match w with
        | some v =>
          if v < s.nw ∧ s.wpc v = .sleeping then
            some { s with wpc := upd s.wpc v .ready, cpc := upd s.cpc c (.waiting ts) } else none
        | none =>
          if ∀ v, v < s.nw → s.wpc v ≠ .sleeping then some { s with cpc := upd s.cpc c (.waiting ts) } else none
    | .stopSet =>
      some { s with wpc := fun v => if s.wpc v = .sleeping then .ready else s.wpc v, cpc := upd s.cpc c .joining }
    | _ => none
  | .cReturn c =>
    match s.cpc c with
    | .waiting ts => if ∀ t ∈ ts, ready? (s.ts t) = true then some { s with cpc := upd s.cpc c .finished } else none
    | _ => none
  | .dStop c =>
    if s.cpc c = .idle then some { s with stop := true, cpc := upd s.cpc c .stopSet } else none
  | .dJoined c =>
    if s.cpc c = .joining ∧ (∀ v, v < s.nw → s.wpc v = .exited) then some { s with cpc := upd s.cpc c .finished } else none

/-- invariant: bookkeeping of tasks is consistent -/
structure Inv (s : St) : Prop where
  q_nodup : s.queue.Nodup
  q_iff : ∀ t, t ∈ s.queue ↔ s.ts t = .queued
  run_iff : ∀ t w, s.ts t = .running w ↔ (w < s.nw ∧ s.wpc w = .running t)
  exec_le : ∀ t, s.exec t = (match s.ts t with | .running _ => 1 | .done => 1 | _ => 0)


theorem upd_same {β} (f : Nat → β) (k v) : upd f k v k = v := by simp [upd]
theorem upd_other {β} (f : Nat → β) (k v i) (h : i ≠ k) : upd f k v i = f i := by simp [upd, h]

theorem inv_wTake (s s' : St) (w : Nat) (hi : Inv s) (h : step s (.wTake w) = some s') : Inv s' := by
  simp only [step] at h
  split at h
  · rename_i hc
    obtain ⟨hw, hpc, hstop⟩ := hc
    split at h
    · simp at h
    · rename_i t q hq
      simp only [Option.some.injEq] at h
      subst h
      have hnd := hi.q_nodup
      rw [hq] at hnd
      have htq : s.ts t = .queued := (hi.q_iff t).mp (by rw [hq]; simp)
      have htnq : t ∉ q := (List.nodup_cons.mp hnd).1
      refine ⟨?_, ?_, ?_, ?_⟩
      · exact (List.nodup_cons.mp hnd).2
      · intro u
        simp only
        by_cases hu : u = t
        · subst hu; simp [upd_same, htnq]
        · rw [upd_other _ _ _ _ hu]
          rw [← hi.q_iff u, hq]; simp [hu]
      · intro u v
        simp only
        by_cases hu : u = t
        · subst hu
          rw [upd_same]
          constructor
          · intro h1; cases h1; exact ⟨hw, by rw [upd_same]⟩
          · rintro ⟨hv, h2⟩
            by_cases hvw : v = w
            · subst hvw; rfl
            · rw [upd_other _ _ _ _ hvw] at h2
              have := (hi.run_iff u v).mpr ⟨hv, h2⟩
              rw [htq] at this; cases this
        · rw [upd_other _ _ _ _ hu]
          by_cases hvw : v = w
          · subst hvw
            rw [upd_same]
            constructor
            · intro h1
              have := ((hi.run_iff u v).mp h1).2
              rw [hpc] at this; cases this
            · rintro ⟨_, h2⟩; cases h2; exact absurd rfl hu
          · rw [upd_other _ _ _ _ hvw]; exact hi.run_iff u v
      · intro u
        simp only
        by_cases hu : u = t
        · subst hu; simp [upd_same]
          have := hi.exec_le u; rw [htq] at this; simpa using this
        · rw [upd_other _ _ _ _ hu, upd_other _ _ _ _ hu]; exact hi.exec_le u
  · simp at h

def owesNotify : CPc → Bool
  | .pushed _ _ => true
  | .stopSet => true
  | _ => false

def active : WPc → Bool
  | .ready => true
  | .running _ => true
  | _ => false

/-- J: work pending or stop requested ⇒ somebody will react -/
def J (s : St) : Prop :=
  (s.queue ≠ [] ∨ s.stop = true) →
    (∃ w, w < s.nw ∧ active (s.wpc w) = true) ∨ (∃ c, owesNotify (s.cpc c) = true) ∨ (∀ w, w < s.nw → s.wpc w = .exited)

/-- K: nobody exits before stop -/
def K (s : St) : Prop := s.stop = false → ∀ w, w < s.nw → s.wpc w ≠ .exited

theorem J_wSleep (s s' : St) (w : Nat) (h : step s (.wSleep w) = some s') : J s' := by
  simp only [step] at h
  split at h
  · rename_i hc
    obtain ⟨_, _, hstop, hq⟩ := hc
    simp only [Option.some.injEq] at h; subst h
    intro hprem
    simp only at hprem
    rcases hprem with h1 | h1
    · exact absurd hq h1
    · rw [hstop] at h1; cases h1
  · simp at h

theorem J_cNotify_all (s s' : St) (c : Nat) (ts : List Nat) (hnw : 0 < s.nw) (hK : K s)
    (hpc : s.cpc c = .pushed ts true) (h : step s (.cNotify c none) = some s') : J s' := by
  simp only [step, hpc] at h
  simp only [if_true, Option.some.injEq] at h
  subst h
  intro _
  simp only
  -- every worker is, after notify_all, ready / running / exited
  by_cases hall : ∀ w, w < s.nw → s.wpc w = .exited
  · right; right
    intro w hw
    rw [hall w hw]; simp
  · left
    obtain ⟨w, hw⟩ := Classical.not_forall.mp hall
    obtain ⟨hwlt, hne⟩ := Classical.not_imp.mp hw
    refine ⟨w, hwlt, ?_⟩
    cases hpcw : s.wpc w with
    | ready => simp [active]
    | sleeping => simp [active]
    | running t => simp [active]
    | exited => exact absurd hpcw hne
end Pool
/-! remaining preservation lemmas for the bookkeeping invariant `Inv` (appended to pool2.lean for checking) -/
namespace Pool

theorem inv_wSleep (s s' : St) (w : Nat) (hi : Inv s) (h : step s (.wSleep w) = some s') : Inv s' := by
  simp only [step] at h
  split at h
  · rename_i hc
    obtain ⟨hw, hpc, _, _⟩ := hc
    simp only [Option.some.injEq] at h; subst h
    refine ⟨hi.q_nodup, hi.q_iff, ?_, hi.exec_le⟩
    intro t v
    simp only
    by_cases hv : v = w
    · subst hv
      rw [upd_same]
      constructor
      · intro h1; have := ((hi.run_iff t v).mp h1).2; rw [hpc] at this; cases this
      · rintro ⟨_, h2⟩; cases h2
    · rw [upd_other _ _ _ _ hv]; exact hi.run_iff t v
  · simp at h

theorem inv_wWake (s s' : St) (w : Nat) (hi : Inv s) (h : step s (.wWake w) = some s') : Inv s' := by
  simp only [step] at h
  split at h
  · rename_i hc
    obtain ⟨hw, hpc⟩ := hc
    simp only [Option.some.injEq] at h; subst h
    refine ⟨hi.q_nodup, hi.q_iff, ?_, hi.exec_le⟩
    intro t v
    simp only
    by_cases hv : v = w
    · subst hv
      rw [upd_same]
      constructor
      · intro h1; have := ((hi.run_iff t v).mp h1).2; rw [hpc] at this; cases this
      · rintro ⟨_, h2⟩; cases h2
    · rw [upd_other _ _ _ _ hv]; exact hi.run_iff t v
  · simp at h

theorem inv_wRunEnd (s s' : St) (w : Nat) (hi : Inv s) (h : step s (.wRunEnd w) = some s') : Inv s' := by
  simp only [step] at h
  split at h
  · rename_i hw
    split at h
    · rename_i t hpc
      simp only [Option.some.injEq] at h; subst h
      have hts : s.ts t = .running w := (hi.run_iff t w).mpr ⟨hw, hpc⟩
      refine ⟨hi.q_nodup, ?_, ?_, ?_⟩
      · intro u
        simp only
        by_cases hu : u = t
        · subst hu; rw [upd_same]
          constructor
          · intro hm; have := (hi.q_iff u).mp hm; rw [hts] at this; cases this
          · intro h1; cases h1
        · rw [upd_other _ _ _ _ hu]; exact hi.q_iff u
      · intro u v
        simp only
        by_cases hu : u = t
        · subst hu; rw [upd_same]
          constructor
          · intro h1; cases h1
          · rintro ⟨hv, h2⟩
            by_cases hvw : v = w
            · subst hvw; rw [upd_same] at h2; cases h2
            · rw [upd_other _ _ _ _ hvw] at h2
              have := (hi.run_iff u v).mpr ⟨hv, h2⟩
              rw [hts] at this; cases this; exact absurd rfl hvw
        · rw [upd_other _ _ _ _ hu]
          by_cases hvw : v = w
          · subst hvw; rw [upd_same]
            constructor
            · intro h1
              have := ((hi.run_iff u v).mp h1).2
              rw [hpc] at this; cases this; exact absurd rfl hu
            · rintro ⟨_, h2⟩; cases h2
          · rw [upd_other _ _ _ _ hvw]; exact hi.run_iff u v
      · intro u
        simp only
        by_cases hu : u = t
        · subst hu; rw [upd_same]
          have := hi.exec_le u; rw [hts] at this; simpa using this
        · rw [upd_other _ _ _ _ hu]; exact hi.exec_le u
    · simp at h
  · simp at h
end Pool
namespace Pool

/-- changing only non-running pcs to non-running pcs preserves the running bookkeeping -/
theorem run_iff_of_wpc_eq (s : St) (wpc' : Nat → WPc) (hi : Inv s)
    (h : ∀ v t, wpc' v = .running t ↔ s.wpc v = .running t) :
    ∀ t w, s.ts t = .running w ↔ (w < s.nw ∧ wpc' w = .running t) := by
  intro t w
  rw [hi.run_iff t w, h w t]

theorem inv_cNotify (s s' : St) (c : Nat) (w : Option Nat) (hi : Inv s) (h : step s (.cNotify c w) = some s') : Inv s' := by
  simp only [step] at h
  split at h
  · -- pushed
    split at h
    · simp only [Option.some.injEq] at h; subst h
      refine ⟨hi.q_nodup, hi.q_iff, ?_, hi.exec_le⟩
      apply run_iff_of_wpc_eq s _ hi
      intro v t
      by_cases hs : s.wpc v = .sleeping
      · simp [hs]
      · simp [hs]
    · split at h
      · rename_i v
        split at h
        · rename_i hc
          simp only [Option.some.injEq] at h; subst h
          refine ⟨hi.q_nodup, hi.q_iff, ?_, hi.exec_le⟩
          apply run_iff_of_wpc_eq s _ hi
          intro u t
          show upd s.wpc v WPc.ready u = WPc.running t ↔ s.wpc u = WPc.running t
          by_cases hu : u = v
          · subst hu; rw [upd_same, hc.2]; simp
          · rw [upd_other _ _ _ _ hu]
        · simp at h
      · split at h
        · simp only [Option.some.injEq] at h; subst h
          exact ⟨hi.q_nodup, hi.q_iff, hi.run_iff, hi.exec_le⟩
        · simp at h
  · -- stopSet
    simp only [Option.some.injEq] at h; subst h
    refine ⟨hi.q_nodup, hi.q_iff, ?_, hi.exec_le⟩
    apply run_iff_of_wpc_eq s _ hi
    intro v t
    by_cases hs : s.wpc v = .sleeping
    · simp [hs]
    · simp [hs]
  · simp at h

theorem inv_cReturn (s s' : St) (c : Nat) (hi : Inv s) (h : step s (.cReturn c) = some s') : Inv s' := by
  simp only [step] at h
  split at h
  · split at h
    · simp only [Option.some.injEq] at h; subst h
      exact ⟨hi.q_nodup, hi.q_iff, hi.run_iff, hi.exec_le⟩
    · simp at h
  · simp at h

theorem inv_dStop (s s' : St) (c : Nat) (hi : Inv s) (h : step s (.dStop c) = some s') : Inv s' := by
  simp only [step] at h
  split at h
  · simp only [Option.some.injEq] at h; subst h
    exact ⟨hi.q_nodup, hi.q_iff, hi.run_iff, hi.exec_le⟩
  · simp at h

theorem inv_dJoined (s s' : St) (c : Nat) (hi : Inv s) (h : step s (.dJoined c) = some s') : Inv s' := by
  simp only [step] at h
  split at h
  · simp only [Option.some.injEq] at h; subst h
    exact ⟨hi.q_nodup, hi.q_iff, hi.run_iff, hi.exec_le⟩
  · simp at h
end Pool
namespace Pool

theorem inv_wExit (s s' : St) (w : Nat) (hi : Inv s) (h : step s (.wExit w) = some s') : Inv s' := by
  simp only [step] at h
  split at h
  · rename_i hc
    obtain ⟨hw, hpc, _⟩ := hc
    simp only [Option.some.injEq] at h; subst h
    refine ⟨List.nodup_nil, ?_, ?_, ?_⟩
    · intro t
      show t ∈ ([] : List Nat) ↔ (if s.ts t = .queued then TS.dropped else s.ts t) = .queued
      by_cases hq : s.ts t = .queued
      · simp [hq]
      · simp [hq]
    · intro t v
      show (if s.ts t = .queued then TS.dropped else s.ts t) = .running v ↔
        (v < s.nw ∧ (if v = w then WPc.exited else if s.wpc v = .sleeping then WPc.ready else s.wpc v) = .running t)
      have h1 : (if s.ts t = .queued then TS.dropped else s.ts t) = .running v ↔ s.ts t = .running v := by
        by_cases hq : s.ts t = .queued
        · simp [hq]
        · simp [hq]
      rw [h1, hi.run_iff t v]
      by_cases hvw : v = w
      · subst hvw; simp [hpc]
      · by_cases hs : s.wpc v = .sleeping
        · simp [hvw, hs]
        · simp [hvw, hs]
    · intro t
      show s.exec t = (match (if s.ts t = .queued then TS.dropped else s.ts t) with | .running _ => 1 | .done => 1 | _ => 0)
      have := hi.exec_le t
      by_cases hq : s.ts t = .queued
      · simp [hq] at this ⊢; exact this
      · simp only [hq, if_false]; exact this
  · simp at h

theorem inv_cPush (s s' : St) (c : Nat) (ts : List Nat) (all : Bool) (hi : Inv s)
    (h : step s (.cPush c ts all) = some s') : Inv s' := by
  simp only [step] at h
  split at h
  · rename_i hc
    obtain ⟨_, hfresh, hnd, _⟩ := hc
    simp only [Option.some.injEq] at h; subst h
    refine ⟨?_, ?_, ?_, ?_⟩
    · refine List.nodup_append.mpr ⟨hi.q_nodup, hnd, ?_⟩
      intro a ha b hb hab
      subst hab
      have h1 := (hi.q_iff a).mp ha
      rw [hfresh a hb] at h1; cases h1
    · intro t
      show t ∈ s.queue ++ ts ↔ (if t ∈ ts then TS.queued else s.ts t) = .queued
      by_cases ht : t ∈ ts
      · simp [ht]
      · simp [ht, hi.q_iff t]
    · intro t v
      show (if t ∈ ts then TS.queued else s.ts t) = .running v ↔ (v < s.nw ∧ s.wpc v = .running t)
      by_cases ht : t ∈ ts
      · simp only [ht, if_true]
        constructor
        · intro h1; cases h1
        · intro h2
          have := (hi.run_iff t v).mpr h2
          rw [hfresh t ht] at this; cases this
      · simp only [ht, if_false]; exact hi.run_iff t v
    · intro t
      show s.exec t = (match (if t ∈ ts then TS.queued else s.ts t) with | .running _ => 1 | .done => 1 | _ => 0)
      have := hi.exec_le t
      by_cases ht : t ∈ ts
      · simp only [ht, if_true]; rw [hfresh t ht] at this; exact this
      · simp only [ht, if_false]; exact this
  · simp at h

/-- every reachable state satisfies the bookkeeping invariant -/
theorem inv_step (s s' : St) (e : Ev) (hi : Inv s) (h : step s e = some s') : Inv s' := by
  cases e with
  | wTake w => exact inv_wTake s s' w hi h
  | wSleep w => exact inv_wSleep s s' w hi h
  | wExit w => exact inv_wExit s s' w hi h
  | wRunEnd w => exact inv_wRunEnd s s' w hi h
  | wWake w => exact inv_wWake s s' w hi h
  | cPush c ts all => exact inv_cPush s s' c ts all hi h
  | cNotify c w => exact inv_cNotify s s' c w hi h
  | cReturn c => exact inv_cReturn s s' c hi h
  | dStop c => exact inv_dStop s s' c hi h
  | dJoined c => exact inv_dJoined s s' c hi h

def run : St → List Ev → Option St
  | s, [] => some s
  | s, e :: es => match step s e with
    | none => none
    | some s' => run s' es

theorem inv_run (es : List Ev) : ∀ (s s' : St), Inv s → run s es = some s' → Inv s' := by
  induction es with
  | nil => intro s s' hi h; simp [run] at h; subst h; exact hi
  | cons e es ih =>
    intro s s' hi h
    simp only [run] at h
    split at h
    · simp at h
    · rename_i s1 hs1
      exact ih s1 s' (inv_step s s1 e hi hs1) h

/-- in every reachable state each task has been executed at most once, and exactly once if done -/
theorem executed_at_most_once (es : List Ev) (s s' : St) (hi : Inv s) (h : run s es = some s') (t : Nat) :
    s'.exec t ≤ 1 ∧ (s'.ts t = .done → s'.exec t = 1) := by
  have := (inv_run es s s' hi h).exec_le t
  constructor
  · rw [this]; split <;> simp
  · intro hd; rw [this, hd]
end Pool
#print axioms Pool.executed_at_most_once
namespace Pool

theorem exists_active_or_all_exited (nw : Nat) (wpc : Nat → WPc) (hns : ∀ v, v < nw → wpc v ≠ .sleeping) :
    (∃ w, w < nw ∧ active (wpc w) = true) ∨ (∀ w, w < nw → wpc w = .exited) := by
  by_cases hall : ∀ w, w < nw → wpc w = .exited
  · exact Or.inr hall
  · left
    obtain ⟨w, hw⟩ := Classical.not_forall.mp hall
    obtain ⟨hwlt, hne⟩ := Classical.not_imp.mp hw
    refine ⟨w, hwlt, ?_⟩
    cases hpcw : wpc w with
    | ready => simp [active]
    | sleeping => exact absurd hpcw (hns w hwlt)
    | running t => simp [active]
    | exited => exact absurd hpcw hne

theorem J_step (s s' : St) (e : Ev) (hj : J s) (h : step s e = some s') : J s' := by
  cases e with
  | wSleep w => exact J_wSleep s s' w h
  | wTake w =>
    simp only [step] at h
    split at h
    · rename_i hc
      split at h
      · simp at h
      · simp only [Option.some.injEq] at h; subst h
        intro _
        exact Or.inl ⟨w, hc.1, by simp [upd_same, active]⟩
    · simp at h
  | wExit w =>
    simp only [step] at h
    split at h
    · simp only [Option.some.injEq] at h; subst h
      intro _
      have := exists_active_or_all_exited s.nw
        (fun v => if v = w then WPc.exited else if s.wpc v = .sleeping then WPc.ready else s.wpc v)
        (by
          intro v _
          by_cases hvw : v = w
          · simp [hvw]
          · by_cases hs : s.wpc v = .sleeping
            · simp [hvw, hs]
            · simp [hvw, hs])
      rcases this with h1 | h1
      · exact Or.inl h1
      · exact Or.inr (Or.inr h1)
    · simp at h
  | wRunEnd w =>
    simp only [step] at h
    split at h
    · rename_i hw
      split at h
      · simp only [Option.some.injEq] at h; subst h
        intro _
        exact Or.inl ⟨w, hw, by simp [upd_same, active]⟩
      · simp at h
    · simp at h
  | wWake w =>
    simp only [step] at h
    split at h
    · rename_i hc
      simp only [Option.some.injEq] at h; subst h
      intro _
      exact Or.inl ⟨w, hc.1, by simp [upd_same, active]⟩
    · simp at h
  | cPush c ts all =>
    simp only [step] at h
    split at h
    · simp only [Option.some.injEq] at h; subst h
      intro _
      exact Or.inr (Or.inl ⟨c, by simp [upd_same, owesNotify]⟩)
    · simp at h
  | dStop c =>
    simp only [step] at h
    split at h
    · simp only [Option.some.injEq] at h; subst h
      intro _
      exact Or.inr (Or.inl ⟨c, by simp [upd_same, owesNotify]⟩)
    · simp at h
  | cNotify c w =>
    simp only [step] at h
    split at h
    · split at h
      · -- notify_all
        simp only [Option.some.injEq] at h; subst h
        intro _
        have := exists_active_or_all_exited s.nw (fun v => if s.wpc v = .sleeping then WPc.ready else s.wpc v)
          (by intro v _; by_cases hs : s.wpc v = .sleeping <;> simp [hs])
        rcases this with h1 | h1
        · exact Or.inl h1
        · exact Or.inr (Or.inr h1)
      · split at h
        · rename_i v
          split at h
          · rename_i hc
            simp only [Option.some.injEq] at h; subst h
            intro _
            exact Or.inl ⟨v, hc.1, by simp [upd_same, active]⟩
          · simp at h
        · split at h
          · rename_i hc
            simp only [Option.some.injEq] at h; subst h
            intro _
            have := exists_active_or_all_exited s.nw s.wpc hc
            rcases this with h1 | h1
            · exact Or.inl h1
            · exact Or.inr (Or.inr h1)
          · simp at h
    · simp only [Option.some.injEq] at h; subst h
      intro _
      have := exists_active_or_all_exited s.nw (fun v => if s.wpc v = .sleeping then WPc.ready else s.wpc v)
        (by intro v _; by_cases hs : s.wpc v = .sleeping <;> simp [hs])
      rcases this with h1 | h1
      · exact Or.inl h1
      · exact Or.inr (Or.inr h1)
    · simp at h
  | cReturn c =>
    simp only [step] at h
    split at h
    · rename_i ts hpc
      split at h
      · simp only [Option.some.injEq] at h; subst h
        intro hprem
        rcases hj hprem with h1 | ⟨c', hc'⟩ | h1
        · exact Or.inl h1
        · refine Or.inr (Or.inl ⟨c', ?_⟩)
          have hne : c' ≠ c := by
            intro heq; subst heq; rw [hpc] at hc'; simp [owesNotify] at hc'
          show owesNotify (upd s.cpc c CPc.finished c') = true
          rw [upd_other _ _ _ _ hne]; exact hc'
        · exact Or.inr (Or.inr h1)
      · simp at h
    · simp at h
  | dJoined c =>
    simp only [step] at h
    split at h
    · rename_i hc
      simp only [Option.some.injEq] at h; subst h
      intro hprem
      rcases hj hprem with h1 | ⟨c', hc'⟩ | h1
      · exact Or.inl h1
      · refine Or.inr (Or.inl ⟨c', ?_⟩)
        have hne : c' ≠ c := by
          intro heq; subst heq; rw [hc.1] at hc'; simp [owesNotify] at hc'
        show owesNotify (upd s.cpc c CPc.finished c') = true
        rw [upd_other _ _ _ _ hne]; exact hc'
      · exact Or.inr (Or.inr h1)
    · simp at h
end Pool
#print axioms Pool.J_step
