/-! probe: reduced thread-pool protocol model (critical sections are atomic events) -/
namespace Pool

inductive TS | fresh | queued | running (w : Nat) | done | dropped
  deriving DecidableEq, Repr

inductive WPc | ready | sleeping | running (t : Nat) | exited
  deriving DecidableEq, Repr

/-- a client call in progress -/
inductive CPc
  | idle
  | pushed (ts : List Nat) (all : Bool)   -- tasks pushed, notify pending (all = notify_all)
  | waiting (ts : List Nat)                -- blocked on the futures of ts
  | stopSet                                -- destructor: stop set, notify_all pending
  | joining                                -- destructor: waiting for all workers to exit
  | finished
  deriving DecidableEq, Repr

structure St where
  nw : Nat
  queue : List Nat
  stop : Bool
  ts : Nat → TS
  wpc : Nat → WPc
  cpc : Nat → CPc
  exec : Nat → Nat

def upd {β : Type} (f : Nat → β) (k : Nat) (v : β) : Nat → β := fun i => if i = k then v else f i

inductive Ev
  | wTake (w : Nat)        -- worker: lock; pred true, ¬stop; pop; unlock; start running
  | wSleep (w : Nat)       -- worker: lock; pred false; wait (sleep)
  | wExit (w : Nat)        -- worker: lock; stop seen; clear queue; notify_all; exit
  | wRunEnd (w : Nat)      -- worker finished its task (future ready)
  | wWake (w : Nat)        -- spurious or notified wake-up
  | cPush (c : Nat) (ts : List Nat) (all : Bool)  -- client: lock; push tasks; unlock
  | cNotify (c : Nat) (w : Option Nat)  -- notify_one (wakes sleeping w if some) / notify_all
  | cReturn (c : Nat)      -- client: all futures ready, call returns
  | dStop (c : Nat)        -- destructor: lock; stop := true; unlock
  | dJoined (c : Nat)      -- destructor: all workers exited, join returns

def ready? (t : TS) : Bool := match t with | .done => true | .dropped => true | _ => false

def step (s : St) : Ev → Option St
  | .wTake w =>
    if w < s.nw ∧ s.wpc w = .ready ∧ s.stop = false then
      match s.queue with
      | [] => none
      | t :: q => some { s with queue := q, ts := upd s.ts t (.running w), wpc := upd s.wpc w (.running t),
                                exec := upd s.exec t (s.exec t + 1) }
    else none
  | .wSleep w =>
    if w < s.nw ∧ s.wpc w = .ready ∧ s.stop = false ∧ s.queue = [] then
      some { s with wpc := upd s.wpc w .sleeping } else none
  | .wExit w =>
    if w < s.nw ∧ s.wpc w = .ready ∧ s.stop = true then
      some { s with queue := [], ts := fun t => if s.ts t = .queued then .dropped else s.ts t,
                    wpc := fun v => if v = w then .exited else if s.wpc v = .sleeping then .ready else s.wpc v }
    else none
  | .wRunEnd w =>
    if w < s.nw then
      match s.wpc w with
      | .running t => some { s with ts := upd s.ts t .done, wpc := upd s.wpc w .ready }
      | _ => none
    else none
  | .wWake w =>
    if w < s.nw ∧ s.wpc w = .sleeping then some { s with wpc := upd s.wpc w .ready } else none
  | .cPush c ts all =>
    if s.cpc c = .idle ∧ (∀ t ∈ ts, s.ts t = .fresh) ∧ ts.Nodup ∧ s.stop = false then
      some { s with queue := s.queue ++ ts, ts := fun t => if t ∈ ts then .queued else s.ts t,
                    cpc := upd s.cpc c (.pushed ts all) }
    else none
  | .cNotify c w =>
    match s.cpc c with
    | .pushed ts all =>
      if all then
        some { s with wpc := fun v => if s.wpc v = .sleeping then .ready else s.wpc v, cpc := upd s.cpc c (.waiting ts) }
      else
        match w with
        | some v =>
          if v < s.nw ∧ s.wpc v = .sleeping then
            some { s with wpc := upd s.wpc v .ready, cpc := upd s.cpc c (.waiting ts) } else none
        | none =>
          if ∀ v, v < s.nw → s.wpc v ≠ .sleeping then some { s with cpc := upd s.cpc c (.waiting ts) } else none
    | .stopSet =>
      some { s with wpc := fun v => if s.wpc v = .sleeping then .ready else s.wpc v, cpc := upd s.cpc c .joining }
    | _ => none
  | .cReturn c =>
    match s.cpc c with
    | .waiting ts => if ∀ t ∈ ts, ready? (s.ts t) = true then some { s with cpc := upd s.cpc c .finished } else none
    | _ => none
  | .dStop c =>
    if s.cpc c = .idle then some { s with stop := true, cpc := upd s.cpc c .stopSet } else none
  | .dJoined c =>
    if s.cpc c = .joining ∧ (∀ v, v < s.nw → s.wpc v = .exited) then some { s with cpc := upd s.cpc c .finished } else none

/-- invariant: bookkeeping of tasks is consistent -/
structure Inv (s : St) : Prop where
  q_nodup : s.queue.Nodup
  q_iff : ∀ t, t ∈ s.queue ↔ s.ts t = .queued
  run_iff : ∀ t w, s.ts t = .running w ↔ (w < s.nw ∧ s.wpc w = .running t)
  exec_le : ∀ t, s.exec t = (match s.ts t with | .running _ => 1 | .done => 1 | _ => 0)


theorem upd_same {β} (f : Nat → β) (k v) : upd f k v k = v := by simp [upd]
theorem upd_other {β} (f : Nat → β) (k v i) (h : i ≠ k) : upd f k v i = f i := by simp [upd, h]

theorem inv_wTake (s s' : St) (w : Nat) (hi : Inv s) (h : step s (.wTake w) = some s') : Inv s' := by
  simp only [step] at h
  split at h
  · rename_i hc
    obtain ⟨hw, hpc, hstop⟩ := hc
    split at h
    · simp at h
    · rename_i t q hq
      simp only [Option.some.injEq] at h
      subst h
      have hnd := hi.q_nodup
      rw [hq] at hnd
      have htq : s.ts t = .queued := (hi.q_iff t).mp (by rw [hq]; simp)
      have htnq : t ∉ q := (List.nodup_cons.mp hnd).1
      refine ⟨?_, ?_, ?_, ?_⟩
      · exact (List.nodup_cons.mp hnd).2
      · intro u
        simp only
        by_cases hu : u = t
        · subst hu; simp [upd_same, htnq]
        · rw [upd_other _ _ _ _ hu]
          rw [← hi.q_iff u, hq]; simp [hu]
      · intro u v
        simp only
        by_cases hu : u = t
        · subst hu
          rw [upd_same]
          constructor
          · intro h1; cases h1; exact ⟨hw, by rw [upd_same]⟩
          · rintro ⟨hv, h2⟩
            by_cases hvw : v = w
            · subst hvw; rfl
            · rw [upd_other _ _ _ _ hvw] at h2
              have := (hi.run_iff u v).mpr ⟨hv, h2⟩
              rw [htq] at this; cases this
        · rw [upd_other _ _ _ _ hu]
          by_cases hvw : v = w
          · subst hvw
            rw [upd_same]
            constructor
            · intro h1
              have := ((hi.run_iff u v).mp h1).2
              rw [hpc] at this; cases this
            · rintro ⟨_, h2⟩; cases h2; exact absurd rfl hu
          · rw [upd_other _ _ _ _ hvw]; exact hi.run_iff u v
      · intro u
        simp only
        by_cases hu : u = t
        · subst hu; simp [upd_same]
          have := hi.exec_le u; rw [htq] at this; simpa using this
        · rw [upd_other _ _ _ _ hu, upd_other _ _ _ _ hu]; exact hi.exec_le u
  · simp at h

def owesNotify : CPc → Bool
  | .pushed _ _ => true
  | .stopSet => true
  | _ => false

def active : WPc → Bool
  | .ready => true
  | .running _ => true
  | _ => false

/-- J: work pending or stop requested ⇒ somebody will react -/
def J (s : St) : Prop :=
  (s.queue ≠ [] ∨ s.stop = true) →
    (∃ w, w < s.nw ∧ active (s.wpc w) = true) ∨ (∃ c, owesNotify (s.cpc c) = true) ∨ (∀ w, w < s.nw → s.wpc w = .exited)

/-- K: nobody exits before stop -/
def K (s : St) : Prop := s.stop = false → ∀ w, w < s.nw → s.wpc w ≠ .exited

theorem J_wSleep (s s' : St) (w : Nat) (h : step s (.wSleep w) = some s') : J s' := by
  simp only [step] at h
  split at h
  · rename_i hc
    obtain ⟨_, _, hstop, hq⟩ := hc
    simp only [Option.some.injEq] at h; subst h
    intro hprem
    simp only at hprem
    rcases hprem with h1 | h1
    · exact absurd hq h1
    · rw [hstop] at h1; cases h1
  · simp at h

theorem J_cNotify_all (s s' : St) (c : Nat) (ts : List Nat) (hnw : 0 < s.nw) (hK : K s)
    (hpc : s.cpc c = .pushed ts true) (h : step s (.cNotify c none) = some s') : J s' := by
  simp only [step, hpc] at h
  simp only [if_true, Option.some.injEq] at h
  subst h
  intro _
  simp only
  -- every worker is, after notify_all, ready / running / exited
  by_cases hall : ∀ w, w < s.nw → s.wpc w = .exited
  · right; right
    intro w hw
    rw [hall w hw]; simp
  · left
    obtain ⟨w, hw⟩ := Classical.not_forall.mp hall
    obtain ⟨hwlt, hne⟩ := Classical.not_imp.mp hw
    refine ⟨w, hwlt, ?_⟩
    cases hpcw : s.wpc w with
    | ready => simp [active]
    | sleeping => simp [active]
    | running t => simp [active]
    | exited => exact absurd hpcw hne
end Pool
