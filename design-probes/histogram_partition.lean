import Mathlib.Order.Defs.LinearOrder
/-! probe C20: histogram bins by repeated upper_bound on sorted values -/
namespace H
variable {α : Type} [LT α] [DecidableLT α]

/-- elements `< thr` of the (sorted) list, and the rest: models
    `it = upper_bound(begin, end, thr, (t, v) ↦ v >= t)`; bin = [begin, it) -/
def splitLt (thr : α) : List α → List α × List α
  | [] => ([], [])
  | v :: vs => if v < thr then let (a, b) := splitLt thr vs; (v :: a, b) else ([], v :: vs)

/-- bins for thresholds ts (k thresholds → k+1 bins) -/
def bins : List α → List α → List (List α)
  | [], vs => [vs]
  | t :: ts, vs => let (a, b) := splitLt t vs; a :: bins ts b

theorem splitLt_append (thr : α) (vs : List α) : (splitLt thr vs).1 ++ (splitLt thr vs).2 = vs := by
  induction vs with
  | nil => simp [splitLt]
  | cons v vs ih =>
    simp only [splitLt]
    split
    · simp [ih]
    · simp

theorem bins_concat (ts vs : List α) : (bins ts vs).flatten = vs := by
  induction ts generalizing vs with
  | nil => simp [bins]
  | cons t ts ih =>
    simp only [bins, List.flatten_cons]
    rw [ih, splitLt_append]

theorem bins_length (ts vs : List α) : (bins ts vs).length = ts.length + 1 := by
  induction ts generalizing vs with
  | nil => simp [bins]
  | cons t ts ih => simp [bins, ih]

theorem splitLt_fst_lt (thr : α) (vs : List α) : ∀ v ∈ (splitLt thr vs).1, v < thr := by
  induction vs with
  | nil => simp [splitLt]
  | cons v vs ih =>
    simp only [splitLt]
    split
    · intro u hu
      simp only [List.mem_cons] at hu
      rcases hu with rfl | hu
      · assumption
      · exact ih u hu
    · simp
end H

namespace H
variable {α : Type} [LinearOrder α]

/-- for a sorted list, the remainder after splitting consists of elements ≥ thr -/
theorem splitLt_snd_ge (thr : α) (vs : List α) (hs : vs.Pairwise (· ≤ ·)) :
    ∀ v ∈ (splitLt thr vs).2, thr ≤ v := by
  induction vs with
  | nil => simp [splitLt]
  | cons v vs ih =>
    simp only [splitLt]
    split
    · exact ih (List.Pairwise.of_cons hs)
    · rename_i hlt
      intro u hu
      simp only [List.mem_cons] at hu
      rcases hu with rfl | hu
      · exact not_lt.mp hlt
      · exact le_trans (not_lt.mp hlt) ((List.pairwise_cons.mp hs).1 u hu)
end H
