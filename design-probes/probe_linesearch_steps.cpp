#include <nano/solver.h>
#include <nano/lsearchk.h>
#include <nano/function.h>
#include <iostream>
#include <random>
using namespace nano;
int main()
{
    const auto logger = make_null_logger();
    std::mt19937_64 rng(7);
    std::uniform_real_distribution<double> U(-1, 1);
    long n = 0, ok0 = 0, okcnt = 0, bad = 0;
    const auto functions = function_t::make({1, 4, convexity::ignore, smoothness::yes, 10});
    for (const char* ls : {"backtrack", "lemarechal", "fletcher", "morethuente", "cgdescent"})
    {
        long lsok = 0, lsn = 0, lsbad = 0, lszero = 0;
        for (const auto& f : functions)
        for (int trial = 0; trial < 200; ++trial)
        {
            auto lsearch = lsearchk_t::all().get(ls);
            const double radius = std::pow(10.0, 3 * U(rng));
            vector_t x0(f->size()); for (tensor_size_t i = 0; i < x0.size(); ++i) x0(i) = radius * U(rng);
            auto state = solver_state_t{*f, x0};
            if (!state.valid()) continue;
            vector_t d = -state.gx(); for (tensor_size_t i = 0; i < d.size(); ++i) d(i) *= (1 + 0.5 * U(rng));
            if (!state.has_descent(d)) continue;
            const double t0 = std::pow(10.0, 3 * U(rng));
            const auto state0 = state;
            const auto [ok, t] = lsearch->get(state, d, t0, logger);
            ++lsn;
            if (ok) { ++lsok; if (!(t > 0) || !std::isfinite(t)) { ++lszero; if (lszero < 4) std::cout << ls << " " << f->name() << " ok with t=" << t << " f0=" << state0.fx() << " f=" << state.fx() << "\n"; }
                      if (state.fx() > state0.fx()) ++lsbad; }
        }
        std::cout << ls << ": runs=" << lsn << " ok=" << lsok << " ok_with_nonpositive_t=" << lszero << " ok_with_increase=" << lsbad << "\n";
    }
}
