namespace Gen
variable {α : Type} [Add α] [Sub α] [Mul α] [Div α] [Neg α] [LT α] [LE α] [DecidableLT α] [DecidableLE α] [∀ n, OfNat α n] [OfScientific α]
def absv (x : α) : α := if x < 0 then -x else x
def hasArmijo (f0 dg0 f t c1 : α) : Bool := decide (f ≤ (f0 + ((t * c1) * dg0)))
def hasApproxArmijo (f0 f eps : α) : Bool := decide (f ≤ (f0 + eps))
def hasWolfe (dg0 dg c2 : α) : Bool := decide (dg ≥ (c2 * dg0))
def hasStrongWolfe (dg0 dg c2 : α) : Bool := decide ((absv dg) ≤ (c2 * (absv dg0)))
def hasApproxWolfe (dg0 dg c1 c2 : α) : Bool := (decide (((((2.0 : α) * c1) - (1.0 : α)) * dg0) ≥ dg) && decide (dg ≥ (c2 * dg0)))
end Gen
