#include <nano/dataset.h>
#include <nano/generator/elemwise_identity.h>
#include <nano/wlearner/affine.h>
#include <nano/wlearner/stump.h>
#include <nano/wlearner/criterion.h>
#include <iostream>
#include <iomanip>
#include <random>
using namespace nano;
class ds_t : public datasource_t
{
public:
    ds_t(std::vector<double> v, std::vector<double> u) : datasource_t("my"), m_v(std::move(v)), m_u(std::move(u)) {}
    rdatasource_t clone() const override { return std::make_unique<ds_t>(*this); }
    void do_load() override
    {
        features_t fs{feature_t{"x"}.scalar(feature_type::float64), feature_t{"y"}.scalar(feature_type::float64)};
        resize(static_cast<tensor_size_t>(m_v.size()), fs, 1);
        for (size_t s = 0; s < m_v.size(); ++s) { set(s, 0, m_v[s]); set(s, 1, 1.0 * s); }
    }
    std::vector<double> m_v, m_u;
};
int main()
{
    std::mt19937_64 rng(3); std::normal_distribution<double> N(0, 1);
    int bad = 0, total = 0, nofit = 0;
    for (double c : {0.1, 0.3, 0.7, 123.456, 1e3 + 1e-3})
    for (int n : {5, 10, 30, 60})
    for (int rep = 0; rep < 5; ++rep)
    {
        std::vector<double> v(n, c), u(n);
        for (auto& x : u) x = N(rng);
        ds_t ds(v, u); ds.load();
        dataset_t dataset(ds, 1);
        dataset.add<scalar_identity_generator_t>();
        const auto samples = arange(0, n);
        tensor4d_t gradients(n, 1, 1, 1);
        for (int i = 0; i < n; ++i) gradients(i) = N(rng);   // residual = -gradient
        auto wl = affine_wlearner_t{};
        wl.parameter("wlearner::criterion") = std::string("rss");
        const auto score = wl.fit(dataset, samples, gradients);
        // brute force over both features: least squares affine fit
        double best = 1e300;
        for (int f = 0; f < 1; ++f)
        {
            const auto& x = f == 0 ? v : u;
            double sx = 0, sxx = 0, sr = 0, sxr = 0, srr = 0;
            for (int i = 0; i < n; ++i) { const double r = -gradients(i); sx += x[i]; sxx += x[i]*x[i]; sr += r; sxr += x[i]*r; srr += r*r; }
            const double mx = sx / n; double vxx = 0, vxr = 0; for (int i = 0; i < n; ++i) { const double r = -gradients(i); vxx += (x[i]-mx)*(x[i]-mx); vxr += (x[i]-mx)*(r - sr/n); }
            const double w = vxx > 1e-12 * (1 + mx*mx) * n ? vxr / vxx : 0.0, b = sr / n - w * mx;
            double rss = 0; for (int i = 0; i < n; ++i) { const double r = -gradients(i); rss += (r - w*x[i] - b)*(r - w*x[i] - b); }
            best = std::min(best, rss);
        }
        if (score == wlearner_t::no_fit_score()) { ++nofit; continue; }
        // RSS reproduced by the fitted learner's predictions
        tensor4d_t outputs(n, 1, 1, 1); outputs.zero();
        wl.predict(dataset, samples, outputs.tensor());
        double prss = 0; for (int i = 0; i < n; ++i) { const double r = -gradients(i); prss += (r - outputs(i)) * (r - outputs(i)); }
        ++total;
        if (std::fabs(score - best) > 1e-6 * (1 + best) || std::fabs(prss - score) > 1e-6 * (1 + score))
        { ++bad; if (bad <= 8) std::cout << std::setprecision(10) << "c=" << c << " n=" << n << " feature=" << wl.feature() << " score=" << score << " brute=" << best << " rss(predictions)=" << prss << " w=" << wl.tables()(0) << " b=" << wl.tables()(1) << "\n"; }
    }
    std::cout << "no fit: " << nofit << "\n"; std::cout << "affine fits disagreeing with brute force or with their own predictions: " << bad << "/" << total << "\n";
}
