import P.Basic
import Mathlib.Algebra.Order.Field.Basic
import Mathlib.Tactic.Ring
import Mathlib.Tactic.Linarith
import Mathlib.Tactic.Positivity

open Nano

variable {α : Type} [Field α] [LinearOrder α] [IsStrictOrderedRing α]

/-- hinge is convex with subgradient g = if 1 - t*o > 0 then -t else 0 -/
def hingeGrad (t o : α) : α := if 1 - t * o > 0 then -t else 0

theorem hinge_nonneg (t o : α) : 0 ≤ hinge t o := by
  unfold hinge; split <;> [exact le_of_lt ‹_›; exact le_refl _]

theorem hinge_subgrad (t o z : α) : hinge t z ≥ hinge t o + hingeGrad t o * (z - o) := by
  unfold hinge hingeGrad
  split <;> split <;> nlinarith

theorem dot_comm_ (a b : List α) : dot a b = dot b a := by
  induction a generalizing b with
  | nil => cases b <;> simp [dot]
  | cons x xs ih => cases b with
    | nil => simp [dot]
    | cons y ys => simp [dot, ih ys, mul_comm]

#print axioms hinge_subgrad
