#!/usr/bin/env python3
"""probe: translate a few scalar C++ predicates of src/solver/state.cpp into Lean (throw-away)."""
import re, sys

SRC = open('/repo/src/solver/state.cpp').read()

def body_of(name):
    m = re.search(r'\b' + re.escape(name) + r'\s*\([^)]*\)\s*(?:const)?\s*\{', SRC)
    assert m, name
    i = m.end(); depth = 1
    while depth:
        c = SRC[i]
        depth += (c == '{') - (c == '}')
        i += 1
    return SRC[m.end():i-1]

TOK = re.compile(r'\s*(?:(\d+\.\d*(?:[eE][-+]?\d+)?|\d+)|([A-Za-z_][A-Za-z_0-9:]*(?:\.[A-Za-z_][A-Za-z_0-9]*)*)|(<=|>=|==|!=|&&|\|\||[-+*/()<>,!]))')

def tokenize(s):
    out = []; i = 0
    while i < len(s):
        if s[i:].strip() == '': break
        m = TOK.match(s, i)
        if not m: raise SyntaxError('cannot tokenize at: ' + s[i:i+30])
        out.append(m.group(1) and ('num', m.group(1)) or m.group(2) and ('id', m.group(2)) or ('op', m.group(3)))
        i = m.end()
    return out

class P:
    def __init__(self, toks, bind): self.t = toks; self.i = 0; self.bind = bind
    def peek(self): return self.t[self.i] if self.i < len(self.t) else ('eof', '')
    def eat(self, v=None):
        k = self.peek()
        if v is not None and k[1] != v: raise SyntaxError(f'expected {v}, got {k}')
        self.i += 1; return k
    def expr(self): return self.orx()
    def orx(self):
        a = self.andx()
        while self.peek()[1] == '||': self.eat(); a = f'({a} || {self.andx()})'
        return a
    def andx(self):
        a = self.cmp()
        while self.peek()[1] == '&&': self.eat(); a = f'({a} && {self.cmp()})'
        return a
    def cmp(self):
        a = self.add()
        if self.peek()[1] in ('<=', '>=', '<', '>'):
            op = self.eat()[1]; b = self.add()
            lean = {'<=': '≤', '>=': '≥', '<': '<', '>': '>'}[op]
            return f'decide ({a} {lean} {b})'
        return a
    def add(self):
        a = self.mul()
        while self.peek()[1] in ('+', '-'): op = self.eat()[1]; a = f'({a} {op} {self.mul()})'
        return a
    def mul(self):
        a = self.unary()
        while self.peek()[1] in ('*', '/'): op = self.eat()[1]; a = f'({a} {op} {self.unary()})'
        return a
    def unary(self):
        if self.peek()[1] == '-': self.eat(); return f'(-{self.unary()})'
        return self.primary()
    def primary(self):
        k = self.eat()
        if k[0] == 'num':
            return f'({k[1].rstrip(".")} : α)' if '.' not in k[1].rstrip('.') else f'({k[1]} : α)'
        if k[1] == '(':
            e = self.expr(); self.eat(')'); return e
        if k[0] == 'id':
            name = k[1]; args = None
            if self.peek()[1] == '(':
                self.eat('(')
                if name == 'std::fabs':
                    e = self.expr(); self.eat(')'); return f'(absv {e})'
                raw = []; depth = 1
                while True:
                    k2 = self.eat()
                    if k2[1] == '(': depth += 1
                    if k2[1] == ')':
                        depth -= 1
                        if depth == 0: break
                    raw.append(k2[1])
                args = raw
            key = name + ('(' + ''.join(args) + ')' if args is not None else '')
            if name == 'std::fabs': return f'(absv {args[0]})'
            if key in self.bind: return self.bind[key]
            raise SyntaxError('unbound symbol ' + key)
        raise SyntaxError(f'unexpected {k}')

def translate(cname, leanname, params, bind):
    body = body_of(cname)
    body = re.sub(r'assert\s*\((?:[^()]|\([^()]*\))*\)\s*;', '', body)
    m = re.search(r'return\s+(.*?);', body, re.S)
    p = P(tokenize(m.group(1)), bind); e = p.expr()
    if p.peek()[0] != 'eof': raise SyntaxError('trailing tokens')
    return f'def {leanname} ({" ".join(params)} : α) : Bool := {e}'

B = {'m_fx': 'f', 'origin.fx()': 'f0', 'origin.dg(descent)': 'dg0', 'dg(descent)': 'dg', 'step_size': 't', 'c1': 'c1', 'c2': 'c2', 'epsilon': 'eps'}
print('''namespace Gen
variable {α : Type} [Add α] [Sub α] [Mul α] [Div α] [Neg α] [LT α] [LE α] [DecidableLT α] [DecidableLE α] [∀ n, OfNat α n] [OfScientific α]
def absv (x : α) : α := if x < 0 then -x else x''')
print(translate('solver_state_t::has_armijo', 'hasArmijo', ['f0','dg0','f','t','c1'], B))
print(translate('solver_state_t::has_approx_armijo', 'hasApproxArmijo', ['f0','f','eps'], B))
print(translate('solver_state_t::has_wolfe', 'hasWolfe', ['dg0','dg','c2'], B))
print(translate('solver_state_t::has_strong_wolfe', 'hasStrongWolfe', ['dg0','dg','c2'], B))
print(translate('solver_state_t::has_approx_wolfe', 'hasApproxWolfe', ['dg0','dg','c1','c2'], B))
print('end Gen')
