#include <nano/program/solver.h>
#include <nano/program/linear.h>
#include <nano/program/quadratic.h>
#include <Eigen/Dense>
#include <iostream>
#include <random>
using namespace nano;
using namespace nano::program;

int main(int argc, char** argv)
{
    const auto logger = make_null_logger();
    std::mt19937_64 rng(argc > 1 ? std::atoi(argv[1]) : 1);
    std::uniform_real_distribution<double> U(0, 1);
    std::normal_distribution<double> N(0, 1);
    long runs = 0, conv = 0, badeq = 0, badineq = 0, badfx = 0, badopt = 0; std::map<int,long> statuses;
    for (int trial = 0; trial < 2000; ++trial)
    {
        const int n = 1 + static_cast<int>(U(rng) * 12);
        const int p = static_cast<int>(U(rng) * n);                 // 0..n-1 equalities
        const int m = 1 + static_cast<int>(U(rng) * (2 * n + 2));   // 1..2n+2 inequalities
        const bool lp = U(rng) < 0.5;
        const double scale = std::pow(10.0, -2 + 4 * U(rng));
        auto rnd = [&](int r, int c) { Eigen::MatrixXd M(r, c); for (int i = 0; i < r; ++i) for (int j = 0; j < c; ++j) M(i, j) = N(rng); return M; };
        Eigen::VectorXd xs = rnd(n, 1) * scale;
        Eigen::MatrixXd A = rnd(p, n), G = rnd(m, n);
        Eigen::VectorXd b = A * xs;
        // random active set: for LP need enough active constraints to be bounded -> make c in the cone
        Eigen::VectorXd u = Eigen::VectorXd::Zero(m), slack = Eigen::VectorXd::Zero(m);
        int nact = 0;
        for (int i = 0; i < m; ++i) { if (U(rng) < 0.5) { u(i) = 0.1 + U(rng); ++nact; } else { slack(i) = 0.1 + U(rng); } }
        Eigen::VectorXd h = G * xs + slack * scale;
        Eigen::VectorXd v = rnd(p, 1);
        Eigen::MatrixXd Q = Eigen::MatrixXd::Zero(n, n);
        if (!lp) { const int r = 1 + static_cast<int>(U(rng) * n); Eigen::MatrixXd D = rnd(r, n); Q = D.transpose() * D; }
        Eigen::VectorXd c = -Q * xs - A.transpose() * v - G.transpose() * u;
        const double fstar = 0.5 * xs.dot(Q * xs) + c.dot(xs);
        matrix_t tQ(n, n); tQ.matrix() = Q; vector_t tc(n); tc.vector() = c;
        matrix_t tA(p, n); tA.matrix() = A; vector_t tb(p); tb.vector() = b;
        matrix_t tG(m, n); tG.matrix() = G; vector_t th(m); th.vector() = h;
        auto solver = program::solver_t{};
        program::solver_state_t st;
        if (lp) { auto prog = (p > 0) ? make_linear(tc, make_equality(tA, tb), make_inequality(tG, th)) : make_linear(tc, make_inequality(tG, th)); st = solver.solve(prog, logger); }
        else    { auto prog = (p > 0) ? make_quadratic(tQ, tc, make_equality(tA, tb), make_inequality(tG, th)) : make_quadratic(tQ, tc, make_inequality(tG, th)); st = solver.solve(prog, logger); }
        ++runs; statuses[static_cast<int>(st.m_status)]++;
        if (st.m_status != solver_status::converged) continue;
        ++conv;
        const Eigen::VectorXd x = st.m_x.vector();
        const double eqdev = p > 0 ? (A * x - b).cwiseAbs().maxCoeff() : 0.0;
        const double ineqdev = (G * x - h).maxCoeff();
        const double fx = 0.5 * x.dot(Q * x) + c.dot(x);
        const double mag = std::fabs(0.5 * x.dot(Q * x)) + (c.cwiseAbs().cwiseProduct(x.cwiseAbs())).sum();
        const double M = std::max({1e-3, Q.norm(), c.norm()});
        const double bound = 1e-8 * M * (1 + (x - xs).norm() + st.m_u.vector().lpNorm<1>() + st.m_v.vector().lpNorm<1>());
        if (eqdev > 1e-6 * (1 + (p > 0 ? b.cwiseAbs().maxCoeff() : 0.0))) { if (badeq++ < 3) std::cout << "eq dev " << eqdev << " n=" << n << " p=" << p << " m=" << m << "\n"; }
        if (ineqdev > 1e-6 * (1 + h.cwiseAbs().maxCoeff())) { if (badineq++ < 3) std::cout << "ineq dev " << ineqdev << "\n"; }
        if (std::fabs(fx - st.m_fx) > 1e-6 * (1 + mag)) { if (badfx++ < 3) std::cout << "fx mismatch " << fx << " vs " << st.m_fx << "\n"; }
        if (std::fabs(fx - fstar) > bound) { if (badopt++ < 5) std::cout << (lp ? "LP" : "QP") << " n=" << n << " p=" << p << " m=" << m << " nact=" << nact << " scale=" << scale << " gap=" << fx - fstar << " bound=" << bound << " kkt=" << st.m_kkt << "\n"; }
    }
    std::cout << "runs=" << runs << " converged=" << conv << " bad_eq=" << badeq << " bad_ineq=" << badineq << " bad_fx=" << badfx << " bad_opt=" << badopt << "\n";
    for (auto [s, k] : statuses) std::cout << "  status " << s << ": " << k << "\n";
}
