/-! probe C13: tuner evaluate/local_search invariants -/
namespace TU
abbrev IGrid := List Int

/-- all offset vectors in {-1,0,1}^d, lexicographic, last coordinate fastest (combinatorial_iterator_t order) -/
def offsets : Nat → List (List Int)
  | 0 => [[]]
  | d + 1 => [(-1 : Int), 0, 1].flatMap fun o => (offsets d).map fun rest => o :: rest

def addScaled (src : IGrid) (off : List Int) (r : Int) : IGrid :=
  List.zipWith (fun s o => s + o * r) src off

def inGrid (mx : IGrid) (g : IGrid) : Bool :=
  g.length == mx.length && (List.zipWith (fun a m => decide (0 ≤ a ∧ a ≤ m)) g mx).all id

def localSearch (mx src : IGrid) (r : Int) : List IGrid :=
  ((offsets src.length).map fun off => addScaled src off r).filter (inGrid mx)

structure Step (α : Type) where
  igrid : IGrid
  value : α

/-- evaluate: drop already evaluated points, call back, append (sorting abstracted away by `sortFn`) -/
def evaluate {α : Type} (f : IGrid → α) (sortFn : List (Step α) → List (Step α))
    (igrids : List IGrid) (steps : List (Step α)) : List (Step α) × Bool :=
  let fresh := igrids.filter fun g => !(steps.any fun s => s.igrid == g)
  if fresh.isEmpty then (steps, false)
  else (sortFn (steps ++ fresh.map fun g => ⟨g, f g⟩), true)

theorem localSearch_inGrid (mx src : IGrid) (r : Int) : ∀ g ∈ localSearch mx src r, inGrid mx g = true := by
  intro g hg
  simp only [localSearch, List.mem_filter] at hg
  exact hg.2

theorem evaluate_nodup {α : Type} (f : IGrid → α) (sortFn : List (Step α) → List (Step α))
    (hsort : ∀ l, (sortFn l).Perm l) (igrids : List IGrid) (hig : igrids.Nodup)
    (steps : List (Step α)) (hnd : (steps.map (·.igrid)).Nodup) :
    ((evaluate f sortFn igrids steps).1.map (·.igrid)).Nodup := by
  simp only [evaluate]
  split
  · exact hnd
  · have hp : ((sortFn (steps ++ (igrids.filter fun g => !(steps.any fun s => s.igrid == g)).map fun g => ⟨g, f g⟩)).map (·.igrid)).Perm
        ((steps ++ (igrids.filter fun g => !(steps.any fun s => s.igrid == g)).map fun g => (⟨g, f g⟩ : Step α)).map (·.igrid)) :=
      (hsort _).map _
    rw [hp.nodup_iff]
    rw [List.map_append, List.map_map]
    have hid : ((fun (x : Step α) => x.igrid) ∘ fun g => (⟨g, f g⟩ : Step α)) = id := by
      funext g; rfl
    rw [hid, List.map_id]
    refine List.nodup_append.mpr ⟨hnd, hig.filter _, ?_⟩
    intro a ha b hb hab
    subst hab
    simp only [List.mem_filter, Bool.not_eq_eq_eq_not, Bool.not_true, List.any_eq_false, beq_iff_eq] at hb
    simp only [List.mem_map] at ha
    obtain ⟨s, hs, rfl⟩ := ha
    exact hb.2 s hs rfl
end TU
#print axioms TU.evaluate_nodup
