#include <nano/core/histogram.h>
#include <iostream>
using namespace nano;
int main()
{
    std::vector<double> data = {1.0, 2.0, 2.7, 3.0, -0.5};
    auto thr = make_tensor<scalar_t>(make_dims(2), 0.0, 2.5);
    auto h = histogram_t::make_from_thresholds(data.begin(), data.end(), thr);
    std::cout << "counts=" << h.counts().vector().transpose() << "\n";
    for (double v : {-0.5, 1.0, 2.0, 2.7, 3.0}) std::cout << "bin(" << v << ")=" << h.bin(v) << "\n";
}
