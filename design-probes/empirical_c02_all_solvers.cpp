#include <nano/solver.h>
#include <nano/function.h>
#include <iostream>
#include <random>
#include <map>
using namespace nano;

class wrap_t final : public function_t
{
public:
    explicit wrap_t(const function_t& f) : function_t("wrap", f.size()), m_f(f.clone())
    { convex(f.convex() ? convexity::yes : convexity::no); smooth(f.smooth() ? smoothness::yes : smoothness::no); strong_convexity(f.strong_convexity()); }
    wrap_t(const wrap_t& o) : function_t(o), m_f(o.m_f->clone()), m_n(o.m_n) {}
    rfunction_t clone() const override { return std::make_unique<wrap_t>(*this); }
    scalar_t do_vgrad(vector_cmap_t x, vector_map_t gx) const override { m_n += 1 + (gx.size() == x.size() ? 1 : 0); return m_f->vgrad(x, gx); }
    rfunction_t m_f; mutable long m_n{0};
};

int main(int argc, char** argv)
{
    const auto logger = make_null_logger();
    std::mt19937_64 rng(argc > 1 ? std::atoi(argv[1]) : 1);
    std::uniform_real_distribution<double> U(0, 1);
    const auto functions = function_t::make({1, 32, convexity::ignore, smoothness::ignore, 50});
    std::map<std::string, long> viol; long runs = 0;
    for (const auto& sid : solver_t::all().ids())
    {
        for (int trial = 0; trial < 60; ++trial)
        {
            const auto& fn = functions[static_cast<size_t>(U(rng) * functions.size()) % functions.size()];
            auto solver = solver_t::all().get(sid);
            const bool ls = solver->type() == solver_type::line_search;
            wrap_t f(*fn);
            const double radius = std::pow(10.0, -3 + 4 * U(rng));
            vector_t x0(f.size()); for (tensor_size_t i = 0; i < x0.size(); ++i) x0(i) = radius * (2 * U(rng) - 1);
            const double eps = std::pow(10.0, -12 + 10 * U(rng)); if (eps > 1e-1) continue;
            const int max_evals = 10 + static_cast<int>(U(rng) * 4990);
            solver->parameter("solver::epsilon") = std::min(eps, 1e-1);
            solver->parameter("solver::max_evals") = max_evals;
            vector_t g0(f.size()); const double f0 = fn->vgrad(x0, g0);
            if (!std::isfinite(f0)) continue;
            f.m_n = 0;
            const auto st = solver->minimize(f, x0, logger);
            ++runs;
            const long performed = f.m_n;
            vector_t gr(f.size()); const double fr = fn->vgrad(st.x(), gr);
            const auto tag = [&](const char* what) { auto k = sid + ":" + what; if (viol[k]++ == 0) std::cout << k << " fn=" << fn->name() << " f0=" << f0 << " fx=" << st.fx() << " fr=" << fr << " status=" << st.status() << " evals=" << performed << "/" << max_evals << " fcalls+gcalls=" << st.fcalls() + st.gcalls() << "\n"; };
            if (st.x().size() != f.size()) tag("dim");
            if (st.status() != solver_status::converged && st.status() != solver_status::max_iters && st.status() != solver_status::failed) tag("status");
            if (!(st.fx() == fr) && !(std::isnan(st.fx()) && std::isnan(fr))) tag("fx_mismatch");
            if (ls && st.status() != solver_status::failed && (st.gx().vector() - gr.vector()).lpNorm<Eigen::Infinity>() > 0) tag("gx_mismatch");
            if (st.fcalls() + st.gcalls() > performed) tag("counts_exceed");
            if (st.status() != solver_status::failed && (!std::isfinite(st.fx()) || !st.x().all_finite())) tag("nonfinite");
            const bool in_class = ls ? fn->smooth() : (sid == "rqb" ? fn->convex() : true);
            if (st.status() != solver_status::failed && in_class && std::fabs(f0) < 1e8 && g0.lpNorm<Eigen::Infinity>() < 1e8 && st.fx() > f0 + 5e-4 * (1 + std::fabs(f0))) tag("increase");
            if (performed > max_evals + 1100 + 8 * f.size()) tag("budget");
        }
    }
    std::cout << "runs=" << runs << "\n";
    for (const auto& [k, v] : viol) std::cout << "  " << k << " x" << v << "\n";
}
