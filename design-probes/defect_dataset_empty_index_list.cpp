#include <nano/dataset.h>
#include <nano/generator/elemwise_identity.h>
#include <iostream>
using namespace nano;
class my_ds_t : public datasource_t
{
public:
    my_ds_t() : datasource_t("my") {}
    rdatasource_t clone() const override { return std::make_unique<my_ds_t>(*this); }
    void do_load() override
    {
        features_t fs{feature_t{"x"}.scalar(feature_type::float64), feature_t{"y"}.scalar(feature_type::float64)};
        resize(5, fs, 1);
        for (tensor_size_t s = 0; s < 5; ++s) { set(s, 0, 10.0 + s); set(s, 1, 100.0 + s); }
    }
};
int main()
{
    my_ds_t ds; ds.load();
    dataset_t dataset(ds, 1);
    dataset.add<scalar_identity_generator_t>();
    indices_t samples(0);
    std::cout << "empty list: data=" << (const void*)samples.data() << "\n" << std::flush;
    try { tensor2d_t buf; auto f = dataset.flatten(samples, buf); std::cout << "accepted, rows=" << f.size<0>() << "\n"; }
    catch (const std::exception& e) { std::cout << "rejected: " << e.what() << "\n"; }
}
