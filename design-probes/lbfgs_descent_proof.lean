import P.Vec
import Mathlib.Algebra.Order.Field.Basic
import Mathlib.Tactic.Ring
import Mathlib.Tactic.Linarith
import Mathlib.Tactic.Positivity
open Nano
variable {α : Type} [Field α] [LinearOrder α] [IsStrictOrderedRing α]

theorem vaxpy_length (c : α) : ∀ (x y : List α), x.length = y.length → (vaxpy c x y).length = y.length
  | [], [], _ => rfl
  | _ :: xs, _ :: ys, h => by simp [vaxpy, vaxpy_length c xs ys (by simpa using h)]
  | [], _ :: _, h => by simp at h
  | _ :: _, [], h => by simp at h

theorem vdot_vaxpy_right (c : α) : ∀ (q x y : List α), q.length = x.length → x.length = y.length →
    vdot q (vaxpy c x y) = c * vdot q x + vdot q y
  | [], [], [], _, _ => by simp [vdot, vaxpy]
  | a :: q, b :: x, d :: y, h1, h2 => by
    simp only [vdot, vaxpy]
    rw [vdot_vaxpy_right c q x y (by simpa using h1) (by simpa using h2)]; ring
  | [], _ :: _, _, h, _ => by simp at h
  | _ :: _, [], _, h, _ => by simp at h
  | _, [], _ :: _, _, h => by simp at h
  | _, _ :: _, [], _, h => by simp at h

theorem vdot_vaxpy_left (c : α) : ∀ (x y r : List α), x.length = y.length → y.length = r.length →
    vdot (vaxpy c x y) r = c * vdot x r + vdot y r
  | [], [], [], _, _ => by simp [vdot, vaxpy]
  | b :: x, d :: y, a :: r, h1, h2 => by
    simp only [vdot, vaxpy]
    rw [vdot_vaxpy_left c x y r (by simpa using h1) (by simpa using h2)]; ring
  | [], _ :: _, _, h, _ => by simp at h
  | _ :: _, [], _, h, _ => by simp at h
  | _, [], _ :: _, _, h => by simp at h
  | _, _ :: _, [], _, h => by simp at h

theorem vdot_self_nonneg : ∀ (q : List α), 0 ≤ vdot q q
  | [] => by simp [vdot]
  | a :: q => by simp only [vdot]; have := vdot_self_nonneg q; nlinarith [mul_self_nonneg a]

theorem vdot_self_pos : ∀ (q : List α), (∃ a ∈ q, a ≠ 0) → 0 < vdot q q
  | [], h => by simp at h
  | a :: q, h => by
    simp only [vdot]
    have hq := vdot_self_nonneg q
    rcases h with ⟨b, hb, hne⟩
    rcases List.mem_cons.mp hb with rfl | hb'
    · have : 0 < b * b := mul_self_pos.mpr hne
      linarith
    · have := vdot_self_pos q ⟨b, hb', hne⟩
      nlinarith [mul_self_nonneg a]

theorem vscale_length (c : α) (q : List α) : (vscale c q).length = q.length := by simp [vscale]

theorem vdot_vscale_right (c : α) : ∀ (q x : List α), q.length = x.length → vdot q (vscale c x) = c * vdot q x
  | [], [], _ => by simp [vdot, vscale]
  | a :: q, b :: x, h => by
    have := vdot_vscale_right c q x (by simpa using h)
    simp only [vscale, List.map, vdot] at this ⊢
    rw [this]; ring
  | [], _ :: _, h => by simp at h
  | _ :: _, [], h => by simp at h

def HistOK (n : Nat) (h : List (List α × List α)) : Prop :=
  ∀ p ∈ h, p.1.length = n ∧ p.2.length = n ∧ 0 < vdot p.1 p.2

theorem hrec_length (gamma : α) (n : Nat) : ∀ (h : List (List α × List α)) (q : List α),
    HistOK n h → q.length = n → (hrec gamma h q).length = n
  | [], q, _, hq => by simp [hrec, vscale_length, hq]
  | (s, y) :: older, q, hok, hq => by
    have hp := hok (s, y) (by simp)
    have hold : HistOK n older := fun p hp' => hok p (by simp [hp'])
    simp only [hrec]
    have hq' : (vaxpy (-(1 / vdot s y * vdot s q)) y q).length = n := by
      rw [vaxpy_length _ _ _ (by rw [hp.2.1, hq]), hq]
    have hr := hrec_length gamma n older _ hold hq'
    rw [vaxpy_length _ _ _ (by rw [hp.1, hr]), hr]

/-- the quadratic form of the L-BFGS operator is positive: the two-loop direction is a descent direction -/
theorem hrec_pos (gamma : α) (hg : 0 < gamma) (n : Nat) : ∀ (h : List (List α × List α)) (q : List α),
    HistOK n h → q.length = n → (∃ a ∈ q, a ≠ 0) → 0 < vdot q (hrec gamma h q)
  | [], q, _, hq, hne => by
    simp only [hrec]
    rw [vdot_vscale_right gamma q q rfl]
    exact mul_pos hg (vdot_self_pos q hne)
  | (s, y) :: older, q, hok, hq, hne => by
    have hp := hok (s, y) (by simp)
    obtain ⟨hs, hy, hsy⟩ := hp
    have hold : HistOK n older := fun p hp' => hok p (by simp [hp'])
    simp only [hrec]
    set rho := 1 / vdot s y with hrho
    have hrho_pos : 0 < rho := by positivity
    set a := rho * vdot s q with ha
    set q' := vaxpy (-a) y q with hq'def
    have hq'len : q'.length = n := by rw [hq'def, vaxpy_length _ _ _ (by rw [hy, hq]), hq]
    set r := hrec gamma older q' with hr
    have hrlen : r.length = n := hrec_length gamma n older q' hold hq'len
    rw [vdot_vaxpy_right _ q s r (by rw [hq, hs]) (by rw [hs, hrlen])]
    -- ⟨q, r⟩ = ⟨q', r⟩ + a ⟨y, r⟩
    have h1 : vdot q' r = -a * vdot y r + vdot q r := by
      rw [hq'def, vdot_vaxpy_left _ y q r (by rw [hy, hq]) (by rw [hq, hrlen])]
    have hsym : ∀ (u v : List α), vdot u v = vdot v u := by
      intro u; induction u with
      | nil => intro v; cases v <;> simp [vdot]
      | cons b u ih => intro v; cases v with
        | nil => simp [vdot]
        | cons c v => simp [vdot, ih v, mul_comm]
    have hzero : ∀ (u v : List α), (¬ ∃ b ∈ u, b ≠ 0) → vdot u v = 0 := by
      intro u
      induction u with
      | nil => intro v _; cases v <;> simp [vdot]
      | cons b u ih =>
        intro v h; cases v with
        | nil => simp [vdot]
        | cons c v =>
          simp only [vdot]
          have hb : b = 0 := by
            by_contra hb; exact h ⟨b, by simp, hb⟩
          rw [hb, zero_mul, zero_add]
          exact ih v (fun ⟨d, hd, hd0⟩ => h ⟨d, by simp [hd], hd0⟩)
    rw [hsym q s]
    have hid : (a - rho * vdot y r) * vdot s q + vdot q r = vdot q' r + rho * (vdot s q * vdot s q) := by
      rw [h1, ha]; ring
    rw [hid]
    have hnn : 0 ≤ vdot q' r := by
      by_cases hz : ∃ b ∈ q', b ≠ 0
      · exact le_of_lt (hrec_pos gamma hg n older q' hold hq'len hz)
      · rw [hzero q' r hz]
    by_cases hsq : vdot s q = 0
    · have ha0 : a = 0 := by rw [ha, hsq, mul_zero]
      have hq'q : q' = q := by
        rw [hq'def, ha0]
        have : ∀ (y q : List α), y.length = q.length → vaxpy (0:α) y q = q := by
          intro y
          induction y with
          | nil => intro q h; cases q <;> simp_all [vaxpy]
          | cons b y ih => intro q h; cases q with
            | nil => simp at h
            | cons c q => simp [vaxpy, ih q (by simpa using h)]
        rw [neg_zero]
        exact this y q (by rw [hy, hq])
      have hpos : 0 < vdot q' r := hrec_pos gamma hg n older q' hold hq'len (by rw [hq'q]; exact hne)
      rw [hsq, mul_zero, mul_zero, add_zero]; exact hpos
    · have hsq2 : 0 < vdot s q * vdot s q := mul_self_pos.mpr hsq
      have : 0 < rho * (vdot s q * vdot s q) := mul_pos hrho_pos hsq2
      linarith
termination_by h => h.length
#print axioms hrec_pos
