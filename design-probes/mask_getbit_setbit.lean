/-! probe C08: bit mask get/set (mask.h:31-44), bytes as Nat -/
namespace MK
def bitOf (sample : Nat) : Nat := 1 <<< (7 - sample % 8)

def setbit (m : List Nat) (sample : Nat) : List Nat :=
  m.set (sample / 8) (m.getD (sample / 8) 0 ||| bitOf sample)

def getbit (m : List Nat) (sample : Nat) : Bool :=
  (m.getD (sample / 8) 0 &&& bitOf sample) != 0

theorem and_bitOf_ne_zero (x s : Nat) : ((x &&& bitOf s) != 0) = x.testBit (7 - s % 8) := by
  unfold bitOf
  rw [Nat.one_shiftLeft]
  cases h : x.testBit (7 - s % 8)
  · have : x &&& 2 ^ (7 - s % 8) = 0 := by
      apply Nat.eq_of_testBit_eq
      intro i
      rw [Nat.testBit_and, Nat.testBit_two_pow]
      by_cases hi : 7 - s % 8 = i
      · subst hi; simp [h]
      · simp [hi]
    simp [this]
  · have : (x &&& 2 ^ (7 - s % 8)).testBit (7 - s % 8) = true := by
      rw [Nat.testBit_and, Nat.testBit_two_pow]; simp [h]
    have hne : x &&& 2 ^ (7 - s % 8) ≠ 0 := by
      intro h0; rw [h0] at this; simp at this
    simp [hne]

theorem getbit_setbit (m : List Nat) (s s' : Nat) (hs : s / 8 < m.length) :
    getbit (setbit m s) s' = (decide (s = s') || getbit m s') := by
  unfold getbit setbit
  rw [and_bitOf_ne_zero, and_bitOf_ne_zero]
  by_cases hb : s' / 8 = s / 8
  · rw [hb]
    rw [List.getD_eq_getElem?_getD, List.getElem?_set_self hs]
    simp only [Option.getD_some]
    rw [Nat.testBit_or]
    unfold bitOf
    rw [Nat.one_shiftLeft, Nat.testBit_two_pow]
    by_cases hss : s = s'
    · subst hss; simp
    · have : ¬ (7 - s % 8 = 7 - s' % 8) := by omega
      simp [hss, this, List.getD_eq_getElem?_getD]
  · have hne : s ≠ s' := by intro h; subst h; exact hb rfl
    rw [List.getD_eq_getElem?_getD, List.getElem?_set_ne (by omega)]
    simp [hne, List.getD_eq_getElem?_getD]
end MK
#print axioms MK.getbit_setbit
