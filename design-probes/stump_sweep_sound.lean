import Mathlib.Algebra.Order.Field.Basic
import Mathlib.Tactic.Ring
import Mathlib.Tactic.Linarith
variable {α : Type} [Field α] [LinearOrder α] [IsStrictOrderedRing α]

/-- moments (count, sum, sum of squares) of the residuals of a list of (value, residual) pairs -/
def momP : List (α × α) → α × α × α
  | [] => (0, 0, 0)
  | p :: ps => let (n, s, q) := momP ps; (n + 1, s + p.2, q + p.2 * p.2)

def madd (a b : α × α × α) : α × α × α := (a.1 + b.1, a.2.1 + b.2.1, a.2.2 + b.2.2)
def msub (a b : α × α × α) : α × α × α := (a.1 - b.1, a.2.1 - b.2.1, a.2.2 - b.2.2)

theorem momP_append (a b : List (α × α)) : momP (a ++ b) = madd (momP a) (momP b) := by
  induction a with
  | nil => simp [momP, madd]
  | cons p ps ih =>
    simp only [List.cons_append, momP, ih, madd]
    refine Prod.ext ?_ (Prod.ext ?_ ?_) <;> simp <;> ring

/-- the stump sweep (`stump.cpp:128-160`): running moments `neg` of the processed prefix; a candidate
    (threshold, moments of the left side) is emitted between two consecutive *distinct* values -/
def sweep (neg : α × α × α) : List (α × α) → List (α × (α × α × α))
  | p1 :: p2 :: rest =>
    let neg' := madd neg (momP [p1])
    let tail := sweep neg' (p2 :: rest)
    if p1.1 < p2.1 then ((p1.1 + p2.1) / 2, neg') :: tail else tail
  | _ => []

/-- brute force: for a threshold t the left side is everything with value < t -/
def leftOf (t : α) (all : List (α × α)) : List (α × α) := all.filter fun p => decide (p.1 < t)

theorem filter_lt_of_sorted_split (pre post : List (α × α)) (t : α)
    (hpre : ∀ p ∈ pre, p.1 < t) (hpost : ∀ p ∈ post, ¬ p.1 < t) :
    leftOf t (pre ++ post) = pre := by
  unfold leftOf
  rw [List.filter_append]
  have h1 : pre.filter (fun p => decide (p.1 < t)) = pre := by
    apply List.filter_eq_self.mpr
    intro p hp; simp [hpre p hp]
  have h2 : post.filter (fun p => decide (p.1 < t)) = [] := by
    apply List.filter_eq_nil_iff.mpr
    intro p hp; simp [hpost p hp]
  rw [h1, h2, List.append_nil]

/-- every candidate emitted by the sweep carries exactly the moments of the brute-force left side -/
theorem sweep_sound (pre : List (α × α)) : ∀ (post : List (α × α)),
    (pre ++ post).Pairwise (fun a b => a.1 ≤ b.1) →
    ∀ c ∈ sweep (momP pre) post, c.2 = momP (leftOf c.1 (pre ++ post)) := by
  intro post
  induction post generalizing pre with
  | nil => intro _ c hc; simp [sweep] at hc
  | cons p1 rest ih =>
    intro hsorted c hc
    cases rest with
    | nil => simp [sweep] at hc
    | cons p2 rest =>
      simp only [sweep] at hc
      have hneg : madd (momP pre) (momP [p1]) = momP (pre ++ [p1]) := (momP_append pre [p1]).symm
      have hsorted' : ((pre ++ [p1]) ++ (p2 :: rest)).Pairwise (fun a b => a.1 ≤ b.1) := by
        simpa [List.append_assoc] using hsorted
      have htail : ∀ c ∈ sweep (momP (pre ++ [p1])) (p2 :: rest),
          c.2 = momP (leftOf c.1 (pre ++ p1 :: p2 :: rest)) := by
        intro c hc'
        have := ih (pre ++ [p1]) hsorted' c hc'
        simpa [List.append_assoc] using this
      rw [hneg] at hc
      split at hc
      · rename_i hlt
        rcases List.mem_cons.mp hc with rfl | hc'
        · -- the new candidate: threshold strictly between p1 and p2
          simp only
          have hmid1 : p1.1 < (p1.1 + p2.1) / 2 := by linarith
          have hmid2 : (p1.1 + p2.1) / 2 < p2.1 := by linarith
          have hsplit : pre ++ p1 :: p2 :: rest = (pre ++ [p1]) ++ (p2 :: rest) := by simp
          rw [hsplit, filter_lt_of_sorted_split]
          · intro p hp
            rcases List.mem_append.mp hp with hp | hp
            · -- p ∈ pre, p ≤ p1
              have hle : p.1 ≤ p1.1 := by
                have := List.pairwise_append.mp hsorted
                exact this.2.2 p hp p1 (by simp)
              linarith
            · simp at hp; subst hp; exact hmid1
          · intro p hp
            have hge : p2.1 ≤ p.1 := by
              rcases List.mem_cons.mp hp with rfl | hp
              · exact le_refl _
              · have h1 := (List.pairwise_append.mp hsorted).2.1
                have h2 := (List.pairwise_cons.mp h1).2
                exact (List.pairwise_cons.mp h2).1 p hp
            exact not_lt.mpr (le_trans (le_of_lt hmid2) hge)
        · exact htail c hc'
      · exact htail c hc
#print axioms sweep_sound
