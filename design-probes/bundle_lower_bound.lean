import P.Vec
import Mathlib.Algebra.Order.Field.Basic
import Mathlib.Tactic.Ring
import Mathlib.Tactic.Linarith
open Nano
variable {α : Type} [Field α] [LinearOrder α] [IsStrictOrderedRing α]

def vsub : List α → List α → List α
  | a :: as, b :: bs => (a - b) :: vsub as bs
  | _, _ => []

theorem vdot_vsub_split : ∀ (s z y x : List α), s.length = z.length → z.length = y.length → y.length = x.length →
    vdot s (vsub z x) = vdot s (vsub z y) + vdot s (vsub y x)
  | [], [], [], [], _, _, _ => by simp [vdot, vsub]
  | a :: s, b :: z, c :: y, d :: x, h1, h2, h3 => by
    simp only [vdot, vsub]
    rw [vdot_vsub_split s z y x (by simpa using h1) (by simpa using h2) (by simpa using h3)]; ring
  | [], _ :: _, _, _, h, _, _ => by simp at h
  | _ :: _, [], _, _, h, _, _ => by simp at h
  | _, [], _ :: _, _, _, h, _ => by simp at h
  | _, _ :: _, [], _, _, h, _ => by simp at h
  | _, _, [], _ :: _, _, _, h => by simp at h
  | _, _, _ :: _, [], _, _, h => by simp at h

theorem vdot_vsub_anti : ∀ (s x y : List α), s.length = x.length → x.length = y.length →
    vdot s (vsub x y) = - vdot s (vsub y x)
  | [], [], [], _, _ => by simp [vdot, vsub]
  | a :: s, b :: x, c :: y, h1, h2 => by
    simp only [vdot, vsub]
    rw [vdot_vsub_anti s x y (by simpa using h1) (by simpa using h2)]; ring
  | [], _ :: _, _, h, _ => by simp at h
  | _ :: _, [], _, h, _ => by simp at h
  | _, [], _ :: _, _, h => by simp at h
  | _, _ :: _, [], _, h => by simp at h

theorem vdot_vaxpy_left2 (c : α) : ∀ (x y r : List α), x.length = y.length → y.length = r.length →
    vdot (vaxpy c x y) r = c * vdot x r + vdot y r
  | [], [], [], _, _ => by simp [vdot, vaxpy]
  | b :: x, d :: y, a :: r, h1, h2 => by
    simp only [vdot, vaxpy]
    rw [vdot_vaxpy_left2 c x y r (by simpa using h1) (by simpa using h2)]; ring
  | [], _ :: _, _, h, _ => by simp at h
  | _ :: _, [], _, h, _ => by simp at h
  | _, [], _ :: _, _, h => by simp at h
  | _, _ :: _, [], _, h => by simp at h

theorem vdot_vscale_left (c : α) : ∀ (x r : List α), x.length = r.length → vdot (vscale c x) r = c * vdot x r
  | [], [], _ => by simp [vdot, vscale]
  | b :: x, a :: r, h => by
    have := vdot_vscale_left c x r (by simpa using h)
    simp only [vscale, List.map, vdot] at this ⊢
    rw [this]; ring
  | [], _ :: _, h => by simp at h
  | _ :: _, [], h => by simp at h

theorem vsub_length : ∀ (z x : List α), z.length = x.length → (vsub z x).length = x.length
  | [], [], _ => rfl
  | _ :: z, _ :: x, h => by simp [vsub, vsub_length z x (by simpa using h)]
  | [], _ :: _, h => by simp at h
  | _ :: _, [], h => by simp at h

/-- a bundle pair (s, e) is a valid cutting plane of f relative to the centre x -/
def LB (n : Nat) (f : List α → α) (x : List α) (s : List α) (e : α) : Prop :=
  ∀ z : List α, z.length = n → f x + vdot s (vsub z x) - e ≤ f z

/-- sub-gradient inequality at y -/
def SubGrad (n : Nat) (f : List α → α) (y gy : List α) : Prop :=
  ∀ z : List α, z.length = n → f y + vdot gy (vsub z y) ≤ f z

/-- null step (`bundle_t::append`, serious_step = false): e = fx − (fy + gy·(x − y)) -/
theorem null_step_valid (n : Nat) (f : List α → α) (x y gy : List α) (hx : x.length = n) (hy : y.length = n)
    (hg : gy.length = n) (hsub : SubGrad n f y gy) :
    LB n f x gy (f x - (f y + vdot gy (vsub x y))) := by
  intro z hz
  have h1 := hsub z hz
  have h2 := vdot_vsub_split gy z x y (by rw [hg, hz]) (by rw [hz, hx]) (by rw [hx, hy])
  -- gy·(z−y) = gy·(z−x) + gy·(x−y)
  linarith

/-- serious step (`moveto`): every stored pair stays valid for the new centre y with
    e' = e + f y − f x − s·(y − x) -/
theorem serious_step_valid (n : Nat) (f : List α → α) (x y s : List α) (e : α) (hx : x.length = n) (hy : y.length = n)
    (hs : s.length = n) (hlb : LB n f x s e) :
    LB n f y s (e + f y - f x - vdot s (vsub y x)) := by
  intro z hz
  have h1 := hlb z hz
  have h2 := vdot_vsub_split s z y x (by rw [hs, hz]) (by rw [hz, hy]) (by rw [hy, hx])
  linarith

/-- the new pair of a serious step: (gy, 0) -/
theorem serious_new_pair_valid (n : Nat) (f : List α → α) (y gy : List α) (hsub : SubGrad n f y gy) :
    LB n f y gy 0 := by
  intro z hz
  have := hsub z hz
  linarith

/-- aggregation: a convex combination of two valid pairs is valid -/
theorem aggregate_valid (n : Nat) (f : List α → α) (x s1 s2 : List α) (e1 e2 a : α) (ha0 : 0 ≤ a) (ha1 : a ≤ 1)
    (hs1 : s1.length = n) (hs2 : s2.length = n)
    (hx : x.length = n) (h1 : LB n f x s1 e1) (h2 : LB n f x s2 e2) :
    LB n f x (vaxpy a s1 (vscale (1 - a) s2)) (a * e1 + (1 - a) * e2) := by
  intro z hz
  have k1 := h1 z hz
  have k2 := h2 z hz
  have hlin : ∀ (d : List α), d.length = n →
      vdot (vaxpy a s1 (vscale (1 - a) s2)) d = a * vdot s1 d + (1 - a) * vdot s2 d := by
    intro d hd
    have hsc : (vscale (1 - a) s2).length = n := by simp [vscale, hs2]
    rw [vdot_vaxpy_left2 a s1 (vscale (1 - a) s2) d (by rw [hs1, hsc]) (by rw [hsc, hd])]
    rw [vdot_vscale_left (1 - a) s2 d (by rw [hs2, hd])]
  rw [hlin (vsub z x) (by rw [vsub_length z x (by rw [hz, hx]), hx])]
  have ha' : 0 ≤ 1 - a := by linarith
  nlinarith [mul_le_mul_of_nonneg_left k1 ha0, mul_le_mul_of_nonneg_left k2 ha']

/-- the certificate of the stopping test: a valid pair with small error and small slope bounds the gap,
    stated with the Hölder pairing |s·d| ≤ S·D supplied as a hypothesis (S = ‖s‖, D = ‖z − x‖) -/
theorem stop_certificate (n : Nat) (f : List α → α) (x s : List α) (e tol S D : α) (z : List α) (hz : z.length = n)
    (hlb : LB n f x s e) (he : e ≤ tol) (hS : S ≤ tol) (hD : 0 ≤ D) (hcs : - (S * D) ≤ vdot s (vsub z x)) (htol : 0 ≤ tol) :
    f x - f z ≤ tol * (1 + D) := by
  have := hlb z hz
  have h2 : S * D ≤ tol * D := mul_le_mul_of_nonneg_right hS hD
  nlinarith
#print axioms aggregate_valid
#print axioms stop_certificate
