namespace Nano
class Transc (α : Type) where
  exp : α → α
  log : α → α
  sqrt : α → α
instance : Transc Float := ⟨Float.exp, Float.log, Float.sqrt⟩

section
variable {α : Type} [Add α] [Sub α] [Mul α] [Div α] [Neg α] [LT α] [LE α]
  [DecidableLT α] [DecidableLE α] [∀ n, OfNat α n] [Transc α]
def expLoss (t o : α) : α := Transc.exp (-t * o)
def expLossGrad (t o : α) : α := -t * Transc.exp (-t * o)
def softplus (x : α) : α := Transc.log (1 + Transc.exp x)
end
end Nano
