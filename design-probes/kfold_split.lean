/-! probe C12: k-fold splitting given the shuffled permutation -/
namespace KF

def sortI (l : List Int) : List Int := l.mergeSort (fun a b => decide (a ≤ b))

/-- fold `f` of `folds`: validation = perm[f*chunk, end_f), train = the rest; both sorted -/
def foldSplit (perm : List Int) (folds f : Nat) : List Int × List Int :=
  let n := perm.length
  let chunk := n / folds
  let b := f * chunk
  let e := if f + 1 < folds then b + chunk else n
  let valid := (perm.drop b).take (e - b)
  let train := perm.take b ++ perm.drop e
  (sortI train, sortI valid)

def kfold (perm : List Int) (folds : Nat) : List (List Int × List Int) :=
  (List.range folds).map (foldSplit perm folds)

theorem sortI_perm (l : List Int) : (sortI l).Perm l := List.mergeSort_perm l _

theorem sortI_sorted (l : List Int) : (sortI l).Pairwise (· ≤ ·) := by
  have := List.pairwise_mergeSort (le := fun a b : Int => decide (a ≤ b))
    (by intro a b c; simp; exact Int.le_trans) (by intro a b; simp; exact Int.le_total a b) l
  simpa [sortI] using this

theorem take_drop_split (l : List Int) (b e : Nat) (hbe : b ≤ e) :
    (l.take b ++ ((l.drop b).take (e - b) ++ l.drop e)) = l := by
  have h1 : l.drop e = (l.drop b).drop (e - b) := by
    rw [List.drop_drop]; congr 1; omega
  rw [h1, List.take_append_drop, List.take_append_drop]

theorem split_perm (perm : List Int) (b e : Nat) (hbe : b ≤ e) :
    (sortI (perm.take b ++ perm.drop e) ++ sortI ((perm.drop b).take (e - b))).Perm perm := by
  have hsplit := take_drop_split perm b e hbe
  refine List.Perm.trans (List.Perm.append (sortI_perm _) (sortI_perm _)) ?_
  have : (perm.take b ++ perm.drop e ++ (perm.drop b).take (e - b)).Perm
         (perm.take b ++ ((perm.drop b).take (e - b) ++ perm.drop e)) := by
    rw [List.append_assoc]
    exact List.Perm.append_left _ List.perm_append_comm
  rw [hsplit] at this
  exact this

theorem fold_bounds (n folds f : Nat) (hf : f < folds) :
    f * (n / folds) ≤ (if f + 1 < folds then f * (n / folds) + n / folds else n) := by
  split
  · exact Nat.le_add_right _ _
  · have h1 : f * (n / folds) ≤ folds * (n / folds) := Nat.mul_le_mul_right _ (Nat.le_of_lt hf)
    have h2 : folds * (n / folds) ≤ n := by rw [Nat.mul_comm]; exact Nat.div_mul_le_self n folds
    omega

theorem foldSplit_perm (perm : List Int) (folds f : Nat) (hf : f < folds) :
    ((foldSplit perm folds f).1 ++ (foldSplit perm folds f).2).Perm perm := by
  simp only [foldSplit]
  exact split_perm perm _ _ (fold_bounds perm.length folds f hf)

theorem foldSplit_disjoint (perm : List Int) (hnd : perm.Nodup) (folds f : Nat) (hf : f < folds) :
    ∀ x, x ∈ (foldSplit perm folds f).1 → x ∈ (foldSplit perm folds f).2 → False := by
  intro x h1 h2
  have hp := foldSplit_perm perm folds f hf
  have hnd' : ((foldSplit perm folds f).1 ++ (foldSplit perm folds f).2).Nodup := hp.nodup_iff.mpr hnd
  exact (List.nodup_append.mp hnd').2.2 x h1 x h2 rfl
end KF
#print axioms KF.foldSplit_disjoint
