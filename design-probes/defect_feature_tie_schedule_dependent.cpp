#include <nano/dataset.h>
#include <nano/generator/elemwise_identity.h>
#include <nano/wlearner/stump.h>
#include <iostream>
#include <map>
#include <random>
using namespace nano;
class ds_t : public datasource_t
{
public:
    ds_t() : datasource_t("my") {}
    rdatasource_t clone() const override { return std::make_unique<ds_t>(*this); }
    void do_load() override
    {
        features_t fs;
        for (int f = 0; f < 8; ++f) fs.push_back(feature_t{"x" + std::to_string(f)}.scalar(feature_type::float64));
        fs.push_back(feature_t{"y"}.scalar(feature_type::float64));
        resize(40, fs, 8);
        std::mt19937_64 rng(5); std::normal_distribution<double> N(0, 1);
        for (tensor_size_t s = 0; s < 40; ++s)
        {
            const double a = N(rng);
            for (int f = 0; f < 8; ++f) set(s, f, (f % 2 == 0) ? a : N(rng));   // features 0,2,4,6 are identical copies
            set(s, 8, 1.0 * s);
        }
    }
};
int main()
{
    ds_t ds; ds.load();
    std::mt19937_64 rng(9); std::normal_distribution<double> N(0, 1);
    tensor4d_t gradients(40, 1, 1, 1);
    // make the duplicated feature informative so that it wins: residual correlates with feature 0
    for (int i = 0; i < 40; ++i) gradients(i) = N(rng);
    for (size_t threads : {1U, 2U, 4U, 8U, 16U})
    {
        dataset_t dataset(ds, threads);
        dataset.add<scalar_identity_generator_t>();
        // overwrite gradients with -sign(feature0) on first use
        if (threads == 1U) { scalar_mem_t buf; const auto v = dataset.select(arange(0, 40), 0, buf); for (int i = 0; i < 40; ++i) gradients(i) = (v(i) < 0 ? 1.0 : -1.0) + 0.01 * N(rng); }
        std::map<tensor_size_t, int> chosen;
        for (int rep = 0; rep < 300; ++rep)
        {
            auto wl = stump_wlearner_t{};
            wl.fit(dataset, arange(0, 40), gradients);
            chosen[wl.feature()]++;
        }
        std::cout << "threads=" << dataset.concurrency() << ":";
        for (auto [f, k] : chosen) std::cout << " feature " << f << " x" << k;
        std::cout << "\n";
    }
}
