namespace Nano
section
variable {α : Type} [Add α] [Sub α] [Mul α] [Div α] [Neg α] [LT α] [LE α]
  [DecidableLT α] [DecidableLE α] [∀ n, OfNat α n]
def vdot : List α → List α → α
  | a :: as, b :: bs => a * b + vdot as bs
  | _, _ => 0
def vaxpy (c : α) : List α → List α → List α   -- c*x + y
  | x :: xs, y :: ys => (c * x + y) :: vaxpy c xs ys
  | _, _ => []
def vscale (c : α) (x : List α) : List α := x.map (c * ·)

/-- L-BFGS two-loop recursion, history newest-first: list of (s, y) -/
def hrec (gamma : α) : List (List α × List α) → List α → List α
  | [], q => vscale gamma q
  | (s, y) :: older, q =>
    let rho := 1 / vdot s y
    let a := rho * vdot s q
    let q' := vaxpy (-a) y q
    let r := hrec gamma older q'
    let b := rho * vdot y r
    vaxpy (a - b) s r
end
end Nano
