def cubic (ut uf ug vt vf vg : Float) : Float :=
  let d1 := ug + vg - 3.0 * (uf - vf) / (ut - vt)
  let d2 := (if vt > ut then 1.0 else -1.0) * Float.sqrt (d1 * d1 - ug * vg)
  vt - (vt - ut) * (vg + d2 - d1) / (vg - ug + 2.0 * d2)
def hexToU64 (s : String) : UInt64 := s.foldl (fun acc c =>
  acc * 16 + (if c.isDigit then c.toNat - '0'.toNat else c.toNat - 'a'.toNat + 10).toUInt64) 0
def main : IO Unit := do
  let txt ← IO.FS.readFile "fp.txt"
  let mut bad := 0; let mut badE := 0; let mut badL := 0; let mut n := 0
  for line in txt.splitOn "\n" do
    let ws := (line.splitOn " ").filter (· ≠ "")
    if ws.length = 9 then
      let v := ws.map (fun w => Float.ofBits (hexToU64 w))
      let c := cubic v[0]! v[1]! v[2]! v[3]! v[4]! v[5]!
      n := n + 1
      if c.toBits ≠ v[6]!.toBits && !(c.isNaN && v[6]!.isNaN) then bad := bad + 1
      if (Float.exp v[1]!).toBits ≠ v[7]!.toBits then badE := badE + 1
      if (Float.log (Float.abs v[4]! + 1e-3)).toBits ≠ v[8]!.toBits then badL := badL + 1
  IO.println s!"n={n} cubic_mismatch={bad} exp_mismatch={badE} log_mismatch={badL}"
