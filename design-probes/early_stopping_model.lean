/-! probe C11: early-stopping monitor as generated from the four-way if-chain, and its invariants -/
namespace ES
variable {α : Type} [Add α] [Sub α] [LT α] [DecidableLT α]

structure St (α : Type) where
  round : Nat
  best : α
  snap : Nat        -- index of the call whose per-sample values are stored
deriving Repr

structure Obs (α : Type) where
  train : α
  valid : α
  n : Nat           -- wlearners.size() at the call

/-- `early_stopping_t::done` (src/gboost/early_stopping.cpp:13-50); k = index of this call -/
def done (eps : α) (patience : Nat) (hasValid : Bool) (s : St α) (k : Nat) (o : Obs α) : St α × Bool :=
  if o.train < eps then ({ round := o.n, best := o.valid, snap := k }, true)
  else if o.valid < s.best - eps ∨ hasValid = false then ({ round := o.n, best := o.valid, snap := k }, false)
  else if o.n < s.round + patience then (s, false)
  else (s, true)

/-- run over a history until the first `true` -/
def run (eps : α) (patience : Nat) (hasValid : Bool) : St α → Nat → List (Obs α) → St α × Option Nat
  | s, _, [] => (s, none)
  | s, k, o :: os =>
    let (s', stop) := done eps patience hasValid s k o
    if stop then (s', some k) else run eps patience hasValid s' (k + 1) os

/-- stop condition, read off the definition but stated without the state update: -/
theorem done_stop_iff (eps : α) (patience : Nat) (hasValid : Bool) (s : St α) (k : Nat) (o : Obs α) :
    (done eps patience hasValid s k o).2 = true ↔
      (o.train < eps ∨ (¬ (o.valid < s.best - eps ∨ hasValid = false) ∧ ¬ o.n < s.round + patience)) := by
  unfold done
  split
  · simp [*]
  · split
    · simp [*]
    · split <;> simp [*]

/-- the state changes only on acceptance, and then records exactly this call -/
theorem done_state (eps : α) (patience : Nat) (hasValid : Bool) (s : St α) (k : Nat) (o : Obs α) :
    (done eps patience hasValid s k o).1 = s ∨
    ((done eps patience hasValid s k o).1 = { round := o.n, best := o.valid, snap := k } ∧
      (o.train < eps ∨ o.valid < s.best - eps ∨ hasValid = false)) := by
  unfold done
  split
  · right; exact ⟨rfl, Or.inl ‹_›⟩
  · split
    · rename_i h; right; exact ⟨rfl, Or.inr h⟩
    · split <;> exact Or.inl rfl

/-- without validation samples the monitor never stops for lack of improvement -/
theorem no_valid_never_patience_stops (eps : α) (patience : Nat) (s : St α) (k : Nat) (o : Obs α)
    (h : (done eps patience false s k o).2 = true) : o.train < eps := by
  rcases (done_stop_iff eps patience false s k o).mp h with h1 | ⟨h2, _⟩
  · exact h1
  · exact absurd (Or.inr rfl) h2
end ES
#print axioms ES.done_stop_iff
