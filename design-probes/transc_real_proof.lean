import P.Trans
import Mathlib.Analysis.SpecialFunctions.Log.Basic
import Mathlib.Analysis.SpecialFunctions.Sqrt
import Mathlib.Tactic.Linarith
open Nano
noncomputable instance : Transc ℝ := ⟨Real.exp, Real.log, Real.sqrt⟩

theorem expLoss_subgrad (t o z : ℝ) : expLoss t z ≥ expLoss t o + expLossGrad t o * (z - o) := by
  unfold expLoss expLossGrad
  show Real.exp (-t * z) ≥ Real.exp (-t * o) + -t * Real.exp (-t * o) * (z - o)
  have h : -t * z = -t * o + (-t * (z - o)) := by ring
  rw [h, Real.exp_add]
  have h2 := Real.add_one_le_exp (-t * (z - o))
  have h3 : 0 < Real.exp (-t * o) := Real.exp_pos _
  nlinarith
#print axioms expLoss_subgrad
