#include <nano/dataset.h>
#include <nano/dataset/stats.h>
#include <nano/generator/elemwise_identity.h>
#include <iostream>
#include <iomanip>
using namespace nano;
class ds_t : public datasource_t
{
public:
    ds_t(std::vector<double> v) : datasource_t("my"), m_v(std::move(v)) {}
    rdatasource_t clone() const override { return std::make_unique<ds_t>(*this); }
    void do_load() override
    {
        features_t fs{feature_t{"x"}.scalar(feature_type::float64), feature_t{"y"}.scalar(feature_type::float64)};
        resize(static_cast<tensor_size_t>(m_v.size()), fs, 1);
        for (size_t s = 0; s < m_v.size(); ++s) { set(s, 0, m_v[s]); set(s, 1, 1.0 * s); }
    }
    std::vector<double> m_v;
};
int main()
{
    int bad = 0, total = 0;
    for (double c : {0.1, 0.3, 1e6 + 0.1, 123.456, 1e-6 * 7, 0.7, 2.2, 1e3 + 1e-3})
    for (int n : {2, 3, 5, 7, 10, 33, 100, 300})
    {
        std::vector<double> v(n, c);
        ds_t ds(v); ds.load();
        dataset_t dataset(ds, 1);
        dataset.add<scalar_identity_generator_t>();
        const auto samples = arange(0, n);
        const auto stats = scalar_stats_t::make_flatten_stats(dataset, samples);
        tensor2d_t values(n, 1); values.full(c);
        stats.scale(scaling_type::standard, values.tensor());
        stats.upscale(scaling_type::standard, values.tensor());
        ++total;
        if (!(std::fabs(values(0, 0) - c) <= 1e-9 * std::fabs(c)))
        { ++bad; if (bad <= 6) std::cout << std::setprecision(17) << "c=" << c << " n=" << n << " stdev=" << stats.m_stdev(0) << " div=" << stats.m_div_stdev(0) << " mul=" << stats.m_mul_stdev(0) << " roundtrip=" << values(0,0) << "\n"; }
    }
    std::cout << "constant columns with broken standard scaling round trip: " << bad << "/" << total << "\n";
}
