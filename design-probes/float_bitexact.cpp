#include <cmath>
#include <cstdio>
#include <cstring>
#include <cstdint>
#include <random>
struct step { double t, f, g; };
static double cubic(step u, step v){
    const auto d1 = u.g + v.g - 3.0 * (u.f - v.f) / (u.t - v.t);
    const auto d2 = (v.t > u.t ? +1.0 : -1.0) * std::sqrt(d1 * d1 - u.g * v.g);
    return v.t - (v.t - u.t) * (v.g + d2 - d1) / (v.g - u.g + 2.0 * d2);
}
int main(){
    std::mt19937_64 rng(1); std::uniform_real_distribution<double> U(-2,2);
    for (int i=0;i<2000;++i){
        step u{U(rng),U(rng),U(rng)}, v{U(rng),U(rng),U(rng)};
        double c = cubic(u,v), e = std::exp(u.f), l = std::log(std::fabs(v.f)+1e-3);
        uint64_t b[9]; double in[6]={u.t,u.f,u.g,v.t,v.f,v.g};
        for(int k=0;k<6;++k){ std::memcpy(&b[k],&in[k],8);} std::memcpy(&b[6],&c,8); std::memcpy(&b[7],&e,8); std::memcpy(&b[8],&l,8);
        for(int k=0;k<9;++k) printf("%016lx%c",(unsigned long)b[k],k==8?'\n':' ');
    }
}
