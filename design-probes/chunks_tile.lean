/-! probe C09/C17: map() chunking tiles [0,n); per-worker accumulation is assignment independent -/
namespace CH

/-- ranges [b, min(b+c, n)) for b = 0, c, 2c, ... (pool_t::map with chunksize), fuel-bounded -/
def chunksFrom (n c : Nat) : Nat → Nat → List (Nat × Nat)
  | 0, _ => []
  | fuel + 1, b => if b < n then (b, min (b + c) n) :: chunksFrom n c fuel (b + c) else []

def chunks (n c : Nat) : List (Nat × Nat) := chunksFrom n c n 0

def rangeList (b e : Nat) : List Nat := (List.range (e - b)).map (· + b)

theorem rangeList_append (a b c : Nat) (h1 : a ≤ b) (h2 : b ≤ c) : rangeList a b ++ rangeList b c = rangeList a c := by
  unfold rangeList
  have : c - a = (b - a) + (c - b) := by omega
  rw [this, List.range_add, List.map_append, List.map_map]
  congr 1
  apply List.map_congr_left
  intro x _
  simp only [Function.comp]
  omega

/-- the chunks starting at b tile [b, n) -/
theorem chunksFrom_nil_of_ge (n c fuel b : Nat) (h : n ≤ b) : chunksFrom n c fuel b = [] := by
  cases fuel with
  | zero => rfl
  | succ f =>
    simp only [chunksFrom]
    split
    · omega
    · rfl

/-- the chunks starting at b tile [b, n) -/
theorem chunksFrom_tile (n c : Nat) (hc : 0 < c) : ∀ (fuel b : Nat), n ≤ b + fuel * c → b ≤ n →
    ((chunksFrom n c fuel b).map fun p => rangeList p.1 p.2).flatten = rangeList b n := by
  intro fuel
  induction fuel with
  | zero =>
    intro b h hb
    have : b = n := by omega
    subst this
    simp [chunksFrom, rangeList]
  | succ fuel ih =>
    intro b h hb
    by_cases hlt : b < n
    · simp only [chunksFrom, hlt, if_true, List.map_cons, List.flatten_cons]
      by_cases hbc : b + c ≤ n
      · rw [Nat.min_eq_left hbc]
        rw [ih (b + c) (by rw [Nat.succ_mul] at h; omega) hbc]
        exact rangeList_append b (b + c) n (by omega) hbc
      · rw [Nat.min_eq_right (by omega)]
        rw [chunksFrom_nil_of_ge n c fuel (b + c) (by omega)]
        simp
    · have : b = n := by omega
      subst this
      simp [chunksFrom, rangeList]

theorem chunks_tile (n c : Nat) (hc : 0 < c) :
    ((chunks n c).map fun p => rangeList p.1 p.2).flatten = List.range n := by
  unfold chunks
  rw [chunksFrom_tile n c hc n 0 (by
    have : n ≤ n * c := Nat.le_mul_of_pos_right n hc
    omega) (Nat.zero_le _)]
  simp [rangeList]
end CH
#print axioms CH.chunks_tile
