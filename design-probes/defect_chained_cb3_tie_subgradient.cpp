#include <nano/function.h>
#include <iostream>
#include <iomanip>
using namespace nano;
int main()
{
    for (const char* id : {"chained_cb3II", "chained_cb3I"})
    {
        const auto proto = function_t::all().get(id);
        const auto f = proto->make(2, 10);
        vector_t x(2), z(2), gx(2);
        x(0) = 1.5; x(1) = -0.203125;
        const auto fx = f->vgrad(x, gx);
        std::cout << std::setprecision(17) << id << " convex=" << f->convex() << " f(x)=" << fx << " g=(" << gx(0) << "," << gx(1) << ")\n";
        for (double t : {1e-3, 1e-2, 1e-1, 0.5})
        {
            z = x; z(1) += t;
            const auto fz = f->vgrad(z);
            const auto lb = fx + gx.dot(z - x);
            std::cout << "   t=" << t << " f(z)=" << fz << " f(x)+g.(z-x)=" << lb << (fz < lb ? "  VIOLATED" : "") << "\n";
        }
    }
}
