#include <nano/solver.h>
#include <nano/function.h>
#include <Eigen/Dense>
#include <iostream>
#include <random>
using namespace nano;

class myquad_t final : public function_t
{
public:
    myquad_t(matrix_t A, vector_t a) : function_t("q", a.size()), m_A(std::move(A)), m_a(std::move(a)) { convex(convexity::yes); smooth(smoothness::yes); }
    rfunction_t clone() const override { return std::make_unique<myquad_t>(*this); }
    scalar_t do_vgrad(vector_cmap_t x, vector_map_t gx) const override
    {
        ++m_calls; if (gx.size() == x.size()) { ++m_calls; gx = m_A * x + m_a; }
        return 0.5 * x.dot(m_A * x) + m_a.dot(x);
    }
    matrix_t m_A; vector_t m_a; mutable long m_calls{0};
};

int main(int argc, char** argv)
{
    const auto logger = make_null_logger();
    std::mt19937_64 rng(argc > 1 ? std::atoi(argv[1]) : 1);
    std::uniform_real_distribution<double> U(0, 1);
    std::normal_distribution<double> N(0, 1);
    long runs = 0, notconv = 0, over = 0, inacc = 0; long maxcalls = 0;
    for (const char* id : {"lbfgs", "bfgs"})
    for (int trial = 0; trial < 1500; ++trial)
    {
        const int n = 1 + static_cast<int>(U(rng) * 16);
        const double kappa = std::pow(10.0, 3 * U(rng));
        const double s = std::pow(10.0, -3 + 6 * U(rng));
        Eigen::MatrixXd M(n, n); for (int i = 0; i < n; ++i) for (int j = 0; j < n; ++j) M(i, j) = N(rng);
        Eigen::HouseholderQR<Eigen::MatrixXd> qr(M); Eigen::MatrixXd Q = qr.householderQ();
        Eigen::VectorXd spec(n); for (int i = 0; i < n; ++i) spec(i) = (n == 1) ? 1.0 : std::pow(kappa, U(rng)); if (n > 1) { spec(0) = 1.0; spec(n - 1) = kappa; }
        Eigen::MatrixXd Ae = s * Q * spec.asDiagonal() * Q.transpose(); Ae = 0.5 * (Ae + Ae.transpose());
        Eigen::VectorXd xs(n); for (int i = 0; i < n; ++i) xs(i) = -5 + 10 * U(rng);
        Eigen::VectorXd ae = -Ae * xs;
        matrix_t A(n, n); A.matrix() = Ae; vector_t a(n); a.vector() = ae;
        myquad_t f(A, a);
        vector_t x0(n); for (int i = 0; i < n; ++i) x0(i) = -10 + 20 * U(rng);
        auto solver = solver_t::all().get(id);
        solver->parameter("solver::epsilon") = 1e-8;
        solver->parameter("solver::max_evals") = 20000;
        f.m_calls = 0;
        const auto st = solver->minimize(f, x0, logger);
        ++runs;
        const double lmin = s * 1.0;
        const double dist = (st.x().vector() - xs).norm();
        const double bound = std::sqrt(double(n)) * 1e-8 * std::max(1.0, std::fabs(st.fx())) / lmin;
        maxcalls = std::max(maxcalls, f.m_calls);
        if (st.status() != solver_status::converged) { ++notconv; if (notconv < 6) std::cout << id << " n=" << n << " kappa=" << kappa << " s=" << s << " status=" << st.status() << " calls=" << f.m_calls << " gtest=" << st.gradient_test() << "\n"; }
        else { if (f.m_calls > 1500) { ++over; if (over < 6) std::cout << id << " n=" << n << " kappa=" << kappa << " s=" << s << " calls=" << f.m_calls << "\n"; }
               if (dist > bound) { ++inacc; if (inacc < 6) std::cout << id << " n=" << n << " dist=" << dist << " bound=" << bound << "\n"; } }
    }
    std::cout << "runs=" << runs << " not_converged=" << notconv << " converged_over_1500=" << over << " inaccurate=" << inacc << " max_calls=" << maxcalls << "\n";
}
