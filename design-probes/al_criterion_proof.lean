import P.AL
import Mathlib.Algebra.Order.Field.Basic
import Mathlib.Tactic.Linarith
import Mathlib.Tactic.Positivity
open Nano
variable {α : Type} [Field α] [LinearOrder α] [IsStrictOrderedRing α]

theorem maxL_mono {β : Type} (f g : β → α) (l : List β) (h : ∀ b ∈ l, f b ≤ g b) :
    maxL (l.map f) ≤ maxL (l.map g) := by
  induction l with
  | nil => simp [maxL]
  | cons b bs ih =>
    simp only [List.map, maxL]
    exact max_le_max (h b (by simp)) (ih fun b hb => h b (by simp [hb]))

theorem absv_eq_abs (x : α) : absv x = |x| := by
  unfold absv; split
  · rw [abs_of_neg ‹_›]
  · rw [abs_of_nonneg (not_lt.mp ‹_›)]

theorem criterion_ge_violation (c : Inner α) (miu : List α) (ro : α) (hro : 0 < ro)
    (hm : ∀ m ∈ miu, 0 ≤ m) (hlen : miu.length = c.cineq.length) :
    violation c ≤ criterion c miu ro := by
  unfold violation criterion
  apply max_le_max (le_refl _)
  -- pointwise: max g 0 ≤ |max g (-m/ro)|
  have key : ∀ (gs ms : List α), ms.length = gs.length → (∀ m ∈ ms, 0 ≤ m) →
      maxL (gs.map fun g => max g 0) ≤ maxL ((gs.zip ms).map fun (g, m) => absv (max g (-m / ro))) := by
    intro gs
    induction gs with
    | nil => intro ms _ _; simp [maxL]
    | cons g gs ih =>
      intro ms hl hpos
      cases ms with
      | nil => simp at hl
      | cons m ms =>
        simp only [List.zip_cons_cons, List.map, maxL]
        have hm0 : 0 ≤ m := hpos m (by simp)
        have h1 : max g 0 ≤ absv (max g (-m / ro)) := by
          rw [absv_eq_abs]
          have hneg : -m / ro ≤ 0 := by
            apply div_nonpos_of_nonpos_of_nonneg <;> linarith
          rcases le_total g 0 with hg | hg
          · rw [max_eq_right hg]; exact abs_nonneg _
          · rw [max_eq_left hg]
            have : max g (-m / ro) = g := max_eq_left (le_trans hneg hg)
            rw [this, abs_of_nonneg hg]
        exact max_le_max h1 (ih ms (by simpa using hl) (fun m' hm' => hpos m' (by simp [hm'])))
  exact key c.cineq miu hlen hm
#print axioms criterion_ge_violation

/-- loop invariant of the augmented-Lagrangian outer loop -/
structure ALInv (nI : Nat) (s : ALState α) : Prop where
  ro_pos : 0 < s.ro
  miu_nonneg : ∀ m ∈ s.miu, 0 ≤ m
  miu_len : s.miu.length = nI
  best_len : s.best.cineq.length = nI
  viol_le : violation s.best ≤ s.oldCrit
  not_conv : s.status ≠ 1

theorem length_zip_map {β γ δ : Type} (f : β × γ → δ) (l1 : List β) (l2 : List γ) (n : Nat)
    (h1 : l1.length = n) (h2 : l2.length = n) : ((l1.zip l2).map f).length = n := by
  simp [List.length_zip, h1, h2]

theorem alStep_inv (eps tau gamma miuMax lmin lmax : α) (hgamma : 1 < gamma) (hmiuMax : 0 ≤ miuMax)
    (nI outer : Nat) (s : ALState α) (c : Inner α) (close : Bool)
    (hc : c.cineq.length = nI) (hinv : ALInv nI s) :
    ((alStep eps tau gamma miuMax lmin lmax outer s c close).2 = false →
        ALInv nI (alStep eps tau gamma miuMax lmin lmax outer s c close).1) ∧
    ((alStep eps tau gamma miuMax lmin lmax outer s c close).1.status = 1 →
        violation (alStep eps tau gamma miuMax lmin lmax outer s c close).1.best ≤ eps) := by
  have hcrit : violation c ≤ criterion c s.miu s.ro :=
    criterion_ge_violation c s.miu s.ro hinv.ro_pos hinv.miu_nonneg (by rw [hinv.miu_len, hc])
  cases hv : c.valid with
  | false =>
    -- inner solver failed: the loop stops with status 2
    simp [alStep, hv]
  | true =>
    have hbest : violation (if decide (criterion c s.miu s.ro < s.oldCrit) then c else s.best)
        ≤ criterion c s.miu s.ro := by
      split
      · exact hcrit
      · rename_i hcond
        have : ¬ criterion c s.miu s.ro < s.oldCrit := by simpa using hcond
        exact le_trans hinv.viol_le (not_lt.mp this)
    have hbestlen : (if decide (criterion c s.miu s.ro < s.oldCrit) then c else s.best).cineq.length = nI := by
      split
      · exact hc
      · exact hinv.best_len
    by_cases hconv : (decide (criterion c s.miu s.ro ≤ eps) && close) = true
    · -- converged
      have hle : criterion c s.miu s.ro ≤ eps := by
        have := (Bool.and_eq_true _ _).mp hconv
        simpa using this.1
      simp only [alStep, hv, Bool.true_and, hconv, Bool.true_or, if_true]
      refine ⟨by simp, fun _ => le_trans hbest hle⟩
    · have hconv' : (decide (criterion c s.miu s.ro ≤ eps) && close) = false := by simpa using hconv
      simp only [alStep, hv, Bool.true_and, hconv', Bool.not_true, Bool.or_self, Bool.false_eq_true, if_false]
      refine ⟨fun _ => ?_, by simp⟩
      refine ⟨?_, ?_, ?_, hbestlen, hbest, by simp⟩
      · show 0 < (if outer > 0 ∧ criterion c s.miu s.ro > tau * s.oldCrit then gamma * s.ro else s.ro)
        split
        · exact mul_pos (lt_trans one_pos hgamma) hinv.ro_pos
        · exact hinv.ro_pos
      · intro m hm
        simp only [List.mem_map] at hm
        obtain ⟨⟨a, b⟩, _, rfl⟩ := hm
        exact le_min (le_max_right _ _) hmiuMax
      · exact length_zip_map _ _ _ nI hinv.miu_len hc
#print axioms alStep_inv

theorem alLoop_converged_feasible (eps tau gamma miuMax lmin lmax : α) (hgamma : 1 < gamma) (hmiuMax : 0 ≤ miuMax)
    (nI : Nat) (inner : Nat → ALState α → Inner α) (close : Nat → ALState α → Bool)
    (hinner : ∀ k s, (inner k s).cineq.length = nI) :
    ∀ (fuel outer : Nat) (s : ALState α), ALInv nI s →
      (alLoop eps tau gamma miuMax lmin lmax inner close fuel outer s).status = 1 →
      violation (alLoop eps tau gamma miuMax lmin lmax inner close fuel outer s).best ≤ eps := by
  intro fuel
  induction fuel with
  | zero => intro outer s hinv h; exact absurd h hinv.not_conv
  | succ fuel ih =>
    intro outer s hinv h
    have hstep := alStep_inv eps tau gamma miuMax lmin lmax hgamma hmiuMax nI outer s (inner outer s) (close outer s)
      (hinner outer s) hinv
    simp only [alLoop] at h ⊢
    cases hstop : (alStep eps tau gamma miuMax lmin lmax outer s (inner outer s) (close outer s)).2 with
    | true =>
      simp only [hstop, if_true] at h ⊢
      exact hstep.2 h
    | false =>
      simp only [hstop, Bool.false_eq_true, if_false] at h ⊢
      exact ih (outer + 1) _ (hstep.1 hstop) h

/-- for every inner-solver behaviour: a `converged` status certifies feasibility within ε -/
theorem al_converged_feasible (eps tau gamma miuMax lmin lmax ro1 : α) (hgamma : 1 < gamma) (hmiuMax : 0 ≤ miuMax)
    (hro : 0 < ro1) (x0 : Inner α) (inner : Nat → ALState α → Inner α) (close : Nat → ALState α → Bool)
    (hinner : ∀ k s, (inner k s).cineq.length = x0.cineq.length) (fuel : Nat) :
    (alLoop eps tau gamma miuMax lmin lmax inner close fuel 0 (alInit x0 ro1)).status = 1 →
    violation (alLoop eps tau gamma miuMax lmin lmax inner close fuel 0 (alInit x0 ro1)).best ≤ eps := by
  apply alLoop_converged_feasible eps tau gamma miuMax lmin lmax hgamma hmiuMax x0.cineq.length inner close hinner
  refine ⟨hro, ?_, by simp [alInit], rfl, ?_, by simp [alInit]⟩
  · intro m hm; simp [alInit] at hm; rw [hm.2]
  · exact criterion_ge_violation x0 _ ro1 hro (by intro m hm; simp at hm; rw [hm.2]) (by simp)
#print axioms al_converged_feasible
