import P.AL
import Mathlib.Algebra.Order.Field.Basic
import Mathlib.Tactic.Linarith
import Mathlib.Tactic.Positivity
open Nano
variable {α : Type} [Field α] [LinearOrder α] [IsStrictOrderedRing α]

theorem maxL_mono {β : Type} (f g : β → α) (l : List β) (h : ∀ b ∈ l, f b ≤ g b) :
    maxL (l.map f) ≤ maxL (l.map g) := by
  induction l with
  | nil => simp [maxL]
  | cons b bs ih =>
    simp only [List.map, maxL]
    exact max_le_max (h b (by simp)) (ih fun b hb => h b (by simp [hb]))

theorem absv_eq_abs (x : α) : absv x = |x| := by
  unfold absv; split
  · rw [abs_of_neg ‹_›]
  · rw [abs_of_nonneg (not_lt.mp ‹_›)]

theorem criterion_ge_violation (c : Inner α) (miu : List α) (ro : α) (hro : 0 < ro)
    (hm : ∀ m ∈ miu, 0 ≤ m) (hlen : miu.length = c.cineq.length) :
    violation c ≤ criterion c miu ro := by
  unfold violation criterion
  apply max_le_max (le_refl _)
  -- pointwise: max g 0 ≤ |max g (-m/ro)|
  have key : ∀ (gs ms : List α), ms.length = gs.length → (∀ m ∈ ms, 0 ≤ m) →
      maxL (gs.map fun g => max g 0) ≤ maxL ((gs.zip ms).map fun (g, m) => absv (max g (-m / ro))) := by
    intro gs
    induction gs with
    | nil => intro ms _ _; simp [maxL]
    | cons g gs ih =>
      intro ms hl hpos
      cases ms with
      | nil => simp at hl
      | cons m ms =>
        simp only [List.zip_cons_cons, List.map, maxL]
        have hm0 : 0 ≤ m := hpos m (by simp)
        have h1 : max g 0 ≤ absv (max g (-m / ro)) := by
          rw [absv_eq_abs]
          have hneg : -m / ro ≤ 0 := by
            apply div_nonpos_of_nonpos_of_nonneg <;> linarith
          rcases le_total g 0 with hg | hg
          · rw [max_eq_right hg]; exact abs_nonneg _
          · rw [max_eq_left hg]
            have : max g (-m / ro) = g := max_eq_left (le_trans hneg hg)
            rw [this, abs_of_nonneg hg]
        exact max_le_max h1 (ih ms (by simpa using hl) (fun m' hm' => hpos m' (by simp [hm'])))
  exact key c.cineq miu hlen hm
#print axioms criterion_ge_violation
