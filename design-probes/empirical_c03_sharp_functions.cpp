#include <nano/solver.h>
#include <nano/function.h>
#include <Eigen/Dense>
#include <iostream>
#include <random>
using namespace nano;

class sharp_t final : public function_t
{
public:
    sharp_t(matrix_t A, vector_t xs, int norm, double mu) : function_t("sharp", xs.size()), m_A(std::move(A)), m_xs(std::move(xs)), m_norm(norm), m_mu(mu)
    { convex(convexity::yes); smooth(smoothness::no); }
    rfunction_t clone() const override { return std::make_unique<sharp_t>(*this); }
    scalar_t do_vgrad(vector_cmap_t x, vector_map_t gx) const override
    {
        const Eigen::VectorXd d = x.vector() - m_xs.vector();
        const Eigen::VectorXd r = m_A.matrix() * d;
        double f = 0; Eigen::VectorXd w = Eigen::VectorXd::Zero(r.size());
        if (m_norm == 1) { f = r.lpNorm<1>(); for (int i = 0; i < r.size(); ++i) w(i) = (r(i) > 0) - (r(i) < 0); }
        else { Eigen::Index k = 0; f = r.cwiseAbs().maxCoeff(&k); w(k) = (r(k) >= 0) ? 1.0 : -1.0; }
        if (gx.size() == x.size()) gx.vector() = m_A.matrix().transpose() * w + m_mu * d;
        return f + 0.5 * m_mu * d.squaredNorm();
    }
    matrix_t m_A; vector_t m_xs; int m_norm; double m_mu;
};

int main(int argc, char** argv)
{
    const auto logger = make_null_logger();
    std::mt19937_64 rng(argc > 1 ? std::atoi(argv[1]) : 1);
    std::uniform_real_distribution<double> U(0, 1);
    std::normal_distribution<double> N(0, 1);
    for (const char* id : {"rqb", "fpba1", "fpba2", "ellipsoid"})
    {
        long runs = 0, conv = 0, bad = 0, ell_notconv = 0;
        for (int trial = 0; trial < 300; ++trial)
        {
            const bool ell = std::string(id) == "ellipsoid";
            const int n = 1 + static_cast<int>(U(rng) * (ell ? 6 : 8));
            Eigen::MatrixXd M(n, n); for (int i = 0; i < n; ++i) for (int j = 0; j < n; ++j) M(i, j) = N(rng);
            Eigen::JacobiSVD<Eigen::MatrixXd> svd(M, Eigen::ComputeFullU | Eigen::ComputeFullV);
            Eigen::VectorXd sv = svd.singularValues(); for (int i = 0; i < n; ++i) sv(i) = 1.0 + 3.0 * U(rng);
            Eigen::MatrixXd Ae = svd.matrixU() * sv.asDiagonal() * svd.matrixV().transpose();
            matrix_t A(n, n); A.matrix() = Ae;
            vector_t xs(n); for (int i = 0; i < n; ++i) xs(i) = -3 + 6 * U(rng);
            const int norm = U(rng) < 0.5 ? 1 : 0; const double mu = U(rng) < 0.5 ? 0.0 : U(rng);
            sharp_t f(A, xs, norm, mu);
            vector_t x0(n); { Eigen::VectorXd d(n); for (int i = 0; i < n; ++i) d(i) = N(rng); d *= 4.0 * U(rng) / d.norm(); x0.vector() = xs.vector() + d; }
            const double eps = std::pow(10.0, -8 + 5 * U(rng));
            auto solver = solver_t::all().get(id);
            solver->parameter("solver::epsilon") = eps;
            solver->parameter("solver::max_evals") = ell ? 20000 : 100 + static_cast<int>(U(rng) * 19900);
            if (ell) solver->parameter("solver::ellipsoid::R") = 10.0;
            const auto st = solver->minimize(f, x0, logger);
            ++runs;
            const double gap = st.fx() - 0.0, dist = (st.x().vector() - xs.vector()).norm();
            if (st.status() == solver_status::converged)
            {
                ++conv;
                const double bound = ell ? 10 * eps : 2 * eps * std::sqrt(double(n)) * (1 + dist);
                if (gap > bound) { ++bad; if (bad < 6) std::cout << id << " n=" << n << " norm=" << norm << " mu=" << mu << " eps=" << eps << " gap=" << gap << " bound=" << bound << " calls=" << st.fcalls() << "\n"; }
            }
            else if (ell) { ++ell_notconv; if (ell_notconv < 4) std::cout << "ellipsoid not converged n=" << n << " status=" << st.status() << " gap=" << gap << " eps=" << eps << "\n"; }
        }
        std::cout << id << ": runs=" << runs << " converged=" << conv << " converged_but_gap_over_bound=" << bad << " ellipsoid_not_converged=" << ell_notconv << "\n";
    }
}
