/-! probe: codec combinators with round-trip and prefix-safety -/
abbrev Bytes := List UInt8

structure Codec (α : Type) where
  enc : α → Bytes
  dec : Bytes → Option (α × Bytes)

def Codec.RoundTrip (c : Codec α) (wf : α → Prop) : Prop :=
  ∀ x rest, wf x → c.dec (c.enc x ++ rest) = some (x, rest)

/-- every strict prefix of a valid encoding is rejected -/
def Codec.PrefixSafe (c : Codec α) (wf : α → Prop) : Prop :=
  ∀ x p, wf x → p <+: c.enc x → p ≠ c.enc x → c.dec p = none

def seq (a : Codec α) (b : Codec β) : Codec (α × β) where
  enc := fun (x, y) => a.enc x ++ b.enc y
  dec := fun bs => match a.dec bs with
    | none => none
    | some (x, r) => match b.dec r with
      | none => none
      | some (y, r') => some ((x, y), r')

theorem seq_roundtrip {a : Codec α} {b : Codec β} {wa wb}
    (ha : a.RoundTrip wa) (hb : b.RoundTrip wb) :
    (seq a b).RoundTrip (fun p => wa p.1 ∧ wb p.2) := by
  intro ⟨x, y⟩ rest ⟨hx, hy⟩
  simp only [seq, List.append_assoc]
  rw [ha x _ hx]; simp only []
  rw [hb y _ hy]

theorem prefix_append_cases {p l₁ l₂ : List α} (h : p <+: l₁ ++ l₂) :
    p <+: l₁ ∨ ∃ q, p = l₁ ++ q ∧ q <+: l₂ := by
  rcases List.prefix_or_prefix_of_prefix h (List.prefix_append l₁ l₂) with h1 | h1
  · exact Or.inl h1
  · obtain ⟨q, rfl⟩ := h1
    exact Or.inr ⟨q, rfl, (List.prefix_append_right_inj l₁).mp h⟩

theorem seq_prefixsafe {a : Codec α} {b : Codec β} {wa wb}
    (ha : a.RoundTrip wa) (hpa : a.PrefixSafe wa) (hpb : b.PrefixSafe wb) :
    (seq a b).PrefixSafe (fun p => wa p.1 ∧ wb p.2) := by
  intro ⟨x, y⟩ p ⟨hx, hy⟩ hp hne
  simp only [seq] at hp hne ⊢
  rcases prefix_append_cases hp with h | ⟨q, rfl, hq⟩
  · by_cases he : p = a.enc x
    · -- p = enc x exactly: then b must decode [] which is a strict prefix of enc y (nonempty since p ≠ whole)
      subst he
      have := ha x [] hx
      simp only [List.append_nil] at this
      rw [this]; simp only []
      have hy' : ([] : Bytes) ≠ b.enc y := by
        intro h0; apply hne; rw [← h0]; simp
      rw [hpb y [] hy (List.nil_prefix) hy']
    · rw [hpa x p hx h he]
  · rw [ha x q hx]; simp only []
    have : q ≠ b.enc y := by intro h0; apply hne; rw [h0]
    rw [hpb y q hy hq this]
#print axioms seq_prefixsafe
