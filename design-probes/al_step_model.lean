namespace Nano
section
variable {α : Type} [Add α] [Sub α] [Mul α] [Div α] [Neg α] [LT α] [LE α]
  [DecidableLT α] [DecidableLE α] [∀ n, OfNat α n] [Max α] [Min α]

def absv (x : α) : α := if x < 0 then -x else x
def maxL : List α → α
  | [] => 0
  | x :: xs => max x (maxL xs)

/-- result of the inner solver: point id, constraint values at that point, validity -/
structure Inner (α : Type) where
  x : Nat
  ceq : List α
  cineq : List α
  valid : Bool

def criterion (c : Inner α) (miu : List α) (ro : α) : α :=
  max (maxL (c.ceq.map absv)) (maxL ((c.cineq.zip miu).map fun (g, m) => absv (max g (-m / ro))))

def violation (c : Inner α) : α :=
  max (maxL (c.ceq.map absv)) (maxL (c.cineq.map fun g => max g 0))

structure ALState (α : Type) where
  best : Inner α
  ro : α
  lambda : List α
  miu : List α
  oldCrit : α
  status : Nat   -- 0 max_iters, 1 converged, 2 failed

/-- one outer iteration given the inner solver's answer `c` and the closeness verdict `close` -/
def alStep (eps tau gamma miuMax lmin lmax : α) (outer : Nat) (s : ALState α) (c : Inner α) (close : Bool) :
    ALState α × Bool :=
  let crit := criterion c s.miu s.ro
  let conv := c.valid && decide (crit ≤ eps) && close
  let best := if c.valid && decide (crit < s.oldCrit) then c else s.best
  if conv || !c.valid then
    ({ s with best := best, status := if conv then 1 else 2 }, true)
  else
    let ro' := if outer > 0 ∧ crit > tau * s.oldCrit then gamma * s.ro else s.ro
    let lambda' := (s.lambda.zip c.ceq).map fun (l, h) => min (max (l + s.ro * h) lmin) lmax
    let miu' := (s.miu.zip c.cineq).map fun (m, g) => min (max (m + s.ro * g) 0) miuMax
    ({ best := best, ro := ro', lambda := lambda', miu := miu', oldCrit := crit, status := 0 }, false)
end
end Nano

namespace Nano
section
variable {α : Type} [Add α] [Sub α] [Mul α] [Div α] [Neg α] [LT α] [LE α]
  [DecidableLT α] [DecidableLE α] [∀ n, OfNat α n] [Max α] [Min α]

/-- the outer loop: `inner k s` is whatever the inner solver returns at outer iteration k from state s,
    `close k s` the verdict of `nano::converged(bstate, cstate, eps)` -/
def alLoop (eps tau gamma miuMax lmin lmax : α) (inner : Nat → ALState α → Inner α) (close : Nat → ALState α → Bool) :
    Nat → Nat → ALState α → ALState α
  | 0, _, s => s
  | fuel + 1, outer, s =>
    let (s', stop) := alStep eps tau gamma miuMax lmin lmax outer s (inner outer s) (close outer s)
    if stop then s' else alLoop eps tau gamma miuMax lmin lmax inner close fuel (outer + 1) s'

/-- initial state from the starting point -/
def alInit (x0 : Inner α) (ro1 : α) : ALState α :=
  { best := x0, ro := ro1, lambda := x0.ceq.map fun _ => 0, miu := x0.cineq.map fun _ => 0,
    oldCrit := criterion x0 (x0.cineq.map fun _ => 0) ro1, status := 0 }
end
end Nano
