import P.Vec
import Mathlib.Algebra.Order.Field.Basic
import Mathlib.Tactic.Ring
import Mathlib.Tactic.Linarith
import Mathlib.Tactic.Positivity
open Nano
variable {α : Type} [Field α] [LinearOrder α] [IsStrictOrderedRing α]

/-- matrix-vector product, rows as lists -/
def mv (A : List (List α)) (x : List α) : List α := A.map fun r => vdot r x
/-- transpose-vector product  Aᵀu = Σ_i u_i * row_i  (n = length of x) -/
def tmv (n : Nat) : List (List α) → List α → List α
  | r :: A, u :: us => vaxpy u r (tmv n A us)
  | _, _ => List.replicate n 0

theorem tmv_length (n : Nat) : ∀ (A : List (List α)) (u : List α), (∀ r ∈ A, r.length = n) → (tmv n A u).length = n
  | [], _, _ => by simp [tmv]
  | _ :: _, [], _ => by simp [tmv]
  | r :: A, u :: us, h => by
    have ih := tmv_length n A us (fun r' hr => h r' (by simp [hr]))
    simp only [tmv]
    rw [vaxpy_length u r _ (by rw [h r (by simp), ih]), ih]
  where vaxpy_length (c : α) : ∀ (x y : List α), x.length = y.length → (vaxpy c x y).length = y.length
    | [], [], _ => rfl
    | _ :: xs, _ :: ys, h => by simp [vaxpy, vaxpy_length c xs ys (by simpa using h)]
    | [], _ :: _, h => by simp at h
    | _ :: _, [], h => by simp at h

theorem vdot_replicate_zero (n : Nat) : ∀ (d : List α), vdot (List.replicate n (0:α)) d = 0 := by
  induction n with
  | zero => intro d; simp [vdot]
  | succ n ih => intro d; cases d with
    | nil => simp [List.replicate, vdot]
    | cons a d => simp [List.replicate, vdot, ih d]

theorem vdot_vaxpy_left' (c : α) : ∀ (x y r : List α), x.length = y.length → y.length = r.length →
    vdot (vaxpy c x y) r = c * vdot x r + vdot y r
  | [], [], [], _, _ => by simp [vdot, vaxpy]
  | b :: x, d :: y, a :: r, h1, h2 => by
    simp only [vdot, vaxpy]
    rw [vdot_vaxpy_left' c x y r (by simpa using h1) (by simpa using h2)]; ring
  | [], _ :: _, _, h, _ => by simp at h
  | _ :: _, [], _, h, _ => by simp at h
  | _, [], _ :: _, _, h => by simp at h
  | _, _ :: _, [], _, h => by simp at h

/-- adjoint identity: (Aᵀu)·d = u·(A d) -/
theorem tmv_adjoint (n : Nat) : ∀ (A : List (List α)) (u d : List α), (∀ r ∈ A, r.length = n) → d.length = n →
    A.length = u.length → vdot (tmv n A u) d = vdot u (mv A d)
  | [], [], d, _, _, _ => by simp [tmv, mv, vdot, vdot_replicate_zero]
  | r :: A, u :: us, d, h, hd, hl => by
    have hr : r.length = n := h r (by simp)
    have hA : ∀ r' ∈ A, r'.length = n := fun r' hr' => h r' (by simp [hr'])
    have ih := tmv_adjoint n A us d hA hd (by simpa using hl)
    simp only [tmv, mv, List.map, vdot]
    rw [vdot_vaxpy_left' u r _ d (by rw [hr, tmv_length n A us hA]) (by rw [tmv_length n A us hA, hd]), ih]
    rfl
  | [], _ :: _, _, _, _, hl => by simp at hl
  | _ :: _, [], _, _, _, hl => by simp at hl
#print axioms tmv_adjoint
