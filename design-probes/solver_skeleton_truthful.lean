/-! probe C01/C02: skeleton shared by gd / cgd / lbfgs / quasi; truthfulness of `converged` for every
    objective, every direction rule and every line search that leaves the state consistent -/
namespace SV
variable {V S : Type}   -- V = points/vectors, S = scalars

inductive Status | maxIters | converged | failed
  deriving DecidableEq, Repr

/-- a solver state; `val = none` models a non-finite evaluation (state.valid() = false) -/
structure State (V S : Type) where
  x : V
  val : Option (S × V)        -- (f x, ∇f x) when finite
  status : Status
  evals : Nat

/-- the objective as an oracle: finite value+gradient or failure -/
abbrev Objective (V S : Type) := V → Option (S × V)

def Consistent (f : Objective V S) (s : State V S) : Prop := s.val = f s.x

/-- `solver_t::done`: converged wins, otherwise failed if the step was not ok -/
def done (s : State V S) (iterOk converged : Bool) : State V S × Bool :=
  let stepOk := iterOk && s.val.isSome
  if converged || !stepOk then ({ s with status := if converged then .converged else .failed }, true)
  else (s, false)

-- gradient test as an oracle on the stored value (∞-norm / max(1,|f|)); `none` ↦ not converged
variable (gtestLt : S × V → Bool)   -- gradient_test(state) < epsilon, evaluated on the stored (f, g)

def convergedFlag (s : State V S) : Bool := match s.val with | some p => gtestLt p | none => false

/-- one outer iteration: direction from an arbitrary rule, line search = arbitrary state transformer -/
def iter (dir : State V S → State V S → V) (ls : State V S → V → State V S × Bool)
    (p c : State V S) : State V S × State V S × Bool :=
  let d := dir p c
  let (c', ok) := ls c d
  let (c'', stop) := done c' ok (convergedFlag gtestLt c')
  (c, c'', stop)          -- new previous state, new current state, stop?

def loop (dir : State V S → State V S → V) (ls : State V S → V → State V S × Bool) (maxEvals : Nat) :
    Nat → State V S → State V S → State V S × State V S
  | 0, p, c => (p, c)
  | fuel + 1, p, c =>
    if c.evals < maxEvals then
      let (p', c', stop) := iter gtestLt dir ls p c
      if stop then (p', c') else loop dir ls maxEvals fuel p' c'
    else (p, c)

/-- `return cstate.valid() ? cstate : pstate` -/
def result (pc : State V S × State V S) : State V S := if pc.2.val.isSome then pc.2 else pc.1

/-- contract of a line search: it leaves a state that is an evaluation of f (C07: `success_state_is_eval`),
    and never sets the status -/
def LsContract (f : Objective V S) (ls : State V S → V → State V S × Bool) : Prop :=
  ∀ s d, Consistent f s → Consistent f (ls s d).1 ∧ (ls s d).1.status = s.status

structure Good (f : Objective V S) (gtestLt : S × V → Bool) (s : State V S) : Prop where
  cons : Consistent f s
  conv : s.status = .converged → ∃ p, s.val = some p ∧ gtestLt p = true

theorem done_good (f : Objective V S) (s : State V S) (ok : Bool) (hc : Consistent f s) (hs : s.status ≠ .converged) :
    Good f gtestLt (done s ok (convergedFlag gtestLt s)).1 := by
  unfold done
  by_cases hconv : convergedFlag gtestLt s = true
  · simp only [hconv, Bool.true_or, if_true]
    refine ⟨hc, fun _ => ?_⟩
    unfold convergedFlag at hconv
    cases hv : s.val with
    | none => simp [hv] at hconv
    | some p => exact ⟨p, rfl, by simpa [hv] using hconv⟩
  · have hconv' : convergedFlag gtestLt s = false := by simpa using hconv
    simp only [hconv', Bool.false_or]
    split
    · exact ⟨hc, fun h => by simp at h⟩
    · exact ⟨hc, fun h => absurd h hs⟩

/-- main theorem: whatever the objective, direction rule, line search (meeting the contract), budget and fuel:
    the loop keeps both states consistent, and a `converged` current state passed the gradient test on
    its own stored (f, ∇f) pair -/
theorem loop_good (f : Objective V S) (dir : State V S → State V S → V) (ls : State V S → V → State V S × Bool)
    (hls : LsContract f ls) (maxEvals : Nat) :
    ∀ (fuel : Nat) (p c : State V S), Good f gtestLt p → Good f gtestLt c → p.status ≠ .converged → c.status ≠ .converged →
      Good f gtestLt (loop gtestLt dir ls maxEvals fuel p c).1 ∧ Good f gtestLt (loop gtestLt dir ls maxEvals fuel p c).2 ∧
      (loop gtestLt dir ls maxEvals fuel p c).1.status ≠ .converged := by
  intro fuel
  induction fuel with
  | zero => intro p c hp hc hps _; exact ⟨hp, hc, hps⟩
  | succ fuel ih =>
    intro p c hp hc hps hcs
    simp only [loop]
    split
    · -- one iteration
      have hl := hls c (dir p c) hc.cons
      have hns : (ls c (dir p c)).1.status ≠ .converged := by rw [hl.2]; exact hcs
      have hg := done_good gtestLt f (ls c (dir p c)).1 (ls c (dir p c)).2 hl.1 hns
      simp only [iter]
      by_cases hstop : (done (ls c (dir p c)).1 (ls c (dir p c)).2 (convergedFlag gtestLt (ls c (dir p c)).1)).2 = true
      · simp only [hstop, if_true]
        exact ⟨hc, hg, hcs⟩
      · have hstop' : (done (ls c (dir p c)).1 (ls c (dir p c)).2 (convergedFlag gtestLt (ls c (dir p c)).1)).2 = false := by
          simpa using hstop
        simp only [hstop', Bool.false_eq_true, if_false]
        have hnc : (done (ls c (dir p c)).1 (ls c (dir p c)).2 (convergedFlag gtestLt (ls c (dir p c)).1)).1.status ≠ .converged := by
          intro hcv
          unfold done at hstop' hcv
          by_cases hconv : convergedFlag gtestLt (ls c (dir p c)).1 = true
          · simp [hconv] at hstop'
          · have hconv' : convergedFlag gtestLt (ls c (dir p c)).1 = false := by simpa using hconv
            simp only [hconv', Bool.false_or] at hstop' hcv
            split at hcv
            · simp at hcv
            · exact hns hcv
        exact ih c _ hc hg hcs hnc
    · exact ⟨hp, hc, hps⟩

theorem result_cases (pc : State V S × State V S) :
    (pc.2.val.isSome = true ∧ result pc = pc.2) ∨ (pc.2.val.isSome = false ∧ result pc = pc.1) := by
  unfold result
  by_cases h : pc.2.val.isSome = true
  · exact Or.inl ⟨h, by simp [h]⟩
  · have h' : pc.2.val.isSome = false := by simpa using h
    exact Or.inr ⟨h', by simp [h']⟩

theorem converged_truthful (f : Objective V S) (dir : State V S → State V S → V) (ls : State V S → V → State V S × Bool)
    (hls : LsContract f ls) (maxEvals fuel : Nat) (p c : State V S)
    (hp : Good f gtestLt p) (hc : Good f gtestLt c) (hps : p.status ≠ .converged) (hcs : c.status ≠ .converged) :
    Consistent f (result (loop gtestLt dir ls maxEvals fuel p c)) ∧
    ((result (loop gtestLt dir ls maxEvals fuel p c)).status = .converged →
      ∃ q, f (result (loop gtestLt dir ls maxEvals fuel p c)).x = some q ∧ gtestLt q = true) := by
  have h := loop_good gtestLt f dir ls hls maxEvals fuel p c hp hc hps hcs
  rcases result_cases (loop gtestLt dir ls maxEvals fuel p c) with ⟨_, hr⟩ | ⟨_, hr⟩
  · rw [hr]
    refine ⟨h.2.1.cons, fun hs => ?_⟩
    obtain ⟨q, hq, hg⟩ := h.2.1.conv hs
    exact ⟨q, by rw [← h.2.1.cons, hq], hg⟩
  · rw [hr]
    exact ⟨h.1.cons, fun hs => absurd hs h.2.2⟩
end SV
#print axioms SV.converged_truthful
