namespace T
def size : List Nat → Nat
  | [] => 1
  | d :: ds => d * size ds

def index : List Nat → List Nat → Nat
  | d :: ds, i :: is => i * size ds + index ds is
  | _, _ => 0

def Valid : List Nat → List Nat → Prop
  | [], [] => True
  | d :: ds, i :: is => i < d ∧ Valid ds is
  | _, _ => False

def unindex : List Nat → Nat → List Nat
  | [], _ => []
  | _ :: ds, o => (o / size ds) :: unindex ds (o % size ds)

theorem index_lt_size : ∀ (dims idx : List Nat), Valid dims idx → index dims idx < size dims
  | [], [], _ => by simp [index, size]
  | [], _ :: _, h => by simp [Valid] at h
  | _ :: _, [], h => by simp [Valid] at h
  | d :: ds, i :: is, h => by
    obtain ⟨hi, hv⟩ := h
    have ih := index_lt_size ds is hv
    simp only [index, size]
    calc i * size ds + index ds is < i * size ds + size ds := by omega
      _ = (i + 1) * size ds := by rw [Nat.add_mul, Nat.one_mul]
      _ ≤ d * size ds := Nat.mul_le_mul_right _ hi

theorem unindex_index : ∀ (dims idx : List Nat), Valid dims idx → unindex dims (index dims idx) = idx
  | [], [], _ => by simp [unindex]
  | [], _ :: _, h => by simp [Valid] at h
  | _ :: _, [], h => by simp [Valid] at h
  | d :: ds, i :: is, h => by
    obtain ⟨hi, hv⟩ := h
    have hlt := index_lt_size ds is hv
    have ih := unindex_index ds is hv
    have hpos : 0 < size ds := by omega
    simp only [index, unindex]
    have h1 : (i * size ds + index ds is) / size ds = i := by
      rw [Nat.mul_comm, Nat.mul_add_div hpos, Nat.div_eq_of_lt hlt, Nat.add_zero]
    have h2 : (i * size ds + index ds is) % size ds = index ds is := by
      rw [Nat.mul_comm, Nat.mul_add_mod, Nat.mod_eq_of_lt hlt]
    rw [h1, h2, ih]

theorem index_injective (dims a b : List Nat) (ha : Valid dims a) (hb : Valid dims b)
    (h : index dims a = index dims b) : a = b := by
  rw [← unindex_index dims a ha, ← unindex_index dims b hb, h]

theorem valid_unindex : ∀ (dims : List Nat) (o : Nat), o < size dims → Valid dims (unindex dims o)
  | [], _, _ => by simp [unindex, Valid]
  | d :: ds, o, h => by
    simp only [size] at h
    have hpos : 0 < size ds := by
      rcases Nat.eq_zero_or_pos (size ds) with h0 | h0
      · simp [h0] at h
      · exact h0
    refine ⟨?_, valid_unindex ds _ (Nat.mod_lt _ hpos)⟩
    exact (Nat.div_lt_iff_lt_mul hpos).2 h

theorem index_unindex : ∀ (dims : List Nat) (o : Nat), o < size dims → index dims (unindex dims o) = o
  | [], o, h => by simp [size] at h; simp [unindex, index, h]
  | d :: ds, o, h => by
    simp only [size] at h
    have hpos : 0 < size ds := by
      rcases Nat.eq_zero_or_pos (size ds) with h0 | h0
      · simp [h0] at h
      · exact h0
    simp only [unindex, index]
    rw [index_unindex ds _ (Nat.mod_lt _ hpos)]
    exact Nat.div_add_mod' o (size ds)
end T
#print axioms T.index_unindex
