def hashCombine (seed h : BitVec 64) : BitVec 64 :=
  seed ^^^ (h + 0x9e3779b9#64 + (seed <<< 6) + (seed >>> 2))

theorem hashCombine_injective_right (s h1 h2 : BitVec 64) (h : hashCombine s h1 = hashCombine s h2) : h1 = h2 := by
  unfold hashCombine at h
  have h' := congrArg (fun x => s ^^^ x) h
  simp only [← BitVec.xor_assoc, BitVec.xor_self, BitVec.zero_xor] at h'
  exact (BitVec.add_left_inj _).mp ((BitVec.add_left_inj _).mp ((BitVec.add_left_inj _).mp h'))

/-- hash of a list of element hashes (fold from seed 0) -/
def hashList (hs : List (BitVec 64)) : BitVec 64 := hs.foldl hashCombine 0

/-- altering only the last element always changes the hash -/
theorem last_element_corruption_detected (pre : List (BitVec 64)) (a b : BitVec 64) (hab : a ≠ b) :
    hashList (pre ++ [a]) ≠ hashList (pre ++ [b]) := by
  unfold hashList
  simp only [List.foldl_append, List.foldl_cons, List.foldl_nil]
  intro h
  exact hab (hashCombine_injective_right _ a b h)
#print axioms last_element_corruption_detected
