import Mathlib.Algebra.Order.Field.Basic
import Mathlib.Tactic.Ring
import Mathlib.Tactic.Linarith
import Mathlib.Tactic.Positivity
import Mathlib.Tactic.FieldSimp
variable {α : Type} [Field α] [LinearOrder α] [IsStrictOrderedRing α]

/-- moments of a list of residuals: (count, sum, sum of squares) -/
def mom : List α → α × α × α
  | [] => (0, 0, 0)
  | r :: rs => let (n, s, q) := mom rs; (n + 1, s + r, q + r * r)

/-- residual sum of squares for predicting the constant c -/
def rssC (c : α) : List α → α
  | [] => 0
  | r :: rs => (r - c) * (r - c) + rssC c rs

theorem rssC_eq (c : α) (rs : List α) :
    rssC c rs = (mom rs).2.2 - 2 * c * (mom rs).2.1 + c * c * (mom rs).1 := by
  induction rs with
  | nil => simp [rssC, mom]
  | cons r rs ih => simp only [rssC, mom, ih]; ring

theorem mom_count_nonneg (rs : List α) : 0 ≤ (mom rs).1 := by
  induction rs with
  | nil => simp [mom]
  | cons r rs ih => simp only [mom]; linarith

theorem mom_count_pos (rs : List α) (h : rs ≠ []) : 0 < (mom rs).1 := by
  cases rs with
  | nil => exact absurd rfl h
  | cons r rs => simp only [mom]; have := mom_count_nonneg rs; linarith

/-- the score computed from moments by the sweep: r2 - r1²/x0 -/
def rssMom (m : α × α × α) : α := m.2.2 - m.2.1 * m.2.1 / m.1

/-- the mean is optimal and the moment formula is its RSS -/
theorem const_fit_optimal (rs : List α) (h : rs ≠ []) (c : α) :
    rssMom (mom rs) ≤ rssC c rs ∧ rssMom (mom rs) = rssC ((mom rs).2.1 / (mom rs).1) rs := by
  have hn := mom_count_pos rs h
  have hne : (mom rs).1 ≠ 0 := ne_of_gt hn
  rw [rssC_eq, rssC_eq]
  unfold rssMom
  constructor
  · have : (mom rs).2.2 - 2 * c * (mom rs).2.1 + c * c * (mom rs).1 - ((mom rs).2.2 - (mom rs).2.1 * (mom rs).2.1 / (mom rs).1)
        = (mom rs).1 * ((c - (mom rs).2.1 / (mom rs).1) * (c - (mom rs).2.1 / (mom rs).1)) := by
      field_simp; ring
    have h2 : 0 ≤ (mom rs).1 * ((c - (mom rs).2.1 / (mom rs).1) * (c - (mom rs).2.1 / (mom rs).1)) :=
      mul_nonneg (le_of_lt hn) (mul_self_nonneg _)
    linarith
  · field_simp; ring
#print axioms const_fit_optimal
