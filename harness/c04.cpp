// C04 harness: runs program::solver_t on one (program, restatement) pair per op line with the NANO_VERIF trace sink
// installed, and reports the returned state (for the property oracle) and the logged trace (for the Lean model).
//
// op:  program solve <lp|qp> <n> <p> <m> <Q> <c> <A> <b> <G> <h> <x0mode> <x0> <pars> <rkind> <ri> <rf> <witness...>
//      matrices flat row-major, every list as `len v1 ... vlen` (doubles as 16 hex digits, ints decimal);
//      x0mode 0 = solve(program), 1 = solve(program, x0); the witness tokens are for the python oracle only.
//      pars: empty (default solver parameters) or `s0 miu alpha beta epsilon epsilon0`
//      rkind: none | dupeq | combeq | mixeq | scaleeq | scaleineq | scaleobj | permvars | permrows
// aug: <op> T <minNorm eps2 big nan s0 miu alpha beta epsilon epsilon0 maxIters maxLs>
//           P <Q c A b G h x0>                     the program as stated to the solver (after the restatement), x0 used
//           R <reduced> [<A'> <b'>]                logged normalised equalities when rows were reduced
//           { I <x> <u> <v> | S <dx> <du> <dv> | D <x> <u> <v> | Z <x> <v> } E
// res: ok X <status> <iters> <fx> <x> <u> <v> K <kkt> N <mufx> <p'> <Q'> <c'> <A'> <b'> <G'> <h'> [B <started>]
//           { I <k> <fx> <eta> <rdual> <rprim> <rcent> | U <u> | S <s1> | D <feasible> <eta> <rd> <rp> <fx> |
//             Z <valid> <aprox> <fx> <rdual> <rprim> } E <status>
#include "common.h"
#include <nano/core/numeric.h>
#include <nano/program/solver.h>
#include <nano/verif.h>

using namespace nano;
using vh::bad_op;
using vh::out_t;
using vh::toks_t;

namespace
{
using dvec = std::vector<double>;

struct record_t
{
    std::string tag;
    dvec        values;
};

thread_local std::vector<record_t> g_trace;

void sink(const char* tag, const double* values, size_t count)
{
    g_trace.push_back(record_t{tag, dvec(values, values + count)});
}

struct cursor_t
{
    const dvec& v;
    size_t      i = 0;

    double scalar()
    {
        if (i >= v.size())
        {
            throw std::logic_error("trace record too short");
        }
        return v[i++];
    }

    dvec list()
    {
        const auto n = static_cast<size_t>(scalar());
        if (i + n > v.size())
        {
            throw std::logic_error("trace record too short");
        }
        dvec r(v.begin() + static_cast<std::ptrdiff_t>(i), v.begin() + static_cast<std::ptrdiff_t>(i + n));
        i += n;
        return r;
    }
};

struct prog_t
{
    bool    lp = true;
    int64_t n = 0, p = 0, m = 0;
    dvec    Q, c, A, b, G, h, x0;
};

void check_size(const dvec& v, int64_t n, const char* what)
{
    if (static_cast<int64_t>(v.size()) != n)
    {
        throw bad_op(std::string("size of ") + what);
    }
}

std::vector<int64_t> check_perm(const std::vector<int64_t>& ri, size_t from, int64_t n)
{
    std::vector<int64_t> perm(ri.begin() + static_cast<std::ptrdiff_t>(from),
                              ri.begin() + static_cast<std::ptrdiff_t>(from) + n);
    std::vector<char>    seen(static_cast<size_t>(n), 0);
    for (const auto k : perm)
    {
        if (k < 0 || k >= n || seen[static_cast<size_t>(k)])
        {
            throw bad_op("not a permutation");
        }
        seen[static_cast<size_t>(k)] = 1;
    }
    return perm;
}

// the equivalent restatement of the program (all arithmetic in double, in the order written here)
prog_t restate(const prog_t& P, const std::string& kind, const std::vector<int64_t>& ri, const dvec& rf)
{
    prog_t     R = P;
    const auto n = P.n, p = P.p, m = P.m;
    const auto un = static_cast<size_t>(n);
    if (kind == "none")
    {
    }
    else if (kind == "dupeq")
    {
        if (ri.size() != 1 || ri[0] < 0 || ri[0] >= p)
        {
            throw bad_op("dupeq index");
        }
        const auto i = static_cast<size_t>(ri[0]);
        R.A.insert(R.A.end(), P.A.begin() + static_cast<std::ptrdiff_t>(i * un),
                   P.A.begin() + static_cast<std::ptrdiff_t>((i + 1) * un));
        R.b.push_back(P.b[i]);
        R.p = p + 1;
    }
    else if (kind == "combeq")
    {
        check_size(rf, p, "combeq coefficients");
        if (p < 1)
        {
            throw bad_op("combeq without equalities");
        }
        for (size_t j = 0; j < un; ++j)
        {
            double s = 0.0;
            for (size_t k = 0; k < static_cast<size_t>(p); ++k)
            {
                s += rf[k] * P.A[k * un + j];
            }
            R.A.push_back(s);
        }
        double s = 0.0;
        for (size_t k = 0; k < static_cast<size_t>(p); ++k)
        {
            s += rf[k] * P.b[k];
        }
        R.b.push_back(s);
        R.p = p + 1;
    }
    else if (kind == "mixeq")
    {
        check_size(rf, p * p, "mixeq matrix");
        const auto up = static_cast<size_t>(p);
        for (size_t i = 0; i < up; ++i)
        {
            for (size_t j = 0; j < un; ++j)
            {
                double s = 0.0;
                for (size_t k = 0; k < up; ++k)
                {
                    s += rf[i * up + k] * P.A[k * un + j];
                }
                R.A[i * un + j] = s;
            }
            double s = 0.0;
            for (size_t k = 0; k < up; ++k)
            {
                s += rf[i * up + k] * P.b[k];
            }
            R.b[i] = s;
        }
    }
    else if (kind == "scaleeq" || kind == "scaleineq")
    {
        const bool eq   = kind == "scaleeq";
        const auto rows = static_cast<size_t>(eq ? p : m);
        check_size(rf, static_cast<int64_t>(rows), "scale factors");
        auto& M = eq ? R.A : R.G;
        auto& v = eq ? R.b : R.h;
        for (size_t i = 0; i < rows; ++i)
        {
            if (!(eq ? rf[i] != 0.0 : rf[i] > 0.0))
            {
                throw bad_op("scale factor sign");
            }
            for (size_t j = 0; j < un; ++j)
            {
                M[i * un + j] = rf[i] * M[i * un + j];
            }
            v[i] = rf[i] * v[i];
        }
    }
    else if (kind == "scaleobj")
    {
        check_size(rf, 1, "objective factor");
        if (!(rf[0] > 0.0))
        {
            throw bad_op("objective factor sign");
        }
        for (auto& q : R.Q)
        {
            q = rf[0] * q;
        }
        for (auto& c : R.c)
        {
            c = rf[0] * c;
        }
    }
    else if (kind == "permvars")
    {
        if (static_cast<int64_t>(ri.size()) != n)
        {
            throw bad_op("permvars size");
        }
        const auto perm = check_perm(ri, 0, n);
        const auto at   = [&](size_t j) { return static_cast<size_t>(perm[j]); };
        for (size_t j = 0; j < un; ++j)
        {
            R.c[j] = P.c[at(j)];
            if (!P.x0.empty())
            {
                R.x0[j] = P.x0[at(j)];
            }
            for (size_t i = 0; i < static_cast<size_t>(p); ++i)
            {
                R.A[i * un + j] = P.A[i * un + at(j)];
            }
            for (size_t i = 0; i < static_cast<size_t>(m); ++i)
            {
                R.G[i * un + j] = P.G[i * un + at(j)];
            }
            if (!P.lp)
            {
                for (size_t k = 0; k < un; ++k)
                {
                    R.Q[j * un + k] = P.Q[at(j) * un + at(k)];
                }
            }
        }
    }
    else if (kind == "permrows")
    {
        if (static_cast<int64_t>(ri.size()) != p + m)
        {
            throw bad_op("permrows size");
        }
        const auto pe = check_perm(ri, 0, p);
        const auto pi = check_perm(ri, static_cast<size_t>(p), m);
        for (size_t i = 0; i < static_cast<size_t>(p); ++i)
        {
            const auto k = static_cast<size_t>(pe[i]);
            std::copy(P.A.begin() + static_cast<std::ptrdiff_t>(k * un),
                      P.A.begin() + static_cast<std::ptrdiff_t>((k + 1) * un),
                      R.A.begin() + static_cast<std::ptrdiff_t>(i * un));
            R.b[i] = P.b[k];
        }
        for (size_t i = 0; i < static_cast<size_t>(m); ++i)
        {
            const auto k = static_cast<size_t>(pi[i]);
            std::copy(P.G.begin() + static_cast<std::ptrdiff_t>(k * un),
                      P.G.begin() + static_cast<std::ptrdiff_t>((k + 1) * un),
                      R.G.begin() + static_cast<std::ptrdiff_t>(i * un));
            R.h[i] = P.h[k];
        }
    }
    else
    {
        throw bad_op("restatement kind " + kind);
    }
    return R;
}

matrix_t to_matrix(const dvec& v, int64_t rows, int64_t cols)
{
    matrix_t M(rows, cols);
    for (int64_t i = 0; i < rows; ++i)
    {
        for (int64_t j = 0; j < cols; ++j)
        {
            M(i, j) = v[static_cast<size_t>(i * cols + j)];
        }
    }
    return M;
}

vector_t to_vector(const dvec& v)
{
    vector_t x(static_cast<tensor_size_t>(v.size()));
    for (size_t i = 0; i < v.size(); ++i)
    {
        x(static_cast<tensor_size_t>(i)) = v[i];
    }
    return x;
}

dvec from_vector(const vector_t& x)
{
    dvec v(static_cast<size_t>(x.size()));
    for (size_t i = 0; i < v.size(); ++i)
    {
        v[i] = x(static_cast<tensor_size_t>(i));
    }
    return v;
}

// rows [r0, r1) of a row-major matrix / of a vector
inline dvec rows_of(const dvec& M, const int64_t n, const int64_t r0, const int64_t r1)
{
    return dvec(M.begin() + r0 * n, M.begin() + r1 * n);
}

template <class tprogram>
void constrain(tprogram& program, const prog_t& P)
{
    // the constraints of one call may come in SEVERAL blocks (stack.h places them one after the other, equalities and
    // inequalities interleaved in any order): programs with >= 3 equalities hand them over as three blocks, with the inequalities
    // - split in two when there are >= 2 - in between (seeded change C04-h1: the row offset of the third equality block)
    if (P.p >= 3)
    {
        const auto eq = [&](const int64_t r0, const int64_t r1)
        { return program::make_equality(to_matrix(rows_of(P.A, P.n, r0, r1), r1 - r0, P.n), to_vector(rows_of(P.b, 1, r0, r1))); };
        const auto in = [&](const int64_t r0, const int64_t r1)
        { return program::make_inequality(to_matrix(rows_of(P.G, P.n, r0, r1), r1 - r0, P.n), to_vector(rows_of(P.h, 1, r0, r1))); };
        if (P.m >= 2)
        {
            program.constrain(eq(0, 1), in(0, 1), eq(1, 2), in(1, P.m), eq(2, P.p));
        }
        else if (P.m == 1)
        {
            program.constrain(eq(0, 1), eq(1, 2), in(0, 1), eq(2, P.p));
        }
        else
        {
            program.constrain(eq(0, 1), eq(1, 2), eq(2, P.p));
        }
        return;
    }
    if (P.p > 0 && P.m > 0)
    {
        program.constrain(program::make_equality(to_matrix(P.A, P.p, P.n), to_vector(P.b)),
                          program::make_inequality(to_matrix(P.G, P.m, P.n), to_vector(P.h)));
    }
    else if (P.p > 0)
    {
        program.constrain(program::make_equality(to_matrix(P.A, P.p, P.n), to_vector(P.b)));
    }
    else if (P.m > 0)
    {
        program.constrain(program::make_inequality(to_matrix(P.G, P.m, P.n), to_vector(P.h)));
    }
}

template <class tprogram>
program::solver_state_t run(const program::solver_t& solver, const tprogram& program, const prog_t& P, bool user_x0,
                            dvec& x0_used)
{
    const auto logger = make_null_logger();
    if (P.m > 0)
    {
        // what make_x0 of solver.cpp computes (public API, deterministic)
        const auto x0 = program.make_strictly_feasible();
        x0_used       = user_x0 ? P.x0 : (x0 ? from_vector(x0.value()) : dvec(static_cast<size_t>(P.n), 0.0));
    }
    g_trace.clear();
    verif::trace_sink() = &sink;
    try
    {
        auto state = user_x0 ? solver.solve(program, to_vector(P.x0), logger) : solver.solve(program, logger);
        verif::trace_sink() = nullptr;
        return state;
    }
    catch (...)
    {
        verif::trace_sink() = nullptr;
        throw;
    }
}
} // namespace

std::string vh::execute(toks_t& toks, std::string& aug)
{
    if (toks.s() != "program" || toks.s() != "solve")
    {
        throw bad_op("family/op");
    }
    prog_t     P;
    const auto kind = toks.s();
    if (kind != "lp" && kind != "qp")
    {
        throw bad_op("kind");
    }
    P.lp = kind == "lp";
    P.n  = toks.i64();
    P.p  = toks.i64();
    P.m  = toks.i64();
    if (P.n < 1 || P.p < 0 || P.m < 0 || P.n > 64 || P.p > 64 || P.m > 256)
    {
        throw bad_op("sizes");
    }
    P.Q = toks.fs();
    P.c = toks.fs();
    P.A = toks.fs();
    P.b = toks.fs();
    P.G = toks.fs();
    P.h = toks.fs();
    check_size(P.Q, P.lp ? 0 : P.n * P.n, "Q");
    check_size(P.c, P.n, "c");
    check_size(P.A, P.p * P.n, "A");
    check_size(P.b, P.p, "b");
    check_size(P.G, P.m * P.n, "G");
    check_size(P.h, P.m, "h");
    const auto x0mode = toks.i64();
    P.x0              = toks.fs();
    if (x0mode != 0 && x0mode != 1)
    {
        throw bad_op("x0mode");
    }
    check_size(P.x0, x0mode == 1 ? P.n : 0, "x0");
    const auto pars = toks.fs();
    if (!pars.empty() && pars.size() != 6 && pars.size() != 8)
    {
        throw bad_op("solver parameters");
    }
    const auto rkind = toks.s();
    const auto ri    = toks.ints();
    const auto rf    = toks.fs();

    const auto R = restate(P, rkind, ri, rf);

    auto solver = program::solver_t{};
    if (!pars.empty())
    {
        const char* names[] = {"solver::s0",   "solver::miu",     "solver::alpha",
                               "solver::beta", "solver::epsilon", "solver::epsilon0"};
        for (size_t i = 0; i < 6; ++i)
        {
            solver.parameter(names[i]) = pars[i];
        }
        if (pars.size() == 8)
        {
            // the two iteration budgets (the model reads them back from the `T` section like every other parameter)
            solver.parameter("solver::max_iters")         = static_cast<int64_t>(pars[6]);
            solver.parameter("solver::max_lsearch_iters") = static_cast<int64_t>(pars[7]);
        }
    }
    dvec       x0_used;
    auto       state = program::solver_state_t{};
    if (R.lp)
    {
        auto program = program::linear_program_t{to_vector(R.c)};
        constrain(program, R);
        state = run(solver, program, R, x0mode == 1, x0_used);
    }
    else
    {
        auto program = program::quadratic_program_t{to_matrix(R.Q, R.n, R.n), to_vector(R.c)};
        constrain(program, R);
        state = run(solver, program, R, x0mode == 1, x0_used);
    }

    out_t a; // augmentation
    out_t r; // result
    a << "T" << 1e-3 << epsilon2<scalar_t>() << std::numeric_limits<scalar_t>::max() << std::nan("")
      << solver.parameter("solver::s0").value<scalar_t>() << solver.parameter("solver::miu").value<scalar_t>()
      << solver.parameter("solver::alpha").value<scalar_t>() << solver.parameter("solver::beta").value<scalar_t>()
      << solver.parameter("solver::epsilon").value<scalar_t>()
      << solver.parameter("solver::epsilon0").value<scalar_t>()
      << solver.parameter("solver::max_iters").value<tensor_size_t>()
      << solver.parameter("solver::max_lsearch_iters").value<tensor_size_t>();
    a << "P";
    a.flist(R.Q).flist(R.c).flist(R.A).flist(R.b).flist(R.G).flist(R.h).flist(x0_used);

    r << "ok"
      << "X" << static_cast<int>(state.m_status) << state.m_iters << state.m_fx;
    r.flist(from_vector(state.m_x)).flist(from_vector(state.m_u)).flist(from_vector(state.m_v));
    r << "K" << state.m_kkt; // the KKT optimality test `solver_state_t::update` left in the returned state

    bool seen_norm = false, seen_iter = false;
    dvec iter_x, iter_u;
    for (const auto& rec : g_trace)
    {
        cursor_t c{rec.values};
        if (rec.tag == std::string("program.normalized"))
        {
            if (seen_norm)
            {
                throw std::logic_error("two program.normalized records");
            }
            seen_norm       = true;
            const auto mufx = c.scalar();
            const auto n    = static_cast<int64_t>(c.scalar());
            const auto p    = static_cast<int64_t>(c.scalar());
            const auto m    = static_cast<int64_t>(c.scalar());
            const auto Q = c.list(), cc = c.list(), A = c.list(), b = c.list(), G = c.list(), h = c.list();
            if (n != R.n || m != R.m || p > R.p)
            {
                throw std::logic_error("program.normalized sizes");
            }
            const bool reduced = p != R.p;
            a << "R" << (reduced ? 1 : 0);
            if (reduced)
            {
                a.flist(A).flist(b);
            }
            r << "N" << mufx << p;
            r.flist(Q).flist(cc).flist(A).flist(b).flist(G).flist(h);
            if (R.m > 0)
            {
                // whether the loop was entered (otherwise: x0 not strictly feasible)
                bool started = false;
                for (const auto& other : g_trace)
                {
                    started = started || other.tag == std::string("program.iter");
                }
                r << "B" << (started ? 1 : 0);
            }
        }
        else if (rec.tag == std::string("program.iter"))
        {
            const auto k   = static_cast<int64_t>(c.scalar());
            const auto miu = c.scalar();
            (void)miu;
            const auto fx = c.scalar(), eta = c.scalar();
            const auto x = c.list(), u = c.list(), v = c.list(), rd = c.list(), rp = c.list(), rc = c.list();
            a << "I";
            a.flist(x).flist(u).flist(v);
            if (!seen_iter)
            {
                seen_iter = true;
                r << "U";
                r.flist(u);
            }
            r << "I" << k << fx << eta;
            r.flist(rd).flist(rp).flist(rc);
            iter_x = x;
            iter_u = u;
        }
        else if (rec.tag == std::string("program.step"))
        {
            const auto s = c.scalar(), s0 = c.scalar();
            (void)s0;
            const auto x = c.list(), u = c.list(), dx = c.list(), du = c.list(), dv = c.list();
            if (x != iter_x || u != iter_u)
            {
                throw std::logic_error("program.step does not follow its program.iter");
            }
            a << "S";
            a.flist(dx).flist(du).flist(dv);
            r << "S" << s;
        }
        else if (rec.tag == std::string("program.done"))
        {
            const auto epsilon = c.scalar();
            (void)epsilon;
            const auto feasible = c.scalar(), eta = c.scalar(), rd = c.scalar(), rp = c.scalar(), fx = c.scalar();
            const auto x = c.list(), u = c.list(), v = c.list();
            a << "D";
            a.flist(x).flist(u).flist(v);
            r << "D" << static_cast<int>(feasible) << eta << rd << rp << fx;
        }
        else if (rec.tag == std::string("program.noineq"))
        {
            const auto valid = c.scalar(), aprox = c.scalar(), fx = c.scalar();
            const auto x = c.list(), v = c.list(), rd = c.list(), rp = c.list();
            a << "Z";
            a.flist(x).flist(v);
            r << "Z" << static_cast<int>(valid) << static_cast<int>(aprox) << fx;
            r.flist(rd).flist(rp);
        }
        else
        {
            throw std::logic_error("unexpected trace record " + rec.tag);
        }
    }
    if (!seen_norm)
    {
        throw std::logic_error("no program.normalized record");
    }
    a << "E";
    r << "E" << static_cast<int>(state.m_status);
    g_trace.clear();

    aug += " " + a.str();
    return r.str();
}

int main()
{
    return vh::main_loop();
}
