// C06 harness: values, gradients and declared convexity of every evaluable object of libnano:
//   fn    registered benchmark functions (function_t::all())          fn <op> <id> <dims> <summands> ...
//   loss  registered losses (loss_t::all()) as functions of the output loss <op> <id> <alpha> <n t...> ...
//   ct    the 11 constraint kinds through nano::vgrad(constraint_t,…)   ct <op> <kind> <params...> ...
//   lin   linear::function_t over an in-memory dataset                 lin <op> <loss> <alpha> <l1> <l2> <batch> <threads> <data> ...
//   gbias / gscale / ggrads   gboost::bias_function_t / scale_function_t / grads_function_t
//   sfit / squad              quadratic_surrogate_fit_t / quadratic_surrogate_t (src/tuner/surrogate.cpp)
//   linsub / gbiassub         as lin / gbias with the iterator over a subset of the samples: <data> is followed by <k> i1 … ik
//   fbase hist                histories on one function_t: constrain (4 overloads) / valid / vgrad call counters / clear_statistics
//   fn flags <id> <dims> <summands> -> ok size convex smooth mu;  dump sizes <maxd>;  loss batch4 (4-D samples)
// Generic ops on an object `f` (every op line is self-contained):
//   eval  <spec> <x>                 -> ok size f(x)[value only] f(x)[with gradient] g(x)
//   cd|cvx <spec> <k> <p0> … <pk-1>  -> ok convex smooth mu f(p0)[value only] f(p0)[with gradient] g(p0) f(p1) … f(pk-1)
//   climb <spec> <x> <z> <steps> <seed> <radius>
//                                    -> ok convex smooth mu x z f(x) f(x) g(x) f(z)   (x, z = the pair with the largest
//                                       normalised violation of the declared convexity inequality found by a random
//                                       local search started at the given pair; the python oracle re-evaluates it)
// Loss-specific ops:
//   loss sample <id> <alpha> <t> <o>          -> ok value g error convex smooth
//   loss batch  <id> <alpha> <n> <m> <T> <O>  -> ok (values errors grads)[one call on m samples] (same)[m calls on one sample]
// dump flags / dump kinks <dims>: tables for Gen/Flags.lean and for the generator (kink positions of `kinks`).
#include "common.h"
#include <function/benchmark/linear.h>
#include <nano/core/stats.h>
#include <nano/dataset.h>
#include <nano/dataset/iterator.h>
#include <nano/function.h>
#include <nano/function/constraint.h>
#include <nano/function/util.h>
#include <nano/gboost/function.h>
#include <nano/generator/elemwise_identity.h>
#include <nano/linear/function.h>
#include <nano/loss.h>
#include <nano/machine/cluster.h>
#include <nano/tuner/surrogate.h>

#include <functional>
#include <memory>

using namespace nano;
using vh::bad_op;
using vh::out_t;
using vh::toks_t;

namespace
{
using dvec = std::vector<double>;

vector_t to_vector(const dvec& v)
{
    vector_t x(static_cast<tensor_size_t>(v.size()));
    for (size_t i = 0; i < v.size(); ++i)
    {
        x(static_cast<tensor_size_t>(i)) = v[i];
    }
    return x;
}

template <class tvec>
void put_vec(out_t& out, const tvec& v)
{
    out << static_cast<long long>(v.size());
    for (tensor_size_t i = 0; i < v.size(); ++i)
    {
        out << static_cast<double>(v(i));
    }
}

// ---- an evaluable object -------------------------------------------------------------------------------
struct object_t
{
    std::function<scalar_t(const vector_t&, vector_t*)> eval; // value, and the gradient when asked for
    tensor_size_t                                      size{0};
    bool                                               convex{false};
    bool                                               smooth{false};
    scalar_t                                           mu{0.0};
    std::string                                        extra; // parameters a model needs (appended to the aug line of `eval`)
    std::shared_ptr<function_t>                        function; // set for the benchmark functions (monitor of nano::is_convex)
};

// every gradient buffer handed to the library is pre-filled with this value: a component that is still equal to it
// afterwards was never written (the python oracle rejects it: key <object>:gradient-unwritten)
constexpr double kSentinel = -7.2511e+77;

void fill_sentinel(vector_t& gx, const tensor_size_t n)
{
    gx.resize(n);
    gx.full(kSentinel);
}

scalar_t call(const function_t& f, const vector_t& x, vector_t* gx)
{
    if (x.size() != f.size())
    {
        throw bad_op("point size " + std::to_string(x.size()) + " != " + std::to_string(f.size()));
    }
    if (gx != nullptr)
    {
        fill_sentinel(*gx, x.size());
        return f.vgrad(x, *gx);
    }
    return f.vgrad(x);
}

object_t from_function(std::shared_ptr<function_t> f)
{
    object_t o;
    o.size   = f->size();
    o.convex = f->convex();
    o.smooth = f->smooth();
    o.mu     = f->strong_convexity();
    o.eval   = [f](const vector_t& x, vector_t* gx) { return call(*f, x, gx); };
    o.function = f;
    return o;
}

std::string flist_str(const scalar_t* data, tensor_size_t n)
{
    out_t out;
    out << n;
    for (tensor_size_t i = 0; i < n; ++i)
    {
        out << data[i];
    }
    return out.str();
}

// parameters of the prototypes that are drawn at construction (reproduced with the constructor's own calls)
matrix_t kinks_matrix(const tensor_size_t dims)
{
    return make_random_matrix<scalar_t>(std::max(tensor_size_t(1), static_cast<tensor_size_t>(std::sqrt(dims))), dims,
                                        -1.0, +1.0, seed_t{42U});
}

std::string fn_extra(const std::string& id, const tensor_size_t dims, const tensor_size_t summands)
{
    out_t out;
    if (id == "kinks")
    {
        const auto K      = kinks_matrix(dims);
        auto       offset = 0.0;
        auto       kinks  = vector_t{K.rows()};
        for (tensor_size_t i = 0; i < K.cols(); ++i)
        {
            kinks.vector() = K.matrix().col(i);
            const auto opt = median(std::begin(kinks), std::end(kinks));
            offset += (kinks.array() - opt).abs().sum();
        }
        out << K.rows() << K.cols() << flist_str(K.data(), K.size()) << offset;
    }
    else if (id == "quadratic")
    {
        const auto a = make_random_vector<scalar_t>(dims, -1.0, +1.0, seed_t{42});
        const auto R = make_random_matrix<scalar_t>(dims, dims, -1.0, +1.0, seed_t{42});
        matrix_t   A = matrix_t::identity(dims, dims) + R * R.transpose();
        out << flist_str(a.data(), a.size()) << flist_str(A.data(), A.size());
    }
    else if (id.find('+') != std::string::npos)
    {
        // elastic-net prototypes: the synthetic data of the constructor (same calls), the regularisation factors from the id
        const auto n     = std::max(dims, tensor_size_t{2});
        const auto base  = id.substr(0, id.find('+'));
        const auto lb    = id.find('[');
        const auto rb    = id.find(']');
        const auto kind  = id.substr(id.find('+') + 1, lb - id.find('+') - 1);
        const auto args  = id.substr(lb + 1, rb - lb - 1);
        auto       a1    = 0.0;
        auto       a2    = 0.0;
        if (kind == "ridge")
        {
            a2 = std::stod(args);
        }
        else if (kind == "lasso")
        {
            a1 = std::stod(args);
        }
        else
        {
            a1 = std::stod(args.substr(0, args.find(',')));
            a2 = std::stod(args.substr(args.find(',') + 1));
        }
        const auto put = [&](const auto& data)
        {
            out << data.inputs().rows() << data.inputs().cols() << flist_str(data.inputs().data(), data.inputs().size())
                << data.bopt()(0) << flist_str(data.targets().data(), data.targets().size()) << a1 << a2;
        };
        if (base == "hinge" || base == "logistic")
        {
            put(synthetic_sclass_t{summands, 1, n});
        }
        else
        {
            put(synthetic_scalar_t{summands, 1, n});
        }
    }
    else if (id == "maxquad")
    {
        // function_maxquad_t(dims, kdims = 5): the members are private; the two fill() of maxquad.cpp:7-43 are repeated here
        // (a changed formula in the source shows up as a disagreement with the model)
        const tensor_size_t kdims = 5;
        auto                Aks   = tensor3d_t{kdims, dims, dims};
        auto                bks   = tensor2d_t{kdims, dims};
        for (tensor_size_t k = 0; k < kdims; ++k)
        {
            auto       A  = Aks.tensor(k);
            auto       b  = bks.tensor(k);
            const auto sk = static_cast<scalar_t>(k + 1);
            for (tensor_size_t i = 0; i < dims; ++i)
            {
                const auto si = static_cast<scalar_t>(i + 1);
                for (tensor_size_t j = i + 1; j < dims; ++j)
                {
                    const auto sj = static_cast<scalar_t>(j + 1);
                    A(i, j) = A(j, i) = std::exp(si / sj) * std::cos(si * sj) * sin(sk);
                }
                auto sum = 0.0;
                for (tensor_size_t j = 0; j < dims; ++j)
                {
                    if (i != j)
                    {
                        sum += std::fabs(A(i, j));
                    }
                }
                A(i, i) = si * std::fabs(std::sin(sk)) / static_cast<scalar_t>(dims) + sum;
                b(i)    = std::exp(si / sk) * std::sin(si * sk);
            }
        }
        out << kdims << dims << flist_str(Aks.data(), Aks.size()) << flist_str(bks.data(), bks.size());
    }
    else if (id == "geometric-optimization")
    {
        const auto a = make_random_vector<scalar_t>(summands, -1.0, +1.0, seed_t{42});
        const auto A = make_random_matrix<scalar_t>(summands, dims, -1.0 / static_cast<scalar_t>(dims),
                                                    +1.0 / static_cast<scalar_t>(dims), seed_t{42});
        out << flist_str(a.data(), a.size()) << flist_str(A.data(), A.size());
    }
    return out.str();
}

object_t parse_fn(toks_t& toks)
{
    const auto id       = toks.s();
    const auto dims     = static_cast<tensor_size_t>(toks.i64());
    const auto summands = static_cast<tensor_size_t>(toks.i64());
    if (dims < 1 || dims > 4096 || summands < 1 || summands > 100000)
    {
        throw bad_op("dims/summands");
    }
    const auto proto = function_t::all().get(id);
    if (!proto)
    {
        throw bad_op("unknown function " + id);
    }
    auto o  = from_function(std::shared_ptr<function_t>(proto->make(dims, summands)));
    o.extra = fn_extra(id, dims, summands);
    return o;
}

rloss_t make_loss(const std::string& id, const scalar_t alpha)
{
    auto loss = loss_t::all().get(id);
    if (!loss)
    {
        throw bad_op("unknown loss " + id);
    }
    if (id == "pinball")
    {
        loss->parameter("loss::pinball::alpha") = alpha;
    }
    return loss;
}

tensor4d_t to_tensor4(const dvec& v, const tensor_size_t samples, const tensor_size_t n)
{
    tensor4d_t t(samples, n, 1, 1);
    if (static_cast<tensor_size_t>(v.size()) != samples * n)
    {
        throw bad_op("tensor size");
    }
    for (tensor_size_t i = 0; i < samples * n; ++i)
    {
        t(i) = v[static_cast<size_t>(i)];
    }
    return t;
}

object_t parse_loss(toks_t& toks)
{
    const auto id     = toks.s();
    const auto alpha  = toks.f();
    const auto target = toks.fs();
    const auto n      = static_cast<tensor_size_t>(target.size());
    if (n < 1)
    {
        throw bad_op("empty target");
    }
    auto       loss    = std::shared_ptr<loss_t>(make_loss(id, alpha));
    const auto targets = std::make_shared<tensor4d_t>(to_tensor4(target, 1, n));

    object_t o;
    o.size   = n;
    o.convex = loss->convex();
    o.smooth = loss->smooth();
    o.mu     = 0.0;
    o.eval   = [loss, targets, n](const vector_t& x, vector_t* gx)
    {
        if (x.size() != n)
        {
            throw bad_op("output size");
        }
        tensor4d_t outputs(1, n, 1, 1);
        outputs.vector() = x.vector();
        tensor1d_t values;
        loss->value(*targets, outputs, values);
        if (gx != nullptr)
        {
            tensor4d_t vgrads(1, n, 1, 1);
            vgrads.full(kSentinel);
            loss->vgrad(*targets, outputs, vgrads.tensor());
            gx->resize(n);
            gx->vector() = vgrads.vector();
        }
        return values(0);
    };
    return o;
}

object_t from_constraint(std::shared_ptr<constraint_t> c, const tensor_size_t n)
{
    object_t o;
    o.size   = n;
    o.convex = ::nano::convex(*c);
    o.smooth = ::nano::smooth(*c);
    o.mu     = ::nano::strong_convexity(*c);
    o.eval   = [c, n](const vector_t& x, vector_t* gx)
    {
        if (x.size() != n)
        {
            throw bad_op("point size");
        }
        if (gx != nullptr)
        {
            fill_sentinel(*gx, n);
            return ::nano::vgrad(*c, x, *gx);
        }
        return ::nano::vgrad(*c, x);
    };
    return o;
}

object_t parse_ct(toks_t& toks)
{
    const auto kind = toks.s();
    if (kind == "constant" || kind == "minimum" || kind == "maximum")
    {
        const auto n     = static_cast<tensor_size_t>(toks.i64());
        const auto value = toks.f();
        const auto dim   = static_cast<tensor_size_t>(toks.i64());
        if (n < 1 || dim < 0 || dim >= n)
        {
            throw bad_op("dimension");
        }
        constraint_t c;
        if (kind == "constant")
        {
            c = constraint::constant_t{value, dim};
        }
        else if (kind == "minimum")
        {
            c = constraint::minimum_t{{value, dim}};
        }
        else
        {
            c = constraint::maximum_t{{value, dim}};
        }
        return from_constraint(std::make_shared<constraint_t>(std::move(c)), n);
    }
    if (kind == "ball-eq" || kind == "ball-ineq")
    {
        const auto origin = to_vector(toks.fs());
        const auto radius = toks.f();
        const auto n      = origin.size();
        constraint_t c;
        if (kind == "ball-eq")
        {
            c = constraint::euclidean_ball_equality_t{{origin, radius}};
        }
        else
        {
            c = constraint::euclidean_ball_inequality_t{{origin, radius}};
        }
        return from_constraint(std::make_shared<constraint_t>(std::move(c)), n);
    }
    if (kind == "linear-eq" || kind == "linear-ineq")
    {
        const auto q = to_vector(toks.fs());
        const auto r = toks.f();
        const auto n = q.size();
        constraint_t c;
        if (kind == "linear-eq")
        {
            c = constraint::linear_equality_t{{q, r}};
        }
        else
        {
            c = constraint::linear_inequality_t{{q, r}};
        }
        return from_constraint(std::make_shared<constraint_t>(std::move(c)), n);
    }
    if (kind == "quadratic-eq" || kind == "quadratic-ineq")
    {
        const auto Pv = toks.fs();
        const auto q  = to_vector(toks.fs());
        const auto r  = toks.f();
        const auto n  = q.size();
        if (static_cast<tensor_size_t>(Pv.size()) != n * n || n < 1)
        {
            throw bad_op("P size");
        }
        matrix_t P(n, n);
        for (tensor_size_t i = 0; i < n * n; ++i)
        {
            P(i) = Pv[static_cast<size_t>(i)];
        }
        constraint_t c;
        if (kind == "quadratic-eq")
        {
            c = constraint::quadratic_equality_t{{P, q, r}};
        }
        else
        {
            c = constraint::quadratic_inequality_t{{P, q, r}};
        }
        return from_constraint(std::make_shared<constraint_t>(std::move(c)), n);
    }
    if (kind == "functional-eq" || kind == "functional-ineq")
    {
        const auto id       = toks.s();
        const auto dims     = static_cast<tensor_size_t>(toks.i64());
        const auto summands = static_cast<tensor_size_t>(toks.i64());
        const auto proto    = function_t::all().get(id);
        if (!proto || dims < 1 || dims > 4096)
        {
            throw bad_op("unknown function " + id);
        }
        auto       f = proto->make(dims, summands);
        const auto n = f->size();
        constraint_t c;
        if (kind == "functional-eq")
        {
            c = constraint::functional_equality_t{std::move(f)};
        }
        else
        {
            c = constraint::functional_inequality_t{std::move(f)};
        }
        auto o  = from_constraint(std::make_shared<constraint_t>(std::move(c)), n);
        o.extra = fn_extra(id, dims, summands);
        return o;
    }
    throw bad_op("unknown constraint kind " + kind);
}

// ---- in-memory datasets for the ML objectives -------------------------------------------------------------
// <data> := <S> <I> <ttype R|S|M> <K> inputs(S*I) targets (R: S*K doubles; S: S labels in [0,K); M: S*K 0/1)
struct data_spec_t
{
    tensor_size_t        S{0}, I{0}, K{0};
    char                 ttype{'R'};
    dvec                 inputs;
    dvec                 rtargets;
    std::vector<int64_t> itargets;
};

data_spec_t parse_data(toks_t& toks)
{
    data_spec_t d;
    d.S     = static_cast<tensor_size_t>(toks.i64());
    d.I     = static_cast<tensor_size_t>(toks.i64());
    d.ttype = toks.s().at(0);
    d.K     = static_cast<tensor_size_t>(toks.i64());
    if (d.S < 1 || d.S > 10000 || d.I < 1 || d.I > 64 || d.K < 1 || d.K > 64)
    {
        throw bad_op("data shape");
    }
    d.inputs = toks.fs();
    if (static_cast<tensor_size_t>(d.inputs.size()) != d.S * d.I)
    {
        throw bad_op("inputs size");
    }
    if (d.ttype == 'R')
    {
        d.rtargets = toks.fs();
        if (static_cast<tensor_size_t>(d.rtargets.size()) != d.S * d.K)
        {
            throw bad_op("targets size");
        }
    }
    else if (d.ttype == 'S' || d.ttype == 'M')
    {
        d.itargets = toks.ints();
        const auto want = (d.ttype == 'S') ? d.S : (d.S * d.K);
        if (static_cast<tensor_size_t>(d.itargets.size()) != want || (d.ttype == 'S' && d.K < 2))
        {
            throw bad_op("targets size");
        }
        for (const auto v : d.itargets)
        {
            if (v < 0 || (d.ttype == 'S' ? v >= d.K : v > 1))
            {
                throw bad_op("label");
            }
        }
    }
    else
    {
        throw bad_op("target type");
    }
    return d;
}

class ds_t final : public datasource_t
{
public:
    explicit ds_t(data_spec_t spec)
        : datasource_t("c06")
        , m_spec(std::move(spec))
    {
    }

    rdatasource_t clone() const override { return std::make_unique<ds_t>(*this); }

private:
    void do_load() override
    {
        const auto& d = m_spec;
        features_t  features;
        for (tensor_size_t i = 0; i < d.I; ++i)
        {
            features.push_back(feature_t{"x" + std::to_string(i)}.scalar(feature_type::float64));
        }
        strings_t labels;
        for (tensor_size_t k = 0; k < d.K; ++k)
        {
            labels.push_back("k" + std::to_string(k));
        }
        switch (d.ttype)
        {
        case 'R': features.push_back(feature_t{"y"}.scalar(feature_type::float64, make_dims(d.K, 1, 1))); break;
        case 'S': features.push_back(feature_t{"y"}.sclass(labels)); break;
        default: features.push_back(feature_t{"y"}.mclass(labels)); break;
        }
        resize(d.S, features, static_cast<size_t>(d.I));
        for (tensor_size_t s = 0; s < d.S; ++s)
        {
            for (tensor_size_t i = 0; i < d.I; ++i)
            {
                set(s, i, d.inputs[static_cast<size_t>(s * d.I + i)]);
            }
            if (d.ttype == 'R')
            {
                tensor_mem_t<scalar_t, 3> t(d.K, 1, 1);
                for (tensor_size_t k = 0; k < d.K; ++k)
                {
                    t(k) = d.rtargets[static_cast<size_t>(s * d.K + k)];
                }
                if (d.K == 1)
                {
                    set(s, d.I, t(0));
                }
                else
                {
                    set(s, d.I, t);
                }
            }
            else if (d.ttype == 'S')
            {
                set(s, d.I, d.itargets[static_cast<size_t>(s)]);
            }
            else
            {
                tensor_mem_t<int8_t, 1> t(d.K);
                for (tensor_size_t k = 0; k < d.K; ++k)
                {
                    t(k) = static_cast<int8_t>(d.itargets[static_cast<size_t>(s * d.K + k)]);
                }
                set(s, d.I, t);
            }
        }
    }

    data_spec_t m_spec;
};

// everything an ML objective refers to, kept alive together with the closure
struct ml_ctx_t
{
    std::unique_ptr<ds_t>               source;
    std::unique_ptr<dataset_t>          dataset;
    indices_t                           samples;
    std::unique_ptr<flatten_iterator_t> fiterator;
    std::unique_ptr<targets_iterator_t> titerator;
    rloss_t                             loss;
    cluster_t                           cluster;
    tensor4d_t                          soutputs, woutputs;
    std::unique_ptr<function_t>         function;
};

// `subset`: the data spec is followed by `<k> i1 … ik`, the (distinct) samples the iterator runs over, in this order
std::shared_ptr<ml_ctx_t> make_ctx(toks_t& toks, const bool flatten, const bool subset = false)
{
    auto       ctx     = std::make_shared<ml_ctx_t>();
    const auto lid     = toks.s();
    const auto alpha   = toks.f();
    ctx->loss          = make_loss(lid, alpha);
    const auto batch   = static_cast<tensor_size_t>(toks.i64());
    const auto threads = static_cast<size_t>(toks.i64());
    if (batch < 1 || threads < 1 || threads > 8)
    {
        throw bad_op("batch/threads");
    }
    ctx->source = std::make_unique<ds_t>(parse_data(toks));
    ctx->source->load();
    ctx->dataset = std::make_unique<dataset_t>(*ctx->source, threads);
    ctx->dataset->add<scalar_identity_generator_t>();
    ctx->samples = arange(0, ctx->dataset->samples());
    if (subset)
    {
        const auto idx = toks.ints();
        if (idx.empty() || static_cast<tensor_size_t>(idx.size()) > ctx->dataset->samples())
        {
            throw bad_op("subset size");
        }
        std::vector<bool> seen(static_cast<size_t>(ctx->dataset->samples()), false);
        ctx->samples.resize(static_cast<tensor_size_t>(idx.size()));
        for (size_t i = 0; i < idx.size(); ++i)
        {
            if (idx[i] < 0 || idx[i] >= ctx->dataset->samples() || seen[static_cast<size_t>(idx[i])])
            {
                throw bad_op("subset index");
            }
            seen[static_cast<size_t>(idx[i])]       = true;
            ctx->samples(static_cast<tensor_size_t>(i)) = idx[i];
        }
    }
    if (flatten)
    {
        ctx->fiterator = std::make_unique<flatten_iterator_t>(*ctx->dataset, ctx->samples);
        ctx->fiterator->scaling(scaling_type::none);
        ctx->fiterator->batch(batch);
    }
    else
    {
        ctx->titerator = std::make_unique<targets_iterator_t>(*ctx->dataset, ctx->samples);
        ctx->titerator->scaling(scaling_type::none);
        ctx->titerator->batch(batch);
    }
    return ctx;
}

object_t from_ctx(const std::shared_ptr<ml_ctx_t>& ctx)
{
    object_t o;
    o.size   = ctx->function->size();
    o.convex = ctx->function->convex();
    o.smooth = ctx->function->smooth();
    o.mu     = ctx->function->strong_convexity();
    o.eval   = [ctx](const vector_t& x, vector_t* gx) { return call(*ctx->function, x, gx); };
    return o;
}

// lin <loss> <alpha> <batch> <threads> <data> <l1> <l2>
object_t parse_lin(toks_t& toks, const bool subset = false)
{
    auto       ctx = make_ctx(toks, true, subset);
    const auto l1  = toks.f();
    const auto l2  = toks.f();
    if (!(l1 >= 0.0) || !(l2 >= 0.0))
    {
        throw bad_op("regularisation");
    }
    ctx->function = std::make_unique<linear::function_t>(*ctx->fiterator, *ctx->loss, l1, l2);
    return from_ctx(ctx);
}

object_t parse_gbias(toks_t& toks, const bool subset = false)
{
    auto ctx      = make_ctx(toks, false, subset);
    ctx->function = std::make_unique<gboost::bias_function_t>(*ctx->titerator, *ctx->loss);
    return from_ctx(ctx);
}

object_t parse_ggrads(toks_t& toks)
{
    auto ctx      = make_ctx(toks, false);
    ctx->function = std::make_unique<gboost::grads_function_t>(*ctx->titerator, *ctx->loss);
    return from_ctx(ctx);
}

// gscale <loss> <alpha> <batch> <threads> <data> <G> groups(S; -1 = no group) soutputs(S*K) woutputs(S*K)
object_t parse_gscale(toks_t& toks)
{
    auto       ctx    = make_ctx(toks, false);
    const auto G      = static_cast<tensor_size_t>(toks.i64());
    const auto groups = toks.ints();
    const auto S      = ctx->dataset->samples();
    const auto K      = ::nano::size(ctx->dataset->target_dims());
    if (G < 1 || G > 64 || static_cast<tensor_size_t>(groups.size()) != S)
    {
        throw bad_op("groups");
    }
    ctx->cluster = cluster_t{S, G};
    for (tensor_size_t s = 0; s < S; ++s)
    {
        const auto g = groups[static_cast<size_t>(s)];
        if (g < -1 || g >= G)
        {
            throw bad_op("group index");
        }
        if (g >= 0)
        {
            ctx->cluster.assign(s, g);
        }
    }
    const auto so = toks.fs();
    const auto wo = toks.fs();
    if (static_cast<tensor_size_t>(so.size()) != S * K || static_cast<tensor_size_t>(wo.size()) != S * K)
    {
        throw bad_op("outputs size");
    }
    ctx->soutputs.resize(cat_dims(S, ctx->dataset->target_dims()));
    ctx->woutputs.resize(cat_dims(S, ctx->dataset->target_dims()));
    for (tensor_size_t i = 0; i < S * K; ++i)
    {
        ctx->soutputs(i) = so[static_cast<size_t>(i)];
        ctx->woutputs(i) = wo[static_cast<size_t>(i)];
    }
    ctx->function = std::make_unique<gboost::scale_function_t>(*ctx->titerator, *ctx->loss, ctx->cluster, ctx->soutputs,
                                                               ctx->woutputs);
    return from_ctx(ctx);
}

// sfit <loss> <alpha> <S> <P> p(S*P) y(S)
object_t parse_sfit(toks_t& toks)
{
    auto       ctx   = std::make_shared<ml_ctx_t>();
    const auto lid   = toks.s();
    const auto alpha = toks.f();
    ctx->loss        = make_loss(lid, alpha);
    const auto S     = static_cast<tensor_size_t>(toks.i64());
    const auto P     = static_cast<tensor_size_t>(toks.i64());
    const auto pv    = toks.fs();
    const auto yv    = toks.fs();
    if (S < 1 || P < 1 || P > 8 || static_cast<tensor_size_t>(pv.size()) != S * P ||
        static_cast<tensor_size_t>(yv.size()) != S)
    {
        throw bad_op("surrogate data");
    }
    tensor2d_t p(S, P);
    tensor1d_t y(S);
    for (tensor_size_t i = 0; i < S * P; ++i)
    {
        p(i) = pv[static_cast<size_t>(i)];
    }
    for (tensor_size_t i = 0; i < S; ++i)
    {
        y(i) = yv[static_cast<size_t>(i)];
    }
    ctx->function = std::make_unique<quadratic_surrogate_fit_t>(*ctx->loss, p, y);
    return from_ctx(ctx);
}

// squad <model>
object_t parse_squad(toks_t& toks)
{
    const auto model = to_vector(toks.fs());
    const auto n     = static_cast<tensor_size_t>(std::sqrt(2 * model.size())) - 1;
    if (n < 1 || model.size() != (n + 1) * (n + 2) / 2)
    {
        throw bad_op("model size");
    }
    return from_function(std::make_shared<quadratic_surrogate_t>(model));
}

object_t parse_object(const std::string& fam, toks_t& toks)
{
    if (fam == "fn") return parse_fn(toks);
    if (fam == "loss") return parse_loss(toks);
    if (fam == "ct") return parse_ct(toks);
    if (fam == "lin") return parse_lin(toks);
    if (fam == "linsub") return parse_lin(toks, true);
    if (fam == "gbias") return parse_gbias(toks);
    if (fam == "gbiassub") return parse_gbias(toks, true);
    if (fam == "gscale") return parse_gscale(toks);
    if (fam == "ggrads") return parse_ggrads(toks);
    if (fam == "sfit") return parse_sfit(toks);
    if (fam == "squad") return parse_squad(toks);
    throw bad_op("family " + fam);
}

// ---- generic ops --------------------------------------------------------------------------------------
vector_t read_point(toks_t& toks, const object_t& o)
{
    auto x = to_vector(toks.fs());
    if (x.size() != o.size)
    {
        throw bad_op("point size " + std::to_string(x.size()) + " != " + std::to_string(o.size));
    }
    return x;
}

void put_flags(out_t& out, const object_t& o)
{
    out << (o.convex ? 1 : 0) << (o.smooth ? 1 : 0) << o.mu;
}

std::string op_eval(const object_t& o, toks_t& toks, std::string& aug)
{
    const auto x = read_point(toks, o);
    vector_t   gx;
    const auto f0 = o.eval(x, nullptr);
    const auto f1 = o.eval(x, &gx);
    if (!o.extra.empty())
    {
        aug += " " + o.extra;
    }
    out_t out;
    out << "ok" << o.size << f0 << f1;
    put_vec(out, gx);
    return out.str();
}

std::string op_points(const object_t& o, toks_t& toks, const bool monitor)
{
    const auto k = toks.i64();
    if (k < 1 || k > 64)
    {
        throw bad_op("point count");
    }
    std::vector<vector_t> pts;
    for (int64_t i = 0; i < k; ++i)
    {
        pts.push_back(read_point(toks, o));
    }
    vector_t   gx;
    const auto f0 = o.eval(pts[0], nullptr);
    const auto f1 = o.eval(pts[0], &gx);
    out_t      out;
    out << "ok";
    put_flags(out, o);
    out << f0 << f1;
    put_vec(out, gx);
    for (size_t i = 1; i < pts.size(); ++i)
    {
        out << o.eval(pts[i], nullptr);
    }
    if (monitor && o.function && o.convex)
    {
        // run-time monitor of the library's own chord test (src/function/util.cpp: nano::is_convex, which uses the declared
        // strong-convexity coefficient): it must accept every pair of a function whose declaration is truthful
        int accepted = 1;
        for (size_t i = 1; i < pts.size(); ++i)
        {
            const auto fz  = o.eval(pts[i], nullptr);
            const auto eps = 1e-9 * (1.0 + std::fabs(f1) + std::fabs(fz)) + 1e-12 * (pts[0] - pts[i]).squaredNorm() * o.mu;
            if (std::isfinite(f1) && std::isfinite(fz) && !is_convex(*o.function, pts[0], pts[i], 7, eps))
            {
                accepted = 0;
            }
        }
        out << "isconvex" << accepted;
    }
    return out.str();
}

struct sm64_t
{
    uint64_t s;

    uint64_t next()
    {
        s += 0x9E3779B97F4A7C15ULL;
        uint64_t z = s;
        z          = (z ^ (z >> 30)) * 0xBF58476D1CE4E5B9ULL;
        z          = (z ^ (z >> 27)) * 0x94D049BB133111EBULL;
        return z ^ (z >> 31);
    }

    double unit() { return static_cast<double>(next() >> 11) / 9007199254740992.0; }

    double sym() { return 2.0 * unit() - 1.0; }
};

// normalised violation of the declared inequality (positive = violated)
double violation(const object_t& o, const vector_t& x, const vector_t& z, double& fx, vector_t& gx, double& fz)
{
    fx             = o.eval(x, &gx);
    fz             = o.eval(z, nullptr);
    const auto d   = z - x;
    const auto gd  = gx.dot(d);
    const auto q   = 0.5 * o.mu * d.dot(d);
    const auto rhs = fx + gd + q;
    const auto v   = rhs - fz;
    if (!std::isfinite(v))
    {
        return -1e300;
    }
    return v / (1.0 + std::fabs(fx) + std::fabs(fz) + std::fabs(gd) + std::fabs(q));
}

std::string op_climb(const object_t& o, toks_t& toks)
{
    auto       x      = read_point(toks, o);
    auto       z      = read_point(toks, o);
    const auto steps  = toks.i64();
    auto       rng    = sm64_t{static_cast<uint64_t>(toks.i64())};
    const auto radius = toks.f();
    if (steps < 0 || steps > 100000 || !(radius > 0.0))
    {
        throw bad_op("climb parameters");
    }
    double   fx = 0.0, fz = 0.0;
    vector_t gx;
    auto     best = violation(o, x, z, fx, gx, fz);
    if (o.convex)
    {
        auto     step = 0.25 * radius;
        vector_t cx = x, cz = z, cg;
        for (int64_t it = 0; it < steps; ++it)
        {
            cx             = x;
            cz             = z;
            const auto who = rng.next() % 3; // move x, z, or both
            const auto one = (rng.next() % 2) == 0;
            const auto idx = static_cast<tensor_size_t>(rng.next() % static_cast<uint64_t>(o.size));
            for (tensor_size_t i = 0; i < o.size; ++i)
            {
                if (one && i != idx)
                {
                    continue;
                }
                if (who != 1)
                {
                    cx(i) = std::clamp(cx(i) + step * rng.sym(), -radius, +radius);
                }
                if (who != 0)
                {
                    cz(i) = std::clamp(cz(i) + step * rng.sym(), -radius, +radius);
                }
            }
            double     cfx = 0.0, cfz = 0.0;
            const auto v = violation(o, cx, cz, cfx, cg, cfz);
            if (v > best)
            {
                best = v;
                x    = cx;
                z    = cz;
                step = std::min(step * 1.5, radius);
            }
            else
            {
                step = std::max(step * 0.9, 1e-9 * radius);
            }
        }
    }
    // final evaluation, exactly as the `cvx` op reports it
    const auto f0 = o.eval(x, nullptr);
    const auto f1 = o.eval(x, &gx);
    fz            = o.eval(z, nullptr);
    out_t out;
    out << "ok";
    put_flags(out, o);
    put_vec(out, x);
    put_vec(out, z);
    out << f0 << f1;
    put_vec(out, gx);
    out << fz;
    return out.str();
}

// ---- loss-specific ops ----------------------------------------------------------------------------------
std::string op_loss_sample(toks_t& toks)
{
    const auto id    = toks.s();
    const auto alpha = toks.f();
    const auto tv    = toks.fs();
    const auto ov    = toks.fs();
    const auto n     = static_cast<tensor_size_t>(tv.size());
    if (n < 1 || ov.size() != tv.size())
    {
        throw bad_op("sizes");
    }
    const auto loss    = make_loss(id, alpha);
    const auto targets = to_tensor4(tv, 1, n);
    const auto outputs = to_tensor4(ov, 1, n);
    tensor1d_t values, errors;
    tensor4d_t vgrads(targets.dims());
    vgrads.full(kSentinel);
    loss->value(targets, outputs, values);
    loss->error(targets, outputs, errors);
    loss->vgrad(targets, outputs, vgrads.tensor());
    out_t out;
    out << "ok" << values(0);
    put_vec(out, vgrads.vector());
    out << errors(0) << (loss->convex() ? 1 : 0) << (loss->smooth() ? 1 : 0);
    return out.str();
}

// loss batch  <id> <alpha> <n> <m> <T> <O>              : m samples of shape (n, 1, 1)
// loss batch4 <id> <alpha> <d1> <d2> <d3> <m> <T> <O>   : m samples of shape (d1, d2, d3) — the 4-D tensor interface: sample i is
//                                                         the contiguous block [i * d1*d2*d3, (i+1) * d1*d2*d3) of the buffers
std::string op_loss_batch(toks_t& toks, const bool four)
{
    const auto id    = toks.s();
    const auto alpha = toks.f();
    const auto d1    = static_cast<tensor_size_t>(toks.i64());
    const auto d2    = four ? static_cast<tensor_size_t>(toks.i64()) : tensor_size_t{1};
    const auto d3    = four ? static_cast<tensor_size_t>(toks.i64()) : tensor_size_t{1};
    const auto m     = static_cast<tensor_size_t>(toks.i64());
    const auto tv    = toks.fs();
    const auto ov    = toks.fs();
    if (d1 < 1 || d2 < 1 || d3 < 1 || d1 > 64 || d2 > 64 || d3 > 64 || m < 1 || m > 4096)
    {
        throw bad_op("sizes");
    }
    const auto n = d1 * d2 * d3;
    if (static_cast<tensor_size_t>(tv.size()) != n * m || tv.size() != ov.size())
    {
        throw bad_op("sizes");
    }
    const auto loss = make_loss(id, alpha);
    tensor4d_t targets(m, d1, d2, d3), outputs(m, d1, d2, d3);
    for (tensor_size_t i = 0; i < n * m; ++i)
    {
        targets(i) = tv[static_cast<size_t>(i)];
        outputs(i) = ov[static_cast<size_t>(i)];
    }
    tensor1d_t values(m), errors(m);
    tensor4d_t vgrads(m, d1, d2, d3);
    values.full(kSentinel);
    errors.full(kSentinel);
    vgrads.full(kSentinel);
    loss->value(targets, outputs, values.tensor());
    loss->error(targets, outputs, errors.tensor());
    loss->vgrad(targets, outputs, vgrads.tensor());
    out_t out;
    out << "ok";
    put_vec(out, values.vector());
    put_vec(out, errors.vector());
    put_vec(out, vgrads.vector());
    // the same samples one at a time
    tensor1d_t svalues(m), serrors(m);
    tensor4d_t svgrads(m, d1, d2, d3);
    for (tensor_size_t s = 0; s < m; ++s)
    {
        tensor4d_t t1(1, d1, d2, d3), o1(1, d1, d2, d3), g1(1, d1, d2, d3);
        t1.vector() = targets.vector(s);
        o1.vector() = outputs.vector(s);
        g1.full(kSentinel);
        tensor1d_t v1, e1;
        loss->value(t1, o1, v1);
        loss->error(t1, o1, e1);
        loss->vgrad(t1, o1, g1.tensor());
        svalues(s)        = v1(0);
        serrors(s)        = e1(0);
        svgrads.vector(s) = g1.vector();
    }
    put_vec(out, svalues.vector());
    put_vec(out, serrors.vector());
    put_vec(out, svgrads.vector());
    return out.str();
}


// ---- function_t base class: constrain / valid / call counters (src/function.cpp:58-146) -------------------------
// fbase hist <id> <dims> <summands> <k> <op>*k   with the ops (every op answers `<ans> <#constraints> <#eq> <#ineq> <fcalls> <gcalls>`)
//   cg <kind> <params>        constrain(constraint_t&&): constant|minimum|maximum <value> <dim>; ball-eq|ball-ineq <origin> <radius>;
//                             linear-eq|linear-ineq <q> <r>; quadratic-eq|quadratic-ineq <rows> <cols> <P> <q> <r>;
//                             functional-eq|functional-ineq <id> <dims>            ans = accepted (0/1)
//   cb <min> <max>            constrain(min, max)                                  ans = accepted
//   cd <min> <max> <dim>      constrain(min, max, dimension)                       ans = accepted
//   cv <mins> <maxs>          constrain(const vector_t&, const vector_t&)          ans = accepted
//   v <x>                     valid(x)                                             ans = 0/1
//   e0 <x> / e1 <x>           vgrad(x) / vgrad(x, gx)                              ans = the value
//   clr                       clear_statistics()                                   ans = 0
matrix_t to_matrix(const dvec& v, const tensor_size_t rows, const tensor_size_t cols)
{
    if (rows < 0 || cols < 0 || rows > 64 || cols > 64 || static_cast<tensor_size_t>(v.size()) != rows * cols)
    {
        throw bad_op("matrix size");
    }
    matrix_t P(rows, cols);
    for (tensor_size_t i = 0; i < rows * cols; ++i)
    {
        P(i) = v[static_cast<size_t>(i)];
    }
    return P;
}

constraint_t parse_constraint_raw(toks_t& toks)
{
    using namespace constraint;
    const auto kind = toks.s();
    if (kind == "constant" || kind == "minimum" || kind == "maximum")
    {
        const auto value = toks.f();
        const auto dim   = static_cast<tensor_size_t>(toks.i64());
        if (kind == "constant")
        {
            return constant_t{value, dim};
        }
        if (kind == "minimum")
        {
            return minimum_t{{value, dim}};
        }
        return maximum_t{{value, dim}};
    }
    if (kind == "ball-eq" || kind == "ball-ineq")
    {
        const auto origin = to_vector(toks.fs());
        const auto radius = toks.f();
        if (kind == "ball-eq")
        {
            return euclidean_ball_equality_t{{origin, radius}};
        }
        return euclidean_ball_inequality_t{{origin, radius}};
    }
    if (kind == "linear-eq" || kind == "linear-ineq")
    {
        const auto q = to_vector(toks.fs());
        const auto r = toks.f();
        if (kind == "linear-eq")
        {
            return linear_equality_t{{q, r}};
        }
        return linear_inequality_t{{q, r}};
    }
    if (kind == "quadratic-eq" || kind == "quadratic-ineq")
    {
        const auto rows = static_cast<tensor_size_t>(toks.i64());
        const auto cols = static_cast<tensor_size_t>(toks.i64());
        const auto P    = to_matrix(toks.fs(), rows, cols);
        const auto q    = to_vector(toks.fs());
        const auto r    = toks.f();
        if (kind == "quadratic-eq")
        {
            return quadratic_equality_t{{P, q, r}};
        }
        return quadratic_inequality_t{{P, q, r}};
    }
    if (kind == "functional-eq" || kind == "functional-ineq")
    {
        const auto id    = toks.s();
        const auto dims  = static_cast<tensor_size_t>(toks.i64());
        const auto proto = function_t::all().get(id);
        if (!proto || dims < 1 || dims > 256)
        {
            throw bad_op("unknown function " + id);
        }
        if (kind == "functional-eq")
        {
            return functional_equality_t{proto->make(dims, 3)};
        }
        return functional_inequality_t{proto->make(dims, 3)};
    }
    throw bad_op("unknown constraint kind " + kind);
}

std::string op_fbase_hist(toks_t& toks)
{
    const auto id       = toks.s();
    const auto dims     = static_cast<tensor_size_t>(toks.i64());
    const auto summands = static_cast<tensor_size_t>(toks.i64());
    const auto k        = toks.i64();
    const auto proto    = function_t::all().get(id);
    if (!proto || dims < 1 || dims > 256 || summands < 1 || summands > 1000 || k < 0 || k > 256)
    {
        throw bad_op("fbase");
    }
    const auto f = proto->make(dims, summands);
    out_t      out;
    out << "ok" << f->size() << f->fcalls() << f->gcalls() << static_cast<long long>(f->constraints().size());
    const auto point = [&]()
    {
        auto x = to_vector(toks.fs());
        if (x.size() != f->size())
        {
            throw bad_op("point size");
        }
        return x;
    };
    for (int64_t i = 0; i < k; ++i)
    {
        const auto o = toks.s();
        if (o == "cg")
        {
            out << (f->constrain(parse_constraint_raw(toks)) ? 1 : 0);
        }
        else if (o == "cb")
        {
            const auto lo = toks.f();
            const auto hi = toks.f();
            out << (f->constrain(lo, hi) ? 1 : 0);
        }
        else if (o == "cd")
        {
            const auto lo  = toks.f();
            const auto hi  = toks.f();
            const auto dim = static_cast<tensor_size_t>(toks.i64());
            out << (f->constrain(lo, hi, dim) ? 1 : 0);
        }
        else if (o == "cv")
        {
            const auto lo = to_vector(toks.fs());
            const auto hi = to_vector(toks.fs());
            if (lo.size() < 1 || hi.size() < 1)
            {
                throw bad_op("empty bounds");
            }
            out << (f->constrain(lo, hi) ? 1 : 0);
        }
        else if (o == "v")
        {
            out << (f->valid(point()) ? 1 : 0);
        }
        else if (o == "e0")
        {
            out << f->vgrad(point());
        }
        else if (o == "e1")
        {
            const auto x = point();
            vector_t   gx;
            fill_sentinel(gx, x.size());
            out << f->vgrad(x, gx);
        }
        else if (o == "clr")
        {
            f->clear_statistics();
            out << 0;
        }
        else
        {
            throw bad_op("fbase op " + o);
        }
        out << static_cast<long long>(f->constraints().size()) << count_equalities(*f) << count_inequalities(*f)
            << f->fcalls() << f->gcalls();
    }
    return out.str();
}

// ---- dumps ------------------------------------------------------------------------------------------------
std::string op_dump(toks_t& toks)
{
    const auto what = toks.s();
    out_t      out;
    out << "ok";
    if (what == "kinks")
    {
        const auto K = kinks_matrix(static_cast<tensor_size_t>(toks.i64()));
        out << K.rows() << K.cols() << flist_str(K.data(), K.size());
        return out.str();
    }
    if (what == "sizes")
    {
        // function_t::size() of make(dims, summands) for every registered prototype and every requested dims 1..maxd
        const auto maxd = toks.i64();
        if (maxd < 1 || maxd > 256)
        {
            throw bad_op("dump sizes");
        }
        const auto ids = function_t::all().ids();
        out << static_cast<long long>(ids.size());
        for (const auto& id : ids)
        {
            const auto proto = function_t::all().get(id);
            out << id;
            for (int64_t dims = 1; dims <= maxd; ++dims)
            {
                out << proto->make(static_cast<tensor_size_t>(dims), 3)->size();
            }
        }
        return out.str();
    }
    if (what != "flags")
    {
        throw bad_op("dump");
    }
    const auto dims_list = toks.ints();
    const auto fids      = function_t::all().ids();
    out << static_cast<long long>(fids.size() * dims_list.size());
    for (const auto& id : fids)
    {
        const auto proto = function_t::all().get(id);
        for (const auto dims : dims_list)
        {
            const auto f = proto->make(static_cast<tensor_size_t>(dims), 10);
            out << id << dims << f->size() << (f->convex() ? 1 : 0) << (f->smooth() ? 1 : 0) << f->strong_convexity();
        }
    }
    const auto lids = loss_t::all().ids();
    out << static_cast<long long>(lids.size());
    for (const auto& id : lids)
    {
        const auto loss = loss_t::all().get(id);
        out << id << (loss->convex() ? 1 : 0) << (loss->smooth() ? 1 : 0);
    }
    // constraint kinds with representative coefficients (the flags of quadratic / functional depend on them)
    const auto n      = tensor_size_t{3};
    const auto origin = vector_t::constant(n, 0.5);
    matrix_t   Ppsd   = matrix_t::identity(n, n);
    matrix_t   Pind   = matrix_t::identity(n, n);
    Pind(0, 0)        = -1.0;
    const auto sphere = function_t::all().get("sphere")->make(n, 10);
    const auto rosenb = function_t::all().get("rosenbrock")->make(n, 10);
    using namespace constraint;
    const std::vector<std::pair<std::string, constraint_t>> cts = {
        {"constant", constant_t{1.0, 0}},
        {"minimum", minimum_t{{1.0, 0}}},
        {"maximum", maximum_t{{1.0, 0}}},
        {"ball-eq", euclidean_ball_equality_t{{origin, 1.0}}},
        {"ball-ineq", euclidean_ball_inequality_t{{origin, 1.0}}},
        {"linear-eq", linear_equality_t{{origin, 1.0}}},
        {"linear-ineq", linear_inequality_t{{origin, 1.0}}},
        {"quadratic-eq:psd", quadratic_equality_t{{Ppsd, origin, 1.0}}},
        {"quadratic-ineq:psd", quadratic_inequality_t{{Ppsd, origin, 1.0}}},
        {"quadratic-eq:indefinite", quadratic_equality_t{{Pind, origin, 1.0}}},
        {"quadratic-ineq:indefinite", quadratic_inequality_t{{Pind, origin, 1.0}}},
        {"functional-eq:sphere", functional_equality_t{*sphere}},
        {"functional-ineq:sphere", functional_inequality_t{*sphere}},
        {"functional-eq:rosenbrock", functional_equality_t{*rosenb}},
        {"functional-ineq:rosenbrock", functional_inequality_t{*rosenb}},
    };
    out << static_cast<long long>(cts.size());
    for (const auto& [name, c] : cts)
    {
        out << name << (::nano::convex(c) ? 1 : 0) << (::nano::smooth(c) ? 1 : 0) << ::nano::strong_convexity(c);
    }
    return out.str();
}
} // namespace

std::string vh::execute(toks_t& toks, std::string& aug)
{
    // a trailing `#tag` is the generator's bookkeeping (which corner case the op was built to hit)
    if (!toks.t.empty() && !toks.t.back().empty() && toks.t.back()[0] == '#')
    {
        toks.t.pop_back();
    }
    const auto fam = toks.s();
    if (fam == "dump")
    {
        return op_dump(toks);
    }
    const auto op = toks.s();
    if (fam == "loss" && op == "sample")
    {
        return op_loss_sample(toks);
    }
    if (fam == "loss" && (op == "batch" || op == "batch4"))
    {
        return op_loss_batch(toks, op == "batch4");
    }
    if (fam == "fbase" && op == "hist")
    {
        auto res = op_fbase_hist(toks);
        if (!toks.done())
        {
            throw bad_op("trailing tokens");
        }
        return res;
    }
    const auto object = parse_object(fam, toks);
    std::string res;
    if (op == "flags")
    {
        // fn flags <id> <dims> <summands> -> ok size convex smooth mu   (aug: the construction-time parameters)
        out_t out;
        out << "ok" << object.size;
        put_flags(out, object);
        if (!object.extra.empty())
        {
            aug += " " + object.extra;
        }
        res = out.str();
    }
    else if (op == "eval")
    {
        res = op_eval(object, toks, aug);
    }
    else if (op == "cd" || op == "cvx")
    {
        res = op_points(object, toks, op == "cvx" && fam == "fn");
    }
    else if (op == "climb")
    {
        res = op_climb(object, toks);
    }
    else
    {
        throw bad_op("unknown op " + op);
    }
    if (!toks.done())
    {
        throw bad_op("trailing tokens");
    }
    return res;
}

int main()
{
    return vh::main_loop();
}
