// C03 harness: runs RQB / FPBA1 / FPBA2 / ellipsoid on a sharp convex function with a known minimum, with the trace
// sink installed. One op = one solver run. The augmented op carries a window of the raw trace records (the logged
// pre-states and oracle answers the Lean model replays); the result carries the final state and, as groups
// `F x | L n x… | B b | I k`, the LOGGED post-states / decisions the model has to reproduce (`?` = not observable).
#include "common.h"
#include <Eigen/Dense>
#include <limits>
#include <nano/function.h>
#include <nano/solver.h>
#include <nano/verif.h>

using namespace nano;
using vh::bad_op;
using vh::out_t;
using vh::toks_t;

namespace
{
// f(x) = ||A (x - xs)||_1 or _inf  +  mu/2 ||x - xs||^2,  f* = 0 at xs
class sharp_t final : public function_t
{
public:
    sharp_t(matrix_t A, vector_t xs, int norm, double mu)
        : function_t("sharp", xs.size())
        , m_A(std::move(A))
        , m_xs(std::move(xs))
        , m_norm(norm)
        , m_mu(mu)
    {
        convex(convexity::yes);
        smooth(smoothness::no);
    }

    rfunction_t clone() const override { return std::make_unique<sharp_t>(*this); }

    scalar_t do_vgrad(vector_cmap_t x, vector_map_t gx) const override
    {
        ++m_evals;
        const Eigen::VectorXd d = x.vector() - m_xs.vector();
        const Eigen::VectorXd r = m_A.matrix() * d;
        double                f = 0;
        Eigen::VectorXd       w = Eigen::VectorXd::Zero(r.size());
        if (m_norm == 1)
        {
            f = r.lpNorm<1>();
            for (Eigen::Index i = 0; i < r.size(); ++i)
            {
                w(i) = (r(i) > 0) - (r(i) < 0);
            }
        }
        else
        {
            Eigen::Index k = 0;
            f              = r.cwiseAbs().maxCoeff(&k);
            w(k)           = (r(k) >= 0) ? 1.0 : -1.0;
        }
        if (gx.size() == x.size())
        {
            gx.vector() = m_A.matrix().transpose() * w + m_mu * d;
        }
        return f + 0.5 * m_mu * d.squaredNorm();
    }

    matrix_t        m_A;
    vector_t        m_xs;
    int             m_norm;
    double          m_mu;
    mutable int64_t m_evals{0};
};

struct rec_t
{
    std::string         tag;
    std::vector<double> v;
    bool                exhausted{false}; // csearch.end: the evaluation budget was used up when the search returned
};

// what the sink does
struct sink_state_t
{
    int                 pass{0}; // 1: index only (tag, count), 2: store the window
    std::vector<rec_t>  recs;    // pass 1: tag + empty v, counts in `counts`
    int64_t             nnull{0}, nserious{0};
    std::vector<size_t> counts;
    size_t              index{0};
    size_t              wbegin{0}, wend{0};
    const function_t*   function{nullptr};
    int64_t             max_evals{0};
    int64_t             capacity{0}; // of the bundle: max_size + 1
    // run-time monitor of the contract of the quadratic sub-problem, over EVERY `bundle.solve` of the run
    int64_t qp_count{0};     // calls with >= 3 rows (the QP solver; 1 and 2 rows are the analytic paths)
    double  qp_maxdev{0};    // max |sum(alpha) - 1|
    double  qp_minalpha{0};  // min alpha_i (0 when all are non-negative)
    double  qp_maxgap{0};    // max relative Frank-Wolfe gap  (alpha'gr - min gr) / max_i sum|terms of gr_i|,  gr = S S' alpha + miu e
    double  qp_maxgap2{0};   // the same over the calls with 2 rows (analytic path)
    // the verdict of the QP solver itself (src/program/solver.cpp `done`: converged iff feasible && max(eta, rdual, rprim) <
    // epsilon), reconstructed from its `program.normalized` (a solve begins) / `program.done` records
    bool    qp_claims{false};
    int64_t qp_unconverged{0}; // calls (>= 3 rows) the QP solver did not report converged for (bundle.cpp:77-80 only logs)
    double  qp_maxgap_unconv{0};
};

thread_local sink_state_t g_sink;

// bundle_t::append is about to leave m_size == capacity(): its own `assert(m_size < capacity())` (compiled out in the release
// build) fails and the NEXT append writes row `m_size` behind the end of m_bundleS / m_bundleE. The run is stopped here
// (instead of corrupting the heap of the harness process) and reported as a failure of the case.
struct overflow_t
{
    int64_t size, capacity;
};

bool skipped(const char* tag)
{
    // only the sites of the anchored code are replayed (the QP sub-solver of bundle_t::solve logs `program.*`)
    for (const char* keep : {"bundle.append.begin", "bundle.append.kept", "bundle.append.end", "bundle.solve", "csearch.iter",
                             "csearch.end", "solver.done", "ellipsoid.iter"})
    {
        if (std::strcmp(tag, keep) == 0)
        {
            return false;
        }
    }
    return true;
}

void sink(const char* tag, const double* values, size_t count)
{
    if (g_sink.pass == 1)
    {
        if (std::strcmp(tag, "program.normalized") == 0)
        {
            g_sink.qp_claims = false;
        }
        else if (std::strcmp(tag, "program.done") == 0 && count >= 5)
        {
            g_sink.qp_claims = values[1] != 0.0 && std::max({values[2], values[3], values[4]}) < values[0];
        }
    }
    if (skipped(tag))
    {
        return;
    }
    auto& s = g_sink;
    if (s.capacity > 0 && std::strcmp(tag, "bundle.append.kept") == 0 && count > 0 &&
        static_cast<int64_t>(values[0]) + 1 >= s.capacity)
    {
        throw overflow_t{static_cast<int64_t>(values[0]), s.capacity};
    }
    if (s.pass == 1 && std::strcmp(tag, "bundle.solve") == 0 && s.function != nullptr)
    {
        // record layout: miu, size, fx, (n, x...), (size, alpha...), (size, e...), (size * n, S...)
        const auto n    = static_cast<size_t>(s.function->size());
        const auto size = static_cast<size_t>(values[1]);
        if (count == 3 + (1 + n) + 2 * (1 + size) + (1 + size * n))
        {
            const double  miu = values[0];
            const double* al  = values + 3 + (1 + n) + 1;
            const double* e   = al + size + 1;
            const double* S   = e + size + 1;
            double        sum = 0, mn = 0;
            std::vector<double> sbar(n, 0.0), sabs(n, 0.0), gr(size, 0.0);
            for (size_t i = 0; i < size; ++i)
            {
                sum += al[i];
                mn = std::min(mn, al[i]);
                for (size_t j = 0; j < n; ++j)
                {
                    sbar[j] += al[i] * S[i * n + j];
                    sabs[j] += std::fabs(al[i] * S[i * n + j]);
                }
            }
            double agr = 0, mgr = std::numeric_limits<double>::infinity(), sc = 1e-300;
            for (size_t i = 0; i < size; ++i)
            {
                double v = miu * e[i], va = std::fabs(miu * e[i]);
                for (size_t j = 0; j < n; ++j)
                {
                    v += S[i * n + j] * sbar[j];
                    va += std::fabs(S[i * n + j]) * sabs[j];
                }
                gr[i] = v;
                agr += al[i] * v;
                mgr = std::min(mgr, v);
                sc  = std::max(sc, va); // the size of the terms of the gradient (what rounding can move)
            }
            const double gap = (agr - mgr * sum) / sc;
            if (size >= 3)
            {
                s.qp_count += 1;
                s.qp_maxdev   = std::max(s.qp_maxdev, std::fabs(sum - 1.0));
                s.qp_minalpha = std::min(s.qp_minalpha, mn);
                if (s.qp_claims && miu <= 1e8)
                {
                    s.qp_maxgap = std::max(s.qp_maxgap, gap);
                }
                else
                {
                    s.qp_unconverged += 1;
                    s.qp_maxgap_unconv = std::max(s.qp_maxgap_unconv, gap);
                }
                s.qp_claims = false;
            }
            else if (size == 2)
            {
                s.qp_maxgap2 = std::max(s.qp_maxgap2, gap);
            }
        }
    }
    if (s.pass == 1)
    {
        rec_t r;
        r.tag = tag;
        if (r.tag == "bundle.append.begin" && count > 0)
        {
            (values[0] != 0.0 ? s.nserious : s.nnull) += 1;
        }
        s.recs.push_back(std::move(r));
        s.counts.push_back(count);
    }
    else if (s.index >= s.wbegin && s.index < s.wend)
    {
        rec_t r;
        r.tag = tag;
        r.v.assign(values, values + count);
        if (r.tag == "csearch.end" && s.function != nullptr)
        {
            r.exhausted = s.function->fcalls() + s.function->gcalls() >= s.max_evals;
        }
        s.recs.push_back(std::move(r));
    }
    ++s.index;
}

struct case_t
{
    std::string solver;
    int64_t     n{0};
    int64_t     norm{0};
    double      mu{0};
    matrix_t    A;
    vector_t    xs, x0;
    double      eps{0};
    int64_t     max_evals{0};
    // bundle solvers
    int64_t max_size{0};
    double  m1{0}, m2{0}, m3{0}, m4{0}, interpol{0}, extrapol{0}, miu0min{0}, miu0max{0}, mindot{0};
    // ellipsoid
    double R{0};
    // window
    int64_t wmode{0};
    double  wfrac{0};
    int64_t budget{0};
};

void read_problem(toks_t& t, case_t& c)
{
    c.n    = t.i64();
    c.norm = t.i64();
    c.mu   = t.f();
    if (c.n < 1 || c.n > 64)
    {
        throw bad_op("n");
    }
    const auto a  = t.fs();
    const auto xs = t.fs();
    const auto x0 = t.fs();
    if (static_cast<int64_t>(a.size()) != c.n * c.n || static_cast<int64_t>(xs.size()) != c.n ||
        static_cast<int64_t>(x0.size()) != c.n)
    {
        throw bad_op("sizes");
    }
    c.A  = matrix_t(c.n, c.n);
    c.xs = vector_t(c.n);
    c.x0 = vector_t(c.n);
    for (int64_t i = 0; i < c.n; ++i)
    {
        for (int64_t j = 0; j < c.n; ++j)
        {
            c.A(i, j) = a[static_cast<size_t>(i * c.n + j)];
        }
        c.xs(i) = xs[static_cast<size_t>(i)];
        c.x0(i) = x0[static_cast<size_t>(i)];
    }
    c.eps       = t.f();
    c.max_evals = t.i64();
}

rsolver_t make_solver(const case_t& c)
{
    auto solver = solver_t::all().get(c.solver);
    if (!solver)
    {
        throw bad_op("solver id");
    }
    solver->parameter("solver::epsilon")   = c.eps;
    solver->parameter("solver::max_evals") = c.max_evals;
    if (c.solver == "ellipsoid")
    {
        solver->parameter("solver::ellipsoid::R") = c.R;
    }
    else
    {
        const auto prefix                                  = std::string("solver::") + c.solver;
        solver->parameter(prefix + "::bundle::max_size")   = c.max_size;
        solver->parameter(prefix + "::csearch::m1m2")      = std::make_tuple(c.m1, c.m2);
        solver->parameter(prefix + "::csearch::m3")        = c.m3;
        solver->parameter(prefix + "::csearch::m4")        = c.m4;
        solver->parameter(prefix + "::csearch::interpol")  = c.interpol;
        solver->parameter(prefix + "::csearch::extrapol")  = c.extrapol;
        solver->parameter(prefix + "::prox::miu0_range")   = std::make_tuple(c.miu0min, c.miu0max);
        solver->parameter(prefix + "::prox::min_dot_nuv")  = c.mindot;
    }
    return solver;
}

solver_state_t run(const case_t& c, int64_t& evals)
{
    const auto solver = make_solver(c);
    const auto fun    = sharp_t{c.A, c.xs, static_cast<int>(c.norm), c.mu};
    g_sink.function   = &fun;
    g_sink.max_evals  = c.max_evals;
    g_sink.capacity   = c.solver == "ellipsoid" ? 0 : c.max_size + 1;
    g_sink.index      = 0;
    nano::verif::trace_sink() = &sink;
    try
    {
        auto state                = solver->minimize(fun, c.x0, make_null_logger());
        nano::verif::trace_sink() = nullptr;
        g_sink.function           = nullptr;
        evals                     = fun.m_evals;
        return state;
    }
    catch (...)
    {
        nano::verif::trace_sink() = nullptr;
        g_sink.function           = nullptr;
        throw;
    }
}

// ---- readers over a raw record ---------------------------------------------------------------------------
struct rd_t
{
    const std::vector<double>& v;
    size_t                     i{0};

    double f()
    {
        if (i >= v.size())
        {
            throw std::logic_error("short record");
        }
        return v[i++];
    }

    std::vector<double> l()
    {
        const auto          n = static_cast<size_t>(f());
        std::vector<double> r;
        for (size_t k = 0; k < n; ++k)
        {
            r.push_back(f());
        }
        return r;
    }
};

void gF(out_t& o, double x)
{
    o << "F" << x;
}

void gL(out_t& o, const std::vector<double>& v)
{
    o << "L";
    o.flist(v);
}

void gB(out_t& o, bool b)
{
    o << "B" << (b ? 1 : 0);
}

void gI(out_t& o, int64_t k)
{
    o << "I" << k;
}

// the logged post-states and decisions, as groups
void project(const case_t& c, const std::vector<rec_t>& recs, bool at_start, out_t& o)
{
    const bool ell = c.solver == "ellipsoid";
    // bundle
    bool                       have_begin = false, have_kept = false;
    double                     serious = 0;
    std::vector<double>        keptE, keptS;
    bool                       have_solve = false;
    double                     solve_miu  = 0;
    bool                       have_ell   = false;
    bool                       first      = true;
    for (size_t k = 0; k < recs.size(); ++k)
    {
        const auto& r = recs[k];
        rd_t        rd{r.v};
        if (r.tag == "bundle.append.begin")
        {
            serious    = rd.f();
            have_begin = true;
            have_kept  = false;
            have_solve = false;
            // which call of the outer loop this is, and with which point
            {
                const auto fy = rd.f();
                rd.f(); // fx
                rd.f(); // size
                const auto y = rd.l();
                o << "outer";
                gI(o, serious != 0.0 ? 1 : 0);
                gL(o, y);
                gF(o, fy);
            }
        }
        else if (r.tag == "bundle.append.kept")
        {
            rd.f();
            keptE     = rd.l();
            keptS     = rd.l();
            have_kept = true;
        }
        else if (r.tag == "bundle.append.end")
        {
            rd.f();
            const auto E = rd.l();
            const auto S = rd.l();
            o << "append";
            if (have_begin && have_kept)
            {
                gI(o, serious != 0.0 ? 1 : 0);
                gL(o, keptE);
                gL(o, keptS);
                gL(o, E);
                gL(o, S);
                gB(o, true);
            }
            else
            {
                o << "I" << "?" << "L" << "?" << "L" << "?" << "L" << "?" << "L" << "?" << "B" << "?";
            }
            have_begin = have_kept = false;
        }
        else if (r.tag == "bundle.solve")
        {
            solve_miu  = rd.f();
            have_solve = true;
            const auto size = rd.f();
            rd.f(); // fx
            rd.l(); // x
            const auto alphas = rd.l();
            o << "solve";
            gB(o, true);
            if (size == 2.0)
            {
                gL(o, alphas);
            }
            else
            {
                o << "L" << "?";
            }
        }
        else if (r.tag == "csearch.iter")
        {
            const auto miu = rd.f();
            const auto t = rd.f();
            rd.f(); // epsilon
            rd.f(); // fx
            rd.f(); // fy
            const auto e     = rd.f();
            const auto snorm = rd.f();
            const auto delta = rd.f();
            const auto econv = rd.f();
            const auto sconv = rd.f();
            rd.l(); // x
            const auto y = rd.l();
            o << "iter";
            if (have_solve)
            {
                gF(o, solve_miu);
                gF(o, e);
                gF(o, snorm);
                gF(o, delta);
                gB(o, econv != 0.0);
                gB(o, sconv != 0.0);
                gL(o, y);
            }
            else
            {
                o << "F" << "?" << "F" << "?" << "F" << "?" << "F" << "?" << "B" << "?" << "B" << "?" << "L" << "?";
            }
            have_solve = false;
            gF(o, t);
            // the decision = what came next in the curve search
            const rec_t* next = nullptr;
            for (size_t j = k + 1; j < recs.size(); ++j)
            {
                if (recs[j].tag == "csearch.iter" || recs[j].tag == "csearch.end")
                {
                    next = &recs[j];
                    break;
                }
            }
            if (next == nullptr)
            {
                o << "I" << "?" << "F" << "?";
            }
            else if (next->tag == "csearch.iter")
            {
                gI(o, 9);
                gF(o, next->v.at(1));
            }
            else
            {
                if (next->exhausted)
                {
                    o << "I" << "?";
                }
                else
                {
                    gI(o, static_cast<int64_t>(next->v.at(0)));
                }
                gF(o, next->v.at(1));
            }
            gF(o, miu); // the proximity parameter the outer loop handed to the search
        }
        else if (r.tag == "csearch.end")
        {
            have_solve = false;
        }
        else if (r.tag == "solver.done")
        {
            const auto iter_ok   = rd.f();
            const auto converged = rd.f();
            o << "done";
            gB(o, iter_ok != 0.0);
            gB(o, converged != 0.0);
        }
        else if (r.tag == "ellipsoid.iter")
        {
            const auto gHg  = rd.f();
            rd.f(); // f
            const auto best = rd.f();
            rd.f(); // epsilon
            const auto x = rd.l();
            rd.l(); // g
            const auto H = rd.l();
            if (first && at_start)
            {
                o << "init";
                gL(o, x);
                gL(o, H);
            }
            if (have_ell)
            {
                o << "upd";
                gL(o, x);
                gL(o, H);
                gF(o, best);
            }
            o << "ell";
            gF(o, gHg);
            gB(o, gHg < std::numeric_limits<double>::epsilon());
            have_ell = true;
        }
        else if (r.tag == "run.end")
        {
            // the status of the returned state (0 max_iters, 1 converged, 2 failed, 3 anything else)
            o << "final";
            gI(o, static_cast<int64_t>(rd.f()));
        }
        else
        {
            throw std::logic_error("unknown trace tag " + r.tag);
        }
        first = false;
    }
    (void)ell;
}

std::string run_case(case_t& c, const std::string& line, std::string& aug)
{
    const bool ell = c.solver == "ellipsoid";

    // pass 1: index of the trace
    g_sink       = sink_state_t{};
    g_sink.pass  = 1;
    int64_t evals = 0;
    run(c, evals);
    const auto nnull    = g_sink.nnull;
    const auto nserious = g_sink.nserious;
    const auto qp_count = g_sink.qp_count;
    const auto qp_maxdev = g_sink.qp_maxdev, qp_minalpha = g_sink.qp_minalpha, qp_maxgap = g_sink.qp_maxgap,
               qp_maxgap2 = g_sink.qp_maxgap2, qp_maxgap_unconv = g_sink.qp_maxgap_unconv;
    const auto qp_unconverged = g_sink.qp_unconverged;
    const auto tags   = std::move(g_sink.recs);
    const auto counts = std::move(g_sink.counts);
    const auto N      = tags.size();

    // the window: starts at record 0 or at a search boundary (`csearch.end`) / at an `ellipsoid.iter`
    const auto aligned = [&](size_t i) { return i == 0 || (ell ? tags[i].tag == "ellipsoid.iter" : tags[i].tag == "csearch.end"); };
    const auto budget  = static_cast<size_t>(std::max<int64_t>(c.budget, 0));
    size_t     wbegin  = 0;
    if (c.wmode == 1)
    {
        // tail: the earliest aligned start from which everything up to the end fits
        size_t sum = 0;
        wbegin     = N;
        for (size_t i = N; i-- > 0;)
        {
            sum += counts[i] + 2;
            if (sum > budget)
            {
                break;
            }
            if (aligned(i))
            {
                wbegin = i;
            }
        }
        if (wbegin == N)
        {
            // nothing fits: the last aligned record
            for (size_t i = N; i-- > 0;)
            {
                if (aligned(i))
                {
                    wbegin = i;
                    break;
                }
            }
        }
    }
    else if (c.wmode == 2)
    {
        auto target = static_cast<size_t>(c.wfrac * static_cast<double>(N));
        target      = std::min(target, N > 0 ? N - 1 : 0);
        wbegin      = 0;
        for (size_t i = target + 1; i-- > 0;)
        {
            if (aligned(i))
            {
                wbegin = i;
                break;
            }
        }
    }
    size_t wend = wbegin;
    {
        size_t sum = 0;
        while (wend < N && (sum + counts[wend] + 2 <= budget || wend == wbegin))
        {
            sum += counts[wend] + 2;
            ++wend;
        }
    }

    // pass 2: store the window
    g_sink        = sink_state_t{};
    g_sink.pass   = 2;
    g_sink.wbegin = wbegin;
    g_sink.wend   = wend;
    int64_t evals2 = 0;
    const auto state = run(c, evals2);
    auto recs = std::move(g_sink.recs);
    if (evals2 != evals || g_sink.index != N)
    {
        throw std::logic_error("the two passes differ");
    }
    if (wend == N)
    {
        // the window reaches the end of the run: the status of the returned state, as a pseudo record
        rec_t r;
        r.tag = "run.end";
        r.v   = {state.status() == solver_status::max_iters   ? 0.0
                 : state.status() == solver_status::converged ? 1.0
                 : state.status() == solver_status::failed    ? 2.0
                                                              : 3.0};
        recs.push_back(std::move(r));
    }

    // augmented op: the op + numeric environment + the raw window
    {
        out_t a;
        a << line << "|" << epsilon0<scalar_t>() << std::numeric_limits<double>::epsilon() << wbegin << recs.size();
        for (const auto& r : recs)
        {
            a << r.tag;
            a.flist(r.v);
        }
        aug = a.str();
    }

    out_t o;
    const char* status = state.status() == solver_status::converged   ? "converged"
                       : state.status() == solver_status::max_iters ? "max_iters"
                       : state.status() == solver_status::failed    ? "failed"
                                                                    : "other";
    o << "ok" << status << state.fx();
    {
        std::vector<double> x(state.x().begin(), state.x().end());
        o.flist(x);
    }
    o << state.fcalls() << state.gcalls() << evals << static_cast<int64_t>(N) << nnull << nserious << "qp" << qp_count << qp_maxdev
      << qp_minalpha << qp_maxgap << qp_maxgap2 << qp_unconverged << qp_maxgap_unconv << "trace";
    project(c, recs, wbegin == 0, o);
    return o.str();
}
} // namespace

std::string vh::execute(toks_t& t, std::string& aug)
{
    const auto  fam  = t.s();
    const auto  op   = t.s();
    std::string line;
    for (size_t i = 0; i < t.t.size(); ++i)
    {
        line += (i ? " " : "") + t.t[i];
    }
    if (op != "run")
    {
        throw bad_op("op");
    }
    case_t c;
    if (fam == "bundle")
    {
        c.solver = t.s();
        if (c.solver != "rqb" && c.solver != "fpba1" && c.solver != "fpba2")
        {
            throw bad_op("solver");
        }
        read_problem(t, c);
        c.max_size = t.i64();
        c.m1       = t.f();
        c.m2       = t.f();
        c.m3       = t.f();
        c.m4       = t.f();
        c.interpol = t.f();
        c.extrapol = t.f();
        c.miu0min  = t.f();
        c.miu0max  = t.f();
        c.mindot   = t.f();
    }
    else if (fam == "ellipsoid")
    {
        c.solver = "ellipsoid";
        read_problem(t, c);
        c.R = t.f();
    }
    else
    {
        throw bad_op("family");
    }
    c.wmode  = t.i64();
    c.wfrac  = t.f();
    c.budget = t.i64();
    if (!t.done())
    {
        throw bad_op("trailing tokens");
    }
    try
    {
        return run_case(c, line, aug);
    }
    catch (const overflow_t& e)
    {
        out_t o;
        o << "overflow" << e.size << e.capacity;
        return o.str();
    }
    catch (const std::logic_error& e)
    {
        // an internal inconsistency of the harness itself (never expected): reported, not hidden
        throw bad_op(std::string("harness: ") + e.what());
    }
}

int main()
{
    return vh::main_loop();
}
