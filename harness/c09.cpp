// C09 harness: the machine-learning objectives (linear::function_t, gboost::bias/scale/grads_function_t) evaluated on
// an in-memory dataset generated from the op line, for a list of (threads, batch, cached) configurations.
//
// op:  objective <kind> <seed> <N> <feats: n {kind size}…> <tkind> <tdim> <miss%> <loss> <l1> <l2> <scaling> <a> <b> <smode>
//                <pmag> <groups> <unassigned%> <V> {threads batch cached}×V
//      kind ∈ linear | bias | scale | grads; feature kinds 0 sclass(size) 1 mclass(size) 2 float64 3 float64[size] 4 int16;
//      tkind R (regression, tdim values) | S (single-label, tdim classes) | M (multi-label, tdim classes);
//      samples = arange(a, b) (smode 0) or b-a distinct random samples in random order (smode 1).
// aug: op | n s t d X T P L G SO WO GR V {workers batch asg}×V  (see lean/NanoVerif/Driver/Objective.lean): what the
//      iterator serves with 1 thread, batch = n, no cache; the parameter vector; the per-sample loss values / gradients
//      of the library's loss at outputs computed here with plain loops; and, per configuration, the pool size and the
//      worker that executed each chunk of the objective's loop (observed through the pool hook H1: the k-th `pop` is chunk k).
// res: ok V {hash fx0 fx ngrad g…}×V with hash = FNV-like hash of the inputs/targets served to this configuration,
//      fx0 = vgrad(x) (value only), fx / g = vgrad(x, gx).
#include "common.h"
#include <atomic>
#include <chrono>
#include <thread>
#include <limits>
#include <map>
#include <memory>
#include <nano/core/parallel.h>
#include <nano/dataset.h>
#include <nano/dataset/iterator.h>
#include <nano/gboost/function.h>
#include <nano/generator/elemwise_identity.h>
#include <nano/core/reduce.h>
#include <nano/linear/accumulator.h>
#include <nano/linear/function.h>
#include <nano/loss.h>
#include <nano/machine/cluster.h>

using namespace nano;
using vh::bad_op;
using vh::out_t;
using vh::toks_t;

namespace
{
struct rng64_t
{
    uint64_t s;

    explicit rng64_t(const uint64_t seed)
        : s(seed * 0x9E3779B97F4A7C15ULL + 0x1234567ULL)
    {
    }

    uint64_t u64()
    {
        s += 0x9E3779B97F4A7C15ULL;
        uint64_t z = s;
        z          = (z ^ (z >> 30)) * 0xBF58476D1CE4E5B9ULL;
        z          = (z ^ (z >> 27)) * 0x94D049BB133111EBULL;
        return z ^ (z >> 31);
    }

    uint64_t below(const uint64_t n) { return n > 0 ? u64() % n : 0; }

    double unit() { return static_cast<double>(u64() >> 11) / static_cast<double>(1ULL << 53); }

    double uniform(const double a, const double b) { return a + (b - a) * unit(); }
};

struct variant_t
{
    int64_t threads{1}, batch{1}, cached{0};
};

struct op_t
{
    std::string                              kind;
    uint64_t                                 seed{0};
    int64_t                                  N{0};
    std::vector<std::pair<int64_t, int64_t>> feats;
    char                                     tkind{'R'};
    int64_t                                  tdim{1}, miss{0};
    std::string                              loss;
    double                                   l1{0}, l2{0};
    int64_t                                  scaling{0}, a{0}, b{0}, smode{0};
    double                                   pmag{1};
    int64_t                                  groups{1}, unass{0};
    std::vector<variant_t>                   variants;
};

op_t read_op(toks_t& toks)
{
    op_t op;
    op.kind = toks.s();
    op.seed = static_cast<uint64_t>(std::stoull(toks.s()));
    op.N    = toks.i64();
    {
        const auto v = toks.ints();
        if (v.size() % 2 != 0)
        {
            throw bad_op("feats");
        }
        for (size_t i = 0; i < v.size(); i += 2)
        {
            if (v[i] < 0 || v[i] > 4 || v[i + 1] < 1 || v[i + 1] > 8 || (v[i] <= 1 && v[i + 1] < 2))
            {
                throw bad_op("feature");
            }
            op.feats.emplace_back(v[i], v[i + 1]);
        }
    }
    const auto tk = toks.s();
    if (tk != "R" && tk != "S" && tk != "M")
    {
        throw bad_op("tkind");
    }
    op.tkind   = tk[0];
    op.tdim    = toks.i64();
    op.miss    = toks.i64();
    op.loss    = toks.s();
    op.l1      = toks.f();
    op.l2      = toks.f();
    op.scaling = toks.i64();
    op.a       = toks.i64();
    op.b       = toks.i64();
    op.smode   = toks.i64();
    op.pmag    = toks.f();
    op.groups  = toks.i64();
    op.unass   = toks.i64();
    const auto V = toks.i64();
    if (V < 1 || V > 64)
    {
        throw bad_op("variants");
    }
    for (int64_t v = 0; v < V; ++v)
    {
        variant_t va;
        va.threads = toks.i64();
        va.batch   = toks.i64();
        va.cached  = toks.i64();
        if (va.threads < 1 || va.threads > 64 || va.batch < 1 || (va.cached != 0 && va.cached != 1))
        {
            throw bad_op("variant");
        }
        op.variants.push_back(va);
    }
    if (!toks.done() || op.N < 1 || op.N > 1000 || op.feats.empty() || op.feats.size() > 16 || op.tdim < 1 || op.tdim > 8 ||
        (op.tkind != 'R' && op.tdim < 2) || op.miss < 0 || op.miss > 100 || op.scaling < 0 || op.scaling > 3 || op.a < 0 ||
        op.a >= op.b || op.b > op.N || op.smode < 0 || op.smode > 1 || op.groups < 1 || op.groups > 16 || op.unass < 0 ||
        op.unass > 100 || !(op.l1 >= 0.0) || !(op.l2 >= 0.0) || !std::isfinite(op.pmag))
    {
        throw bad_op("arguments");
    }
    if (op.kind != "linear" && op.kind != "bias" && op.kind != "scale" && op.kind != "grads")
    {
        throw bad_op("kind");
    }
    return op;
}

// in-memory data source: mixed input features with missing values + a regression / classification target
class c09_datasource_t final : public datasource_t
{
public:
    explicit c09_datasource_t(const op_t& op)
        : datasource_t("c09")
        , m_op(op)
    {
    }

    rdatasource_t clone() const override { return std::make_unique<c09_datasource_t>(*this); }

private:
    static strings_t labels(const int64_t n)
    {
        strings_t ls;
        for (int64_t i = 0; i < n; ++i)
        {
            ls.push_back("c" + std::to_string(i));
        }
        return ls;
    }

    void do_load() override
    {
        features_t features;
        for (size_t i = 0; i < m_op.feats.size(); ++i)
        {
            const auto [kind, size] = m_op.feats[i];
            const auto name         = "f" + std::to_string(i);
            switch (kind)
            {
            case 0: features.push_back(feature_t{name}.sclass(labels(size))); break;
            case 1: features.push_back(feature_t{name}.mclass(labels(size))); break;
            case 2: features.push_back(feature_t{name}.scalar(feature_type::float64)); break;
            case 3: features.push_back(feature_t{name}.scalar(feature_type::float64, make_dims(size, 1, 1))); break;
            default: features.push_back(feature_t{name}.scalar(feature_type::int16)); break;
            }
        }
        switch (m_op.tkind)
        {
        case 'S': features.push_back(feature_t{"target"}.sclass(labels(m_op.tdim))); break;
        case 'M': features.push_back(feature_t{"target"}.mclass(labels(m_op.tdim))); break;
        default:
            features.push_back(m_op.tdim == 1 ? feature_t{"target"}.scalar(feature_type::float64)
                                              : feature_t{"target"}.scalar(feature_type::float64, make_dims(m_op.tdim, 1, 1)));
            break;
        }
        const auto itarget = static_cast<tensor_size_t>(features.size()) - 1;
        resize(m_op.N, features, static_cast<size_t>(itarget));

        auto rng = rng64_t{m_op.seed};
        for (tensor_size_t sample = 0; sample < m_op.N; ++sample)
        {
            for (size_t i = 0; i < m_op.feats.size(); ++i)
            {
                const auto [kind, size] = m_op.feats[i];
                const auto ifeature     = static_cast<tensor_size_t>(i);
                const auto missing      = static_cast<int64_t>(rng.below(100)) < m_op.miss;
                // NB: the values are always drawn so that the stream does not depend on the missing pattern
                switch (kind)
                {
                case 0:
                {
                    const auto label = static_cast<int32_t>(rng.below(static_cast<uint64_t>(size)));
                    if (!missing)
                    {
                        set(sample, ifeature, label);
                    }
                    break;
                }
                case 1:
                {
                    tensor_mem_t<int8_t, 1> hits(size);
                    for (int64_t c = 0; c < size; ++c)
                    {
                        hits(c) = static_cast<int8_t>(rng.below(2));
                    }
                    if (!missing)
                    {
                        set(sample, ifeature, hits);
                    }
                    break;
                }
                case 2:
                {
                    const auto value = rng.uniform(-2.0, 3.0);
                    if (!missing)
                    {
                        set(sample, ifeature, value);
                    }
                    break;
                }
                case 3:
                {
                    tensor1d_t values(size);
                    for (int64_t c = 0; c < size; ++c)
                    {
                        values(c) = rng.uniform(-1.0, 1.0) * static_cast<double>(c + 1);
                    }
                    if (!missing)
                    {
                        set(sample, ifeature, values);
                    }
                    break;
                }
                default:
                {
                    const auto value = static_cast<int16_t>(static_cast<int64_t>(rng.below(41)) - 20);
                    if (!missing)
                    {
                        set(sample, ifeature, value);
                    }
                    break;
                }
                }
            }
            switch (m_op.tkind)
            {
            case 'S': set(sample, itarget, static_cast<int32_t>(rng.below(static_cast<uint64_t>(m_op.tdim)))); break;
            case 'M':
            {
                tensor_mem_t<int8_t, 1> hits(m_op.tdim);
                for (int64_t c = 0; c < m_op.tdim; ++c)
                {
                    hits(c) = static_cast<int8_t>(rng.below(2));
                }
                set(sample, itarget, hits);
                break;
            }
            default:
                if (m_op.tdim == 1)
                {
                    set(sample, itarget, rng.uniform(-3.0, 3.0));
                }
                else
                {
                    tensor1d_t values(m_op.tdim);
                    for (int64_t c = 0; c < m_op.tdim; ++c)
                    {
                        values(c) = rng.uniform(-3.0, 3.0);
                    }
                    set(sample, itarget, values);
                }
                break;
            }
        }
    }

    op_t m_op;
};

// ---- pool observer: the worker that popped the k-th task of the recorded map() call ------------------------------
std::vector<int64_t> g_pops;          // written under the queue's mutex (the `pop` event is emitted inside the lock)
std::atomic<bool>    g_recording{false};

void pool_observer(const int event, const void*, long long, const long long b)
{
    if (!g_recording.load(std::memory_order_acquire))
    {
        return;
    }
    if (event == static_cast<int>(nano::verif::pool_event::pop))
    {
        g_pops.push_back(b);
    }
    else if (event == static_cast<int>(nano::verif::pool_event::run_begin))
    {
        // the chunks are tiny: without a pause the first worker that wakes up pops all of them; the pause (outside the
        // queue's lock) lets the other workers take their share, so that the recorded schedules use several accumulators
        std::this_thread::sleep_for(std::chrono::microseconds(40));
    }
}

uint64_t hash_step(const uint64_t h, const double v)
{
    uint64_t u = 0;
    std::memcpy(&u, &v, 8);
    return (h ^ u) * 0x100000001B3ULL;
}

struct world_t
{
    explicit world_t(const op_t& op)
        : m_op(op)
        , m_datasource(op)
    {
        m_datasource.load();
    }

    const dataset_t& dataset(const int64_t threads)
    {
        auto it = m_datasets.find(threads);
        if (it == m_datasets.end())
        {
            auto dataset = std::make_unique<dataset_t>(m_datasource, static_cast<size_t>(threads));
            dataset->add<sclass_identity_generator_t>();
            dataset->add<mclass_identity_generator_t>();
            dataset->add<scalar_identity_generator_t>();
            dataset->add<struct_identity_generator_t>();
            it = m_datasets.emplace(threads, std::move(dataset)).first;
        }
        return *it->second;
    }

    op_t                                          m_op;
    c09_datasource_t                              m_datasource;
    std::map<int64_t, std::unique_ptr<dataset_t>> m_datasets;
};

indices_t make_samples(const op_t& op)
{
    const auto n = op.b - op.a;
    indices_t  samples(n);
    if (op.smode == 0)
    {
        for (int64_t i = 0; i < n; ++i)
        {
            samples(i) = op.a + i;
        }
    }
    else
    {
        auto                 rng = rng64_t{op.seed ^ 0xABCDEF12345ULL};
        std::vector<int64_t> all(static_cast<size_t>(op.N));
        for (int64_t i = 0; i < op.N; ++i)
        {
            all[static_cast<size_t>(i)] = i;
        }
        for (int64_t i = 0; i < n; ++i)
        {
            const auto j = i + static_cast<int64_t>(rng.below(static_cast<uint64_t>(op.N - i)));
            std::swap(all[static_cast<size_t>(i)], all[static_cast<size_t>(j)]);
            samples(i) = all[static_cast<size_t>(i)];
        }
    }
    return samples;
}

constexpr auto max_bytes = std::numeric_limits<tensor_size_t>::max();

template <class ttensor>
void put_tensor(std::string& s, const ttensor& t)
{
    s += ' ';
    s += std::to_string(t.size());
    for (tensor_size_t i = 0; i < t.size(); ++i)
    {
        s += ' ';
        s += vh::f2h(t(i));
    }
}

// records the assignment chunk -> worker of one vgrad call
template <class tcall>
auto record(const tcall& call)
{
    g_pops.clear();
    g_recording.store(true, std::memory_order_release);
    const auto fx = call();
    g_recording.store(false, std::memory_order_release);
    return fx;
}

void put_assignment(std::string& aug, const size_t workers, const int64_t n, const int64_t batch)
{
    std::vector<int64_t> asg = g_pops;
    if (asg.empty())
    {
        // sequential path of map(): every chunk is executed by the caller with tnum = 0
        asg.assign(static_cast<size_t>((n + batch - 1) / batch), 0);
    }
    aug += ' ' + std::to_string(workers) + ' ' + std::to_string(batch) + ' ' + std::to_string(asg.size());
    for (const auto w : asg)
    {
        aug += ' ' + std::to_string(w);
    }
}

scaling_type to_scaling(const int64_t m)
{
    return static_cast<scaling_type>(m);
}

std::string run(toks_t& toks, std::string& aug)
{
    const auto op = read_op(toks);

    static const bool hooked = []
    {
        nano::verif::pool_hook().store(&pool_observer);
        return true;
    }();
    (void)hooked;

    const auto rloss = loss_t::all().get(op.loss);
    if (!rloss)
    {
        throw bad_op("loss " + op.loss);
    }
    const auto& loss = *rloss;

    auto        world   = world_t{op};
    const auto  samples = make_samples(op);
    const auto  n       = samples.size();
    const auto& ds1     = world.dataset(1);
    const auto  tdims   = ds1.target_dims();
    const auto  tsize   = ::nano::size(tdims);
    const auto  isize   = ds1.columns();
    const auto  linear  = op.kind == "linear";
    const auto  scaling = to_scaling(op.scaling);

    // ---- reference: what the iterator serves with one thread, one batch, no cache --------------------------------
    tensor2d_t X(n, linear ? isize : tensor_size_t{0});
    tensor4d_t T(cat_dims(n, tdims));
    if (linear)
    {
        auto it = flatten_iterator_t{ds1, samples};
        it.batch(n);
        it.scaling(scaling);
        it.loop(
            [&](tensor_range_t range, size_t, tensor2d_cmap_t inputs, tensor4d_cmap_t targets)
            {
                X.slice(range) = inputs;
                T.slice(range) = targets;
            });
    }
    else
    {
        auto it = targets_iterator_t{ds1, samples};
        it.batch(n);
        it.scaling(scaling);
        it.loop([&](tensor_range_t range, size_t, tensor4d_cmap_t targets) { T.slice(range) = targets; });
    }

    // ---- parameters and the other inputs of the objective ----------------------------------------------------------
    auto          prng = rng64_t{op.seed ^ 0x5555AAAA5555ULL};
    tensor_size_t d    = 0;
    if (linear)
    {
        d = (isize + 1) * tsize;
    }
    else if (op.kind == "bias")
    {
        d = tsize;
    }
    else if (op.kind == "scale")
    {
        d = op.groups;
    }
    else
    {
        d = n * tsize;
    }
    vector_t P(d);
    for (tensor_size_t i = 0; i < d; ++i)
    {
        P(i) = prng.uniform(-op.pmag, op.pmag);
    }

    tensor4d_t soutputs(cat_dims(op.N, tdims));
    tensor4d_t woutputs(cat_dims(op.N, tdims));
    cluster_t  cluster(op.N, op.groups);
    if (op.kind == "scale")
    {
        for (tensor_size_t i = 0; i < soutputs.size(); ++i)
        {
            soutputs(i) = prng.uniform(-1.0, 1.0);
            woutputs(i) = prng.uniform(-1.0, 1.0);
        }
        for (tensor_size_t sample = 0; sample < op.N; ++sample)
        {
            const auto unassigned = static_cast<int64_t>(prng.below(100)) < op.unass;
            const auto group      = static_cast<tensor_size_t>(prng.below(static_cast<uint64_t>(op.groups)));
            if (!unassigned)
            {
                cluster.assign(sample, group);
            }
        }
    }

    // ---- reference outputs (plain loops) and the library's loss on them --------------------------------------------
    tensor4d_t O(cat_dims(n, tdims));
    tensor4d_t SO(cat_dims(op.kind == "scale" ? n : tensor_size_t{0}, tdims));
    tensor4d_t WO(cat_dims(op.kind == "scale" ? n : tensor_size_t{0}, tdims));
    indices_t  GR(op.kind == "scale" ? n : tensor_size_t{0});
    for (tensor_size_t i = 0; i < n; ++i)
    {
        for (tensor_size_t k = 0; k < tsize; ++k)
        {
            double o = 0.0;
            if (linear)
            {
                for (tensor_size_t j = 0; j < isize; ++j)
                {
                    o += X(i, j) * P(k * isize + j);
                }
                o += P(tsize * isize + k);
            }
            else if (op.kind == "bias")
            {
                o = P(k);
            }
            else if (op.kind == "scale")
            {
                const auto group  = cluster.group(samples(i));
                const auto s      = soutputs(samples(i) * tsize + k);
                const auto w      = woutputs(samples(i) * tsize + k);
                o                 = (group < 0) ? s : (s + P(group) * w);
                SO(i * tsize + k) = s;
                WO(i * tsize + k) = w;
                GR(i)             = group;
            }
            else
            {
                o = P(i * tsize + k);
            }
            O(i * tsize + k) = o;
        }
    }
    tensor1d_t Lv(n);
    tensor4d_t G(cat_dims(n, tdims));
    loss.value(T, O, Lv.tensor());
    loss.vgrad(T, O, G.tensor());

    aug += " | " + std::to_string(n) + ' ' + std::to_string(linear ? isize : 0) + ' ' + std::to_string(tsize) + ' ' +
           std::to_string(d);
    put_tensor(aug, X);
    put_tensor(aug, T);
    put_tensor(aug, P);
    put_tensor(aug, Lv);
    put_tensor(aug, G);
    put_tensor(aug, SO);
    put_tensor(aug, WO);
    aug += ' ' + std::to_string(GR.size());
    for (tensor_size_t i = 0; i < GR.size(); ++i)
    {
        aug += ' ' + std::to_string(GR(i));
    }
    aug += ' ' + std::to_string(op.variants.size());

    // ---- every configuration ---------------------------------------------------------------------------------------
    out_t out;
    out << "ok" << static_cast<long long>(op.variants.size());
    const auto nan = std::numeric_limits<double>::quiet_NaN();
    for (const auto& va : op.variants)
    {
        const auto& dataset = world.dataset(va.threads);
        vector_t    gx(d);
        gx.full(nan);
        double   fx = nan, fx0 = nan;
        uint64_t hash = 0xCBF29CE484222325ULL;

        tensor4d_t sT(cat_dims(n, tdims));
        sT.full(nan);
        if (linear)
        {
            auto it = flatten_iterator_t{dataset, samples};
            it.batch(va.batch);
            it.scaling(scaling);
            if (va.cached != 0 && !(it.cache_flatten(max_bytes) && it.cache_targets(max_bytes)))
            {
                throw bad_op("cache refused");
            }
            tensor2d_t sX(n, isize);
            sX.full(nan);
            it.loop(
                [&](tensor_range_t range, size_t, tensor2d_cmap_t inputs, tensor4d_cmap_t targets)
                {
                    sX.slice(range) = inputs;
                    sT.slice(range) = targets;
                });
            for (tensor_size_t i = 0; i < sX.size(); ++i)
            {
                hash = hash_step(hash, sX(i));
            }
            const auto function = linear::function_t{it, loss, op.l1, op.l2};
            if (function.size() != d)
            {
                throw bad_op("function size");
            }
            fx  = record([&] { return function.vgrad(P, gx); });
            put_assignment(aug, dataset.concurrency(), n, va.batch);
            fx0 = function.vgrad(P);
        }
        else
        {
            auto it = targets_iterator_t{dataset, samples};
            it.batch(va.batch);
            it.scaling(scaling);
            if (va.cached != 0 && !it.cache_targets(max_bytes))
            {
                throw bad_op("cache refused");
            }
            it.loop([&](tensor_range_t range, size_t, tensor4d_cmap_t targets) { sT.slice(range) = targets; });

            std::unique_ptr<function_t> function;
            if (op.kind == "bias")
            {
                function = std::make_unique<gboost::bias_function_t>(it, loss);
            }
            else if (op.kind == "scale")
            {
                function = std::make_unique<gboost::scale_function_t>(it, loss, cluster, soutputs, woutputs);
            }
            else
            {
                function = std::make_unique<gboost::grads_function_t>(it, loss);
            }
            if (function->size() != d)
            {
                throw bad_op("function size");
            }
            fx  = record([&] { return function->vgrad(P, gx); });
            put_assignment(aug, dataset.concurrency(), n, va.batch);
            fx0 = function->vgrad(P);
        }
        for (tensor_size_t i = 0; i < sT.size(); ++i)
        {
            hash = hash_step(hash, sT(i));
        }
        char buf[32];
        std::snprintf(buf, sizeof(buf), "%016llx", static_cast<unsigned long long>(hash));
        out << std::string("h") + buf << fx0 << fx;
        out.flist(gx);
    }
    return out.str();
}
// ---- `reduce sum <samples> <W> <D> <K> {<worker> <v_1 … v_D>}*K`: nano::sum_reduce (include/nano/core/reduce.h) on W real
//      linear::accumulator_t objects holding the K chunk contributions of an explicit schedule (D = 1 + tsize + tsize*isize, tsize = 1)
std::string op_reduce_sum(toks_t& toks)
{
    const auto samples = toks.i64();
    const auto W       = toks.i64();
    const auto D       = toks.i64();
    const auto K       = toks.i64();
    if (samples < 1 || W < 1 || W > 64 || D < 2 || D > 64 || K < 0 || K > 10000)
    {
        throw bad_op("reduce sum arguments");
    }
    const auto tsize        = tensor_size_t{1};
    const auto isize        = static_cast<tensor_size_t>(D - 2);
    auto       accumulators = linear::accumulators_t(static_cast<size_t>(W), linear::accumulator_t{std::max(isize, tensor_size_t{1}), tsize});
    for (auto& accumulator : accumulators)
    {
        accumulator.clear();
    }
    for (int64_t k = 0; k < K; ++k)
    {
        const auto w = toks.i64();
        if (w < 0 || w >= W)
        {
            throw bad_op("worker");
        }
        auto& accumulator = accumulators[static_cast<size_t>(w)];
        accumulator.m_vm1 += toks.f();
        accumulator.m_gb1(0) += toks.f();
        for (tensor_size_t i = 0; i < isize; ++i)
        {
            accumulator.m_gW1(0, i) += toks.f();
        }
    }
    if (!toks.done())
    {
        throw bad_op("trailing tokens");
    }
    const auto& reduced = ::nano::sum_reduce(accumulators, static_cast<tensor_size_t>(samples));
    out_t       out;
    out << "ok" << static_cast<long long>(D) << reduced.m_vm1 << reduced.m_gb1(0);
    for (tensor_size_t i = 0; i < isize; ++i)
    {
        out << reduced.m_gW1(0, i);
    }
    return out.str();
}
} // namespace

std::string vh::execute(toks_t& toks, std::string& aug)
{
    const auto fam = toks.s();
    if (fam == "reduce")
    {
        if (toks.s() != "sum")
        {
            throw bad_op("reduce kind");
        }
        return op_reduce_sum(toks);
    }
    if (fam != "objective")
    {
        throw bad_op("family");
    }
    return run(toks, aug);
}

int main()
{
    return vh::main_loop();
}
