// C09 harness: the machine-learning objectives (linear::function_t, gboost::bias/scale/grads_function_t) evaluated on
// an in-memory dataset generated from the op line, for a list of (threads, batch, cached) configurations.
//
// op:  objective <kind> <seed> <N> <feats: n {kind size}…> <tkind> <tdim> <miss%> <loss> <l1> <l2> <scaling> <a> <b> <smode>
//                <pmag> <groups> <unassigned%> <V> {threads batch cached}×V
//      kind ∈ linear | bias | scale | grads; feature kinds 0 sclass(size) 1 mclass(size) 2 float64 3 float64[size] 4 int16;
//      tkind R (regression, tdim values) | S (single-label, tdim classes) | M (multi-label, tdim classes);
//      samples = arange(a, b) (smode 0) or b-a distinct random samples in random order (smode 1).
// aug: op | n s t d X T P L G SO WO GR V {workers batch asg}×V  (see lean/NanoVerif/Driver/Objective.lean): what the
//      iterator serves with 1 thread, batch = n, no cache; the parameter vector; the per-sample loss values / gradients
//      of the library's loss at outputs computed here with plain loops; and, per configuration, the pool size and the
//      worker that executed each chunk of the objective's loop (observed through the pool hook H1: the k-th `pop` is chunk k).
//      … then `raw <eps> <hi> <lo> <enF> <enT> <RX> <RT>`: epsilon2 / numeric_limits max / lowest, the per-column enable masks
//      (input column -> feature is not single/multi-label; target is continuous), and the RAW (unscaled, NaN = missing)
//      flattened inputs / targets of the samples as `dataset_t::flatten` / `dataset_t::targets` return them.
// res: ok V {hash fx0 fx ngrad g…}×V with hash = FNV-like hash of the inputs/targets served to this configuration,
//      fx0 = vgrad(x) (value only), fx / g = vgrad(x, gx).
#include "common.h"
#include <atomic>
#include <chrono>
#include <thread>
#include <limits>
#include <map>
#include <mutex>
#include <memory>
#include <nano/core/parallel.h>
#include <nano/dataset.h>
#include <nano/dataset/iterator.h>
#include <nano/gboost/function.h>
#include <nano/generator/elemwise_identity.h>
#include <nano/core/reduce.h>
#include <nano/linear/accumulator.h>
#include <nano/linear/function.h>
#include <nano/loss.h>
#include <nano/machine/cluster.h>

using namespace nano;
using vh::bad_op;
using vh::out_t;
using vh::toks_t;

namespace
{
struct rng64_t
{
    uint64_t s;

    explicit rng64_t(const uint64_t seed)
        : s(seed * 0x9E3779B97F4A7C15ULL + 0x1234567ULL)
    {
    }

    uint64_t u64()
    {
        s += 0x9E3779B97F4A7C15ULL;
        uint64_t z = s;
        z          = (z ^ (z >> 30)) * 0xBF58476D1CE4E5B9ULL;
        z          = (z ^ (z >> 27)) * 0x94D049BB133111EBULL;
        return z ^ (z >> 31);
    }

    uint64_t below(const uint64_t n) { return n > 0 ? u64() % n : 0; }

    double unit() { return static_cast<double>(u64() >> 11) / static_cast<double>(1ULL << 53); }

    double uniform(const double a, const double b) { return a + (b - a) * unit(); }
};

struct variant_t
{
    int64_t threads{1}, batch{1}, cached{0};
};

struct op_t
{
    std::string                              kind;
    uint64_t                                 seed{0};
    int64_t                                  N{0};
    std::vector<std::pair<int64_t, int64_t>> feats;
    char                                     tkind{'R'};
    int64_t                                  tdim{1}, miss{0};
    std::string                              loss;
    double                                   l1{0}, l2{0};
    int64_t                                  scaling{0}, a{0}, b{0}, smode{0};
    double                                   pmag{1};
    int64_t                                  groups{1}, unass{0};
    std::vector<variant_t>                   variants;
};

op_t read_op(toks_t& toks)
{
    op_t op;
    op.kind = toks.s();
    op.seed = static_cast<uint64_t>(std::stoull(toks.s()));
    op.N    = toks.i64();
    {
        const auto v = toks.ints();
        if (v.size() % 2 != 0)
        {
            throw bad_op("feats");
        }
        for (size_t i = 0; i < v.size(); i += 2)
        {
            if (v[i] < 0 || v[i] > 4 || v[i + 1] < 1 || v[i + 1] > 8 || (v[i] <= 1 && v[i + 1] < 2))
            {
                throw bad_op("feature");
            }
            op.feats.emplace_back(v[i], v[i + 1]);
        }
    }
    const auto tk = toks.s();
    if (tk != "R" && tk != "S" && tk != "M")
    {
        throw bad_op("tkind");
    }
    op.tkind   = tk[0];
    op.tdim    = toks.i64();
    op.miss    = toks.i64();
    op.loss    = toks.s();
    op.l1      = toks.f();
    op.l2      = toks.f();
    op.scaling = toks.i64();
    op.a       = toks.i64();
    op.b       = toks.i64();
    op.smode   = toks.i64();
    op.pmag    = toks.f();
    op.groups  = toks.i64();
    op.unass   = toks.i64();
    const auto V = toks.i64();
    if (V < 1 || V > 64)
    {
        throw bad_op("variants");
    }
    for (int64_t v = 0; v < V; ++v)
    {
        variant_t va;
        va.threads = toks.i64();
        va.batch   = toks.i64();
        va.cached  = toks.i64();
        if (va.threads < 1 || va.threads > 64 || va.batch < 1 || (va.cached != 0 && va.cached != 1))
        {
            throw bad_op("variant");
        }
        op.variants.push_back(va);
    }
    if (!toks.done() || op.N < 1 || op.N > 1000 || op.feats.empty() || op.feats.size() > 16 || op.tdim < 1 || op.tdim > 8 ||
        (op.tkind != 'R' && op.tdim < 2) || op.miss < 0 || op.miss > 100 || op.scaling < 0 || op.scaling > 3 || op.a < 0 ||
        op.a >= op.b || op.b > op.N || op.smode < 0 || op.smode > 1 || op.groups < 1 || op.groups > 16 || op.unass < 0 ||
        op.unass > 100 || !(op.l1 >= 0.0) || !(op.l2 >= 0.0) || !std::isfinite(op.pmag))
    {
        throw bad_op("arguments");
    }
    if (op.kind != "linear" && op.kind != "bias" && op.kind != "scale" && op.kind != "grads")
    {
        throw bad_op("kind");
    }
    return op;
}

// in-memory data source: mixed input features with missing values + a regression / classification target
class c09_datasource_t final : public datasource_t
{
public:
    explicit c09_datasource_t(const op_t& op)
        : datasource_t("c09")
        , m_op(op)
    {
    }

    rdatasource_t clone() const override { return std::make_unique<c09_datasource_t>(*this); }

private:
    static strings_t labels(const int64_t n)
    {
        strings_t ls;
        for (int64_t i = 0; i < n; ++i)
        {
            ls.push_back("c" + std::to_string(i));
        }
        return ls;
    }

    void do_load() override
    {
        features_t features;
        for (size_t i = 0; i < m_op.feats.size(); ++i)
        {
            const auto [kind, size] = m_op.feats[i];
            const auto name         = "f" + std::to_string(i);
            switch (kind)
            {
            case 0: features.push_back(feature_t{name}.sclass(labels(size))); break;
            case 1: features.push_back(feature_t{name}.mclass(labels(size))); break;
            case 2: features.push_back(feature_t{name}.scalar(feature_type::float64)); break;
            case 3: features.push_back(feature_t{name}.scalar(feature_type::float64, make_dims(size, 1, 1))); break;
            default: features.push_back(feature_t{name}.scalar(feature_type::int16)); break;
            }
        }
        switch (m_op.tkind)
        {
        case 'S': features.push_back(feature_t{"target"}.sclass(labels(m_op.tdim))); break;
        case 'M': features.push_back(feature_t{"target"}.mclass(labels(m_op.tdim))); break;
        default:
            features.push_back(m_op.tdim == 1 ? feature_t{"target"}.scalar(feature_type::float64)
                                              : feature_t{"target"}.scalar(feature_type::float64, make_dims(m_op.tdim, 1, 1)));
            break;
        }
        const auto itarget = static_cast<tensor_size_t>(features.size()) - 1;
        resize(m_op.N, features, static_cast<size_t>(itarget));

        auto rng = rng64_t{m_op.seed};
        for (tensor_size_t sample = 0; sample < m_op.N; ++sample)
        {
            for (size_t i = 0; i < m_op.feats.size(); ++i)
            {
                const auto [kind, size] = m_op.feats[i];
                const auto ifeature     = static_cast<tensor_size_t>(i);
                const auto missing      = static_cast<int64_t>(rng.below(100)) < m_op.miss;
                // NB: the values are always drawn so that the stream does not depend on the missing pattern
                switch (kind)
                {
                case 0:
                {
                    const auto label = static_cast<int32_t>(rng.below(static_cast<uint64_t>(size)));
                    if (!missing)
                    {
                        set(sample, ifeature, label);
                    }
                    break;
                }
                case 1:
                {
                    tensor_mem_t<int8_t, 1> hits(size);
                    for (int64_t c = 0; c < size; ++c)
                    {
                        hits(c) = static_cast<int8_t>(rng.below(2));
                    }
                    if (!missing)
                    {
                        set(sample, ifeature, hits);
                    }
                    break;
                }
                case 2:
                {
                    const auto value = rng.uniform(-2.0, 3.0);
                    if (!missing)
                    {
                        set(sample, ifeature, value);
                    }
                    break;
                }
                case 3:
                {
                    tensor1d_t values(size);
                    for (int64_t c = 0; c < size; ++c)
                    {
                        values(c) = rng.uniform(-1.0, 1.0) * static_cast<double>(c + 1);
                    }
                    if (!missing)
                    {
                        set(sample, ifeature, values);
                    }
                    break;
                }
                default:
                {
                    const auto value = static_cast<int16_t>(static_cast<int64_t>(rng.below(41)) - 20);
                    if (!missing)
                    {
                        set(sample, ifeature, value);
                    }
                    break;
                }
                }
            }
            switch (m_op.tkind)
            {
            case 'S': set(sample, itarget, static_cast<int32_t>(rng.below(static_cast<uint64_t>(m_op.tdim)))); break;
            case 'M':
            {
                tensor_mem_t<int8_t, 1> hits(m_op.tdim);
                for (int64_t c = 0; c < m_op.tdim; ++c)
                {
                    hits(c) = static_cast<int8_t>(rng.below(2));
                }
                set(sample, itarget, hits);
                break;
            }
            default:
                if (m_op.tdim == 1)
                {
                    set(sample, itarget, rng.uniform(-3.0, 3.0));
                }
                else
                {
                    tensor1d_t values(m_op.tdim);
                    for (int64_t c = 0; c < m_op.tdim; ++c)
                    {
                        values(c) = rng.uniform(-3.0, 3.0);
                    }
                    set(sample, itarget, values);
                }
                break;
            }
        }
    }

    op_t m_op;
};

// ---- pool observer: the worker that popped the k-th task of the recorded map() call ------------------------------
std::vector<int64_t> g_pops;          // written under the queue's mutex (the `pop` event is emitted inside the lock)
std::atomic<bool>    g_recording{false};

void pool_observer(const int event, const void*, long long, const long long b)
{
    if (!g_recording.load(std::memory_order_acquire))
    {
        return;
    }
    if (event == static_cast<int>(nano::verif::pool_event::pop))
    {
        g_pops.push_back(b);
    }
    else if (event == static_cast<int>(nano::verif::pool_event::run_begin))
    {
        // the chunks are tiny: without a pause the first worker that wakes up pops all of them; the pause (outside the
        // queue's lock) lets the other workers take their share, so that the recorded schedules use several accumulators
        std::this_thread::sleep_for(std::chrono::microseconds(40));
    }
}

uint64_t hash_step(const uint64_t h, const double v)
{
    uint64_t u = 0;
    std::memcpy(&u, &v, 8);
    return (h ^ u) * 0x100000001B3ULL;
}

struct world_t
{
    explicit world_t(const op_t& op)
        : m_op(op)
        , m_datasource(op)
    {
        m_datasource.load();
    }

    const dataset_t& dataset(const int64_t threads)
    {
        auto it = m_datasets.find(threads);
        if (it == m_datasets.end())
        {
            auto dataset = std::make_unique<dataset_t>(m_datasource, static_cast<size_t>(threads));
            dataset->add<sclass_identity_generator_t>();
            dataset->add<mclass_identity_generator_t>();
            dataset->add<scalar_identity_generator_t>();
            dataset->add<struct_identity_generator_t>();
            it = m_datasets.emplace(threads, std::move(dataset)).first;
        }
        return *it->second;
    }

    op_t                                          m_op;
    c09_datasource_t                              m_datasource;
    std::map<int64_t, std::unique_ptr<dataset_t>> m_datasets;
};

indices_t make_samples(const op_t& op)
{
    const auto n = op.b - op.a;
    indices_t  samples(n);
    if (op.smode == 0)
    {
        for (int64_t i = 0; i < n; ++i)
        {
            samples(i) = op.a + i;
        }
    }
    else
    {
        auto                 rng = rng64_t{op.seed ^ 0xABCDEF12345ULL};
        std::vector<int64_t> all(static_cast<size_t>(op.N));
        for (int64_t i = 0; i < op.N; ++i)
        {
            all[static_cast<size_t>(i)] = i;
        }
        for (int64_t i = 0; i < n; ++i)
        {
            const auto j = i + static_cast<int64_t>(rng.below(static_cast<uint64_t>(op.N - i)));
            std::swap(all[static_cast<size_t>(i)], all[static_cast<size_t>(j)]);
            samples(i) = all[static_cast<size_t>(i)];
        }
    }
    return samples;
}

constexpr auto max_bytes = std::numeric_limits<tensor_size_t>::max();

template <class ttensor>
void put_tensor(std::string& s, const ttensor& t)
{
    s += ' ';
    s += std::to_string(t.size());
    for (tensor_size_t i = 0; i < t.size(); ++i)
    {
        s += ' ';
        s += vh::f2h(t(i));
    }
}

// records the assignment chunk -> worker of one vgrad call
template <class tcall>
auto record(const tcall& call)
{
    g_pops.clear();
    g_recording.store(true, std::memory_order_release);
    const auto fx = call();
    g_recording.store(false, std::memory_order_release);
    return fx;
}

void put_assignment(std::string& aug, const size_t workers, const int64_t n, const int64_t batch)
{
    std::vector<int64_t> asg = g_pops;
    if (asg.empty())
    {
        // sequential path of map(): every chunk is executed by the caller with tnum = 0
        asg.assign(static_cast<size_t>((n + batch - 1) / batch), 0);
    }
    aug += ' ' + std::to_string(workers) + ' ' + std::to_string(batch) + ' ' + std::to_string(asg.size());
    for (const auto w : asg)
    {
        aug += ' ' + std::to_string(w);
    }
}

scaling_type to_scaling(const int64_t m)
{
    return static_cast<scaling_type>(m);
}

// ---- the RAW (unscaled) data of the samples and the enable masks of make_flatten_stats / make_targets_stats -------
struct rawdata_t
{
    tensor2d_t           RX;  // n x columns (0 columns when not wanted)
    tensor2d_t           RT;  // n x tsize
    std::vector<int64_t> enF; // per input column
    std::vector<int64_t> enT; // per target column
};

rawdata_t make_raw(const dataset_t& dataset, const indices_t& samples, const bool with_inputs)
{
    rawdata_t  raw;
    const auto n     = samples.size();
    const auto tsize = ::nano::size(dataset.target_dims());
    raw.RX.resize(n, with_inputs ? dataset.columns() : tensor_size_t{0});
    raw.RT.resize(n, tsize);
    if (with_inputs)
    {
        tensor2d_t buffer;
        raw.RX = dataset.flatten(samples, buffer);
        for (tensor_size_t column = 0; column < dataset.columns(); ++column)
        {
            const auto feature = dataset.feature(dataset.column2feature(column));
            raw.enF.push_back((feature.is_sclass() || feature.is_mclass()) ? 0 : 1);
        }
    }
    {
        tensor4d_t buffer;
        const auto values = dataset.targets(samples, buffer);
        raw.RT            = values.reshape(n, tsize);
        const auto target = dataset.target();
        raw.enT.assign(static_cast<size_t>(tsize), (target.is_sclass() || target.is_mclass()) ? 0 : 1);
    }
    return raw;
}

void put_ints(std::string& s, const std::vector<int64_t>& v)
{
    s += ' ' + std::to_string(v.size());
    for (const auto x : v)
    {
        s += ' ' + std::to_string(x);
    }
}

void put_raw(std::string& aug, const rawdata_t& raw)
{
    aug += " raw " + vh::f2h(epsilon2<scalar_t>()) + ' ' + vh::f2h(std::numeric_limits<scalar_t>::max()) + ' ' +
           vh::f2h(std::numeric_limits<scalar_t>::lowest());
    put_ints(aug, raw.enF);
    put_ints(aug, raw.enT);
    put_tensor(aug, raw.RX);
    put_tensor(aug, raw.RT);
}

void put_stats(out_t& out, const scalar_stats_t& st)
{
    out << static_cast<long long>(st.m_samples.size());
    for (tensor_size_t i = 0; i < st.m_samples.size(); ++i)
    {
        out << static_cast<long long>(st.m_samples(i)) << st.m_min(i) << st.m_max(i) << st.m_mean(i) << st.m_stdev(i)
            << st.m_div_range(i) << st.m_mul_range(i) << st.m_div_stdev(i) << st.m_mul_stdev(i);
    }
}

// ---- `iter hist <seed> <N> <feats> <tkind> <tdim> <miss%> <a> <b> <smode> <threads> <sbF> <sbT> <K> {step}×K`:
//      a history of configuration calls and loops on ONE real flatten_iterator_t. Steps: `B <batch>`, `S <mode>`,
//      `CF <max_bytes>` (cache_flatten), `CT <max_bytes>` (cache_targets), `L` (inputs+targets loop), `LF` (inputs only),
//      `LT` (targets only).
// aug: op | <workers> raw … {<asg>}×K: per step the worker that executed each chunk of its map() (empty when no map ran).
// res: ok <stats of the iterator: flatten, targets> <make_flatten_stats(…, sbF)> <make_targets_stats(…, sbT)>
//      then per step: B/S -> nothing; CF/CT -> `c <0|1>`; loops -> `l <nchunks> {b e}… <mincount> <maxcount> <X> <T>` with
//      X / T assembled by position from the blocks handed to the callback (NaN where nothing was served), and the minimum /
//      maximum number of times a position was served.
std::string run_select(toks_t& toks, std::string& aug);

std::string run_iter(toks_t& toks, std::string& aug)
{
    const auto sub = toks.s();
    if (sub == "select")
    {
        return run_select(toks, aug);
    }
    if (sub != "hist")
    {
        throw bad_op("iter kind");
    }
    op_t op;
    op.kind = "linear";
    op.seed = static_cast<uint64_t>(std::stoull(toks.s()));
    op.N    = toks.i64();
    {
        const auto v = toks.ints();
        if (v.size() % 2 != 0)
        {
            throw bad_op("feats");
        }
        for (size_t i = 0; i < v.size(); i += 2)
        {
            if (v[i] < 0 || v[i] > 4 || v[i + 1] < 1 || v[i + 1] > 8 || (v[i] <= 1 && v[i + 1] < 2))
            {
                throw bad_op("feature");
            }
            op.feats.emplace_back(v[i], v[i + 1]);
        }
    }
    const auto tk = toks.s();
    if (tk != "R" && tk != "S" && tk != "M")
    {
        throw bad_op("tkind");
    }
    op.tkind           = tk[0];
    op.tdim            = toks.i64();
    op.miss            = toks.i64();
    op.a               = toks.i64();
    op.b               = toks.i64();
    op.smode           = toks.i64();
    const auto threads = toks.i64();
    const auto sbF     = toks.i64();
    const auto sbT     = toks.i64();
    const auto K       = toks.i64();
    if (op.N < 1 || op.N > 5000 || op.feats.empty() || op.feats.size() > 16 || op.tdim < 1 || op.tdim > 8 ||
        (op.tkind != 'R' && op.tdim < 2) || op.miss < 0 || op.miss > 100 || op.a < 0 || op.a >= op.b || op.b > op.N ||
        op.smode < 0 || op.smode > 1 || threads < 1 || threads > 64 || sbF < 1 || sbT < 1 || K < 0 || K > 64)
    {
        throw bad_op("arguments");
    }
    struct step_t
    {
        std::string kind;
        int64_t     arg{0};
    };
    std::vector<step_t> steps;
    for (int64_t k = 0; k < K; ++k)
    {
        step_t st;
        st.kind = toks.s();
        if (st.kind == "B" || st.kind == "S" || st.kind == "CF" || st.kind == "CT")
        {
            st.arg = toks.i64();
            if ((st.kind == "B" && st.arg < 1) || (st.kind == "S" && (st.arg < 0 || st.arg > 3)))
            {
                throw bad_op("step argument");
            }
        }
        else if (st.kind != "L" && st.kind != "LF" && st.kind != "LT")
        {
            throw bad_op("step");
        }
        steps.push_back(st);
    }
    if (!toks.done())
    {
        throw bad_op("trailing tokens");
    }

    static const bool hooked = []
    {
        nano::verif::pool_hook().store(&pool_observer);
        return true;
    }();
    (void)hooked;

    auto        world   = world_t{op};
    const auto  samples = make_samples(op);
    const auto  n       = samples.size();
    const auto& dataset = world.dataset(threads);
    const auto  tdims   = dataset.target_dims();
    const auto  tsize   = ::nano::size(tdims);
    const auto  isize   = dataset.columns();

    aug += " | " + std::to_string(dataset.concurrency());
    put_raw(aug, make_raw(dataset, samples, true));

    auto it = flatten_iterator_t{dataset, samples};

    out_t out;
    out << "ok";
    put_stats(out, it.flatten_stats());
    put_stats(out, it.targets_stats());
    put_stats(out, scalar_stats_t::make_flatten_stats(dataset, samples, sbF));
    put_stats(out, scalar_stats_t::make_targets_stats(dataset, samples, sbT));

    const auto nan = std::numeric_limits<double>::quiet_NaN();
    for (const auto& st : steps)
    {
        if (st.kind == "B")
        {
            it.batch(st.arg);
            put_ints(aug, {});
        }
        else if (st.kind == "S")
        {
            it.scaling(to_scaling(st.arg));
            put_ints(aug, {});
        }
        else if (st.kind == "CF" || st.kind == "CT")
        {
            const auto cached = record([&] { return st.kind == "CF" ? it.cache_flatten(st.arg) : it.cache_targets(st.arg); });
            std::vector<int64_t> asg;
            if (cached)
            {
                asg = g_pops;
                if (asg.empty())
                {
                    asg.assign(static_cast<size_t>((n + it.batch() - 1) / it.batch()), 0); // sequential path of map()
                }
            }
            put_ints(aug, asg);
            out << "c" << (cached ? 1 : 0);
        }
        else
        {
            tensor2d_t sX(n, st.kind == "LT" ? tensor_size_t{0} : isize);
            tensor2d_t sT(n, st.kind == "LF" ? tensor_size_t{0} : tsize);
            sX.full(nan);
            sT.full(nan);
            std::vector<std::atomic<int>> counts(static_cast<size_t>(n));
            std::vector<std::atomic<int64_t>> ends(static_cast<size_t>(n)), tnums(static_cast<size_t>(n));
            for (tensor_size_t i = 0; i < n; ++i)
            {
                counts[static_cast<size_t>(i)].store(0);
                ends[static_cast<size_t>(i)].store(-1);
                tnums[static_cast<size_t>(i)].store(-1);
            }
            std::atomic<int> malformed{0};
            const auto       note = [&](const tensor_range_t range, const size_t tnum, const tensor_size_t rows)
            {
                if (range.begin() < 0 || range.end() > n || range.begin() >= range.end() || rows != range.size())
                {
                    malformed.fetch_add(1);
                    return false;
                }
                ends[static_cast<size_t>(range.begin())].store(range.end());
                tnums[static_cast<size_t>(range.begin())].store(static_cast<int64_t>(tnum));
                for (auto i = range.begin(); i < range.end(); ++i)
                {
                    counts[static_cast<size_t>(i)].fetch_add(1);
                }
                return true;
            };
            if (st.kind == "L")
            {
                it.loop(
                    [&](tensor_range_t range, size_t tnum, tensor2d_cmap_t inputs, tensor4d_cmap_t targets)
                    {
                        if (note(range, tnum, inputs.size<0>()) && targets.size<0>() == range.size())
                        {
                            sX.slice(range) = inputs;
                            sT.slice(range) = targets.reshape(range.size(), -1);
                        }
                    });
            }
            else if (st.kind == "LF")
            {
                it.loop(
                    [&](tensor_range_t range, size_t tnum, tensor2d_cmap_t inputs)
                    {
                        if (note(range, tnum, inputs.size<0>()))
                        {
                            sX.slice(range) = inputs;
                        }
                    });
            }
            else
            {
                static_cast<const targets_iterator_t&>(it).loop(
                    [&](tensor_range_t range, size_t tnum, tensor4d_cmap_t targets)
                    {
                        if (note(range, tnum, targets.size<0>()))
                        {
                            sT.slice(range) = targets.reshape(range.size(), -1);
                        }
                    });
            }
            if (malformed.load() != 0)
            {
                throw bad_op("malformed range handed to the callback");
            }
            std::vector<int64_t> asg, bounds;
            int                  cmin = n > 0 ? std::numeric_limits<int>::max() : 0, cmax = 0;
            for (tensor_size_t i = 0; i < n; ++i)
            {
                const auto c = counts[static_cast<size_t>(i)].load();
                cmin         = std::min(cmin, c);
                cmax         = std::max(cmax, c);
                if (ends[static_cast<size_t>(i)].load() >= 0)
                {
                    bounds.push_back(i);
                    bounds.push_back(ends[static_cast<size_t>(i)].load());
                    asg.push_back(tnums[static_cast<size_t>(i)].load());
                }
            }
            put_ints(aug, asg);
            out << "l" << static_cast<long long>(asg.size());
            for (const auto v : bounds)
            {
                out << static_cast<long long>(v);
            }
            out << cmin << cmax;
            out << static_cast<long long>(sX.size());
            for (tensor_size_t i = 0; i < sX.size(); ++i)
            {
                out << sX(i);
            }
            out << static_cast<long long>(sT.size());
            for (tensor_size_t i = 0; i < sT.size(); ++i)
            {
                out << sT(i);
            }
        }
    }
    return out.str();
}

// ---- `iter select <seed> <N> <feats> <tkind> <tdim> <miss%> <a> <b> <smode> <threads> <kind 0..3> <mode>`: select_iterator_t.
//      kind: 0 single-label, 1 multi-label, 2 scalar, 3 structured callbacks; mode: `A` (all the features of the kind),
//      `L <n> <f>…` (the given feature list), `O <f>` (one feature, no pool).
// aug: op | <workers> <kinds of the dataset's features> <asg>: the worker that popped each chunk of the map().
// res: ok <ncalls> <bad tnum> {<ifeature> <#calls> <#calls whose values equal a direct dataset.select>}… sorted by feature
template <class tmap, class tother>
bool same_values(const tmap& a, const tother& b)
{
    if (a.size() != b.size())
    {
        return false;
    }
    for (tensor_size_t i = 0; i < a.size(); ++i)
    {
        const auto x = a(i);
        const auto y = b(i);
        if (!(x == y) && !(x != x && y != y))
        {
            return false;
        }
    }
    return true;
}

template <class tbuffer, class tcmap, class tcallback>
std::string run_select_kind(const dataset_t& dataset, const indices_t& samples, const std::string& mode,
                            const indices_t& features, const tensor_size_t one, std::string& aug)
{
    const auto iterator = select_iterator_t{dataset};

    std::mutex                                           mutex;
    std::map<tensor_size_t, std::pair<int64_t, int64_t>> calls;
    int64_t                                              ncalls = 0, badtnum = 0;

    const tcallback callback = [&](const tensor_size_t ifeature, const size_t tnum, tcmap values)
    {
        tbuffer    buffer;
        const auto direct = dataset.select(samples, ifeature, buffer);
        const auto equal  = same_values(values, direct);

        const std::scoped_lock lock(mutex);
        ++ncalls;
        badtnum += (tnum < iterator.concurrency()) ? 0 : 1;
        auto& entry = calls[ifeature];
        entry.first += 1;
        entry.second += equal ? 1 : 0;
    };

    tensor_size_t nfeatures = 0;
    record(
        [&]
        {
            if (mode == "A")
            {
                iterator.loop(samples, callback);
            }
            else if (mode == "L")
            {
                iterator.loop(samples, indices_cmap_t{features}, callback);
            }
            else
            {
                iterator.loop(samples, one, callback);
            }
            return 0;
        });
    std::vector<int64_t> kinds;
    for (tensor_size_t i = 0; i < dataset.features(); ++i)
    {
        const auto feature = dataset.feature(i);
        kinds.push_back(feature.is_sclass() ? 0 : feature.is_mclass() ? 1 : feature.is_scalar() ? 2 : 3);
    }
    (void)nfeatures;
    aug += " | " + std::to_string(dataset.concurrency());
    put_ints(aug, kinds);
    put_ints(aug, g_pops); // empty on the sequential path of map(): every chunk by worker 0

    out_t out;
    out << "ok" << static_cast<long long>(ncalls) << static_cast<long long>(badtnum);
    for (const auto& [ifeature, entry] : calls)
    {
        out << static_cast<long long>(ifeature) << static_cast<long long>(entry.first) << static_cast<long long>(entry.second);
    }
    return out.str();
}

std::string run_select(toks_t& toks, std::string& aug)
{
    op_t op;
    op.kind = "linear";
    op.seed = static_cast<uint64_t>(std::stoull(toks.s()));
    op.N    = toks.i64();
    {
        const auto v = toks.ints();
        if (v.size() % 2 != 0)
        {
            throw bad_op("feats");
        }
        for (size_t i = 0; i < v.size(); i += 2)
        {
            if (v[i] < 0 || v[i] > 4 || v[i + 1] < 1 || v[i + 1] > 8 || (v[i] <= 1 && v[i + 1] < 2))
            {
                throw bad_op("feature");
            }
            op.feats.emplace_back(v[i], v[i + 1]);
        }
    }
    const auto tk = toks.s();
    if (tk != "R" && tk != "S" && tk != "M")
    {
        throw bad_op("tkind");
    }
    op.tkind           = tk[0];
    op.tdim            = toks.i64();
    op.miss            = toks.i64();
    op.a               = toks.i64();
    op.b               = toks.i64();
    op.smode           = toks.i64();
    const auto threads = toks.i64();
    const auto kind    = toks.i64();
    const auto mode    = toks.s();
    if (op.N < 1 || op.N > 1000 || op.feats.empty() || op.feats.size() > 40 || op.tdim < 1 || op.tdim > 8 ||
        (op.tkind != 'R' && op.tdim < 2) || op.miss < 0 || op.miss > 100 || op.a < 0 || op.a >= op.b || op.b > op.N ||
        op.smode < 0 || op.smode > 1 || threads < 1 || threads > 64 || kind < 0 || kind > 3 ||
        (mode != "A" && mode != "L" && mode != "O"))
    {
        throw bad_op("arguments");
    }
    indices_t     features(0);
    tensor_size_t one = 0;
    if (mode == "L")
    {
        const auto v = toks.ints();
        features.resize(static_cast<tensor_size_t>(v.size()));
        for (size_t i = 0; i < v.size(); ++i)
        {
            features(static_cast<tensor_size_t>(i)) = v[i];
        }
    }
    else if (mode == "O")
    {
        one = toks.i64();
    }
    if (!toks.done())
    {
        throw bad_op("trailing tokens");
    }
    static const bool hooked = []
    {
        nano::verif::pool_hook().store(&pool_observer);
        return true;
    }();
    (void)hooked;

    auto        world   = world_t{op};
    const auto  samples = make_samples(op);
    const auto& dataset = world.dataset(threads);
    switch (kind)
    {
    case 0: return run_select_kind<sclass_mem_t, sclass_cmap_t, sclass_callback_t>(dataset, samples, mode, features, one, aug);
    case 1: return run_select_kind<mclass_mem_t, mclass_cmap_t, mclass_callback_t>(dataset, samples, mode, features, one, aug);
    case 2: return run_select_kind<scalar_mem_t, scalar_cmap_t, scalar_callback_t>(dataset, samples, mode, features, one, aug);
    default: return run_select_kind<struct_mem_t, struct_cmap_t, struct_callback_t>(dataset, samples, mode, features, one, aug);
    }
}

std::string run(toks_t& toks, std::string& aug)
{
    const auto op = read_op(toks);

    static const bool hooked = []
    {
        nano::verif::pool_hook().store(&pool_observer);
        return true;
    }();
    (void)hooked;

    const auto rloss = loss_t::all().get(op.loss);
    if (!rloss)
    {
        throw bad_op("loss " + op.loss);
    }
    const auto& loss = *rloss;

    auto        world   = world_t{op};
    const auto  samples = make_samples(op);
    const auto  n       = samples.size();
    const auto& ds1     = world.dataset(1);
    const auto  tdims   = ds1.target_dims();
    const auto  tsize   = ::nano::size(tdims);
    const auto  isize   = ds1.columns();
    const auto  linear  = op.kind == "linear";
    const auto  scaling = to_scaling(op.scaling);

    // ---- reference: what the iterator serves with one thread, one batch, no cache --------------------------------
    tensor2d_t X(n, linear ? isize : tensor_size_t{0});
    tensor4d_t T(cat_dims(n, tdims));
    if (linear)
    {
        auto it = flatten_iterator_t{ds1, samples};
        it.batch(n);
        it.scaling(scaling);
        it.loop(
            [&](tensor_range_t range, size_t, tensor2d_cmap_t inputs, tensor4d_cmap_t targets)
            {
                X.slice(range) = inputs;
                T.slice(range) = targets;
            });
    }
    else
    {
        auto it = targets_iterator_t{ds1, samples};
        it.batch(n);
        it.scaling(scaling);
        it.loop([&](tensor_range_t range, size_t, tensor4d_cmap_t targets) { T.slice(range) = targets; });
    }

    // ---- parameters and the other inputs of the objective ----------------------------------------------------------
    auto          prng = rng64_t{op.seed ^ 0x5555AAAA5555ULL};
    tensor_size_t d    = 0;
    if (linear)
    {
        d = (isize + 1) * tsize;
    }
    else if (op.kind == "bias")
    {
        d = tsize;
    }
    else if (op.kind == "scale")
    {
        d = op.groups;
    }
    else
    {
        d = n * tsize;
    }
    vector_t P(d);
    for (tensor_size_t i = 0; i < d; ++i)
    {
        P(i) = prng.uniform(-op.pmag, op.pmag);
    }

    tensor4d_t soutputs(cat_dims(op.N, tdims));
    tensor4d_t woutputs(cat_dims(op.N, tdims));
    cluster_t  cluster(op.N, op.groups);
    if (op.kind == "scale")
    {
        for (tensor_size_t i = 0; i < soutputs.size(); ++i)
        {
            soutputs(i) = prng.uniform(-1.0, 1.0);
            woutputs(i) = prng.uniform(-1.0, 1.0);
        }
        for (tensor_size_t sample = 0; sample < op.N; ++sample)
        {
            const auto unassigned = static_cast<int64_t>(prng.below(100)) < op.unass;
            const auto group      = static_cast<tensor_size_t>(prng.below(static_cast<uint64_t>(op.groups)));
            if (!unassigned)
            {
                cluster.assign(sample, group);
            }
        }
    }

    // ---- reference outputs (plain loops) and the library's loss on them --------------------------------------------
    tensor4d_t O(cat_dims(n, tdims));
    tensor4d_t SO(cat_dims(op.kind == "scale" ? n : tensor_size_t{0}, tdims));
    tensor4d_t WO(cat_dims(op.kind == "scale" ? n : tensor_size_t{0}, tdims));
    indices_t  GR(op.kind == "scale" ? n : tensor_size_t{0});
    for (tensor_size_t i = 0; i < n; ++i)
    {
        for (tensor_size_t k = 0; k < tsize; ++k)
        {
            double o = 0.0;
            if (linear)
            {
                for (tensor_size_t j = 0; j < isize; ++j)
                {
                    o += X(i, j) * P(k * isize + j);
                }
                o += P(tsize * isize + k);
            }
            else if (op.kind == "bias")
            {
                o = P(k);
            }
            else if (op.kind == "scale")
            {
                const auto group  = cluster.group(samples(i));
                const auto s      = soutputs(samples(i) * tsize + k);
                const auto w      = woutputs(samples(i) * tsize + k);
                o                 = (group < 0) ? s : (s + P(group) * w);
                SO(i * tsize + k) = s;
                WO(i * tsize + k) = w;
                GR(i)             = group;
            }
            else
            {
                o = P(i * tsize + k);
            }
            O(i * tsize + k) = o;
        }
    }
    tensor1d_t Lv(n);
    tensor4d_t G(cat_dims(n, tdims));
    loss.value(T, O, Lv.tensor());
    loss.vgrad(T, O, G.tensor());

    aug += " | " + std::to_string(n) + ' ' + std::to_string(linear ? isize : 0) + ' ' + std::to_string(tsize) + ' ' +
           std::to_string(d);
    put_tensor(aug, X);
    put_tensor(aug, T);
    put_tensor(aug, P);
    put_tensor(aug, Lv);
    put_tensor(aug, G);
    put_tensor(aug, SO);
    put_tensor(aug, WO);
    aug += ' ' + std::to_string(GR.size());
    for (tensor_size_t i = 0; i < GR.size(); ++i)
    {
        aug += ' ' + std::to_string(GR(i));
    }
    aug += ' ' + std::to_string(op.variants.size());

    // ---- every configuration ---------------------------------------------------------------------------------------
    out_t out;
    out << "ok" << static_cast<long long>(op.variants.size());
    const auto nan = std::numeric_limits<double>::quiet_NaN();
    for (const auto& va : op.variants)
    {
        const auto& dataset = world.dataset(va.threads);
        vector_t    gx(d);
        gx.full(nan);
        double   fx = nan, fx0 = nan;
        uint64_t hash = 0xCBF29CE484222325ULL;

        tensor4d_t sT(cat_dims(n, tdims));
        sT.full(nan);
        if (linear)
        {
            auto it = flatten_iterator_t{dataset, samples};
            it.batch(va.batch);
            it.scaling(scaling);
            if (va.cached != 0 && !(it.cache_flatten(max_bytes) && it.cache_targets(max_bytes)))
            {
                throw bad_op("cache refused");
            }
            tensor2d_t sX(n, isize);
            sX.full(nan);
            it.loop(
                [&](tensor_range_t range, size_t, tensor2d_cmap_t inputs, tensor4d_cmap_t targets)
                {
                    sX.slice(range) = inputs;
                    sT.slice(range) = targets;
                });
            for (tensor_size_t i = 0; i < sX.size(); ++i)
            {
                hash = hash_step(hash, sX(i));
            }
            const auto function = linear::function_t{it, loss, op.l1, op.l2};
            if (function.size() != d)
            {
                throw bad_op("function size");
            }
            fx  = record([&] { return function.vgrad(P, gx); });
            put_assignment(aug, dataset.concurrency(), n, va.batch);
            fx0 = function.vgrad(P);
        }
        else
        {
            auto it = targets_iterator_t{dataset, samples};
            it.batch(va.batch);
            it.scaling(scaling);
            if (va.cached != 0 && !it.cache_targets(max_bytes))
            {
                throw bad_op("cache refused");
            }
            it.loop([&](tensor_range_t range, size_t, tensor4d_cmap_t targets) { sT.slice(range) = targets; });

            std::unique_ptr<function_t> function;
            if (op.kind == "bias")
            {
                function = std::make_unique<gboost::bias_function_t>(it, loss);
            }
            else if (op.kind == "scale")
            {
                function = std::make_unique<gboost::scale_function_t>(it, loss, cluster, soutputs, woutputs);
            }
            else
            {
                function = std::make_unique<gboost::grads_function_t>(it, loss);
            }
            if (function->size() != d)
            {
                throw bad_op("function size");
            }
            fx  = record([&] { return function->vgrad(P, gx); });
            put_assignment(aug, dataset.concurrency(), n, va.batch);
            fx0 = function->vgrad(P);
        }
        for (tensor_size_t i = 0; i < sT.size(); ++i)
        {
            hash = hash_step(hash, sT(i));
        }
        char buf[32];
        std::snprintf(buf, sizeof(buf), "%016llx", static_cast<unsigned long long>(hash));
        out << std::string("h") + buf << fx0 << fx;
        out.flist(gx);
    }
    put_raw(aug, make_raw(ds1, samples, linear));
    return out.str();
}
// ---- `reduce sum <samples> <W> <D> <K> {<worker> <v_1 … v_D>}*K`: nano::sum_reduce (include/nano/core/reduce.h) on W real
//      linear::accumulator_t objects holding the K chunk contributions of an explicit schedule (D = 1 + tsize + tsize*isize, tsize = 1)
std::string op_reduce_sum(toks_t& toks)
{
    const auto samples = toks.i64();
    const auto W       = toks.i64();
    const auto D       = toks.i64();
    const auto K       = toks.i64();
    if (samples < 1 || W < 1 || W > 64 || D < 2 || D > 64 || K < 0 || K > 10000)
    {
        throw bad_op("reduce sum arguments");
    }
    const auto tsize        = tensor_size_t{1};
    const auto isize        = static_cast<tensor_size_t>(D - 2);
    auto       accumulators = linear::accumulators_t(static_cast<size_t>(W), linear::accumulator_t{std::max(isize, tensor_size_t{1}), tsize});
    for (auto& accumulator : accumulators)
    {
        accumulator.clear();
    }
    for (int64_t k = 0; k < K; ++k)
    {
        const auto w = toks.i64();
        if (w < 0 || w >= W)
        {
            throw bad_op("worker");
        }
        auto& accumulator = accumulators[static_cast<size_t>(w)];
        accumulator.m_vm1 += toks.f();
        accumulator.m_gb1(0) += toks.f();
        for (tensor_size_t i = 0; i < isize; ++i)
        {
            accumulator.m_gW1(0, i) += toks.f();
        }
    }
    if (!toks.done())
    {
        throw bad_op("trailing tokens");
    }
    const auto& reduced = ::nano::sum_reduce(accumulators, static_cast<tensor_size_t>(samples));
    out_t       out;
    out << "ok" << static_cast<long long>(D) << reduced.m_vm1 << reduced.m_gb1(0);
    for (tensor_size_t i = 0; i < isize; ++i)
    {
        out << reduced.m_gW1(0, i);
    }
    return out.str();
}
} // namespace

std::string vh::execute(toks_t& toks, std::string& aug)
{
    const auto fam = toks.s();
    if (fam == "reduce")
    {
        if (toks.s() != "sum")
        {
            throw bad_op("reduce kind");
        }
        return op_reduce_sum(toks);
    }
    if (fam == "iter")
    {
        return run_iter(toks, aug);
    }
    if (fam != "objective")
    {
        throw bad_op("family");
    }
    return run(toks, aug);
}

int main()
{
    return vh::main_loop();
}
