// C08 harness: dataset views (select / flatten / targets / bookkeeping / drop / shuffle) on an in-memory datasource whose
// schema, stored values and missing mask are described INSIDE the op line, so every line is its own replay.
//
//   dataset hist <N> <seed> <threads> <NF> {<type> <a> <b> <c> <mk>}xNF <target> <NG> {<gkind> <list> [<list>]}xNG
//                <NH> {<history op>}xNH
//
//   type: 0..9 = int8 int16 int32 int64 uint8 uint16 uint32 uint64 float32 float64 (a,b,c = dims), 10 = sclass, 11 = mclass
//         (a = number of classes); mk: value (f,s) is missing iff mk != 0 and mix(seed,f,s,0xFFFF) % mk == 0
//   stored values: sclass mix(seed,f,s,0) % classes; mclass hit j = mix(seed,f,s,j) % 2; signed/float mix(seed,f,s,j) % 41 - 20;
//         unsigned mix(seed,f,s,j) % 41   (j = row-major component)
//   gkind: 0..3 = identity sclass/mclass/scalar/struct, 4 = product(list), 5 = product(list1, list2), 6 = gradient(list),
//          7 = gradient(kernel3x3_type, list) written `7 <list> <kernel>` (0 sobel, 1 scharr, 2 prewitt);
//          8 = a harness-defined computer through elemwise_generator_t, written `8 <list> <in> <out>`,
//          9 = one through pairwise_generator_t, written `9 <list1> <list2> <in1> <in2> <out>`
//              (in: 0 sclass, 1 mclass, 2 scalar, 3 struct = elemwise_input_*_t / pairwise_input_*_*_t; out = generated_type:
//               0 sclass (3 labels), 1 mclass (2 labels), 2 scalar, 3 structured (3,1,1)); value functions: see `custom_*`;
//          an empty list = the default constructor (all features)
//   history ops: flatten L | iflatten B L | select F T L | iselect T L | tselect T L | targets L | itargets B L | feature F |
//          c2f C | drop F | undrop | shuffle F | unshuffle | shuffled F L       (L = `n v1 .. vn`, T = -1 auto, 0..3 overload)
//
//   dataset grad3 <kernel> <mode> <input type> <rows> <cols> <rows*cols integer pixels>
//          gradient3x3(mode, input, make_kernel3x3<double>(kernel), output) on one image (function level); input type
//          0 int32, 1 double, 2 int8, 3 float, 4 uint8 (non-negative pixels only)
//
// The augmented line appends ` perms K {list}xK`: the permutation read back through dataset_t::shuffled(f, 0..N-1) right
// after every `shuffle` op (empty when the op threw).
#include "common.h"
#include <algorithm>
#include <map>
#include <mutex>
#include <nano/dataset.h>
#include <nano/dataset/iterator.h>
#include <nano/generator/elemwise_gradient.h>
#include <nano/generator/elemwise_identity.h>
#include <nano/generator/pairwise.h>
#include <nano/generator/pairwise_product.h>

using namespace nano;
using vh::bad_op;
using vh::out_t;
using vh::toks_t;

namespace
{
using ivec = std::vector<int64_t>;

uint64_t mix(uint64_t seed, uint64_t f, uint64_t s, uint64_t j)
{
    uint64_t z = seed * 0x9E3779B97F4A7C15ULL + f * 0xBF58476D1CE4E5B9ULL + s * 0x94D049BB133111EBULL +
                 j * 0xD6E8FEB86659FD93ULL + 0x1234567ULL;
    z = (z ^ (z >> 30)) * 0xBF58476D1CE4E5B9ULL;
    z = (z ^ (z >> 27)) * 0x94D049BB133111EBULL;
    return z ^ (z >> 31);
}

struct fspec_t
{
    int64_t type{0}, a{1}, b{1}, c{1}, mk{0};

    bool is_class() const { return type >= 10; }

    bool is_unsigned() const { return type >= 4 && type <= 7; }

    int64_t components() const { return type == 10 ? 1 : type == 11 ? a : a * b * c; }
};

const feature_type scalar_types[] = {feature_type::int8,   feature_type::int16,  feature_type::int32,  feature_type::int64,
                                     feature_type::uint8,  feature_type::uint16, feature_type::uint32, feature_type::uint64,
                                     feature_type::float32, feature_type::float64};

int64_t type_code(feature_type type)
{
    switch (type)
    {
    case feature_type::int8: return 0;
    case feature_type::int16: return 1;
    case feature_type::int32: return 2;
    case feature_type::int64: return 3;
    case feature_type::uint8: return 4;
    case feature_type::uint16: return 5;
    case feature_type::uint32: return 6;
    case feature_type::uint64: return 7;
    case feature_type::float32: return 8;
    case feature_type::float64: return 9;
    case feature_type::sclass: return 10;
    case feature_type::mclass: return 11;
    default: return -1;
    }
}

class mem_datasource_t final : public datasource_t
{
public:
    mem_datasource_t(int64_t samples, uint64_t seed, std::vector<fspec_t> specs, int64_t target)
        : datasource_t("verif-c08")
        , m_samples(samples)
        , m_seed(seed)
        , m_specs(std::move(specs))
        , m_target(target)
    {
    }

    rdatasource_t clone() const override { return std::make_unique<mem_datasource_t>(*this); }

private:
    void do_load() override
    {
        features_t features;
        for (size_t f = 0; f < m_specs.size(); ++f)
        {
            const auto& spec = m_specs[f];
            auto        feat = feature_t{"f" + std::to_string(f)};
            if (spec.type == 10)
            {
                feat.sclass(static_cast<size_t>(spec.a));
            }
            else if (spec.type == 11)
            {
                feat.mclass(static_cast<size_t>(spec.a));
            }
            else
            {
                feat.scalar(scalar_types[spec.type], make_dims(spec.a, spec.b, spec.c));
            }
            features.push_back(feat);
        }
        if (m_target >= 0)
        {
            resize(m_samples, features, static_cast<size_t>(m_target));
        }
        else
        {
            resize(m_samples, features);
        }

        for (size_t f = 0; f < m_specs.size(); ++f)
        {
            const auto& spec  = m_specs[f];
            const auto  ifeat = static_cast<tensor_size_t>(f);
            for (int64_t s = 0; s < m_samples; ++s)
            {
                const auto us = static_cast<uint64_t>(s);
                if (spec.mk != 0 && mix(m_seed, f, us, 0xFFFF) % static_cast<uint64_t>(spec.mk) == 0)
                {
                    // the value stays missing; for every other missing cell a loader's REJECTED write is made first (label out of
                    // range, wrong number of hits / components, text that is not a number): it throws, stores nothing, and the cell
                    // must still be reported missing (seeded change C08-f3: mask bit set before the value is validated)
                    if (mix(m_seed, f, us, 0xFFFE) % 2 == 0)
                    {
                        try
                        {
                            if (spec.type == 10)
                            {
                                set(s, ifeat, static_cast<tensor_size_t>(spec.a));
                            }
                            else if (spec.type == 11)
                            {
                                tensor_mem_t<tensor_size_t, 1> hits(spec.a + 1);
                                hits.zero();
                                set(s, ifeat, hits);
                            }
                            else if (spec.components() == 1)
                            {
                                set(s, ifeat, std::string("not-a-number"));
                            }
                            else
                            {
                                tensor_mem_t<tensor_size_t, 3> values(make_dims(spec.a + 1, spec.b, spec.c));
                                values.zero();
                                set(s, ifeat, values);
                            }
                        }
                        catch (const std::exception&)
                        {
                        }
                    }
                    continue;
                }
                if (spec.type == 10)
                {
                    set(s, ifeat, static_cast<tensor_size_t>(mix(m_seed, f, us, 0) % static_cast<uint64_t>(spec.a)));
                }
                else if (spec.type == 11)
                {
                    tensor_mem_t<tensor_size_t, 1> hits(spec.a);
                    for (int64_t j = 0; j < spec.a; ++j)
                    {
                        hits(j) = static_cast<tensor_size_t>(mix(m_seed, f, us, static_cast<uint64_t>(j)) % 2);
                    }
                    set(s, ifeat, hits);
                }
                else
                {
                    const auto value = [&](int64_t j)
                    {
                        const auto v = static_cast<int64_t>(mix(m_seed, f, us, static_cast<uint64_t>(j)) % 41);
                        return spec.is_unsigned() ? v : v - 20;
                    };
                    if (spec.components() == 1)
                    {
                        set(s, ifeat, value(0));
                    }
                    else
                    {
                        tensor_mem_t<tensor_size_t, 3> values(make_dims(spec.a, spec.b, spec.c));
                        for (int64_t j = 0; j < values.size(); ++j)
                        {
                            values(j) = value(j);
                        }
                        set(s, ifeat, values);
                    }
                }
            }
        }
    }

    int64_t              m_samples;
    uint64_t             m_seed;
    std::vector<fspec_t> m_specs;
    int64_t              m_target;
};

// ---- harness-defined computers for the two generator templates ----------------------------------------------------------
// summary(value) = sum_j (j + 1) * value(j) over the row-major components (a label: the label itself), in int64_t
template <class tvalue>
int64_t summary(const tvalue& value)
{
    if constexpr (std::is_arithmetic_v<tvalue>)
    {
        return static_cast<int64_t>(value);
    }
    else
    {
        int64_t sum = 0;
        for (tensor_size_t j = 0; j < value.size(); ++j)
        {
            sum += (j + 1) * static_cast<int64_t>(value(j));
        }
        return sum;
    }
}

inline int32_t custom_label(int64_t t)
{
    return static_cast<int32_t>(((t % 3) + 3) % 3);
}

template <class tstorage>
void custom_hits(int64_t t, tstorage&& storage)
{
    using tscalar = std::remove_reference_t<decltype(storage(0))>;
    storage(0)    = static_cast<tscalar>(t % 2 == 0 ? 1 : 0);
    storage(1)    = static_cast<tscalar>(t % 3 == 0 ? 1 : 0);
}

template <class tstorage>
void custom_pow(int64_t s1, int64_t s2, tstorage&& storage)
{
    using tscalar = std::remove_reference_t<decltype(storage(0))>;
    storage(0)    = static_cast<tscalar>(s1 * s1);
    storage(1)    = static_cast<tscalar>(s1 * s2);
    storage(2)    = static_cast<tscalar>(s2 * s2);
}

const char* custom_name(generator_type type)
{
    switch (type)
    {
    case generator_type::sclass: return "lab";
    case generator_type::mclass: return "hit";
    case generator_type::scalar: return "sum";
    default: return "pow";
    }
}

template <class tinput, class tgenerated>
class elemwise_custom_t : public tinput, public tgenerated
{
public:
    template <class... targs>
    explicit elemwise_custom_t(targs&&... args)
        : tinput("verif-elemwise", std::forward<targs>(args)...)
    {
    }

    feature_t feature(const tensor_size_t ifeature) const override
    {
        const auto* const name = custom_name(tgenerated::generated_type);
        if constexpr (tgenerated::generated_type == generator_type::sclass)
        {
            return this->make_sclass_feature(ifeature, name, strings_t{"r0", "r1", "r2"});
        }
        else if constexpr (tgenerated::generated_type == generator_type::mclass)
        {
            return this->make_mclass_feature(ifeature, name, strings_t{"even", "mod3"});
        }
        else if constexpr (tgenerated::generated_type == generator_type::scalar)
        {
            return this->make_scalar_feature(ifeature, name);
        }
        else
        {
            return this->make_struct_feature(ifeature, name, make_dims(3, 1, 1));
        }
    }

    static auto process(const tensor_size_t)
    {
        if constexpr (tgenerated::generated_type == generator_type::sclass)
        {
            return std::make_tuple([](const auto& value) { return custom_label(summary(value)); }, tensor_size_t{2});
        }
        else if constexpr (tgenerated::generated_type == generator_type::mclass)
        {
            return std::make_tuple([](const auto& value, auto&& storage) { custom_hits(summary(value), storage); },
                                   tensor_size_t{2});
        }
        else if constexpr (tgenerated::generated_type == generator_type::scalar)
        {
            return std::make_tuple([](const auto& value) { return static_cast<scalar_t>(summary(value)); }, tensor_size_t{1});
        }
        else
        {
            return std::make_tuple(
                [](const auto& value, auto&& storage)
                {
                    const auto s = summary(value);
                    custom_pow(s, s, storage);
                },
                tensor_size_t{3});
        }
    }
};

template <class tinput, class tgenerated>
class pairwise_custom_t : public tinput, public tgenerated
{
public:
    template <class... targs>
    explicit pairwise_custom_t(targs&&... args)
        : tinput("verif-pairwise", std::forward<targs>(args)...)
    {
    }

    feature_t feature(const tensor_size_t ifeature) const override
    {
        const auto* const name = custom_name(tgenerated::generated_type);
        if constexpr (tgenerated::generated_type == generator_type::sclass)
        {
            return this->make_sclass_feature(ifeature, name, strings_t{"r0", "r1", "r2"});
        }
        else if constexpr (tgenerated::generated_type == generator_type::mclass)
        {
            return this->make_mclass_feature(ifeature, name, strings_t{"even", "mod3"});
        }
        else if constexpr (tgenerated::generated_type == generator_type::scalar)
        {
            return this->make_scalar_feature(ifeature, name);
        }
        else
        {
            return this->make_struct_feature(ifeature, name, make_dims(3, 1, 1));
        }
    }

    static auto process(const tensor_size_t)
    {
        if constexpr (tgenerated::generated_type == generator_type::sclass)
        {
            return std::make_tuple([](const auto& value1, const auto& value2)
                                   { return custom_label(summary(value1) + 2 * summary(value2)); },
                                   tensor_size_t{2});
        }
        else if constexpr (tgenerated::generated_type == generator_type::mclass)
        {
            return std::make_tuple([](const auto& value1, const auto& value2, auto&& storage)
                                   { custom_hits(summary(value1) + 2 * summary(value2), storage); },
                                   tensor_size_t{2});
        }
        else if constexpr (tgenerated::generated_type == generator_type::scalar)
        {
            return std::make_tuple([](const auto& value1, const auto& value2)
                                   { return static_cast<scalar_t>(summary(value1) + 2 * summary(value2)); },
                                   tensor_size_t{1});
        }
        else
        {
            return std::make_tuple([](const auto& value1, const auto& value2, auto&& storage)
                                   { custom_pow(summary(value1), summary(value2), storage); },
                                   tensor_size_t{3});
        }
    }
};

template <class tinput, class tgenerated>
void add_elemwise(dataset_t& dataset, const indices_t& list)
{
    using tgenerator = elemwise_generator_t<elemwise_custom_t<tinput, tgenerated>>;
    list.size() > 0 ? dataset.add<tgenerator>(list) : dataset.add<tgenerator>();
}

// the instantiated combinations (each one costs compile time: 10 resp. 10 x 10 storage-type dispatches per member):
// element-wise: every input kind -> scalar, scalar -> every generated type, and kind -> same kind;
// pair-wise: six input pairs -> scalar, (scalar, scalar) -> every generated type, (struct, struct) -> struct
void add_elemwise(dataset_t& dataset, int64_t in, int64_t out, const indices_t& list)
{
    switch (in * 4 + out)
    {
    case 0: add_elemwise<elemwise_input_sclass_t, generated_sclass_t>(dataset, list); break;
    case 2: add_elemwise<elemwise_input_sclass_t, generated_scalar_t>(dataset, list); break;
    case 5: add_elemwise<elemwise_input_mclass_t, generated_mclass_t>(dataset, list); break;
    case 6: add_elemwise<elemwise_input_mclass_t, generated_scalar_t>(dataset, list); break;
    case 8: add_elemwise<elemwise_input_scalar_t, generated_sclass_t>(dataset, list); break;
    case 9: add_elemwise<elemwise_input_scalar_t, generated_mclass_t>(dataset, list); break;
    case 10: add_elemwise<elemwise_input_scalar_t, generated_scalar_t>(dataset, list); break;
    case 11: add_elemwise<elemwise_input_scalar_t, generated_struct_t>(dataset, list); break;
    case 14: add_elemwise<elemwise_input_struct_t, generated_scalar_t>(dataset, list); break;
    case 15: add_elemwise<elemwise_input_struct_t, generated_struct_t>(dataset, list); break;
    default: throw bad_op("element-wise combination not instantiated");
    }
}

template <class tinput, class tgenerated>
void add_pairwise(dataset_t& dataset, const indices_t& list1, const indices_t& list2)
{
    using tgenerator = pairwise_generator_t<pairwise_custom_t<tinput, tgenerated>>;
    dataset.add<tgenerator>(list1, list2);
}

void add_pairwise(dataset_t& dataset, int64_t in1, int64_t in2, int64_t out, const indices_t& list1, const indices_t& list2)
{
    switch ((in1 * 4 + in2) * 4 + out)
    {
    case (0 * 4 + 0) * 4 + 2: add_pairwise<pairwise_input_sclass_sclass_t, generated_scalar_t>(dataset, list1, list2); break;
    case (0 * 4 + 1) * 4 + 2: add_pairwise<pairwise_input_sclass_mclass_t, generated_scalar_t>(dataset, list1, list2); break;
    case (1 * 4 + 2) * 4 + 2: add_pairwise<pairwise_input_mclass_scalar_t, generated_scalar_t>(dataset, list1, list2); break;
    case (2 * 4 + 3) * 4 + 2: add_pairwise<pairwise_input_scalar_struct_t, generated_scalar_t>(dataset, list1, list2); break;
    case (3 * 4 + 0) * 4 + 2: add_pairwise<pairwise_input_struct_sclass_t, generated_scalar_t>(dataset, list1, list2); break;
    case (2 * 4 + 2) * 4 + 0: add_pairwise<pairwise_input_scalar_scalar_t, generated_sclass_t>(dataset, list1, list2); break;
    case (2 * 4 + 2) * 4 + 1: add_pairwise<pairwise_input_scalar_scalar_t, generated_mclass_t>(dataset, list1, list2); break;
    case (2 * 4 + 2) * 4 + 2: add_pairwise<pairwise_input_scalar_scalar_t, generated_scalar_t>(dataset, list1, list2); break;
    case (2 * 4 + 2) * 4 + 3: add_pairwise<pairwise_input_scalar_scalar_t, generated_struct_t>(dataset, list1, list2); break;
    case (3 * 4 + 3) * 4 + 3: add_pairwise<pairwise_input_struct_struct_t, generated_struct_t>(dataset, list1, list2); break;
    default: throw bad_op("pair-wise combination not instantiated");
    }
}

indices_t to_indices(const ivec& v)
{
    indices_t indices(static_cast<tensor_size_t>(v.size()));
    for (size_t i = 0; i < v.size(); ++i)
    {
        indices(static_cast<tensor_size_t>(i)) = v[i];
    }
    return indices;
}

void print_desc(out_t& out, const feature_t& feature)
{
    out << (feature.name().empty() ? std::string("-") : feature.name()) << type_code(feature.type());
    out << std::get<0>(feature.dims()) << std::get<1>(feature.dims()) << std::get<2>(feature.dims()) << feature.classes();
}

void print_sclass(out_t& out, const sclass_cmap_t& values)
{
    out << "S0" << values.size();
    for (tensor_size_t i = 0; i < values.size(); ++i)
    {
        out << static_cast<long long>(values(i));
    }
}

void print_mclass(out_t& out, const mclass_cmap_t& values)
{
    out << "S1" << values.size<0>() << values.size<1>();
    for (tensor_size_t i = 0; i < values.size(); ++i)
    {
        out << static_cast<long long>(values(i));
    }
}

void print_scalar(out_t& out, const scalar_cmap_t& values)
{
    out << "S2" << values.size();
    for (tensor_size_t i = 0; i < values.size(); ++i)
    {
        out << static_cast<double>(values(i));
    }
}

void print_struct(out_t& out, const struct_cmap_t& values)
{
    out << "S3" << values.size<0>() << values.size<1>() << values.size<2>() << values.size<3>();
    for (tensor_size_t i = 0; i < values.size(); ++i)
    {
        out << static_cast<double>(values(i));
    }
}

void select_feature(out_t& out, const dataset_t& dataset, const indices_t& samples, tensor_size_t feature, int64_t overload)
{
    if (overload < 0)
    {
        const auto desc = dataset.feature(feature); // throws for an invalid feature index
        overload        = desc.is_sclass() ? 0 : desc.is_mclass() ? 1 : desc.is_scalar() ? 2 : 3;
    }
    switch (overload)
    {
    case 0:
    {
        sclass_mem_t buffer;
        print_sclass(out, dataset.select(samples, feature, buffer));
        break;
    }
    case 1:
    {
        mclass_mem_t buffer;
        print_mclass(out, dataset.select(samples, feature, buffer));
        break;
    }
    case 2:
    {
        scalar_mem_t buffer;
        print_scalar(out, dataset.select(samples, feature, buffer));
        break;
    }
    case 3:
    {
        struct_mem_t buffer;
        print_struct(out, dataset.select(samples, feature, buffer));
        break;
    }
    default: throw bad_op("select overload");
    }
}

void select_target(out_t& out, const dataset_t& dataset, const indices_t& samples, int64_t overload)
{
    if (overload < 0)
    {
        const auto& desc = dataset.target();
        overload         = desc.is_mclass() ? 1 : desc.is_scalar() ? 2 : desc.is_struct() ? 3 : 0;
    }
    switch (overload)
    {
    case 0:
    {
        sclass_mem_t buffer;
        print_sclass(out, dataset.select(samples, buffer));
        break;
    }
    case 1:
    {
        mclass_mem_t buffer;
        print_mclass(out, dataset.select(samples, buffer));
        break;
    }
    case 2:
    {
        scalar_mem_t buffer;
        print_scalar(out, dataset.select(samples, buffer));
        break;
    }
    case 3:
    {
        struct_mem_t buffer;
        print_struct(out, dataset.select(samples, buffer));
        break;
    }
    default: throw bad_op("select overload");
    }
}

// select_iterator_t over all the features of one kind; the callback runs in the pool's threads
void iselect(out_t& out, const dataset_t& dataset, const indices_t& samples, int64_t kind)
{
    const auto                         iterator = select_iterator_t{dataset};
    std::mutex                         mutex;
    std::map<tensor_size_t, std::string> results;
    const auto store = [&](tensor_size_t feature, const out_t& one)
    {
        const std::lock_guard<std::mutex> lock(mutex);
        results[feature] = one.str();
    };
    switch (kind)
    {
    case 0:
        iterator.loop(samples, [&](tensor_size_t f, size_t, sclass_cmap_t v) { out_t o; print_sclass(o, v); store(f, o); });
        break;
    case 1:
        iterator.loop(samples, [&](tensor_size_t f, size_t, mclass_cmap_t v) { out_t o; print_mclass(o, v); store(f, o); });
        break;
    case 2:
        iterator.loop(samples, [&](tensor_size_t f, size_t, scalar_cmap_t v) { out_t o; print_scalar(o, v); store(f, o); });
        break;
    case 3:
        iterator.loop(samples, [&](tensor_size_t f, size_t, struct_cmap_t v) { out_t o; print_struct(o, v); store(f, o); });
        break;
    default: throw bad_op("iselect kind");
    }
    out << "I" << static_cast<long long>(results.size());
    for (const auto& kv : results)
    {
        out << kv.first << kv.second;
    }
}

void iflatten(out_t& out, const dataset_t& dataset, const indices_t& samples, int64_t batch)
{
    auto iterator = flatten_iterator_t{dataset, samples};
    iterator.batch(batch);
    iterator.scaling(scaling_type::none);
    const auto          columns = dataset.columns();
    std::vector<double> data(static_cast<size_t>(samples.size() * columns), -12345.0);
    std::mutex          mutex;
    iterator.loop(
        [&](tensor_range_t range, size_t, tensor2d_cmap_t flatten)
        {
            const std::lock_guard<std::mutex> lock(mutex);
            if (flatten.size<0>() != range.size() || flatten.size<1>() != columns)
            {
                throw std::logic_error("iflatten shape");
            }
            for (tensor_size_t i = 0; i < flatten.size(); ++i)
            {
                data[static_cast<size_t>(range.begin() * columns + i)] = flatten(i);
            }
        });
    out << "F" << samples.size() << columns;
    for (const auto v : data)
    {
        out << v;
    }
}

void itargets(out_t& out, const dataset_t& dataset, const indices_t& samples, int64_t batch)
{
    auto iterator = targets_iterator_t{dataset, samples};
    iterator.batch(batch);
    iterator.scaling(scaling_type::none);
    const auto          tdims = dataset.target_dims();
    const auto          tsize = ::nano::size(tdims);
    std::vector<double> data(static_cast<size_t>(samples.size() * tsize), -12345.0);
    std::mutex          mutex;
    iterator.loop(
        [&](tensor_range_t range, size_t, tensor4d_cmap_t targets)
        {
            const std::lock_guard<std::mutex> lock(mutex);
            if (targets.size<0>() != range.size() || targets.size() != range.size() * tsize)
            {
                throw std::logic_error("itargets shape");
            }
            for (tensor_size_t i = 0; i < targets.size(); ++i)
            {
                data[static_cast<size_t>(range.begin() * tsize + i)] = targets(i);
            }
        });
    out << "T" << samples.size() << std::get<0>(tdims) << std::get<1>(tdims) << std::get<2>(tdims);
    for (const auto v : data)
    {
        out << v;
    }
}

template <class tinput>
void run_grad3(out_t& out, kernel3x3_type type, gradient3x3_mode mode, int64_t rows, int64_t cols, const ivec& pixels)
{
    tensor_mem_t<tinput, 2> input(rows, cols);
    for (tensor_size_t i = 0; i < input.size(); ++i)
    {
        input(i) = static_cast<tinput>(pixels[static_cast<size_t>(i)]);
    }
    const auto                kernel = make_kernel3x3<scalar_t>(type);
    tensor_mem_t<scalar_t, 2> output(rows - 2, cols - 2);
    output.full(-12345.0);
    const tensor_cmap_t<tinput, 2>  imap = map_tensor(static_cast<const tinput*>(input.data()), rows, cols);
    const tensor_map_t<scalar_t, 2> omap = map_tensor(output.data(), rows - 2, cols - 2);
    gradient3x3<tinput, scalar_t>(mode, imap, kernel, omap);
    out << "ok"
        << "K" << static_cast<double>(kernel[0]) << static_cast<double>(kernel[1]) << static_cast<double>(kernel[2]) << "O"
        << (rows - 2) << (cols - 2) << output.size();
    for (tensor_size_t i = 0; i < output.size(); ++i)
    {
        out << static_cast<double>(output(i));
    }
}

std::string execute_grad3(toks_t& toks)
{
    const auto kernel = toks.i64();
    const auto mode   = toks.i64();
    const auto itype  = toks.i64();
    const auto rows   = toks.i64();
    const auto cols   = toks.i64();
    const auto pixels = toks.ints();
    if (kernel < 0 || kernel > 2 || mode < 0 || mode > 3 || rows < 3 || cols < 3 || rows > 64 || cols > 64 ||
        static_cast<int64_t>(pixels.size()) != rows * cols || !toks.done())
    {
        throw bad_op("grad3");
    }
    const auto type  = static_cast<kernel3x3_type>(kernel);
    const auto gmode = static_cast<gradient3x3_mode>(mode);
    out_t      out;
    switch (itype)
    {
    case 0: run_grad3<int32_t>(out, type, gmode, rows, cols, pixels); break;
    case 1: run_grad3<double>(out, type, gmode, rows, cols, pixels); break;
    case 2: run_grad3<int8_t>(out, type, gmode, rows, cols, pixels); break;
    case 3: run_grad3<float>(out, type, gmode, rows, cols, pixels); break;
    case 4: run_grad3<uint8_t>(out, type, gmode, rows, cols, pixels); break;
    default: throw bad_op("grad3 input type");
    }
    return out.str();
}
} // namespace

std::string vh::execute(toks_t& toks, std::string& aug)
{
    if (toks.s() != "dataset")
    {
        throw bad_op("family");
    }
    const auto opname = toks.s();
    if (opname == "grad3")
    {
        return execute_grad3(toks);
    }
    if (opname != "hist")
    {
        throw bad_op("family/op");
    }
    const auto samples = toks.i64();
    const auto seed    = static_cast<uint64_t>(toks.i64());
    const auto threads = toks.i64();
    const auto nf      = toks.i64();
    if (samples < 1 || samples > 100000 || threads < 1 || threads > 64 || nf < 0 || nf > 64)
    {
        throw bad_op("sizes");
    }
    std::vector<fspec_t> specs;
    for (int64_t f = 0; f < nf; ++f)
    {
        fspec_t spec;
        spec.type = toks.i64();
        spec.a    = toks.i64();
        spec.b    = toks.i64();
        spec.c    = toks.i64();
        spec.mk   = toks.i64();
        if (spec.type < 0 || spec.type > 11 || spec.a < 1 || spec.b < 1 || spec.c < 1 || spec.mk < 0 || spec.a > 100000)
        {
            throw bad_op("feature spec");
        }
        specs.push_back(spec);
    }
    const auto target = toks.i64();
    if (target < -1 || target >= nf)
    {
        throw bad_op("target");
    }

    auto datasource = mem_datasource_t{samples, seed, specs, target};
    datasource.load(); // throws when the target has missing values

    auto dataset = dataset_t{datasource, static_cast<size_t>(threads)};

    const auto ng = toks.i64();
    for (int64_t g = 0; g < ng; ++g)
    {
        const auto kind = toks.i64();
        const auto list = to_indices(toks.ints());
        switch (kind)
        {
        case 0: list.size() > 0 ? dataset.add<sclass_identity_generator_t>(list) : dataset.add<sclass_identity_generator_t>(); break;
        case 1: list.size() > 0 ? dataset.add<mclass_identity_generator_t>(list) : dataset.add<mclass_identity_generator_t>(); break;
        case 2: list.size() > 0 ? dataset.add<scalar_identity_generator_t>(list) : dataset.add<scalar_identity_generator_t>(); break;
        case 3: list.size() > 0 ? dataset.add<struct_identity_generator_t>(list) : dataset.add<struct_identity_generator_t>(); break;
        case 4: list.size() > 0 ? dataset.add<pairwise_product_generator_t>(list) : dataset.add<pairwise_product_generator_t>(); break;
        case 5:
        {
            const auto list2 = to_indices(toks.ints());
            dataset.add<pairwise_product_generator_t>(list, list2);
            break;
        }
        case 6: list.size() > 0 ? dataset.add<gradient_generator_t>(list) : dataset.add<gradient_generator_t>(); break;
        case 7:
        {
            const auto ktype = toks.i64();
            if (ktype < 0 || ktype > 2)
            {
                throw bad_op("kernel type");
            }
            const auto type = static_cast<kernel3x3_type>(ktype);
            list.size() > 0 ? dataset.add<gradient_generator_t>(type, list) : dataset.add<gradient_generator_t>(type);
            break;
        }
        case 8:
        {
            const auto in  = toks.i64();
            const auto out = toks.i64();
            add_elemwise(dataset, in, out, list);
            break;
        }
        case 9:
        {
            const auto list2 = to_indices(toks.ints());
            const auto in1   = toks.i64();
            const auto in2   = toks.i64();
            const auto out   = toks.i64();
            if (in1 < 0 || in1 > 3 || in2 < 0 || in2 > 3)
            {
                throw bad_op("input kinds");
            }
            add_pairwise(dataset, in1, in2, out, list, list2);
            break;
        }
        default: throw bad_op("generator kind");
        }
    }

    // header: the bookkeeping as reported by the dataset
    out_t out;
    out << "ok"
        << "H" << dataset.features() << dataset.columns();
    for (tensor_size_t f = 0; f < dataset.features(); ++f)
    {
        print_desc(out, dataset.feature(f));
    }
    out << "M" << dataset.columns();
    for (tensor_size_t c = 0; c < dataset.columns(); ++c)
    {
        out << dataset.column2feature(c);
    }
    out << "G";
    print_desc(out, dataset.target());
    {
        const auto tdims = dataset.target_dims();
        out << std::get<0>(tdims) << std::get<1>(tdims) << std::get<2>(tdims);
    }
    out << static_cast<long long>(dataset.type() == task_type::unsupervised ? 3 : dataset.type() == task_type::regression ? 0 :
                                  dataset.type() == task_type::sclassification ? 1 : 2);

    // history
    std::vector<ivec> perms;
    const auto        all_samples = arange(0, samples);
    const auto        nh          = toks.i64();
    for (int64_t h = 0; h < nh; ++h)
    {
        const auto op = toks.s();
        out << ";";
        // parse all the arguments first so that an exception of the library never desynchronises the token stream
        int64_t a0 = 0;
        int64_t a1 = 0;
        ivec    list;
        if (op == "flatten" || op == "targets")
        {
            list = toks.ints();
        }
        else if (op == "iflatten" || op == "itargets" || op == "iselect" || op == "tselect" || op == "shuffled")
        {
            a0   = toks.i64();
            list = toks.ints();
        }
        else if (op == "select")
        {
            a0   = toks.i64();
            a1   = toks.i64();
            list = toks.ints();
        }
        else if (op == "feature" || op == "c2f" || op == "drop" || op == "shuffle")
        {
            a0 = toks.i64();
        }
        else if (op == "undrop" || op == "unshuffle")
        {
        }
        else
        {
            throw bad_op("history op " + op);
        }
        if (op == "shuffle")
        {
            perms.emplace_back();
        }
        if (op == "c2f" && (a0 < 0 || a0 >= dataset.columns()))
        {
            throw bad_op("column2feature has no range check: only valid columns are asked");
        }
        if ((op == "iflatten" || op == "itargets") && a0 < 1)
        {
            throw bad_op("batch");
        }

        out_t one;
        try
        {
            const auto indices = to_indices(list);
            if (op == "flatten")
            {
                tensor2d_t buffer;
                const auto values = dataset.flatten(indices, buffer);
                one << "F" << values.size<0>() << values.size<1>();
                for (tensor_size_t i = 0; i < values.size(); ++i)
                {
                    one << static_cast<double>(values(i));
                }
            }
            else if (op == "iflatten")
            {
                iflatten(one, dataset, indices, a0);
            }
            else if (op == "targets")
            {
                tensor4d_t buffer;
                const auto values = dataset.targets(indices, buffer);
                one << "T" << values.size<0>() << values.size<1>() << values.size<2>() << values.size<3>();
                for (tensor_size_t i = 0; i < values.size(); ++i)
                {
                    one << static_cast<double>(values(i));
                }
            }
            else if (op == "itargets")
            {
                itargets(one, dataset, indices, a0);
            }
            else if (op == "select")
            {
                select_feature(one, dataset, indices, a0, a1);
            }
            else if (op == "iselect")
            {
                iselect(one, dataset, indices, a0);
            }
            else if (op == "tselect")
            {
                select_target(one, dataset, indices, a0);
            }
            else if (op == "feature")
            {
                const auto desc = dataset.feature(a0);
                one << "D";
                print_desc(one, desc);
            }
            else if (op == "c2f")
            {
                one << "C" << dataset.column2feature(a0);
            }
            else if (op == "drop")
            {
                dataset.drop(a0);
                one << "U";
            }
            else if (op == "undrop")
            {
                dataset.undrop();
                one << "U";
            }
            else if (op == "shuffle")
            {
                dataset.shuffle(a0);
                const auto perm = dataset.shuffled(a0, all_samples);
                perms.back().assign(perm.begin(), perm.end());
                one << "U";
            }
            else if (op == "unshuffle")
            {
                dataset.unshuffle();
                one << "U";
            }
            else if (op == "shuffled")
            {
                const auto perm = dataset.shuffled(a0, indices);
                one << "P" << perm.size();
                for (const auto p : perm)
                {
                    one << p;
                }
            }
        }
        catch (const bad_op&)
        {
            throw;
        }
        catch (const std::bad_alloc&)
        {
            throw;
        }
        catch (const std::exception&)
        {
            one = out_t{};
            one << "X";
        }
        out << one.str();
    }
    if (!toks.done())
    {
        throw bad_op("trailing tokens");
    }

    out_t extra;
    extra << "perms" << static_cast<long long>(perms.size());
    for (const auto& perm : perms)
    {
        extra.ilist(perm);
    }
    aug += " " + extra.str();
    return out.str();
}

int main()
{
    return vh::main_loop();
}
